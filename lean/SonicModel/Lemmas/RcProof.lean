import SonicModel.Impl.Rc
namespace Sonic
namespace Rc

/-- does the value hold a strong count of arena `a` -/
def refsA (a : Nat) : Item → Nat
  | .root b _ => if b = a then 1 else 0
  | _ => 0
/-- does the value hold a strong count of container `c` -/
def refsC (c : Nat) : Item → Nat
  | .own d => if d = c then 1 else 0
  | _ => 0

/-- total weight of a list of values -/
def w (f : Item → Nat) (l : List Item) : Nat := (l.map f).sum
def wk (f : Item → Nat) (l : List (List UInt8 × Item)) : Nat := w f (l.map Prod.snd)

/-- weight of everything stored in owned containers -/
def contSum (s : St) (f : Item → Nat) : Nat := ((List.range s.nextC).map (fun c => wk f (s.citems c))).sum

/-- weight of every value in existence: held by the program, waiting to be dropped, or stored in
    an owned container -/
def tot (s : St) (f : Item → Nat) : Nat := w f s.live + w f s.pending + contSum s f

@[simp] theorem w_nil (f : Item → Nat) : w f [] = 0 := rfl
@[simp] theorem w_cons (f : Item → Nat) (x : Item) (l : List Item) : w f (x :: l) = f x + w f l := by simp [w]
@[simp] theorem w_append (f : Item → Nat) (l m : List Item) : w f (l ++ m) = w f l + w f m := by simp [w]
@[simp] theorem wk_nil (f : Item → Nat) : wk f [] = 0 := rfl
@[simp] theorem wk_cons (f : Item → Nat) (x : List UInt8 × Item) (l) : wk f (x :: l) = f x.2 + wk f l := by simp [wk]
@[simp] theorem wk_append (f : Item → Nat) (l m : List (List UInt8 × Item)) : wk f (l ++ m) = wk f l + wk f m := by simp [wk]

theorem w_set (f : Item → Nat) (l : List Item) (i : Nat) (x y : Item) (h : l[i]? = some y) :
    w f (l.set i x) + f y = w f l + f x := by
  induction l generalizing i with
  | nil => simp at h
  | cons a l ih =>
    cases i with
    | zero => simp at h; subst h; simp; omega
    | succ i => simp at h; have := ih i h; simp; omega

theorem w_eraseIdx (f : Item → Nat) (l : List Item) (i : Nat) (y : Item) (h : l[i]? = some y) :
    w f (l.eraseIdx i) + f y = w f l := by
  induction l generalizing i with
  | nil => simp at h
  | cons a l ih =>
    cases i with
    | zero => simp at h; subst h; simp; omega
    | succ i => simp at h; have := ih i h; simp; omega

theorem w_mem_le (f : Item → Nat) (l : List Item) (y : Item) (h : y ∈ l) : f y ≤ w f l := by
  induction l with
  | nil => simp at h
  | cons a l ih =>
    simp at h
    rcases h with h | h
    · subst h; simp
    · have := ih h; simp; omega

theorem wk_filter (f : Item → Nat) (l : List (List UInt8 × Item)) (key : List UInt8) :
    wk f (l.filter (hasKey key)) + wk f (l.filter (notKey key)) = wk f l := by
  induction l with
  | nil => simp
  | cons a l ih =>
    by_cases h : a.1 = key <;> simp [List.filter_cons, hasKey, notKey, h] <;> omega

theorem wk_insertSorted (f : Item → Nat) (p : List UInt8 × Item) (l : List (List UInt8 × Item)) :
    wk f (insertSorted p l) = f p.2 + wk f l := by
  induction l with
  | nil => simp [insertSorted]
  | cons a l ih =>
    unfold insertSorted
    split <;> simp [ih] <;> omega

theorem wk_dropLast (f : Item → Nat) (l : List (List UInt8 × Item)) :
    wk f l.dropLast + w f (l.getLast?.toList.map Prod.snd) = wk f l := by
  induction l with
  | nil => simp
  | cons a l ih =>
    cases l with
    | nil => simp
    | cons b l => simp [List.dropLast, List.getLast?_cons_cons] at ih ⊢; omega

theorem wk_getElem (f : Item → Nat) (l : List (List UInt8 × Item)) (k : Nat) (p) (h : l[k]? = some p) : f p.2 ≤ wk f l := by
  have : p ∈ l := List.mem_of_getElem? h
  have := w_mem_le f (l.map Prod.snd) p.2 (List.mem_map_of_mem this)
  simpa [wk] using this

theorem wk_find (f : Item → Nat) (l : List (List UInt8 × Item)) (q) (p) (h : l.find? q = some p) : f p.2 ≤ wk f l := by
  have : p ∈ l := List.mem_of_find?_eq_some h
  have := w_mem_le f (l.map Prod.snd) p.2 (List.mem_map_of_mem this)
  simpa [wk] using this

/-! sums over `List.range` with one entry changed -/
theorem sum_range_upd (g : Nat → Nat) (c v : Nat) : ∀ n, c < n →
    ((List.range n).map (upd g c v)).sum + g c = ((List.range n).map g).sum + v := by
  intro n
  induction n with
  | zero => intro h; omega
  | succ n ih =>
    intro h
    rw [List.range_succ]
    simp only [List.map_append, List.sum_append, List.map_cons, List.map_nil, List.sum_cons, List.sum_nil]
    by_cases hc : c = n
    · subst hc
      have hsame : (List.range c).map (upd g c v) = (List.range c).map g := by
        apply List.map_congr_left
        intro x hx
        have : x < c := List.mem_range.mp hx
        simp [upd]; omega
      rw [hsame]; simp [upd]; omega
    · have := ih (by omega)
      have hn : upd g c v n = g n := by simp [upd]; omega
      rw [hn]; omega

theorem sum_range_upd_ge (g : Nat → Nat) (c v : Nat) (n : Nat) (h : n ≤ c) :
    ((List.range n).map (upd g c v)).sum = ((List.range n).map g).sum := by
  congr 1
  apply List.map_congr_left
  intro x hx
  have : x < n := List.mem_range.mp hx
  simp [upd]; omega

end Rc
end Sonic

namespace Sonic
namespace Rc

/-! ### the counting invariant -/

/-- what is counted: an arena or an owned container -/
inductive K where
  | A (a : Nat)
  | C (c : Nat)

def count (s : St) : K → Nat
  | .A a => s.arena a
  | .C c => s.ccnt c
def refs : K → Item → Nat
  | .A a => refsA a
  | .C c => refsC c
def hcount (s : St) : K → Nat
  | .A a => s.handles.count a
  | .C _ => 0

def csum (n : Nat) (items : Nat → List (List UInt8 × Item)) (f : Item → Nat) : Nat :=
  ((List.range n).map (fun c => wk f (items c))).sum

theorem contSum_eq (s : St) (f : Item → Nat) : contSum s f = csum s.nextC s.citems f := rfl

theorem csum_succ (n items f) : csum (n+1) items f = csum n items f + wk f (items n) := by
  simp [csum, List.range_succ]

theorem csum_upd_lt (n items f c new) (h : c < n) :
    csum n (upd items c new) f + wk f (items c) = csum n items f + wk f new := by
  have e : (fun x => wk f (upd items c new x)) = upd (fun x => wk f (items x)) c (wk f new) := by
    funext x; simp only [upd]; split <;> rfl
  unfold csum
  rw [e]
  exact sum_range_upd (fun x => wk f (items x)) c (wk f new) n h

theorem csum_upd_ge (n items f c new) (h : n ≤ c) : csum n (upd items c new) f = csum n items f := by
  have e : (fun x => wk f (upd items c new x)) = upd (fun x => wk f (items x)) c (wk f new) := by
    funext x; simp only [upd]; split <;> rfl
  unfold csum
  rw [e]
  exact sum_range_upd_ge (fun x => wk f (items x)) c (wk f new) n h

theorem csum_le (n items f c) (h : c < n) : wk f (items c) ≤ csum n items f := by
  induction n with
  | zero => omega
  | succ n ih =>
    rw [csum_succ]
    by_cases hc : c = n
    · subst hc; omega
    · have := ih (by omega); omega

structure Inv (s : St) : Prop where
  bal : ∀ k, count s k = tot s (refs k) + hcount s k
  freshC : ∀ c, s.nextC ≤ c → s.ccnt c = 0 ∧ s.citems c = [] ∧ s.cfreed c = 0
  freshA : ∀ a, s.nextA ≤ a → s.arena a = 0 ∧ s.afreed a = 0
  freedA : ∀ a, a < s.nextA → (s.afreed a = 0 ∧ 0 < s.arena a) ∨ (s.afreed a = 1 ∧ s.arena a = 0)
  freedC : ∀ c, c < s.nextC → (s.cfreed c = 0 ∧ 0 < s.ccnt c) ∨ (s.cfreed c = 1 ∧ s.ccnt c = 0 ∧ s.citems c = [])

/-- the referent of a value is alive -/
def Valid (s : St) : Item → Prop
  | .root a _ => 0 < s.arena a
  | .own c => 0 < s.ccnt c
  | _ => True

theorem refs_valid (s : St) (it : Item) (h : ∀ k, refs k it ≤ count s k) : Valid s it := by
  cases it with
  | root a t => have := h (.A a); simp [refs, refsA, count] at this; exact this
  | own c => have := h (.C c); simp [refs, refsC, count] at this; exact this
  | stat _ => trivial
  | fstr => trivial

theorem valid_of_live (s : St) (i : Inv s) (it : Item) (h : it ∈ s.live) : Valid s it := by
  apply refs_valid
  intro k
  have := i.bal k
  have := w_mem_le (refs k) s.live it h
  unfold tot at *; omega

theorem valid_of_pending (s : St) (i : Inv s) (it : Item) (h : it ∈ s.pending) : Valid s it := by
  apply refs_valid
  intro k
  have := i.bal k
  have := w_mem_le (refs k) s.pending it h
  unfold tot at *; omega

theorem own_lt (s : St) (i : Inv s) (c : Nat) (h : 0 < s.ccnt c) : c < s.nextC := by
  by_cases hc : c < s.nextC
  · exact hc
  · have := (i.freshC c (by omega)).1; omega

theorem root_lt (s : St) (i : Inv s) (a : Nat) (h : 0 < s.arena a) : a < s.nextA := by
  by_cases hc : a < s.nextA
  · exact hc
  · have := (i.freshA a (by omega)).1; omega

theorem valid_of_member (s : St) (i : Inv s) (c : Nat) (hc : c < s.nextC) (p : List UInt8 × Item) (h : p ∈ s.citems c) :
    Valid s p.2 := by
  apply refs_valid
  intro k
  have hb := i.bal k
  have h1 := w_mem_le (refs k) ((s.citems c).map Prod.snd) p.2 (List.mem_map_of_mem h)
  have h2 := csum_le s.nextC s.citems (refs k) c hc
  unfold tot at *; rw [contSum_eq] at hb; unfold wk at h2; omega

theorem viewOf_valid (s : St) (a : Nat) (t : T) (h : 0 < s.arena a) : Valid s (viewOf a t) := by
  cases t <;> simp [viewOf, Valid, h]

/-! ### effect of the helpers -/

@[simp] theorem inc_live (s it) : (inc s it).live = s.live := by cases it <;> rfl
@[simp] theorem inc_pending (s it) : (inc s it).pending = s.pending := by cases it <;> rfl
@[simp] theorem inc_citems (s it) : (inc s it).citems = s.citems := by cases it <;> rfl
@[simp] theorem inc_nextC (s it) : (inc s it).nextC = s.nextC := by cases it <;> rfl
@[simp] theorem inc_nextA (s it) : (inc s it).nextA = s.nextA := by cases it <;> rfl
@[simp] theorem inc_handles (s it) : (inc s it).handles = s.handles := by cases it <;> rfl
@[simp] theorem inc_afreed (s it) : (inc s it).afreed = s.afreed := by cases it <;> rfl
@[simp] theorem inc_cfreed (s it) : (inc s it).cfreed = s.cfreed := by cases it <;> rfl
@[simp] theorem inc_cobj (s it) : (inc s it).cobj = s.cobj := by cases it <;> rfl

theorem inc_count (s it k) : count (inc s it) k = count s k + refs k it := by
  cases k <;> cases it <;> simp [inc, count, refs, refsA, refsC, upd] <;> (try split) <;> simp_all <;> omega

@[simp] theorem inc_tot (s it f) : tot (inc s it) f = tot s f := by simp [tot, contSum]
@[simp] theorem inc_hcount (s it k) : hcount (inc s it) k = hcount s k := by cases k <;> simp [hcount]

theorem inc_arena_ge (s it a) : s.arena a ≤ (inc s it).arena a := by
  have := inc_count s it (.A a); simp [count] at this; omega
theorem inc_ccnt_ge (s it c) : s.ccnt c ≤ (inc s it).ccnt c := by
  have := inc_count s it (.C c); simp [count] at this; omega

end Rc
end Sonic

namespace Sonic
namespace Rc

/-- preservation for operations that create and release nothing: the balance is re-established,
    no count changes between zero and non-zero, and dead containers keep holding nothing -/
theorem inv_same (s s' : St) (i : Inv s)
    (hbal : ∀ k, count s' k = tot s' (refs k) + hcount s' k)
    (hnA : s'.nextA = s.nextA) (hnC : s'.nextC = s.nextC) (hfA : s'.afreed = s.afreed) (hfC : s'.cfreed = s.cfreed)
    (hA : ∀ a, (s'.arena a = 0 ↔ s.arena a = 0)) (hC : ∀ c, (s'.ccnt c = 0 ↔ s.ccnt c = 0))
    (hI : ∀ c, s.ccnt c = 0 → s'.citems c = s.citems c) : Inv s' := by
  refine ⟨hbal, ?_, ?_, ?_, ?_⟩
  · intro c hc
    have := i.freshC c (by omega)
    refine ⟨(hC c).mpr this.1, by rw [hI c this.1]; exact this.2.1, by rw [hfC]; exact this.2.2⟩
  · intro a ha
    have := i.freshA a (by omega)
    exact ⟨(hA a).mpr this.1, by rw [hfA]; exact this.2⟩
  · intro a ha
    have h0 := i.freedA a (by omega)
    rw [hfA]
    rcases h0 with ⟨h1, h2⟩ | ⟨h1, h2⟩
    · left; refine ⟨h1, ?_⟩
      have := hA a; omega
    · right; exact ⟨h1, (hA a).mpr h2⟩
  · intro c hc
    have h0 := i.freedC c (by omega)
    rw [hfC]
    rcases h0 with ⟨h1, h2⟩ | ⟨h1, h2, h3⟩
    · left; refine ⟨h1, ?_⟩
      have := hC c; omega
    · right; exact ⟨h1, (hC c).mpr h2, by rw [hI c h2]; exact h3⟩

theorem inc_arena_zero (s : St) (it : Item) (hv : Valid s it) (a : Nat) : (inc s it).arena a = 0 ↔ s.arena a = 0 := by
  cases it with
  | root b t =>
    simp only [inc, upd]
    split
    · rename_i h; subst h; simp [Valid] at hv; omega
    · rfl
  | _ => simp [inc]

theorem inc_ccnt_zero (s : St) (it : Item) (hv : Valid s it) (c : Nat) : (inc s it).ccnt c = 0 ↔ s.ccnt c = 0 := by
  cases it with
  | own d =>
    simp only [inc, upd]
    split
    · rename_i h; subst h; simp [Valid] at hv; omega
    · rfl
  | _ => simp [inc]

theorem inv_cloneInto (s : St) (it : Item) (i : Inv s) (hv : Valid s it) : Inv (cloneInto s it) := by
  apply inv_same s _ i
  · intro k
    have hb := i.bal k
    have hc := inc_count s it k
    have e1 : count (cloneInto s it) k = count (inc s it) k := by cases k <;> rfl
    have e2 : tot (cloneInto s it) (refs k) = tot s (refs k) + refs k it := by
      simp [cloneInto, tot, contSum]; omega
    have e3 : hcount (cloneInto s it) k = hcount s k := by cases k <;> simp [hcount, cloneInto]
    omega
  · simp [cloneInto]
  · simp [cloneInto]
  · simp [cloneInto]
  · simp [cloneInto]
  · exact inc_arena_zero s it hv
  · exact inc_ccnt_zero s it hv
  · intro c _; simp [cloneInto]

theorem getElem?_mem {α} (l : List α) (i : Nat) (x : α) (h : l[i]? = some x) : x ∈ l := List.mem_of_getElem? h

theorem inv_cloneAt (s : St) (n : Nat) (i : Inv s) : Inv (cloneAt s n) := by
  unfold cloneAt
  split
  · rename_i it h
    exact inv_cloneInto s it i (valid_of_live s i it (getElem?_mem _ _ _ h))
  · exact i

theorem inv_dropAt (s : St) (n : Nat) (i : Inv s) : Inv (dropAt s n) := by
  unfold dropAt
  split
  · rename_i it h
    apply inv_same s _ i
    · intro k
      have hb := i.bal k
      have hw := w_eraseIdx (refs k) s.live n it h
      have e1 : count { s with live := s.live.eraseIdx n, pending := it :: s.pending } k = count s k := by cases k <;> rfl
      have e3 : hcount { s with live := s.live.eraseIdx n, pending := it :: s.pending } k = hcount s k := by cases k <;> rfl
      rw [e1, e3]
      simp only [tot, contSum, w_cons] at hb ⊢
      omega
    all_goals simp
  · exact i

theorem inv_takeAt (s : St) (n : Nat) (i : Inv s) : Inv (takeAt s n) := by
  unfold takeAt
  split
  · rename_i it h
    apply inv_same s _ i
    · intro k
      have hb := i.bal k
      have hw := w_set (refs k) s.live n (.stat 0) it h
      have e1 : count { s with live := s.live.set n (.stat 0) ++ [it] } k = count s k := by cases k <;> rfl
      have e3 : hcount { s with live := s.live.set n (.stat 0) ++ [it] } k = hcount s k := by cases k <;> rfl
      have e4 : refs k (.stat 0) = 0 := by cases k <;> rfl
      rw [e1, e3]
      simp only [tot, contSum, w_append, w_cons, w_nil] at hb ⊢
      omega
    all_goals simp
  · exact i

theorem memberOf_valid (s : St) (i : Inv s) (it : Item) (hl : it ∈ s.live) (k : Nat) (key : List UInt8) (m : Item)
    (h : memberOf s it k key = some m) : Valid s m := by
  have hv := valid_of_live s i it hl
  cases it with
  | root a t =>
    cases t with
    | arr xs =>
      simp only [memberOf, Option.map_eq_some_iff] at h
      obtain ⟨t, _, rfl⟩ := h
      exact viewOf_valid s a t hv
    | obj ms =>
      simp only [memberOf, Option.map_eq_some_iff] at h
      obtain ⟨p, _, rfl⟩ := h
      exact viewOf_valid s a p.2 hv
    | _ => simp [memberOf] at h
  | own c =>
    have hc : c < s.nextC := own_lt s i c hv
    simp only [memberOf, Option.map_eq_some_iff] at h
    obtain ⟨p, hp, rfl⟩ := h
    apply valid_of_member s i c hc p
    split at hp
    · exact List.mem_of_find?_eq_some hp
    · exact List.mem_of_getElem? hp
  | stat _ => simp [memberOf] at h
  | fstr => simp [memberOf] at h

theorem inv_childAt (s : St) (n k : Nat) (key : List UInt8) (i : Inv s) : Inv (childAt s n k key) := by
  unfold childAt
  split
  · rename_i it h
    split
    · rename_i m hm
      exact inv_cloneInto s m i (memberOf_valid s i it (getElem?_mem _ _ _ h) k key m hm)
    · exact i
  · exact i

/-- editing the members of a live owned container: the balance is kept when what leaves the
    container goes to the program or to the drop list, and what enters it comes from the program -/
theorem inv_edit (s : St) (i : Inv s) (c : Nat) (hc : 0 < s.ccnt c) (new : List (List UInt8 × Item)) (live' pend' : List Item)
    (h : ∀ f : Item → Nat, w f live' + w f pend' + wk f new = w f s.live + w f s.pending + wk f (s.citems c)) :
    Inv { s with citems := upd s.citems c new, live := live', pending := pend' } := by
  have hlt := own_lt s i c hc
  apply inv_same s _ i
  · intro k
    have hb := i.bal k
    have hk := h (refs k)
    have hs := csum_upd_lt s.nextC s.citems (refs k) c new hlt
    have e1 : count { s with citems := upd s.citems c new, live := live', pending := pend' } k = count s k := by cases k <;> rfl
    have e3 : hcount { s with citems := upd s.citems c new, live := live', pending := pend' } k = hcount s k := by cases k <;> rfl
    rw [e1, e3]
    simp only [tot, contSum_eq] at hb ⊢
    omega
  all_goals (try simp)
  intro d hd
  intro e; subst e; omega

theorem inv_pushAt (s : St) (a b : Nat) (i : Inv s) : Inv (pushAt s a b) := by
  unfold pushAt
  split
  · rename_i x c hx hc
    split
    · have hv := valid_of_live s i (.own c) (getElem?_mem _ _ _ hc)
      have := inv_edit s i c hv (s.citems c ++ [([], x)]) (s.live.eraseIdx a) s.pending (by
        intro f
        have := w_eraseIdx f s.live a x hx
        simp; omega)
      exact this
    · exact i
  · exact i

theorem inv_insertAt (s : St) (a b : Nat) (key : List UInt8) (i : Inv s) : Inv (insertAt s a b key) := by
  unfold insertAt
  split
  · rename_i x c hx hc
    split
    · have hv := valid_of_live s i (.own c) (getElem?_mem _ _ _ hc)
      have := inv_edit s i c hv (insertSorted (key, x) ((s.citems c).filter (notKey key))) (s.live.eraseIdx a)
        (((s.citems c).filter (hasKey key)).map Prod.snd ++ s.pending) (by
        intro f
        have h1 := w_eraseIdx f s.live a x hx
        have h2 := wk_filter f (s.citems c) key
        have h3 := wk_insertSorted f (key, x) ((s.citems c).filter (notKey key))
        simp only [w_append] at *
        unfold wk at h2 h3 ⊢
        omega)
      exact this
    · exact i
  · exact i

theorem inv_popAt (s : St) (b : Nat) (i : Inv s) : Inv (popAt s b) := by
  unfold popAt
  split
  · rename_i c hc
    have hv := valid_of_live s i (.own c) (getElem?_mem _ _ _ hc)
    exact inv_edit s i c hv (s.citems c).dropLast (s.live ++ ((s.citems c).getLast?.toList.map Prod.snd)) s.pending (by
      intro f
      have := wk_dropLast f (s.citems c)
      simp only [w_append]; omega)
  · exact i

theorem inv_removeAt (s : St) (b : Nat) (key : List UInt8) (i : Inv s) : Inv (removeAt s b key) := by
  unfold removeAt
  split
  · rename_i c hc
    have hv := valid_of_live s i (.own c) (getElem?_mem _ _ _ hc)
    exact inv_edit s i c hv ((s.citems c).filter (notKey key)) (s.live ++ ((s.citems c).filter (hasKey key)).map Prod.snd) s.pending (by
      intro f
      have := wk_filter f (s.citems c) key
      simp only [w_append]
      unfold wk at this ⊢
      omega)
  · exact i

/-! ### creating an owned container -/

theorem refs_zero_of_valid (s : St) (it : Item) (hv : Valid s it) (k : K) (hz : count s k = 0) : refs k it = 0 := by
  cases k with
  | A a =>
    cases it with
    | root b t =>
      simp only [refs, refsA, count, Valid] at *
      split
      · rename_i e; subst e; omega
      · rfl
    | _ => rfl
  | C c =>
    cases it with
    | own d =>
      simp only [refs, refsC, count, Valid] at *
      split
      · rename_i e; subst e; omega
      · rfl
    | _ => rfl

theorem w_zero_of_valid (s : St) (its : List Item) (hv : ∀ it ∈ its, Valid s it) (k : K) (hz : count s k = 0) :
    w (refs k) its = 0 := by
  induction its with
  | nil => rfl
  | cons x l ih =>
    simp only [w_cons]
    have := refs_zero_of_valid s x (hv x (by simp)) k hz
    have := ih (fun it h => hv it (by simp [h]))
    omega

theorem incAll_count (s : St) (its : List Item) (k : K) : count (incAll s its) k = count s k + w (refs k) its := by
  induction its generalizing s with
  | nil => simp [incAll]
  | cons x l ih =>
    have := ih (inc s x)
    have h2 := inc_count s x k
    simp only [incAll, List.foldl_cons, w_cons] at this ⊢
    omega

@[simp] theorem incAll_live (s its) : (incAll s its).live = s.live := by
  induction its generalizing s with
  | nil => rfl
  | cons x l ih => simp [incAll, List.foldl_cons] at ih ⊢; rw [ih]; simp
@[simp] theorem incAll_pending (s its) : (incAll s its).pending = s.pending := by
  induction its generalizing s with
  | nil => rfl
  | cons x l ih => simp [incAll, List.foldl_cons] at ih ⊢; rw [ih]; simp
@[simp] theorem incAll_citems (s its) : (incAll s its).citems = s.citems := by
  induction its generalizing s with
  | nil => rfl
  | cons x l ih => simp [incAll, List.foldl_cons] at ih ⊢; rw [ih]; simp
@[simp] theorem incAll_nextC (s its) : (incAll s its).nextC = s.nextC := by
  induction its generalizing s with
  | nil => rfl
  | cons x l ih => simp [incAll, List.foldl_cons] at ih ⊢; rw [ih]; simp
@[simp] theorem incAll_nextA (s its) : (incAll s its).nextA = s.nextA := by
  induction its generalizing s with
  | nil => rfl
  | cons x l ih => simp [incAll, List.foldl_cons] at ih ⊢; rw [ih]; simp
@[simp] theorem incAll_handles (s its) : (incAll s its).handles = s.handles := by
  induction its generalizing s with
  | nil => rfl
  | cons x l ih => simp [incAll, List.foldl_cons] at ih ⊢; rw [ih]; simp
@[simp] theorem incAll_afreed (s its) : (incAll s its).afreed = s.afreed := by
  induction its generalizing s with
  | nil => rfl
  | cons x l ih => simp [incAll, List.foldl_cons] at ih ⊢; rw [ih]; simp
@[simp] theorem incAll_cfreed (s its) : (incAll s its).cfreed = s.cfreed := by
  induction its generalizing s with
  | nil => rfl
  | cons x l ih => simp [incAll, List.foldl_cons] at ih ⊢; rw [ih]; simp
@[simp] theorem incAll_cobj (s its) : (incAll s its).cobj = s.cobj := by
  induction its generalizing s with
  | nil => rfl
  | cons x l ih => simp [incAll, List.foldl_cons] at ih ⊢; rw [ih]; simp

/-- the state after `Arc::new(container holding clones of kids)` -/
def mk (s : St) (b : Bool) (kids : List (List UInt8 × Item)) : St := newCont (incAll s (kids.map Prod.snd)) b kids

theorem mk_arena (s b kids a) : (mk s b kids).arena a = s.arena a + wk (refsA a) kids := by
  have := incAll_count s (kids.map Prod.snd) (.A a)
  simpa [mk, newCont, count, refs, wk] using this

theorem mk_ccnt (s b kids c) : (mk s b kids).ccnt c = if c = s.nextC then 1 else s.ccnt c + wk (refsC c) kids := by
  have := incAll_count s (kids.map Prod.snd) (.C c)
  simp only [count, refs] at this
  simp only [mk, newCont, upd, incAll_nextC]
  split
  · rfl
  · exact this

@[simp] theorem mk_live (s b kids) : (mk s b kids).live = s.live := by simp [mk, newCont]
@[simp] theorem mk_pending (s b kids) : (mk s b kids).pending = s.pending := by simp [mk, newCont]
@[simp] theorem mk_handles (s b kids) : (mk s b kids).handles = s.handles := by simp [mk, newCont]
@[simp] theorem mk_nextA (s b kids) : (mk s b kids).nextA = s.nextA := by simp [mk, newCont]
@[simp] theorem mk_nextC (s b kids) : (mk s b kids).nextC = s.nextC + 1 := by simp [mk, newCont]
@[simp] theorem mk_afreed (s b kids) : (mk s b kids).afreed = s.afreed := by simp [mk, newCont]
@[simp] theorem mk_cfreed (s b kids) : (mk s b kids).cfreed = s.cfreed := by simp [mk, newCont]
@[simp] theorem mk_citems (s b kids) : (mk s b kids).citems = upd s.citems s.nextC kids := by simp [mk, newCont]

theorem mk_contSum (s b kids f) : csum (mk s b kids).nextC (mk s b kids).citems f = csum s.nextC s.citems f + wk f kids := by
  rw [mk_nextC, mk_citems, csum_succ, csum_upd_ge _ _ _ _ _ (Nat.le_refl _)]
  simp [upd]

/-- general shape of `to_mut` / `make_mut` on slot `j`: a new container holding clones of `kids`
    replaces the value `old` of the slot; `old` is either put on the drop list (`viaPending`) or,
    for a shared container, released by decrementing its count directly -/
theorem inv_replace (s : St) (i : Inv s) (b : Bool) (kids : List (List UInt8 × Item)) (j : Nat) (old : Item)
    (hj : s.live[j]? = some old) (hk : ∀ p ∈ kids, Valid s p.2)
    (pend' : List Item) (ccnt' : Nat → Nat)
    (hcase : (pend' = old :: s.pending ∧ ccnt' = (mk s b kids).ccnt) ∨
             (pend' = s.pending ∧ (∀ k, refs k old = 0) ∧ ccnt' = (mk s b kids).ccnt) ∨
             (∃ c, old = .own c ∧ 1 < s.ccnt c ∧ pend' = s.pending ∧ ccnt' = upd (mk s b kids).ccnt c ((mk s b kids).ccnt c - 1))) :
    Inv { mk s b kids with live := s.live.set j (.own s.nextC), pending := pend', ccnt := ccnt' } := by
  have hf := i.freshC s.nextC (Nat.le_refl _)
  have hkz : ∀ k, count s k = 0 → wk (refs k) kids = 0 := by
    intro k hz
    exact w_zero_of_valid s (kids.map Prod.snd) (by
      intro it hit
      obtain ⟨p, hp, rfl⟩ := List.mem_map.mp hit
      exact hk p hp) k hz
  have hnew : wk (refsC s.nextC) kids = 0 := hkz (.C s.nextC) hf.1
  have hset := fun f => w_set f s.live j (.own s.nextC) old hj
  refine ⟨?_, ?_, ?_, ?_, ?_⟩
  · intro k
    have hb := i.bal k
    have hs := hset (refs k)
    have hcs := mk_contSum s b kids (refs k)
    cases k with
    | A a =>
      have ha := mk_arena s b kids a
      have e0 : refs (.A a) (.own s.nextC) = 0 := rfl
      simp only [count, hcount, tot, mk_handles, contSum_eq] at hb ⊢
      simp only [refs] at hs hcs e0 hb ⊢
      rw [ha, hcs]
      rcases hcase with ⟨hp, _⟩ | ⟨hp, hz, _⟩ | ⟨c, ho, _, hp, _⟩
      · subst hp; simp only [w_cons]; omega
      · subst hp; have := hz (.A a); simp only [refs] at this; omega
      · subst hp; subst ho; have : refsA a (.own c) = 0 := rfl; omega
    | C c =>
      have hc := mk_ccnt s b kids c
      have e0 : refs (.C c) (.own s.nextC) = if s.nextC = c then 1 else 0 := rfl
      simp only [count, hcount, tot, contSum_eq] at hb ⊢
      simp only [refs] at hs hcs e0 hb ⊢
      rw [hcs]
      rcases hcase with ⟨hp, hcc⟩ | ⟨hp, hz, hcc⟩ | ⟨d, ho, hgt, hp, hcc⟩
      · subst hp; subst hcc; rw [hc]; simp only [w_cons]
        split <;> rename_i hcn
        · subst hcn; simp only [if_true] at e0; omega
        · have : ¬ s.nextC = c := fun e => hcn e.symm
          simp only [this, if_false] at e0; omega
      · subst hp; subst hcc; rw [hc]
        have := hz (.C c); simp only [refs] at this
        split <;> rename_i hcn
        · subst hcn; simp only [if_true] at e0; omega
        · have : ¬ s.nextC = c := fun e => hcn e.symm
          simp only [this, if_false] at e0; omega
      · subst hp; subst hcc; subst ho
        have hdn : d ≠ s.nextC := by intro e; subst e; omega
        simp only [upd]
        have hrd : refsC c (.own d) = if d = c then 1 else 0 := rfl
        split <;> rename_i hcd
        · subst hcd
          have hd := mk_ccnt s b kids c
          simp only [hdn, if_false] at hd
          have : ¬ s.nextC = c := fun e => hdn e.symm
          simp only [this, if_false] at e0
          simp only [if_true] at hrd
          have hb2 := i.bal (.C c); simp only [count, tot, refs, hcount, contSum_eq] at hb2
          omega
        · rw [hc]
          have : ¬ d = c := fun e => hcd e.symm
          simp only [this, if_false] at hrd
          split <;> rename_i hcn
          · subst hcn; simp only [if_true] at e0; omega
          · have : ¬ s.nextC = c := fun e => hcn e.symm
            simp only [this, if_false] at e0; omega
  · intro c hc
    simp only [mk_nextC] at hc
    have h0 := i.freshC c (by omega)
    have hz := hkz (.C c) h0.1
    simp only [refs] at hz
    have hcc := mk_ccnt s b kids c
    have hne : c ≠ s.nextC := by omega
    simp only [hne, if_false] at hcc
    refine ⟨?_, ?_, ?_⟩
    · rcases hcase with ⟨_, hcc'⟩ | ⟨_, _, hcc'⟩ | ⟨d, ho, hgt, _, hcc'⟩
      · simp only [hcc', hcc]; omega
      · simp only [hcc', hcc]; omega
      · simp only [hcc', upd]
        split
        · rename_i e; subst e; omega
        · rw [hcc]; omega
    · simp only [mk_citems, upd, hne, if_false]; exact h0.2.1
    · simp only [mk_cfreed]; exact h0.2.2
  · intro a ha
    simp only [mk_nextA] at ha
    have h0 := i.freshA a ha
    have hz := hkz (.A a) h0.1
    simp only [refs] at hz
    have := mk_arena s b kids a
    exact ⟨by simp only [this]; omega, by simp only [mk_afreed]; exact h0.2⟩
  · intro a ha
    simp only [mk_nextA] at ha
    have h0 := i.freedA a ha
    have := mk_arena s b kids a
    simp only [mk_afreed, this]
    rcases h0 with ⟨h1, h2⟩ | ⟨h1, h2⟩
    · left; omega
    · right
      have hz := hkz (.A a) h2
      simp only [refs] at hz
      omega
  · intro c hc
    simp only [mk_nextC] at hc
    have hcc := mk_ccnt s b kids c
    by_cases hcn : c = s.nextC
    · subst hcn
      left
      simp only [if_true] at hcc
      refine ⟨by simp only [mk_cfreed]; exact hf.2.2, ?_⟩
      rcases hcase with ⟨_, hcc'⟩ | ⟨_, _, hcc'⟩ | ⟨d, ho, hgt, _, hcc'⟩
      · simp only [hcc', hcc]; omega
      · simp only [hcc', hcc]; omega
      · have hdn : s.nextC ≠ d := by intro e; subst e; omega
        simp only [hcc', upd, hdn, if_false, hcc]; omega
    · simp only [hcn, if_false] at hcc
      have h0 := i.freedC c (by omega)
      simp only [mk_cfreed, mk_citems, upd, hcn, if_false]
      rcases h0 with ⟨h1, h2⟩ | ⟨h1, h2, h3⟩
      · left
        refine ⟨h1, ?_⟩
        rcases hcase with ⟨_, hcc'⟩ | ⟨_, _, hcc'⟩ | ⟨d, ho, hgt, _, hcc'⟩
        · simp only [hcc', hcc]; omega
        · simp only [hcc', hcc]; omega
        · simp only [hcc', upd]
          split
          · rename_i e; subst e; rw [hcc]; omega
          · rw [hcc]; omega
      · right
        have hz := hkz (.C c) h2
        simp only [refs] at hz
        refine ⟨h1, ?_, h3⟩
        rcases hcase with ⟨_, hcc'⟩ | ⟨_, _, hcc'⟩ | ⟨d, ho, hgt, _, hcc'⟩
        · simp only [hcc', hcc]; omega
        · simp only [hcc', hcc]; omega
        · simp only [hcc', upd]
          split
          · rename_i e; subst e; omega
          · rw [hcc]; omega

theorem set_self {α} (l : List α) (i : Nat) (x : α) (h : l[i]? = some x) : l.set i x = l := by
  induction l generalizing i with
  | nil => rfl
  | cons a l ih =>
    cases i with
    | zero => simp at h; subst h; rfl
    | succ i => simp at h; simp [ih i h]

theorem mem_insertSorted {α} (x p : List UInt8 × α) (l : List (List UInt8 × α)) (h : x ∈ insertSorted p l) : x = p ∨ x ∈ l := by
  induction l with
  | nil => simp [insertSorted] at h; exact Or.inl h
  | cons q l ih =>
    unfold insertSorted at h
    split at h
    · simp at h; rcases h with h | h | h
      · exact Or.inl h
      · right; simp [h]
      · right; simp [h]
    · simp at h; rcases h with h | h
      · right; simp [h]
      · rcases ih h with h | h
        · exact Or.inl h
        · right; simp [h]

theorem mem_sortByKey {α} (x : List UInt8 × α) (l : List (List UInt8 × α)) (h : x ∈ sortByKey l) : x ∈ l := by
  induction l with
  | nil => simp [sortByKey] at h
  | cons q l ih =>
    simp only [sortByKey, List.foldr_cons] at h
    rcases mem_insertSorted x q _ h with h | h
    · simp [h]
    · have := ih h; simp [this]

theorem kidsOf_valid (s : St) (a : Nat) (t : T) (h : 0 < s.arena a) : ∀ p ∈ kidsOf a t, Valid s p.2 := by
  intro p hp
  cases t with
  | arr xs =>
    simp only [kidsOf, List.mem_map] at hp
    obtain ⟨t, _, rfl⟩ := hp
    exact viewOf_valid s a t h
  | obj ms =>
    simp only [kidsOf] at hp
    have := mem_sortByKey p _ hp
    simp only [List.mem_map] at this
    obtain ⟨q, _, rfl⟩ := this
    exact viewOf_valid s a q.2 h
  | _ => simp [kidsOf] at hp

theorem inv_toMutAt (s : St) (j : Nat) (i : Inv s) : Inv (toMutAt s j) := by
  unfold toMutAt
  split
  · rename_i it hj
    have hv := valid_of_live s i it (getElem?_mem _ _ _ hj)
    cases it with
    | root a t =>
      cases t with
      | arr xs =>
        have := inv_replace s i false (kidsOf a (.arr xs)) j _ hj (kidsOf_valid s a _ hv) (.root a (.arr xs) :: s.pending) _ (Or.inl ⟨rfl, rfl⟩)
        simpa [toMut, mk, newCont] using this
      | obj ms =>
        have := inv_replace s i true (kidsOf a (.obj ms)) j _ hj (kidsOf_valid s a _ hv) (.root a (.obj ms) :: s.pending) _ (Or.inl ⟨rfl, rfl⟩)
        simpa [toMut, mk, newCont] using this
      | _ =>
        simp only [toMut]
        have e : s.live.set j _ = s.live := set_self _ _ _ hj
        simp only [e]; exact i
    | stat n =>
      by_cases h1 : n = 1
      · subst h1
        have := inv_replace s i false [] j _ hj (by simp) s.pending _ (Or.inr (Or.inl ⟨rfl, by intro k; cases k <;> rfl, rfl⟩))
        simpa [toMut, mk, newCont, incAll] using this
      · by_cases h2 : n = 2
        · subst h2
          have := inv_replace s i true [] j _ hj (by simp) s.pending _ (Or.inr (Or.inl ⟨rfl, by intro k; cases k <;> rfl, rfl⟩))
          simpa [toMut, mk, newCont, incAll] using this
        · have e : toMut s (.stat n) = (s, .stat n) := by
            unfold toMut
            split <;> simp_all
          rw [e]
          have e : s.live.set j (.stat n) = s.live := set_self _ _ _ hj
          simp only [e]; exact i
    | own c =>
      simp only [toMut]
      have e : s.live.set j _ = s.live := set_self _ _ _ hj
      simp only [e]; exact i
    | fstr =>
      simp only [toMut]
      have e : s.live.set j _ = s.live := set_self _ _ _ hj
      simp only [e]; exact i
  · exact i

theorem inv_makeMutAt (s : St) (j : Nat) (i : Inv s) : Inv (makeMutAt s j) := by
  unfold makeMutAt
  split
  · rename_i it hj
    have hv := valid_of_live s i it (getElem?_mem _ _ _ hj)
    cases it with
    | own c =>
      simp only [makeMut]
      split
      · rename_i hgt
        have hlt := own_lt s i c hv
        have := inv_replace s i (s.cobj c) (s.citems c) j _ hj (fun p hp => valid_of_member s i c hlt p hp) s.pending _
          (Or.inr (Or.inr ⟨c, rfl, hgt, rfl, rfl⟩))
        simpa [mk, newCont] using this
      · have e : s.live.set j _ = s.live := set_self _ _ _ hj
        simp only [e]; exact i
    | _ =>
      simp only [makeMut]
      have e : s.live.set j _ = s.live := set_self _ _ _ hj
      simp only [e]; exact i
  · exact i

theorem inv_asMutAt (s : St) (j : Nat) (i : Inv s) : Inv (asMutAt s j) :=
  inv_makeMutAt _ j (inv_toMutAt s j i)

/-! ### releasing and creating arenas -/

def extra (a : Nat) : K → Nat
  | .A b => if b = a then 1 else 0
  | .C _ => 0

/-- `s0` satisfies the invariant except that arena `a` has one strong count more than there are
    references to it (the reference that is being dropped): releasing that count restores it -/
theorem inv_decArena (s0 : St) (a : Nat)
    (hbal : ∀ k, count s0 k = tot s0 (refs k) + hcount s0 k + extra a k)
    (hfC : ∀ c, s0.nextC ≤ c → s0.ccnt c = 0 ∧ s0.citems c = [] ∧ s0.cfreed c = 0)
    (hfA : ∀ a, s0.nextA ≤ a → s0.arena a = 0 ∧ s0.afreed a = 0)
    (hdA : ∀ a, a < s0.nextA → (s0.afreed a = 0 ∧ 0 < s0.arena a) ∨ (s0.afreed a = 1 ∧ s0.arena a = 0))
    (hdC : ∀ c, c < s0.nextC → (s0.cfreed c = 0 ∧ 0 < s0.ccnt c) ∨ (s0.cfreed c = 1 ∧ s0.ccnt c = 0 ∧ s0.citems c = [])) :
    Inv (decArena s0 a) := by
  have hpos : 0 < s0.arena a := by
    have := hbal (.A a); simp [count, extra] at this; omega
  have hlt : a < s0.nextA := by
    by_cases h : a < s0.nextA
    · exact h
    · have := (hfA a (by omega)).1; omega
  have hfr : s0.afreed a = 0 := by
    rcases hdA a hlt with ⟨h, _⟩ | ⟨_, h⟩
    · exact h
    · omega
  unfold decArena
  split
  · rename_i h1
    refine ⟨?_, hfC, ?_, ?_, hdC⟩
    · intro k
      have hb := hbal k
      cases k with
      | A b =>
        simp only [count, tot, contSum_eq, hcount, extra, upd] at hb ⊢
        split <;> rename_i hba
        · subst hba; simp only [if_true] at hb; omega
        · simp only [hba, if_false] at hb; omega
      | C c => simpa [count, tot, contSum_eq, hcount, extra] using hb
    · intro b hb
      have := hfA b hb
      have hne : b ≠ a := by intro e; subst e; simp only [] at hb; omega
      simpa [upd, hne] using this
    · intro b hb
      simp only [upd]
      split <;> rename_i hba
      · subst hba; right; omega
      · exact hdA b hb
  · rename_i h1
    refine ⟨?_, hfC, ?_, ?_, hdC⟩
    · intro k
      have hb := hbal k
      cases k with
      | A b =>
        simp only [count, tot, contSum_eq, hcount, extra, upd] at hb ⊢
        split <;> rename_i hba
        · subst hba; simp only [if_true] at hb; omega
        · simp only [hba, if_false] at hb; omega
      | C c => simpa [count, tot, contSum_eq, hcount, extra] using hb
    · intro b hb
      have := hfA b hb
      have hne : b ≠ a := by intro e; subst e; simp only [] at hb; omega
      simpa [upd, hne] using this
    · intro b hb
      simp only [upd]
      split <;> rename_i hba
      · subst hba; left; exact ⟨hfr, by omega⟩
      · exact hdA b hb

theorem inv_dropRoot (s : St) (i : Inv s) (a : Nat) (t : T) (rest : List Item) (h : s.pending = .root a t :: rest) :
    Inv (decArena { s with pending := rest } a) := by
  apply inv_decArena
  · intro k
    have hb := i.bal k
    cases k with
    | A b =>
      simp only [count, tot, contSum_eq, hcount, extra, h, w_cons, refs, refsA] at hb ⊢
      split at hb <;> simp_all <;> omega
    | C c =>
      simp only [count, tot, contSum_eq, hcount, extra, h, w_cons, refs, refsC] at hb ⊢
      omega
  · exact i.freshC
  · exact i.freshA
  · exact i.freedA
  · exact i.freedC

theorem inv_dropHandle (s : St) (i : Inv s) (a : Nat) (rest : List Nat) (h : s.handles = a :: rest) :
    Inv (decArena { s with handles := rest } a) := by
  apply inv_decArena
  · intro k
    have hb := i.bal k
    cases k with
    | A b =>
      simp only [count, tot, contSum_eq, hcount, extra, h, List.count_cons] at hb ⊢
      by_cases hba : b = a
      · subst hba; simp at hb ⊢; omega
      · have : ¬ a = b := fun e => hba e.symm
        simp [hba, this] at hb ⊢; omega
    | C c => simpa [count, tot, contSum_eq, hcount, extra] using hb
  · exact i.freshC
  · exact i.freshA
  · exact i.freedA
  · exact i.freedC

theorem inv_newArena (s : St) (i : Inv s) :
    Inv { s with arena := upd s.arena s.nextA 1, nextA := s.nextA + 1, handles := s.nextA :: s.handles } := by
  have hf := i.freshA s.nextA (Nat.le_refl _)
  have hb0 := i.bal (.A s.nextA)
  simp only [count, tot, contSum_eq, hcount, refs] at hb0
  refine ⟨?_, i.freshC, ?_, ?_, i.freedC⟩
  · intro k
    have hb := i.bal k
    cases k with
    | A b =>
      simp only [count, tot, contSum_eq, hcount, refs, upd, List.count_cons] at hb ⊢
      by_cases hba : b = s.nextA
      · subst hba; simp; omega
      · have : ¬ s.nextA = b := fun e => hba e.symm
        simp [hba, this]; omega
    | C c => simpa [count, tot, contSum_eq, hcount] using hb
  · intro b hb
    simp only [] at hb
    have := i.freshA b (by omega)
    have hne : b ≠ s.nextA := by omega
    simpa [upd, hne] using this
  · intro b hb
    simp only [] at hb
    simp only [upd]
    split <;> rename_i hba
    · subst hba; left; exact ⟨hf.2, by omega⟩
    · exact i.freedA b (by omega)

theorem inv_parseInto (s : St) (t : T) (i : Inv s) : Inv (parseInto s t) := by
  unfold parseInto
  have i1 := inv_newArena s i
  have i2 := inv_cloneInto _ (viewOf s.nextA t) i1 (viewOf_valid _ _ t (by simp [upd]))
  have := inv_dropHandle _ i2 s.nextA s.handles (by simp [cloneInto])
  simpa [cloneInto] using this

theorem inv_dvalShared (s : St) (t : T) (i : Inv s) : Inv (dvalShared s t) := by
  unfold dvalShared
  split
  · rename_i a rest h
    apply inv_cloneInto s _ i
    apply viewOf_valid
    have := i.bal (.A a)
    simp [count, hcount, h] at this; omega
  · rename_i h
    have i1 := inv_newArena s i
    rw [h] at i1
    exact inv_cloneInto _ (viewOf s.nextA t) i1 (viewOf_valid _ _ t (by simp [upd]))

theorem inv_parseFail (s : St) (i : Inv s) : Inv (parseFail s) := by
  unfold parseFail
  have i1 := inv_newArena s i
  have := inv_dropHandle _ i1 s.nextA s.handles rfl
  simpa using this

theorem inv_dfailShared (s : St) (i : Inv s) : Inv (dfailShared s) := by
  unfold dfailShared
  split
  · exact i
  · rename_i h
    have i1 := inv_newArena s i
    rw [h] at i1
    exact i1

theorem inv_dcloseAt (s : St) (i : Inv s) : Inv (dcloseAt s) := by
  unfold dcloseAt
  split
  · rename_i a rest h; exact inv_dropHandle s i a rest h
  · exact i

/-! ### running the drops -/

theorem inv_dropStep (s : St) (i : Inv s) : Inv (dropStep s) := by
  unfold dropStep
  split
  · exact i
  · rename_i n rest h
    apply inv_same s _ i
    · intro k
      have hb := i.bal k
      have e0 : refs k (.stat n) = 0 := by cases k <;> rfl
      have e1 : count { s with pending := rest } k = count s k := by cases k <;> rfl
      have e3 : hcount { s with pending := rest } k = hcount s k := by cases k <;> rfl
      rw [e1, e3]
      simp only [tot, contSum_eq, h, w_cons] at hb ⊢
      omega
    all_goals simp
  · rename_i rest h
    apply inv_same s _ i
    · intro k
      have hb := i.bal k
      have e0 : refs k .fstr = 0 := by cases k <;> rfl
      have e1 : count { s with pending := rest } k = count s k := by cases k <;> rfl
      have e3 : hcount { s with pending := rest } k = hcount s k := by cases k <;> rfl
      rw [e1, e3]
      simp only [tot, contSum_eq, h, w_cons] at hb ⊢
      omega
    all_goals simp
  · rename_i a t rest h
    exact inv_dropRoot s i a t rest h
  · rename_i c rest h
    have hv : 0 < s.ccnt c := valid_of_pending s i (.own c) (by simp [h])
    have hlt := own_lt s i c hv
    have hfr : s.cfreed c = 0 := by
      rcases i.freedC c hlt with ⟨h1, _⟩ | ⟨_, h2, _⟩
      · exact h1
      · omega
    split
    · rename_i h1
      refine ⟨?_, ?_, i.freshA, i.freedA, ?_⟩
      · intro k
        have hb := i.bal k
        have hs := csum_upd_lt s.nextC s.citems (refs k) c [] hlt
        cases k with
        | A a =>
          have e0 : refs (.A a) (.own c) = 0 := rfl
          simp only [count, tot, contSum_eq, hcount, h, w_cons, w_append, wk_nil] at hb hs ⊢
          unfold wk at hs
          omega
        | C d =>
          have e0 : refs (.C d) (.own c) = if c = d then 1 else 0 := rfl
          simp only [count, tot, contSum_eq, hcount, h, w_cons, w_append, wk_nil, upd] at hb hs ⊢
          unfold wk at hs
          split <;> rename_i hdc
          · subst hdc; simp only [if_true] at e0; omega
          · have : ¬ c = d := fun e => hdc e.symm
            simp only [this, if_false] at e0; omega
      · intro d hd
        have hd' : s.nextC ≤ d := hd
        have := i.freshC d hd'
        have hne : d ≠ c := by omega
        simpa [upd, hne] using this
      · intro d hd
        have hd' : d < s.nextC := hd
        simp only [upd]
        split <;> rename_i hdc
        · subst hdc; right; exact ⟨by omega, rfl, rfl⟩
        · exact i.freedC d hd
    · rename_i h1
      apply inv_same s _ i
      · intro k
        have hb := i.bal k
        cases k with
        | A a =>
          have e0 : refs (.A a) (.own c) = 0 := rfl
          simp only [count, tot, contSum_eq, hcount, h, w_cons] at hb ⊢
          omega
        | C d =>
          have e0 : refs (.C d) (.own c) = if c = d then 1 else 0 := rfl
          simp only [count, tot, contSum_eq, hcount, h, w_cons, upd] at hb ⊢
          split <;> rename_i hdc
          · subst hdc; simp only [if_true] at e0; omega
          · have : ¬ c = d := fun e => hdc e.symm
            simp only [this, if_false] at e0; omega
      all_goals (try simp)
      intro d
      simp only [upd]
      split
      · rename_i e; subst e; omega
      · rfl

theorem inv_drain (n : Nat) (s : St) (i : Inv s) : Inv (drain n s) := by
  induction n generalizing s with
  | zero => exact i
  | succ n ih =>
    unfold drain
    split
    · exact i
    · exact ih _ (inv_dropStep s i)

theorem inv_stepCore (s s' : St) (op : Op) (i : Inv s) (h : stepCore s op = some s') : Inv s' := by
  cases op with
  | parse t => simp only [stepCore, Option.some.injEq] at h; subst h; exact inv_parseInto s t i
  | clone n => simp only [stepCore] at h; split at h <;> simp at h; subst h; exact inv_cloneAt s n i
  | drop n => simp only [stepCore] at h; split at h <;> simp at h; subst h; exact inv_dropAt s n i
  | take n => simp only [stepCore] at h; split at h <;> simp at h; subst h; exact inv_takeAt s n i
  | child n k key =>
    simp only [stepCore] at h
    split at h
    · split at h <;> simp at h; subst h; exact inv_childAt s n k key i
    · simp at h
  | toMut n => simp only [stepCore] at h; split at h <;> simp at h; subst h; exact inv_toMutAt s n i
  | push a b => simp only [stepCore] at h; split at h <;> simp at h; subst h; exact inv_pushAt _ a b (inv_asMutAt s b i)
  | insert a b key => simp only [stepCore] at h; split at h <;> simp at h; subst h; exact inv_insertAt _ a b key (inv_asMutAt s b i)
  | pop b => simp only [stepCore] at h; split at h <;> simp at h; subst h; exact inv_popAt _ b (inv_asMutAt s b i)
  | remove b key => simp only [stepCore] at h; split at h <;> simp at h; subst h; exact inv_removeAt _ b key (inv_asMutAt s b i)
  | dopen => simp only [stepCore, Option.some.injEq] at h; subst h; exact i
  | dval t first =>
    simp only [stepCore] at h
    split at h <;> simp at h <;> subst h
    · exact inv_parseInto s t i
    · exact inv_dvalShared s t i
  | dclose => simp only [stepCore, Option.some.injEq] at h; subst h; exact inv_dcloseAt s i
  | dfail first =>
    simp only [stepCore] at h
    split at h <;> simp at h <;> subst h
    · exact inv_parseFail s i
    · exact inv_dfailShared s i

theorem inv_step (s s' : St) (op : Op) (i : Inv s) (h : step s op = some s') : Inv s' := by
  unfold step at h
  simp only [Option.map_eq_some_iff] at h
  obtain ⟨s1, h1, rfl⟩ := h
  exact inv_drain _ _ (inv_stepCore s s1 op i h1)

theorem inv_init : Inv init := by
  refine ⟨?_, ?_, ?_, ?_, ?_⟩
  · intro k; cases k <;> simp [count, tot, contSum_eq, csum, hcount, init]
  · intro c _; simp [init]
  · intro a _; simp [init]
  · intro a h; simp [init] at h
  · intro c h; simp [init] at h

theorem inv_run (ops : List Op) (s s' : St) (i : Inv s) (h : run s ops = some s') : Inv s' := by
  induction ops generalizing s with
  | nil => simp [run] at h; subst h; exact i
  | cons op rest ih =>
    simp only [run] at h
    split at h
    · rename_i s1 h1; exact ih s1 (inv_step s s1 op i h1) h
    · simp at h

end Rc
end Sonic
