import SonicModel.Lemmas.GetUBase
namespace Sonic
namespace GetU
open Gen Spec Impl

theorem allR_sub (P : UInt8 → Bool) (buf : Buf) (i i' e : Nat) (h : AllR P buf i e) (hi : i ≤ i') : AllR P buf i' e :=
  fun k hk a b => h k hk (by omega) b

theorem res_ofOpt_ok (o : Option Nat) (e : Nat) (h : Res.ofOpt o = .ok e) : o = some e := by
  cases o <;> simp [Res.ofOpt] at h; rw [h]

/-- **skipping a well-formed value the unchecked way**: containers and strings are skipped exactly, a number or
    literal is not skipped at all — the reader only stands behind its first byte — but what is left of it contains
    none of the bytes the token search looks for -/
theorem skipValueU_of_value (buf : Buf) (f v' e : Nat) (hv : value false f buf (skipWs buf v') = .ok e) :
    ∃ c p, skipValueU buf v' = some (c, some p) ∧ buf[skipWs buf v']? = some c ∧ c ≠ 93 ∧
      skipWs buf v' < p ∧ p ≤ e ∧ AllR noTok buf p e := by
  have hprog := ((Spec.progress false buf f _ e).1 hv)
  cases f with
  | zero => simp [Spec.value] at hv
  | succ f =>
    generalize hvv : skipWs buf v' = v at hv hprog
    have hlt : v < buf.size := hprog.2
    have hc : buf[v]? = some buf[v] := by simp [hlt]
    have hss : skipSpace buf v' = some (buf[v], v + 1) := by
      unfold skipSpace; simp only [hvv, hlt, dite_true]
    simp only [Spec.value, hc] at hv
    unfold skipValueU
    simp only [hss]
    by_cases h1 : (buf[v] == 45 || isDigit buf[v]) = true
    · -- a number
      simp only [h1, if_true, numberS_false] at hv
      have hn := res_ofOpt_ok _ _ hv
      have h123 : (buf[v] == 123) = false := by
        have : ∀ b : UInt8, (b == 45 || isDigit b) = true → (b == 123) = false ∧ (b == 91) = false ∧ (b == 34) = false ∧ b ≠ 93 := by
          apply Sonic.UInt8.forall_of_fin; decide +kernel
        exact (this _ h1).1
      have hrest : (buf[v] == 91) = false ∧ (buf[v] == 34) = false ∧ buf[v] ≠ 93 := by
        have : ∀ b : UInt8, (b == 45 || isDigit b) = true → (b == 123) = false ∧ (b == 91) = false ∧ (b == 34) = false ∧ b ≠ 93 := by
          apply Sonic.UInt8.forall_of_fin; decide +kernel
        exact (this _ h1).2
      simp only [h123, hrest.1, hrest.2.1, Bool.false_eq_true, if_false]
      exact ⟨_, _, rfl, hc, hrest.2.2, by omega, by omega, allR_sub _ _ v (v+1) e (number_noTok buf v e hn) (by omega)⟩
    · simp only [h1, Bool.false_eq_true, if_false] at hv
      by_cases h2 : (buf[v] == 34) = true
      · -- a string
        simp only [h2, if_true] at hv
        have hb : buf[v] = 34 := by simpa using h2
        have hs : stringG buf (v + 1) = some e := by
          have := res_ofOpt_ok _ _ hv
          simpa [Spec.string] using this
        have hsk := string_skip buf v e hs
        rw [hb]
        have e1 : ((34 : UInt8) == 123) = false := by decide
        have e2 : ((34 : UInt8) == 91) = false := by decide
        simp only [e1, e2, Bool.false_eq_true, if_false, beq_self_eq_true, if_true, hsk]
        exact ⟨_, _, rfl, by rw [hc, hb], by decide, by omega, Nat.le_refl _, allR_empty _ _ _ _ (Nat.le_refl _)⟩
      · simp only [h2, Bool.false_eq_true, if_false] at hv
        by_cases h3 : (buf[v] == 123) = true
        · -- an object
          have hb : buf[v] = 123 := by simpa using h3
          have hopen : buf[v]? = some 123 := by rw [hc, hb]
          have hvalue : value false (f + 1) buf v = .ok e := by
            simp only [Spec.value, hc, h1, h2, Bool.false_eq_true, if_false]; exact hv
          have hsk := container_skip 123 125 (Or.inl ⟨rfl, rfl⟩) buf (f + 1) v e hopen hvalue
          rw [hb]
          simp only [beq_self_eq_true, if_true, hsk]
          exact ⟨_, _, rfl, hopen, by decide, by omega, Nat.le_refl _, allR_empty _ _ _ _ (Nat.le_refl _)⟩
        · simp only [h3, Bool.false_eq_true, if_false] at hv
          by_cases h4 : (buf[v] == 91) = true
          · -- an array
            have hb : buf[v] = 91 := by simpa using h4
            have hopen : buf[v]? = some 91 := by rw [hc, hb]
            have hvalue : value false (f + 1) buf v = .ok e := by
              simp only [Spec.value, hc, h1, h2, h3, Bool.false_eq_true, if_false]; exact hv
            have hsk := container_skip 91 93 (Or.inr ⟨rfl, rfl⟩) buf (f + 1) v e hopen hvalue
            rw [hb]
            have e1 : ((91 : UInt8) == 123) = false := by decide
            simp only [e1, Bool.false_eq_true, if_false, beq_self_eq_true, if_true, hsk]
            exact ⟨_, _, rfl, hopen, by decide, by omega, Nat.le_refl _, allR_empty _ _ _ _ (Nat.le_refl _)⟩
          · -- a literal
            simp only [h4, Bool.false_eq_true, if_false] at hv
            have h3' : (buf[v] == 123) = false := by simpa using h3
            have h4' : (buf[v] == 91) = false := by simpa using h4
            have h2' : (buf[v] == 34) = false := by simpa using h2
            simp only [h3', h4', h2', Bool.false_eq_true, if_false]
            have hlit : ∀ (bs : List UInt8), (∀ b ∈ bs, noTok b = true) → Res.ofOpt (lit buf (v + 1) bs) = .ok e →
                v + 1 ≤ e ∧ AllR noTok buf (v + 1) e := by
              intro bs hb h
              have := litAt_allR noTok buf bs (v + 1) e hb (res_ofOpt_ok _ _ h)
              exact ⟨this.2, this.1⟩
            have hne93 : buf[v] ≠ 93 := by
              intro h93
              rw [h93] at hv
              simp at hv
            by_cases h5 : (buf[v] == 116) = true
            · simp only [h5, if_true] at hv
              obtain ⟨a, b⟩ := hlit _ (by decide) hv
              exact ⟨_, _, rfl, hc, hne93, by omega, a, b⟩
            · simp only [h5, Bool.false_eq_true, if_false] at hv
              by_cases h6 : (buf[v] == 102) = true
              · simp only [h6, if_true] at hv
                obtain ⟨a, b⟩ := hlit _ (by decide) hv
                exact ⟨_, _, rfl, hc, hne93, by omega, a, b⟩
              · simp only [h6, Bool.false_eq_true, if_false] at hv
                by_cases h7 : (buf[v] == 110) = true
                · simp only [h7, if_true] at hv
                  obtain ⟨a, b⟩ := hlit _ (by decide) hv
                  exact ⟨_, _, rfl, hc, hne93, by omega, a, b⟩
                · simp [h7] at hv

end GetU
end Sonic
