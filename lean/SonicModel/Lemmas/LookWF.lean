import SonicModel.Lemmas.StrictLazy
import SonicModel.Lemmas.GetRefine
namespace Sonic
namespace Spec
open Gen

/-! ### in a strictly well-formed document no lookup is `malformed` -/

theorem value_lazy_canon (buf : Buf) (f v e : Nat) (h : value true f buf v = .ok e) :
    value false (fuelFor buf) buf v = .ok e :=
  value_canonical false buf f v _ (value_strict_lazy buf f v e h) (by simp)

/-- members of a strictly well-formed object: the member search ends at a member with a well-formed value, or finds nothing -/
theorem members_find (buf : Buf) (k : List UInt8) : ∀ f q E, members true f buf q = .ok E →
    findMember buf k q = .missing ∨ ∃ v f' e, findMember buf k q = .at v ∧ value true f' buf v = .ok e := by
  intro f
  induction f with
  | zero => intro q E h; simp [members] at h
  | succ f ih =>
    intro q E h
    unfold members at h
    split at h
    · rename_i hq
      cases hs : string true buf (q+1) with
      | none => simp [hs] at h
      | some k1 =>
        simp only [hs] at h
        have hsS : ∃ name, stringS false buf (q+1) = some (name, k1) := by
          unfold string at hs
          simp only [if_true] at hs
          cases hss : stringS false buf (q+1) with
          | none => simp [hss] at hs
          | some r => obtain ⟨nm, e'⟩ := r; simp [hss] at hs; exact ⟨nm, by rw [hs]⟩
        obtain ⟨name, hname⟩ := hsS
        split at h
        · rename_i hcol
          cases hv : value true f buf (skipWs buf (skipWs buf k1 + 1)) with
          | ok e1 =>
            simp only [hv] at h
            rw [findMember]
            simp only [hq, dite_true, hname, hcol, if_true]
            by_cases hnk : name = k
            · simp only [hnk, if_true]
              exact Or.inr ⟨_, f, e1, rfl, hv⟩
            · simp only [hnk, if_false, value_lazy_canon buf f _ e1 hv]
              split at h
              · rename_i hc; simp only [hc, if_true]; exact Or.inl trivial
              · rename_i hc
                simp only [hc, if_false]
                split at h
                · rename_i hc2
                  simp only [hc2, if_true]
                  have hp := ((progress true buf f _ E).2.2 h).2
                  have pstr := stringS_progress false buf (q+1) (name, k1) hname
                  have pv := ((progress true buf f _ e1).1 hv).1
                  have h1 := skipWs_ge buf k1
                  have h2 := skipWs_ge buf (skipWs buf k1 + 1)
                  have h3 := skipWs_ge buf e1
                  have h4 := skipWs_ge buf (skipWs buf e1 + 1)
                  have hlt : q < skipWs buf (skipWs buf e1 + 1) := by simp only at pstr; omega
                  simp only [hlt, dite_true]
                  exact ih _ E h
                · simp at h
          | err => simp [hv] at h
          | fuel => simp [hv] at h
        · simp at h
    · simp at h

/-- elements of a strictly well-formed array -/
theorem elems_find (buf : Buf) : ∀ f p E, elems true f buf p = .ok E → ∀ n,
    findElem buf n p = .missing ∨ ∃ v f' e, findElem buf n p = .at v ∧ value true f' buf v = .ok e := by
  intro f
  induction f with
  | zero => intro p E h; simp [elems] at h
  | succ f ih =>
    intro p E h n
    unfold elems at h
    cases hv : value true f buf p with
    | ok e1 =>
      simp only [hv] at h
      cases n with
      | zero => exact Or.inr ⟨p, f, e1, rfl, hv⟩
      | succ n =>
        unfold findElem
        simp only [value_lazy_canon buf f p e1 hv]
        split at h
        · rename_i hc; simp only [hc, if_true]; exact Or.inl trivial
        · rename_i hc
          simp only [hc, if_false]
          split at h
          · rename_i hc2
            simp only [hc2, if_true]
            have hp := ((progress true buf f _ E).2.1 h).2
            simp only [hp, if_true]
            exact ih _ E h n
          · simp at h
    | err => simp [hv] at h
    | fuel => simp [hv] at h

/-- **in a strictly well-formed value no path lookup is `malformed`**: it finds a value, or the path does not resolve -/
theorem look_wellformed (buf : Buf) : ∀ (path : List Step) (f w E : Nat), value true f buf w = .ok E →
    look buf w path ≠ .malformed := by
  intro path
  induction path with
  | nil =>
    intro f w E h
    unfold look valueSpan
    simp [value_lazy_canon buf f w E h]
  | cons s rest ih =>
    intro f w E h
    have hl := value_lazy_canon buf f w E h
    cases f with
    | zero => simp [value] at h
    | succ f =>
      cases s with
      | key k =>
        unfold look
        by_cases hb : buf[w]? = some 123
        · simp only [hb, if_true]
          unfold value at h
          simp only [hb] at h
          have e1 : ((123 : UInt8) == 45 || isDigit 123) = false := by decide
          have e2 : ((123 : UInt8) == 34) = false := by decide
          simp only [e1, e2, Bool.false_eq_true, if_false, beq_self_eq_true, if_true] at h
          split at h
          · rename_i hc; simp only [hc, if_true]; simp
          · rename_i hc
            simp only [hc, if_false]
            rcases members_find buf k f _ E h with hm | ⟨v, f', e, hm, hv⟩
            · simp [hm]
            · simp only [hm]; exact ih f' v e hv
        · simp only [hb, if_false, hl]; simp
      | idx n =>
        unfold look
        by_cases hb : buf[w]? = some 91
        · simp only [hb, if_true]
          unfold value at h
          simp only [hb] at h
          have e1 : ((91 : UInt8) == 45 || isDigit 91) = false := by decide
          have e2 : ((91 : UInt8) == 34) = false := by decide
          have e3 : ((91 : UInt8) == 123) = false := by decide
          simp only [e1, e2, e3, Bool.false_eq_true, if_false, beq_self_eq_true, if_true] at h
          split at h
          · rename_i hc; simp only [hc, if_true]; simp
          · rename_i hc
            simp only [hc, if_false]
            rcases elems_find buf f _ E h n with hm | ⟨v, f', e, hm, hv⟩
            · simp [hm]
            · simp only [hm]; exact ih f' v e hv
        · simp only [hb, if_false, hl]; simp

end Spec
end Sonic
