import SonicModel.Lemmas.DeStruct
/-! the typed deserializer on array and object values, for every type that looks at the text itself -/
namespace Sonic
namespace De
open Gen Spec Impl DomP

/-- the type a variant reads its payload as -/
def payloadTy : Variant → Ty
  | .unit _ => .unit
  | .newtype _ t => t
  | .tuple _ ts => .tuple ts
  | .struct _ fs => .struct fs false

theorem covV_mem : ∀ (vs : List Variant), covV vs = true → ∀ var, var ∈ vs → cov (payloadTy var) = true := by
  intro vs
  induction vs with
  | nil => intro _ var h; cases h
  | cons v r ih =>
    intro hc var hm
    simp only [List.mem_cons] at hm
    cases v with
    | unit n =>
      simp only [covV] at hc
      rcases hm with rfl | hm
      · simp [payloadTy, cov]
      · exact ih hc var hm
    | newtype n t =>
      simp only [covV, Bool.and_eq_true] at hc
      rcases hm with rfl | hm
      · simpa [payloadTy] using hc.1
      · exact ih hc.2 var hm
    | tuple n ts =>
      simp only [covV, Bool.and_eq_true] at hc
      rcases hm with rfl | hm
      · simpa [payloadTy, cov] using hc.1
      · exact ih hc.2 var hm
    | struct n fs =>
      simp only [covV, Bool.and_eq_true] at hc
      rcases hm with rfl | hm
      · simp only [payloadTy, cov, Bool.and_eq_true]; exact hc.1
      · exact ih hc.2 var hm

theorem struct_decode_known (buf : Buf) (fs : List Field) (d : Bool) (ms : List (List UInt8 × Json)) (g : Nat)
    (hk : d = true → ∀ m ∈ ms, known fs m.1 = true) :
    decode buf (g + 1) (.struct fs d) (.obj ms) = (sequenceOpt (decodeFields buf g fs ms)).map .struct := by
  simp only [decode]
  rw [if_neg]
  intro h
  simp only [Bool.and_eq_true, List.any_eq_true] at h
  obtain ⟨hd, m, hm, hnot⟩ := h
  have := hk hd m hm
  unfold known at this
  rw [List.any_eq_true] at this
  obtain ⟨fl, hfl, hmatch⟩ := this
  simp only [Bool.not_eq_true', List.any_eq_false] at hnot
  have h2 := hnot fl hfl
  obtain ⟨n, t, dd⟩ := fl
  simp_all

/-- **an array value, for every type that looks at the text itself** -/
theorem arr_base (buf : Buf) (s e : Nat) (xs : List Json) (hb : buf[s]? = some 91)
    (hshape : (xs = [] ∧ buf[skipWs buf (s + 1)]? = some 93 ∧ e = skipWs buf (s + 1) + 1) ∨ Elems buf (skipWs buf (s + 1)) xs e) :
    ∀ f ty i, cov ty = true → direct ty = true → skipWs buf i = s → de f ty buf i ≠ .fuel →
      Stab buf ty (.arr xs) e (de f ty buf i) := by
  intro f ty i hcov hdir hs hne
  cases f with
  | zero => exact absurd (by rw [de]) hne
  | succ f =>
    have hsp := skipSpace_at buf i s 91 hs hb
    have hE : Entry buf (s + 1) true (skipWs buf (s + 1)) := Or.inl ⟨rfl, rfl⟩
    cases ty with
    | seq t =>
      have hct : cov t = true := by simpa [cov] using hcov
      rw [de] at hne ⊢
      simp only [hsp, beq_self_eq_true, if_true] at hne ⊢
      rcases hshape with ⟨rfl, hcl, rfl⟩ | hel
      · cases f with
        | zero => exact absurd (by rw [seqLoop]) hne
        | succ f =>
          cases f with
          | zero => exact absurd (by rw [seqLoop, nextElem]) hne
          | succ f =>
            rw [seqLoop, nextElem_end buf f t (s + 1) true hcl]
            simp only [endSeq_at buf _ _ (by rw [skipWs_idem]; exact hcl), skipWs_idem]
            refine ⟨2, ?_⟩
            intro g hg
            obtain ⟨g', rfl⟩ : ∃ g', g = g' + 2 := ⟨g - 2, by omega⟩
            simp [decode, decodeList, sequenceOpt, ofOpt]
      · have hne2 : seqLoop f t buf (s + 1) true [] ≠ .fuel := by
          intro h; rw [h] at hne; exact hne rfl
        obtain ⟨g0, hg0⟩ := seqLoop_elems buf t hct _ xs e hel f (s + 1) true [] hE hne2
        obtain ⟨hend1, hend2⟩ := elems_end buf _ xs e hel
        refine ⟨g0 + 1, ?_⟩
        intro g hg
        obtain ⟨g', rfl⟩ : ∃ g', g = g' + 1 := ⟨g - 1, by omega⟩
        rw [hg0 g' (by omega), ofList_nil]
        simp only [decode]
        cases sequenceOpt (decodeList buf g' t xs) with
        | none => rfl
        | some vs => simp [ofOpt, endSeq_at buf _ _ hend1, hend2]
    | bytes =>
      rw [de] at hne ⊢
      have e1 : ((91 : UInt8) == 34) = false := by decide
      simp only [hsp, e1, Bool.false_eq_true, if_false, beq_self_eq_true, if_true] at hne ⊢
      rcases hshape with ⟨rfl, hcl, rfl⟩ | hel
      · cases f with
        | zero => exact absurd (by rw [seqLoop]) hne
        | succ f =>
          cases f with
          | zero => exact absurd (by rw [seqLoop, nextElem]) hne
          | succ f =>
            rw [seqLoop, nextElem_end buf f _ (s + 1) true hcl]
            simp only [endSeq_at buf _ _ (by rw [skipWs_idem]; exact hcl), skipWs_idem]
            refine ⟨2, ?_⟩
            intro g hg
            obtain ⟨g', rfl⟩ : ∃ g', g = g' + 2 := ⟨g - 2, by omega⟩
            simp [decode, decodeList, sequenceOpt, ofOpt]
      · have hne2 : seqLoop f (.int 8 false) buf (s + 1) true [] ≠ .fuel := by
          intro h; rw [h] at hne; exact hne rfl
        obtain ⟨g0, hg0⟩ := seqLoop_elems buf (.int 8 false) (by simp [cov]) _ xs e hel f (s + 1) true [] hE hne2
        obtain ⟨hend1, hend2⟩ := elems_end buf _ xs e hel
        refine ⟨g0 + 1, ?_⟩
        intro g hg
        obtain ⟨g', rfl⟩ : ∃ g', g = g' + 1 := ⟨g - 1, by omega⟩
        rw [hg0 g' (by omega), ofList_nil]
        simp only [decode]
        cases sequenceOpt (decodeList buf g' (.int 8 false) xs) with
        | none => rfl
        | some vs =>
          simp [ofOpt, endSeq_at buf _ _ hend1, hend2]
          intro a _; cases a <;> rfl
    | tuple ts =>
      have hcts : covL ts = true := by simpa [cov] using hcov
      rw [de] at hne ⊢
      simp only [hsp, beq_self_eq_true, if_true] at hne ⊢
      rcases hshape with ⟨rfl, hcl, rfl⟩ | hel
      · cases f with
        | zero => exact absurd (by rw [tupleLoop]) hne
        | succ f =>
          cases ts with
          | nil =>
            rw [tupleLoop]
            simp only [endSeq_at buf _ _ hcl]
            refine ⟨2, ?_⟩
            intro g hg
            obtain ⟨g', rfl⟩ : ∃ g', g = g' + 2 := ⟨g - 2, by omega⟩
            simp [decode, decodeZip, sequenceOpt, ofOpt]
          | cons t ts' =>
            cases f with
            | zero => exact absurd (by rw [tupleLoop, nextElem]) hne
            | succ f =>
              rw [tupleLoop, nextElem_end buf f t (s + 1) true hcl]
              exact stab_err _ _ _ _ (by intro g; simp [decode])
      · have hne2 : tupleLoop f ts buf (s + 1) true [] ≠ .fuel := by
          intro h; rw [h] at hne; exact hne rfl
        obtain ⟨g0, hg0⟩ := tupleLoop_elems buf _ xs e hel ts hcts f (s + 1) true [] hE hne2
        refine ⟨g0 + 1, ?_⟩
        intro g hg
        obtain ⟨g', rfl⟩ : ∃ g', g = g' + 1 := ⟨g - 1, by omega⟩
        have := hg0 g' (by omega)
        have hgoal : tupleEnd buf (tupleLoop f ts buf (s + 1) true []) = ofOpt (decode buf (g' + 1) (.tuple ts) (.arr xs)) e := by
          rw [this]
          simp only [decode, ofZip]
          by_cases hl : xs.length = ts.length
          · simp only [hl, decide_true, if_true]
            cases sequenceOpt (decodeZip buf g' ts xs) with
            | none => rfl
            | some vs => simp [ofOpt]
          · simp [hl, ofOpt]
        rw [← hgoal]
        cases tupleLoop f ts buf (s + 1) true [] <;> rfl
    | opt t => simp [direct] at hdir
    | newtype t => simp [direct] at hdir
    | strRef => simp [cov] at hcov
    | struct fs d =>
      have hcf : covF fs = true := by
        simp only [cov, Bool.and_eq_true] at hcov; exact hcov.1
      rw [de] at hne ⊢
      simp only [hsp, beq_self_eq_true, if_true] at hne ⊢
      rcases hshape with ⟨rfl, hcl, rfl⟩ | hel
      · have hne2 : structSeq f fs buf (s + 1) true [] ≠ .fuel := by
          intro h; rw [h] at hne; exact hne rfl
        rw [structSeq_tail buf fs f (s + 1) true [] hcl hne2]
        refine ⟨fs.length + 2, ?_⟩
        intro g hg
        obtain ⟨g', rfl⟩ : ∃ g', g = g' + 1 := ⟨g - 1, by omega⟩
        simp only [decode, decodeFieldsSeq_nil buf fs g' (by omega)]
        cases tailDefaults fs with
        | none => rfl
        | some ds =>
          have hpos : endSeq buf (if fs = [] then s + 1 else skipWs buf (s + 1)) (.struct ([] ++ ds)) =
              .ok (.struct ([] ++ ds)) (skipWs buf (s + 1) + 1) := by
            by_cases hr2 : fs = []
            · simp only [hr2, if_true]; exact endSeq_at buf (s + 1) _ hcl
            · simp only [hr2, if_false]
              have := endSeq_at buf (skipWs buf (s + 1)) (.struct ([] ++ ds)) (by rw [skipWs_idem]; exact hcl)
              rw [skipWs_idem] at this; exact this
          simp only [hpos]
          simp [ofOpt]
      · have hne2 : structSeq f fs buf (s + 1) true [] ≠ .fuel := by
          intro h; rw [h] at hne; exact hne rfl
        obtain ⟨g0, hg0⟩ := structSeq_elems buf _ xs e hel fs hcf f (s + 1) true [] hE hne2
        refine ⟨g0 + 1, ?_⟩
        intro g hg
        obtain ⟨g', rfl⟩ : ∃ g', g = g' + 1 := ⟨g - 1, by omega⟩
        have := hg0 g' (by omega)
        have hgoal : structEnd buf (structSeq f fs buf (s + 1) true []) = ofOpt (decode buf (g' + 1) (.struct fs d) (.arr xs)) e := by
          rw [this]
          simp only [decode, ofFields]
          cases sequenceOpt (decodeFieldsSeq buf g' fs xs) with
          | none => rfl
          | some vs =>
            by_cases hl : xs.length ≤ fs.length
            · simp [hl, ofOpt]
            · simp [hl, ofOpt]
        rw [← hgoal]
        cases structSeq f fs buf (s + 1) true [] <;> rfl
    | enum vs =>
      rw [de]
      simp [hs, hb]
      exact stab_err _ _ _ _ (by intro g; simp [decode])
    | int bits sg =>
      have h64 : bits ≤ 64 := by simpa [cov] using hcov
      rw [de]; simp [h64, deInt, hsp, isDigit]
      exact stab_err _ _ _ _ (by intro g; simp [decode])
    | _ =>
      rw [de]
      simp [hsp, deF64, deStrRaw, hb, hs, isDigit]
      exact stab_err _ _ _ _ (by intro g; simp [decode])


/-- **an object value, for every type that looks at the text itself** -/
theorem obj_base (buf : Buf) (s e : Nat) (ms : List (List UInt8 × Json)) (hb : buf[s]? = some 123)
    (hshape : (ms = [] ∧ buf[skipWs buf (s + 1)]? = some 125 ∧ e = skipWs buf (s + 1) + 1) ∨ Members buf (skipWs buf (s + 1)) ms e) :
    ∀ f ty i, cov ty = true → direct ty = true → skipWs buf i = s → de f ty buf i ≠ .fuel →
      Stab buf ty (.obj ms) e (de f ty buf i) := by
  intro f ty i hcov hdir hs hne
  cases f with
  | zero => exact absurd (by rw [de]) hne
  | succ f =>
    have hsp := skipSpace_at buf i s 123 hs hb
    have hE : EntryK buf (s + 1) true (skipWs buf (s + 1)) := Or.inl ⟨rfl, rfl⟩
    cases ty with
    | map k v =>
      have hk : k = .str := by cases k <;> simp [cov] at hcov ⊢
      subst hk
      have hcv : cov v = true := by simpa [cov] using hcov
      rw [de] at hne ⊢
      simp only [hsp, beq_self_eq_true, if_true] at hne ⊢
      rcases hshape with ⟨rfl, hcl, rfl⟩ | hm
      · cases f with
        | zero => exact absurd (by rw [mapLoop]) hne
        | succ f =>
          rw [mapLoop, nextKey_end buf (s + 1) true hcl]
          simp only [endMap_at buf _ _ (by rw [skipWs_idem]; exact hcl), skipWs_idem]
          refine ⟨2, ?_⟩
          intro g hg
          obtain ⟨g', rfl⟩ : ∃ g', g = g' + 2 := ⟨g - 2, by omega⟩
          simp [decode, decodeMap, ofOpt]
      · have hne2 : mapLoop f .str v buf (s + 1) true [] ≠ .fuel := by
          intro h; rw [h] at hne; exact hne rfl
        obtain ⟨g0, hg0⟩ := mapLoop_members buf v hcv _ ms e hm f (s + 1) true [] hE hne2
        obtain ⟨hend1, hend2⟩ := members_end buf _ ms e hm
        have hq : buf[skipWs buf (s + 1)]? = some 34 := by
          cases hm with
          | last q k k1 x e1 hq _ _ _ _ => exact hq
          | cons q k k1 x e1 ms e hq _ _ _ _ _ => exact hq
        refine ⟨g0 + 1, ?_⟩
        intro g hg
        obtain ⟨g', rfl⟩ : ∃ g', g = g' + 1 := ⟨g - 1, by omega⟩
        have := hg0 g' (by omega)
        simp only [decode]
        cases hr : mapLoop f .str v buf (s + 1) true [] with
        | ok kvs e' =>
          rw [hr] at this
          simp only [R.map] at this
          cases hdm : decodeMap buf g' .str v ms [] with
          | none => rw [hdm] at this; simp [ofOpt] at this
          | some w =>
            rw [hdm] at this
            simp only [ofOpt, R.ok.injEq] at this
            obtain ⟨h1, h2⟩ := this
            subst h2
            simp [ofOpt, endMap_at buf _ _ hend1, hend2, h1]
        | err =>
          rw [hr] at this
          simp only [R.map] at this
          cases hdm : decodeMap buf g' .str v ms [] with
          | none => rfl
          | some w => rw [hdm] at this; simp [ofOpt] at this
        | fuel => exact absurd hr hne2
    | opt t => simp [direct] at hdir
    | newtype t => simp [direct] at hdir
    | strRef => simp [cov] at hcov
    | struct fs d =>
      have hcf : covF fs = true := by
        simp only [cov, Bool.and_eq_true] at hcov; exact hcov.1
      have hnd : (fs.map fname).Nodup := by
        simp only [cov, Bool.and_eq_true, decide_eq_true_eq] at hcov; exact hcov.2
      rw [de] at hne ⊢
      have e1 : ((123 : UInt8) == 91) = false := by decide
      simp only [hsp, e1, Bool.false_eq_true, if_false, beq_self_eq_true, if_true] at hne ⊢
      have hinit : ∀ G, Inv buf G fs (fs.map fun _ => none) [] := by
        intro G
        refine ⟨by simp, ?_⟩
        intro j fl hj
        have : (fs.map fun _ => (none : Option Val)).getD j none = none := by
          simp [List.getD_eq_getElem?_getD, List.getElem?_map]
          cases fs[j]? <;> rfl
        rw [this]
        obtain ⟨n, t, dd⟩ := fl
        simp [SlotOK, lookupField]
      -- the run of the visitor, as a relation
      have hrun : ∃ G o, Run buf fs d G ms (fs.map fun _ => none) o ∧
          structLoop (f - fs.length) fs d buf (s + 1) true (fs.map fun _ => none) = ofSlots o (e - 1) := by
        have hne2 : structLoop (f - fs.length) fs d buf (s + 1) true (fs.map fun _ => none) ≠ .fuel := by
          intro h; rw [h] at hne; exact hne rfl
        rcases hshape with ⟨rfl, hcl, rfl⟩ | hm
        · refine ⟨0, some _, .nil _, ?_⟩
          cases hf : f - fs.length with
          | zero => rw [hf] at hne2; exact absurd (by rw [structLoop]) hne2
          | succ f' => rw [structLoop, nextKey_end buf (s + 1) true hcl]; simp [ofSlots]
        · exact structLoop_members buf fs d hcf _ ms e hm _ (s + 1) true _ hE hne2
      obtain ⟨G, o, hr, hres⟩ := hrun
      have hpost := run_spec buf fs d G hnd ms _ o hr [] (hinit G) (by intro _ m hm; simp at hm)
      simp only [List.nil_append] at hpost
      have hendpos : buf[skipWs buf (e - 1)]? = some 125 ∧ skipWs buf (e - 1) + 1 = e := by
        rcases hshape with ⟨_, hcl, rfl⟩ | hm
        · simp only [Nat.add_sub_cancel, skipWs_idem]; exact ⟨hcl, trivial⟩
        · exact members_end buf _ ms e hm
      rw [hres]
      cases o with
      | none =>
        simp only [RunPost] at hpost
        simp only [ofSlots]
        refine ⟨G + fs.length + 1, ?_⟩
        intro g hg
        rw [hpost g (by omega)]; rfl
      | some s' =>
        simp only [RunPost] at hpost
        obtain ⟨hinv, hknown⟩ := hpost
        simp only [ofSlots]
        refine ⟨G + fs.length + 2, ?_⟩
        intro g hg
        obtain ⟨g', rfl⟩ : ∃ g', g = g' + 1 := ⟨g - 1, by omega⟩
        rw [struct_decode_known buf fs d ms g' hknown, ← finish_eq buf G ms fs s' hinv.1 hinv.2 g' (by omega)]
        cases finish fs s' with
        | none => rfl
        | some vs => simp [ofOpt, endMap_at buf _ _ hendpos.1, hendpos.2]
    | enum vs =>
      have hcv : covV vs = true := by simpa [cov] using hcov
      rw [de] at hne ⊢
      simp only [hs, hb, beq_self_eq_true, if_true] at hne ⊢
      rcases hshape with ⟨rfl, hcl, rfl⟩ | hm
      · -- `{}`
        have : deStrRaw buf (s + 1) = .err := by
          unfold deStrRaw; rw [skipSpace_spec, hcl]; simp
        simp only [this]
        exact stab_err _ _ _ _ (by intro g; simp [decode])
      · -- the first member: name, colon, payload
        have hfirst : ∃ k k1 x e1 rest, ms = (k, x) :: rest ∧ buf[skipWs buf (s + 1)]? = some 34 ∧
            stringS false buf (skipWs buf (s + 1) + 1) = some (k, k1) ∧ buf[skipWs buf k1]? = some 58 ∧
            ValueOK buf (skipWs buf (skipWs buf k1 + 1)) x e1 ∧
            ((rest = [] ∧ buf[skipWs buf e1]? = some 125 ∧ e = skipWs buf e1 + 1) ∨ (rest ≠ [] ∧ buf[skipWs buf e1]? = some 44)) := by
          cases hm with
          | last q k k1 x e1 hq hk hcol hv hcl => exact ⟨k, k1, x, e1, [], rfl, hq, hk, hcol, hv, Or.inl ⟨rfl, hcl, rfl⟩⟩
          | cons q k k1 x e1 ms e hq hk hcol hv hco hm' =>
            refine ⟨k, k1, x, e1, ms, rfl, hq, hk, hcol, hv, Or.inr ⟨?_, hco⟩⟩
            cases hm' <;> simp
        obtain ⟨k, k1, x, e1, rest, rfl, hq, hk, hcol, hv, hrest⟩ := hfirst
        obtain ⟨esc, hd⟩ := decodeFrom_of_stringS_some buf _ k k1 hk
        have hclo := parseObjectClo_ok_of_colon buf k1 hcol
        have hstr : deStrRaw buf (s + 1) = .ok (k, esc) k1 := by
          unfold deStrRaw; rw [skipSpace_spec, hq]; simp [hd]
        simp only [hstr, hclo] at hne ⊢
        -- what follows the payload
        have htrail : ∀ (w : Val), (match skipSpace buf e1 with
              | some (c2, j2) => if (c2 == 125) = true then R.ok w j2 else R.err
              | none => R.err) = (if rest = [] then R.ok w e else R.err) := by
          intro w
          rw [skipSpace_spec]
          rcases hrest with ⟨hr, hcl, he⟩ | ⟨hr, hco⟩
          · simp [hcl, hr, he]
          · have : ((44 : UInt8) == 125) = false := by decide
            simp [hco, hr, this]
        -- the reference on more than one member
        have hmany : rest ≠ [] → ∀ g, decode buf (g + 1) (.enum vs) (.obj ((k, x) :: rest)) = none := by
          intro hr g
          cases rest with
          | nil => exact absurd rfl hr
          | cons m r => simp [decode]
        cases hfind : vs.find? (fun v => v.name == k) with
        | none =>
          simp only [hfind]
          refine stab_err _ _ _ _ ?_
          intro g
          cases rest with
          | nil => simp [decode, hfind]
          | cons m r => simp [decode]
        | some var =>
          have hmem : var ∈ vs := List.mem_of_find?_eq_some hfind
          simp only [hfind] at hne ⊢
          -- one variant kind at a time: `T` the payload type, `wrap` what the variant does with the payload's value
          have key : ∀ (T : Ty) (wrap : Val → Val), cov T = true →
              (∀ g, 1 ≤ g → decode buf (g + 1) (.enum vs) (.obj [(k, x)]) = (decode buf g T x).map wrap) →
              (match (de f T buf (skipWs buf k1 + 1)).map wrap with
                | .ok w e' => (match skipSpace buf e' with
                    | some (c2, j2) => if (c2 == 125) = true then R.ok w j2 else R.err
                    | none => R.err)
                | r => r) ≠ .fuel →
              Stab buf (.enum vs) (.obj ((k, x) :: rest)) e
                (match (de f T buf (skipWs buf k1 + 1)).map wrap with
                | .ok w e' => (match skipSpace buf e' with
                    | some (c2, j2) => if (c2 == 125) = true then R.ok w j2 else R.err
                    | none => R.err)
                | r => r) := by
            intro T wrap hcT hdec hne'
            have hde : de f T buf (skipWs buf k1 + 1) ≠ .fuel := by
              intro h; rw [h] at hne'; exact hne' rfl
            obtain ⟨g1, hg1⟩ := hv.facts f T _ hcT rfl hde
            cases hr : de f T buf (skipWs buf k1 + 1) with
            | fuel => exact absurd hr hde
            | err =>
              simp only [R.map]
              refine ⟨g1 + 2, ?_⟩
              intro g hg
              obtain ⟨g', rfl⟩ : ∃ g', g = g' + 1 := ⟨g - 1, by omega⟩
              by_cases hre : rest = []
              · subst hre
                have := hg1 g' (by omega)
                rw [hr] at this
                rw [hdec g' (by omega)]
                cases hdd : decode buf g' T x with
                | none => rfl
                | some w => rw [hdd] at this; simp [ofOpt] at this
              · rw [hmany hre]; rfl
            | ok w e' =>
              have hall : ∀ g, g1 ≤ g → decode buf g T x = some w ∧ e' = e1 := by
                intro g hg
                have := hg1 g hg
                rw [hr] at this
                cases hdd : decode buf g T x with
                | none => rw [hdd] at this; simp [ofOpt] at this
                | some w' => rw [hdd] at this; simp [ofOpt] at this; exact ⟨by rw [this.1], this.2.symm⟩
              have he' := (hall g1 (Nat.le_refl _)).2
              subst he'
              simp only [R.map, htrail]
              refine ⟨g1 + 2, ?_⟩
              intro g hg
              obtain ⟨g', rfl⟩ : ∃ g', g = g' + 1 := ⟨g - 1, by omega⟩
              by_cases hre : rest = []
              · subst hre
                simp only [if_true]
                rw [hdec g' (by omega), (hall g' (by omega)).1]; rfl
              · simp only [hre, if_false]
                rw [hmany hre]; rfl
          cases var with
          | unit n =>
            have hdec : ∀ g, 1 ≤ g → decode buf (g + 1) (.enum vs) (.obj [(k, x)]) = (decode buf g .unit x).map (fun _ => Val.variant n none) := by
              intro g hg
              obtain ⟨g', rfl⟩ : ∃ g', g = g' + 1 := ⟨g - 1, by omega⟩
              cases x <;> simp [decode, hfind]
            have hk := key .unit (fun _ => .variant n none) (by simp [cov]) hdec
            cases hr : de f .unit buf (skipWs buf k1 + 1) with
            | ok w e' => rw [hr] at hk hne; exact hk hne
            | err => rw [hr] at hk hne; exact hk hne
            | fuel => rw [hr] at hk hne; exact hk hne
          | newtype n t =>
            have hct : cov t = true := covV_mem vs hcv _ hmem
            have hdec : ∀ g, 1 ≤ g → decode buf (g + 1) (.enum vs) (.obj [(k, x)]) = (decode buf g t x).map (fun v => Val.variant n (some v)) := by
              intro g _; simp [decode, hfind]
            exact key t (fun v => .variant n (some v)) hct hdec hne
          | tuple n ts =>
            have hct : cov (.tuple ts) = true := covV_mem vs hcv _ hmem
            have hdec : ∀ g, 1 ≤ g → decode buf (g + 1) (.enum vs) (.obj [(k, x)]) = (decode buf g (.tuple ts) x).map (fun v => Val.variant n (some v)) := by
              intro g _; simp [decode, hfind]
            exact key (.tuple ts) (fun v => .variant n (some v)) hct hdec hne
          | struct n fs =>
            have hct : cov (.struct fs false) = true := covV_mem vs hcv _ hmem
            have hdec : ∀ g, 1 ≤ g → decode buf (g + 1) (.enum vs) (.obj [(k, x)]) = (decode buf g (.struct fs false) x).map (fun v => Val.variant n (some v)) := by
              intro g _; simp [decode, hfind]
            exact key (.struct fs false) (fun v => .variant n (some v)) hct hdec hne

    | int bits sg =>
      have h64 : bits ≤ 64 := by simpa [cov] using hcov
      rw [de]; simp [h64, deInt, hsp, isDigit]
      exact stab_err _ _ _ _ (by intro g; simp [decode])
    | _ =>
      rw [de]
      simp [hsp, deF64, deStrRaw, isDigit]
      exact stab_err _ _ _ _ (by intro g; simp [decode])


end De
end Sonic
