import SonicModel.Lemmas.SpecFuel
namespace Sonic
namespace Spec

theorem isDigitAt_lt (buf : Buf) (i : Nat) (h : isDigitAt buf i = true) : i < buf.size := by
  unfold isDigitAt at h
  split at h
  · rename_i hd; exact getElem?_some_lt hd
  · simp at h

theorem frac_le (buf : Buf) (i e : Nat) (hi : i ≤ buf.size) (h : frac buf i = some e) : e ≤ buf.size := by
  unfold frac at h
  split at h
  · split at h
    · rename_i hd
      have := isDigitAt_lt buf (i+1) hd
      simp at h; subst h
      exact skipDigits_le buf (i+2) (by omega)
    · simp at h
  · simp at h; omega

theorem expo_le (buf : Buf) (i e : Nat) (hi : i ≤ buf.size) (h : expo buf i = some e) : e ≤ buf.size := by
  unfold expo at h
  split at h
  · generalize hj : (if (buf[i + 1]? = some 45 || buf[i + 1]? = some 43) = true then i + 2 else i + 1) = j at h
    simp only at h
    by_cases hd : isDigitAt buf j = true
    · simp only [hd, ite_true, Option.some.injEq] at h
      have := isDigitAt_lt buf j hd
      subst h
      exact skipDigits_le buf _ (by omega)
    · simp [hd] at h
  · simp at h; omega

theorem afterFirst_le (buf : Buf) (c : UInt8) (i e : Nat) (hi : i ≤ buf.size)
    (h : afterFirst buf c i = some e) : e ≤ buf.size := by
  unfold afterFirst at h
  have h' := ite_none_some h
  obtain ⟨i3, hf, he⟩ := Option.bind_eq_some_iff.mp h'
  have h0 := skipDigits_le buf i hi
  have h1 := frac_le buf _ _ (by split <;> omega) hf
  exact expo_le buf _ _ h1 he

theorem number_le (buf : Buf) (i e : Nat) (h : number buf i = some e) : e ≤ buf.size := by
  unfold number at h
  simp only at h
  generalize hi1 : (if buf[i]? = some 45 then i + 1 else i) = i1 at h
  cases hc : buf[i1]? with
  | none => simp [hc] at h
  | some c =>
    simp only [hc] at h
    have hlt := getElem?_some_lt hc
    split at h
    · exact afterFirst_le buf c (i1+1) e (by omega) h
    · simp at h

theorem numberS_le (s : Bool) (buf : Buf) (i e : Nat) (h : numberS s buf i = some e) : e ≤ buf.size := by
  unfold numberS at h
  cases hn : number buf i with
  | none => simp [hn] at h
  | some e' =>
    simp only [hn] at h
    have := number_le buf i e' hn
    split at h
    · simp at h
    · simp only [Option.some.injEq] at h; omega

theorem stringG_le (buf : Buf) (i e : Nat) (h : stringG buf i = some e) : e ≤ buf.size := by
  fun_induction stringG buf i <;> grind

theorem stringS_le (l : Bool) (buf : Buf) (i : Nat) (r : List UInt8 × Nat)
    (h : stringS l buf i = some r) : r.2 ≤ buf.size := by
  fun_induction stringS l buf i generalizing r
  case case1 => simp at h; subst h; simp; omega
  case case2 => simp at h
  case case3 ih =>
    obtain ⟨p, hp, hr⟩ := Option.map_eq_some_iff.mp h
    have := ih p hp
    subst hr; simpa using this
  case case4 => simp at h
  case case5 ih =>
    obtain ⟨p, hp, hr⟩ := Option.map_eq_some_iff.mp h
    have := ih p hp
    subst hr; simpa using this
  case case6 => simp at h
  case case7 => simp at h
  case case8 => simp at h
  case case9 ih =>
    obtain ⟨p, hp, hr⟩ := Option.map_eq_some_iff.mp h
    have := ih p hp
    subst hr; simpa using this
  case case10 => simp at h

theorem string_le (s : Bool) (buf : Buf) (i e : Nat) (h : string s buf i = some e) : e ≤ buf.size := by
  unfold string at h
  cases s
  · simp only [Bool.false_eq_true, ite_false] at h
    exact stringG_le buf i e h
  · simp only [ite_true] at h
    obtain ⟨p, hp, hr⟩ := Option.map_eq_some_iff.mp h
    have := stringS_le false buf i p hp
    omega

theorem litAt_le (buf : Buf) (l : List UInt8) : ∀ (j e : Nat), j ≤ buf.size → litAt buf j l = some e → e ≤ buf.size := by
  induction l with
  | nil => intro j e hj h; simp [litAt] at h; omega
  | cons x xs ih =>
    intro j e hj h
    simp only [litAt] at h
    split at h
    · rename_i hb
      have := getElem?_some_lt hb
      exact ih (j+1) e (by omega) h
    · simp at h

/-- an accepted value / element list / member list ends inside the buffer -/
theorem bound (s : Bool) (buf : Buf) : ∀ g i e,
    (value s g buf i = .ok e → e ≤ buf.size) ∧
    (elems s g buf i = .ok e → e ≤ buf.size) ∧
    (members s g buf i = .ok e → e ≤ buf.size) := by
  intro g
  induction g with
  | zero => intro i e; simp [value, elems, members]
  | succ g ih =>
    intro i e
    have ih1 := fun j e => (ih j e).1
    have ih2 := fun j e => (ih j e).2.1
    have ih3 := fun j e => (ih j e).2.2
    clear ih
    refine ⟨?_, ?_, ?_⟩
    · intro h
      unfold value at h
      cases hb : buf[i]? with
      | none => simp [hb] at h
      | some c =>
        have hi := getElem?_some_lt hb
        simp only [hb] at h
        split at h
        · cases hn : numberS s buf i with
          | none => simp [hn] at h
          | some e' => simp [hn] at h; subst h; exact numberS_le s buf i e' hn
        · split at h
          · cases hn : string s buf (i+1) with
            | none => simp [hn] at h
            | some e' => simp [hn] at h; subst h; exact string_le s buf (i+1) e' hn
          · split at h
            · split at h
              · rename_i hc; have := getElem?_some_lt hc; simp at h; omega
              · exact ih3 _ _ h
            · split at h
              · split at h
                · rename_i hc; have := getElem?_some_lt hc; simp at h; omega
                · exact ih2 _ _ h
              · split at h
                · cases hn : lit buf (i+1) [114, 117, 101] with
                  | none => simp [hn] at h
                  | some e' => simp [hn] at h; subst h; exact litAt_le buf _ (i+1) e' (by omega) hn
                · split at h
                  · cases hn : lit buf (i+1) [97, 108, 115, 101] with
                    | none => simp [hn] at h
                    | some e' => simp [hn] at h; subst h; exact litAt_le buf _ (i+1) e' (by omega) hn
                  · split at h
                    · cases hn : lit buf (i+1) [117, 108, 108] with
                      | none => simp [hn] at h
                      | some e' => simp [hn] at h; subst h; exact litAt_le buf _ (i+1) e' (by omega) hn
                    · simp at h
    · intro h
      unfold elems at h
      cases hv : value s g buf i with
      | ok e1 =>
        simp only [hv] at h
        split at h
        · rename_i hc; have := getElem?_some_lt hc; simp at h; omega
        · split at h
          · exact ih2 _ _ h
          · simp at h
      | err => simp [hv] at h
      | fuel => simp [hv] at h
    · intro h
      unfold members at h
      split at h
      · cases hs : string s buf (i+1) with
        | none => simp [hs] at h
        | some k =>
          simp only [hs] at h
          split at h
          · cases hv : value s g buf (skipWs buf (skipWs buf k + 1)) with
            | ok e1 =>
              simp only [hv] at h
              split at h
              · rename_i hc; have := getElem?_some_lt hc; simp at h; omega
              · split at h
                · exact ih3 _ _ h
                · simp at h
            | err => simp [hv] at h
            | fuel => simp [hv] at h
          · simp at h
      · simp at h

end Spec
end Sonic
