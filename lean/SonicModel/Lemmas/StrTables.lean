import SonicModel.Lemmas.Tab.Hex0
import SonicModel.Lemmas.Tab.Hex1
import SonicModel.Lemmas.Tab.Hex2
import SonicModel.Lemmas.Tab.Hex3
import SonicModel.Lemmas.Tab.Nibbles
import SonicModel.Spec.Grammar
namespace Sonic
open Gen Impl

/-- `hex_to_u32_nocheck` on four hex digits is their value … -/
theorem hexToU32_valid (a b c d : UInt8) (ha : isHex a = true) (hb : isHex b = true)
    (hc : isHex c = true) (hd : isHex d = true) :
    hexToU32 a b c d = hexVal a * 4096 + hexVal b * 256 + hexVal c * 16 + hexVal d := by
  unfold hexToU32
  rw [d2v_row0, d2v_row1, d2v_row2, d2v_row3]
  simp only [ha, hb, hc, hd, ite_true]
  exact or_nibbles ⟨hexVal a, hexVal_lt a⟩ ⟨hexVal b, hexVal_lt b⟩ ⟨hexVal c, hexVal_lt c⟩ ⟨hexVal d, hexVal_lt d⟩

/-- … and at least `0xFFFFFFFF` as soon as one byte is not a hex digit -/
theorem hexToU32_invalid (a b c d : UInt8)
    (h : (isHex a && isHex b && isHex c && isHex d) = false) :
    0xFFFFFFFF ≤ hexToU32 a b c d := by
  unfold hexToU32
  rw [d2v_row0, d2v_row1, d2v_row2, d2v_row3]
  by_cases ha : isHex a = true
  · by_cases hb : isHex b = true
    · by_cases hc : isHex c = true
      · have hd : isHex d = false := by simp [ha, hb, hc] at h; exact h
        simp only [hd, Bool.false_eq_true, ite_false]
        exact Nat.right_le_or
      · simp only [hc, ite_false]
        exact Nat.le_trans Nat.right_le_or Nat.left_le_or
    · simp only [hb, ite_false]
      exact Nat.le_trans (Nat.le_trans Nat.right_le_or Nat.left_le_or) Nat.left_le_or
  · simp only [ha, ite_false]
    exact Nat.le_trans (Nat.le_trans Nat.left_le_or Nat.left_le_or) Nat.left_le_or

end Sonic
