import SonicModel.Lemmas.StrInplaceBase
import SonicModel.Lemmas.SpecBound
import SonicModel.Lemmas.StrPad
/-
  The in-place decoder (Impl/StrInplace.lean) on a padded buffer: no access outside the buffer, the bytes written are the
  specification's decoding, nothing in front of the literal and nothing from the final reader position on is changed.
-/
namespace Sonic
namespace StrIn
open Gen Impl StrBlock

/-- what the decoder relies on: 64 more bytes behind the text, the first of them `x`, the second `"` -/
structure Padded (buf : Buf) (len : Nat) : Prop where
  size : buf.size = len + 64
  x0 : buf[len]? = some 120
  q : buf[len + 1]? = some 34

/-- what the decoder keeps true of its buffer `mem` (`buf` = the padded text as it was before any decoding, `mem0` = the buffer
    when this run started: earlier runs may have rewritten literals in front of this one): the reader `src` is ahead of the
    writer `dst`, nothing at or behind the reader has been written since the text was copied, nothing in front of the literal
    has been written by this run -/
structure Inv (buf mem0 mem : Buf) (sdst src dst : Nat) : Prop where
  size : mem.size = buf.size
  lo : sdst ≤ dst
  hi : dst ≤ src
  ag : ∀ k, src ≤ k → mem[k]? = buf[k]?
  pre : ∀ k, k < sdst → mem[k]? = mem0[k]?

/-- `acc` = what has been decoded so far, `v` = what the scalar decoder says from the reader on -/
def Post (buf mem0 : Buf) (sdst : Nat) (acc : List UInt8) (v : Option (List UInt8 × Nat)) : Res → Prop
  | .ok mem' cnt e => ∃ tail, v = some (tail, e) ∧ bytes mem' sdst (sdst + cnt) = acc ++ tail ∧ mem'.size = buf.size ∧
        (∀ k, k < sdst → mem'[k]? = mem0[k]?) ∧ (∀ k, e ≤ k → mem'[k]? = buf[k]?) ∧ sdst + cnt < e
  | .err _ => v = none
  | .fault => False
  | .fuel => False

theorem Post_map (buf mem0 : Buf) (sdst : Nat) (acc m : List UInt8) (v : Option (List UInt8 × Nat)) (r : Res)
    (h : Post buf mem0 sdst (acc ++ m) v r) : Post buf mem0 sdst acc (v.map (fun x => (m ++ x.1, x.2))) r := by
  cases r with
  | ok mem' cnt e =>
    obtain ⟨tail, hv, hb, hs, hf, hg, hc⟩ := h
    exact ⟨m ++ tail, by rw [hv]; rfl, by rw [hb, List.append_assoc], hs, hf, hg, hc⟩
  | err c => simp only [Post] at h ⊢; rw [h]; rfl
  | fault => exact h
  | fuel => exact h

theorem fffd_nonempty : (codepointToUtf8 0xFFFD).isEmpty = false := by decide

theorem utf8_len_le (cp : Nat) : (codepointToUtf8 cp).length ≤ 4 := by
  unfold codepointToUtf8; repeat' split
  all_goals simp

/-- the unchecked `handle_unicode_codepoint_mut` against the checked `parse_escaped_utf8`, when every byte it may look at
    is inside the buffer -/
theorem unicodeMut_buf (lossy : Bool) (buf : Buf) (b : Nat) (hsz : b + 12 ≤ buf.size) :
    unicodeMut lossy buf b = some (match parseEscapedUtf8 lossy buf (b + 2) with
      | .error _ => none
      | .ok (cp, j) => if (codepointToUtf8 cp).isEmpty then none else some (codepointToUtf8 cp, j)) := by
  unfold unicodeMut parseEscapedUtf8
  obtain ⟨p1, hp1⟩ := hexAt_inrange buf (b + 2) (by omega)
  simp only [hp1]
  have e6 : b + 2 + 4 = b + 6 := by omega
  simp only [e6]
  by_cases hs : (0xD800 ≤ p1 && p1 < 0xDC00) = true
  · simp only [hs, if_true]
    have hin : b + 6 + 6 ≤ buf.size := by omega
    simp only [hin, if_true]
    rw [getElem?_pos buf (b + 6) (by omega)]
    simp only
    by_cases h0 : buf[b + 6]'(by omega) = 92
    · have h0' : (buf[b + 6]'(by omega) != 92) = false := by simp [h0]
      simp only [h0', Bool.false_eq_true, if_false]
      rw [getElem?_pos buf (b + 6 + 1) (by omega)]
      simp only
      by_cases h1 : buf[b + 6 + 1]'(by omega) = 117
      · have h1' : (buf[b + 6 + 1]'(by omega) != 117) = false := by simp [h1]
        simp only [h1', Bool.false_eq_true, if_false]
        obtain ⟨p2, hp2⟩ := hexAt_inrange buf (b + 6 + 2) (by omega)
        simp only [hp2, h0, h1, decide_true, Bool.and_self, if_true]
        by_cases hl : (0xDC00 ≤ p2 && p2 < 0xE000) = true
        · simp only [hl, if_true]
        · simp only [hl, Bool.false_eq_true, if_false]
          cases lossy <;> simp [fffd_nonempty]
      · have h1' : (buf[b + 6 + 1]'(by omega) != 117) = true := by simp [h1]
        simp only [h1', if_true]
        have : (decide (some (buf[b + 6]'(by omega)) = some (92 : UInt8)) && decide (some (buf[b + 6 + 1]'(by omega)) = some (117 : UInt8))) = false := by
          simp [h1]
        simp only [this, Bool.false_eq_true, if_false]
        cases lossy <;> simp [fffd_nonempty]
    · have h0' : (buf[b + 6]'(by omega) != 92) = true := by simp [h0]
      simp only [h0', if_true]
      have : (decide (some (buf[b + 6]'(by omega)) = some (92 : UInt8)) && decide (buf[b + 6 + 1]? = some (117 : UInt8))) = false := by
        simp [h0]
      simp only [this, Bool.false_eq_true, if_false]
      cases lossy <;> simp [fffd_nonempty]
  · simp only [hs, Bool.false_eq_true, if_false]
    by_cases hl : (0xDC00 ≤ p1 && p1 < 0xE000) = true
    · simp only [hl, if_true]
      cases lossy <;> simp [fffd_nonempty]
    · simp only [hl, Bool.false_eq_true, if_false]

theorem unicodeMut_congr (lossy : Bool) (m1 m2 : Buf) (b : Nat) (h : ∀ k, b ≤ k → m1[k]? = m2[k]?) :
    unicodeMut lossy m1 b = unicodeMut lossy m2 b := by
  unfold unicodeMut
  simp only
  rw [hexAt_congr m1 m2 (b + 2) (fun k hk => h k (by omega)), hexAt_congr m1 m2 (b + 6 + 2) (fun k hk => h k (by omega)),
    h (b + 6) (by omega), h (b + 6 + 1) (by omega)]

/-- where a successful `\u` escape ends and which of its bytes are hex digits -/
theorem peu_span (lossy : Bool) (buf : Buf) (s cp j : Nat) (h : parseEscapedUtf8 lossy buf s = .ok (cp, j))
    (hne : (codepointToUtf8 cp).isEmpty = false) :
    (j = s + 4 ∧ ∀ k, s ≤ k → k < s + 4 → ∃ c, buf[k]? = some c ∧ isHex c = true) ∨
    (j = s + 10 ∧ buf[s + 4]? = some 92 ∧ (∀ k, s ≤ k → k < s + 4 → ∃ c, buf[k]? = some c ∧ isHex c = true) ∧
      ∀ k, s + 6 ≤ k → k < s + 10 → ∃ c, buf[k]? = some c ∧ isHex c = true) := by
  unfold parseEscapedUtf8 at h
  cases hp1 : hexAt buf s with
  | none => simp [hp1] at h
  | some p1 =>
    simp only [hp1] at h
    by_cases hs : (0xD800 ≤ p1 && p1 < 0xDC00) = true
    · have hp1s : p1 < 0xFFFFFFFF := by
        simp only [Bool.and_eq_true, decide_eq_true_eq] at hs; omega
      have hx1 := hexAt_hex buf s p1 hp1 hp1s
      simp only [hs, if_true] at h
      by_cases hin : s + 4 + 6 ≤ buf.size
      · simp only [hin, if_true] at h
        by_cases hbu : (buf[s + 4]? = some 92 && buf[s + 4 + 1]? = some 117) = true
        · simp only [hbu, if_true] at h
          cases hp2 : hexAt buf (s + 4 + 2) with
          | none =>
            simp only [hp2] at h
            left
            cases lossy <;> simp at h
            exact ⟨h.2.symm, hx1⟩
          | some p2 =>
            simp only [hp2] at h
            by_cases hl : (0xDC00 ≤ p2 && p2 < 0xE000) = true
            · simp only [hl, if_true, Except.ok.injEq, Prod.mk.injEq] at h
              right
              have hp2s : p2 < 0xFFFFFFFF := by
                simp only [Bool.and_eq_true, decide_eq_true_eq] at hl; omega
              have hx2 := hexAt_hex buf (s + 4 + 2) p2 hp2 hp2s
              simp only [Bool.and_eq_true, decide_eq_true_eq] at hbu
              refine ⟨by omega, hbu.1, hx1, ?_⟩
              intro k h1 h2
              exact hx2 k (by omega) (by omega)
            · simp only [hl, Bool.false_eq_true, if_false] at h
              left
              cases lossy <;> simp at h
              exact ⟨h.2.symm, hx1⟩
        · simp only [hbu, Bool.false_eq_true, if_false] at h
          left
          cases lossy <;> simp at h
          exact ⟨h.2.symm, hx1⟩
      · simp only [hin, if_false] at h
        left
        cases lossy <;> simp at h
        exact ⟨h.2.symm, hx1⟩
    · simp only [hs, Bool.false_eq_true, if_false] at h
      by_cases hl : (0xDC00 ≤ p1 && p1 < 0xE000) = true
      · have hp1s : p1 < 0xFFFFFFFF := by
          simp only [Bool.and_eq_true, decide_eq_true_eq] at hl; omega
        simp only [hl, if_true] at h
        left
        cases lossy <;> simp at h
        exact ⟨h.2.symm, hexAt_hex buf s p1 hp1 hp1s⟩
      · simp only [hl, Bool.false_eq_true, if_false, Except.ok.injEq, Prod.mk.injEq] at h
        left
        have := utf8_nonempty_small cp hne
        refine ⟨h.2.symm, hexAt_hex buf s p1 hp1 (by omega)⟩

/-- four hex digits that start at or in front of the sentinel quote end in front of it -/
theorem hex_run_bound (buf : Buf) (len : Nat) (hp : Padded buf len) (s : Nat) (hs : s ≤ len + 1)
    (hx : ∀ k, s ≤ k → k < s + 4 → ∃ c, buf[k]? = some c ∧ isHex c = true) : s + 4 ≤ len + 1 := by
  apply Classical.byContradiction
  intro hc
  obtain ⟨c, hc1, hc2⟩ := hx (len + 1) hs (by omega)
  rw [hp.q] at hc1
  have : c = 34 := (Option.some.inj hc1).symm
  subst this
  exact (hex_not_pad 34 hc2).1 rfl

/-- a backslash at or in front of the sentinel quote stands inside the text -/
theorem bs_bound (buf : Buf) (len : Nat) (hp : Padded buf len) (b : Nat) (hb : buf[b]? = some 92) (hle : b ≤ len + 1) : b < len := by
  apply Classical.byContradiction
  intro hc
  have : b = len ∨ b = len + 1 := by omega
  rcases this with rfl | rfl
  · rw [hp.x0] at hb; cases hb
  · rw [hp.q] at hb; cases hb

/-- a successful `\u` escape (or pair) that starts inside the text ends inside the text -/
theorem esc_bound (lossy : Bool) (buf : Buf) (len : Nat) (hp : Padded buf len) (b cp j : Nat) (hb : b < len)
    (h : parseEscapedUtf8 lossy buf (b + 2) = .ok (cp, j)) (hne : (codepointToUtf8 cp).isEmpty = false) :
    b + 6 ≤ j ∧ j ≤ len + 1 := by
  rcases peu_span lossy buf (b + 2) cp j h hne with ⟨hj, hx⟩ | ⟨hj, h92, hx1, hx2⟩
  · have := hex_run_bound buf len hp (b + 2) (by omega) hx
    omega
  · have h1 := hex_run_bound buf len hp (b + 2) (by omega) hx1
    have h2 : b + 6 < len := bs_bound buf len hp (b + 6) (by rw [← h92]) (by omega)
    have h3 := hex_run_bound buf len hp (b + 2 + 6) (by omega) hx2
    omega

theorem tab_zero_iff (e : UInt8) : ((escapedTab[e.toNat]?.getD 0) == 0) = !(escapedTab[e.toNat]?.getD 0 != 0) := by
  cases h : (escapedTab[e.toNat]?.getD 0 == 0) <;> simp [bne, h]

/-- **the escape loop and the find-and-move loop on a padded buffer** -/
theorem loops_spec (lossy : Bool) (buf mem0 : Buf) (len sdst : Nat) (hp : Padded buf len) : ∀ f,
    (∀ mem b dst, Inv buf mem0 mem sdst b dst → buf[b]? = some 92 → b ≤ len + 1 → 2 * (len + 2 - b) + 1 ≤ f →
        Post buf mem0 sdst (bytes mem sdst dst) (decodeFrom lossy buf b).view (esc lossy f mem sdst b dst)) ∧
    (∀ mem src dst, Inv buf mem0 mem sdst src dst → src ≤ len + 1 → 2 * (len + 2 - src) + 2 ≤ f →
        Post buf mem0 sdst (bytes mem sdst dst) (decodeFrom lossy buf src).view (mv lossy f mem sdst src dst)) := by
  intro f
  induction f with
  | zero =>
    refine ⟨?_, ?_⟩
    · intro mem b dst _ _ _ hf; omega
    · intro mem src dst _ _ hf; omega
  | succ f ih =>
    obtain ⟨ihE, ihM⟩ := ih
    -- what follows an escape: again an escape, or the find-and-move loop
    have cont : ∀ mem' s d, Inv buf mem0 mem' sdst s d → s ≤ len + 1 → 2 * (len + 2 - s) + 2 ≤ f →
        Post buf mem0 sdst (bytes mem' sdst d) (decodeFrom lossy buf s).view
          (match mem'[s]? with
           | none => Res.fault
           | some c => if c == 92 then esc lossy f mem' sdst s d else mv lossy f mem' sdst s d) := by
      intro mem' s d hinv hs hf
      have hlt : s < buf.size := by rw [hp.size]; omega
      rw [hinv.ag s (Nat.le_refl _), getElem?_pos buf s hlt]
      simp only
      by_cases hc : (buf[s] == 92) = true
      · simp only [hc, if_true]
        have : buf[s]? = some 92 := by
          rw [getElem?_pos buf s hlt]; simp only [beq_iff_eq] at hc; rw [hc]
        exact ihE mem' s d hinv this hs (by omega)
      · simp only [hc, Bool.false_eq_true, if_false]
        exact ihM mem' s d hinv hs hf
    refine ⟨?_, ?_⟩
    · -- the escape loop
      intro mem b dst hinv hb hble hf
      have hbl : b < len := bs_bound buf len hp b hb hble
      have hsz := hp.size
      rw [view_bs lossy buf b hb]
      unfold esc
      rw [hinv.ag (b + 1) (by omega), getElem?_pos buf (b + 1) (by omega)]
      simp only
      by_cases hu : (buf[b + 1] == 117) = true
      · simp only [hu, if_true]
        rw [unicodeMut_congr lossy mem buf b hinv.ag, unicodeMut_buf lossy buf b (by omega)]
        cases hpe : parseEscapedUtf8 lossy buf (b + 2) with
        | error x => simp only [Post]
        | ok r =>
          obtain ⟨cp, j⟩ := r
          simp only
          by_cases hem : (codepointToUtf8 cp).isEmpty = true
          · simp only [hem, if_true, Post]
          · have hem' : (codepointToUtf8 cp).isEmpty = false := by simpa using hem
            simp only [hem, Bool.false_eq_true, if_false]
            obtain ⟨hj1, hj2⟩ := esc_bound lossy buf len hp b cp j hbl hpe hem'
            have hl4 := utf8_len_le cp
            have hdl : dst + (codepointToUtf8 cp).length ≤ mem.size := by
              have := hinv.hi; rw [hinv.size]; omega
            simp only [hdl, if_true]
            have hinv' : Inv buf mem0 (wr mem dst (codepointToUtf8 cp)) sdst j (dst + (codepointToUtf8 cp).length) := by
              refine ⟨by rw [wr_size]; exact hinv.size, by have := hinv.lo; omega, by have := hinv.hi; omega, ?_, ?_⟩
              · intro k hk
                rw [wr_out _ mem dst k (Or.inr (by have := hinv.hi; omega))]
                exact hinv.ag k (by omega)
              · intro k hk
                rw [wr_out _ mem dst k (Or.inl (by have := hinv.lo; omega))]
                exact hinv.pre k hk
            have := cont _ j _ hinv' hj2 (by omega)
            rw [wr_acc mem sdst dst _ hinv.lo hdl] at this
            exact Post_map buf mem0 sdst _ _ _ _ this
      · simp only [hu, Bool.false_eq_true, if_false]
        have hd : dst < mem.size := by have := hinv.hi; rw [hinv.size]; omega
        simp only [hd, if_true]
        generalize escapedTab[buf[b + 1].toNat]?.getD 0 = t
        by_cases ht : (t != 0) = true
        · have ht0 : (t == 0) = false := by
            cases h0 : (t == 0) with
            | false => rfl
            | true => simp [bne, h0] at ht
          simp only [ht, ht0, Bool.false_eq_true, if_false, if_true]
          have hwr : mem.setIfInBounds dst t = wr mem dst [t] := rfl
          have hdl : dst + [t].length ≤ mem.size := by simp; omega
          have hinv' : Inv buf mem0 (wr mem dst [t]) sdst (b + 2) (dst + 1) := by
            refine ⟨by rw [wr_size]; exact hinv.size, by have := hinv.lo; omega, by have := hinv.hi; omega, ?_, ?_⟩
            · intro k hk
              rw [wr_out _ mem dst k (Or.inr (by have := hinv.hi; simp; omega))]
              exact hinv.ag k (by omega)
            · intro k hk
              rw [wr_out _ mem dst k (Or.inl (by have := hinv.lo; omega))]
              exact hinv.pre k hk
          rw [hwr]
          have := cont _ (b + 2) _ hinv' (by omega) (by omega)
          have hacc := wr_acc mem sdst dst [t] hinv.lo hdl
          simp only [List.length_cons, List.length_nil, Nat.zero_add] at hacc
          rw [hacc] at this
          exact Post_map buf mem0 sdst _ _ _ _ this
        · have ht0 : (t == 0) = true := by
            cases h0 : (t == 0) with
            | true => rfl
            | false => simp [bne, h0] at ht
          simp only [ht, ht0, Bool.false_eq_true, if_false, if_true, Post]
    · -- the find-and-move loop
      intro mem src dst hinv hsl hf
      have hsz := hp.size
      have h32 : src + 32 ≤ buf.size := by omega
      unfold mv
      have h32m : src + 32 ≤ mem.size := by rw [hinv.size]; exact h32
      simp only [h32m, if_true]
      rw [findP_congr (· == 34) mem buf hinv.size 32 src (src + 32) (by omega) hinv.ag,
        findP_congr (· == 92) mem buf hinv.size 32 src (src + 32) (by omega) hinv.ag,
        findP_congr isCtl mem buf hinv.size 32 src (src + 32) (by omega) hinv.ag]
      obtain ⟨bv1, bv2, bv3, bv4⟩ := block_view lossy buf src h32
      obtain ⟨q1, q2, q3, q4⟩ := findP_spec (· == 34) buf 32 src (src + 32) (by omega) (by omega) h32
      obtain ⟨b1, b2, b3, b4⟩ := findP_spec (· == 92) buf 32 src (src + 32) (by omega) (by omega) h32
      generalize findP (· == 34) buf src (src + 32) = q at *
      generalize findP (· == 92) buf src (src + 32) = b at *
      generalize findP isCtl buf src (src + 32) = u at *
      -- nothing in front of the first quote of the block stands behind the text
      have hqb : ∀ x, src ≤ x → x < q → x ≤ len := by
        intro x hx1 hx2
        apply Classical.byContradiction
        intro hc
        obtain ⟨c, hc1, hc2⟩ := q3 (len + 1) hsl (by omega)
        rw [hp.q] at hc1
        have : c = 34 := (Option.some.inj hc1).symm
        subst this
        simp at hc2
      by_cases hqf : q < b ∧ ¬ (u < q)
      · -- the closing quote comes first
        simp only [hqf, not_false_eq_true, and_self, if_true]
        have hql : q < src + 32 := by omega
        obtain ⟨cq, hcq1, hcq2⟩ := q4 hql
        have hcq : cq = 34 := by simpa using hcq2
        subst hcq
        obtain ⟨mem', hcw, hms, hfr, hby⟩ := copyWhile_spec 34 (q - src) 33 mem src dst q rfl (by omega) q1 hinv.hi
          (by rw [hinv.size]; omega)
          (fun k hk1 hk2 => by rw [hinv.ag k hk1]; exact q3 k hk1 hk2)
          (by rw [hinv.ag q q1]; exact hcq1)
        rw [hcw]
        simp only [Post]
        refine ⟨bytes buf src q, bv2 hqf.2 hqf.1, ?_, by rw [hms]; exact hinv.size, ?_, ?_, by have := hinv.lo; have := hinv.hi; omega⟩
        · have hlo := hinv.lo
          have hhi := hinv.hi
          rw [show sdst + (dst + (q - src) - sdst) = dst + (q - src) by omega,
            bytes_append mem' sdst dst _ hlo (by omega) (by rw [hms, hinv.size]; omega), hby]
          congr 1
          · exact bytes_ext _ _ _ _ (fun k _ hk => hfr k (Or.inl hk))
          · exact bytes_ext _ _ _ _ (fun k hk _ => hinv.ag k hk)
        · intro k hk
          have hlo := hinv.lo
          rw [hfr k (Or.inl (by omega))]; exact hinv.pre k hk
        · intro k hk
          have hhi := hinv.hi
          rw [hfr k (Or.inr (by omega))]; exact hinv.ag k (by omega)
      · simp only [hqf, if_false]
        by_cases huq : u < q
        · simp only [huq, if_true, Post]
          exact bv1 huq
        · simp only [huq, if_false]
          have hnq : ¬ q < b := fun h => hqf ⟨h, huq⟩
          by_cases hbq : b < q
          · -- a backslash comes first: copy up to it, then the escape loop
            simp only [hbq, not_true_eq_false, if_false]
            obtain ⟨hb92, hsb, hview⟩ := bv3 huq hbq
            have hble : b ≤ len := hqb b hsb hbq
            obtain ⟨mem', hcw, hms, hfr, hby⟩ := copyWhile_spec 92 (b - src) 33 mem src dst b rfl (by omega) hsb hinv.hi
              (by rw [hinv.size]; omega)
              (fun k hk1 hk2 => by rw [hinv.ag k hk1]; exact b3 k hk1 hk2)
              (by rw [hinv.ag b hsb]; exact hb92)
            rw [hcw]
            simp only
            have hlo := hinv.lo
            have hhi := hinv.hi
            have hinv' : Inv buf mem0 mem' sdst b (dst + (b - src)) := by
              refine ⟨by rw [hms]; exact hinv.size, by omega, by omega, ?_, ?_⟩
              · intro k hk
                rw [hfr k (Or.inr (by omega))]; exact hinv.ag k (by omega)
              · intro k hk
                rw [hfr k (Or.inl (by omega))]; exact hinv.pre k hk
            have := ihE mem' b _ hinv' hb92 (by omega) (by omega)
            have hacc : bytes mem' sdst (dst + (b - src)) = bytes mem sdst dst ++ bytes buf src b := by
              rw [bytes_append mem' sdst dst _ hlo (by omega) (by rw [hms, hinv.size]; omega), hby]
              congr 1
              · exact bytes_ext _ _ _ _ (fun k _ hk => hfr k (Or.inl hk))
              · exact bytes_ext _ _ _ _ (fun k hk _ => hinv.ag k hk)
            rw [hacc] at this
            rw [hview]
            exact Post_map buf mem0 sdst _ _ _ _ this
          · -- neither in this block: 32 bytes are stored at `dst`
            simp only [hbq, not_false_eq_true, if_true]
            have hview := bv4 huq hnq hbq
            have hlo := hinv.lo
            have hhi := hinv.hi
            -- the block holds no quote: it ends in front of the sentinel
            have hq32 : q = src + 32 := by
              apply Classical.byContradiction
              intro hc
              have hql : q < src + 32 := by omega
              have hbe : b = q := by omega
              obtain ⟨c1, hc1, hc1'⟩ := q4 hql
              obtain ⟨c2, hc2, hc2'⟩ := b4 (by omega)
              rw [hbe, hc1] at hc2
              have : c1 = c2 := Option.some.inj hc2
              subst this
              have e1 : c1 = 34 := by simpa using hc1'
              have e2 : c1 = 92 := by simpa using hc2'
              rw [e1] at e2; cases e2
            have hs32 : src + 32 ≤ len + 1 := by
              have := hqb (src + 31) (by omega) (by omega); omega
            have hd32 : dst + 32 ≤ mem.size := by omega
            simp only [hd32, if_true]
            rw [bytes_ext mem buf src (src + 32) (fun k hk _ => hinv.ag k hk)]
            have hlen : (bytes buf src (src + 32)).length = 32 := by
              rw [bytes_length buf src (src + 32) (by omega) h32]; omega
            have hinv' : Inv buf mem0 (wr mem dst (bytes buf src (src + 32))) sdst (src + 32) (dst + 32) := by
              refine ⟨by rw [wr_size]; exact hinv.size, by omega, by omega, ?_, ?_⟩
              · intro k hk
                rw [wr_out _ mem dst k (Or.inr (by rw [hlen]; omega))]; exact hinv.ag k (by omega)
              · intro k hk
                rw [wr_out _ mem dst k (Or.inl (by omega))]; exact hinv.pre k hk
            have := ihM _ (src + 32) (dst + 32) hinv' hs32 (by omega)
            have hacc := wr_acc mem sdst dst (bytes buf src (src + 32)) hlo (by rw [hlen]; exact hd32)
            rw [hlen] at hacc
            rw [hacc] at this
            rw [hview]
            exact Post_map buf mem0 sdst _ _ _ _ this

/-- **the first loop (nothing written yet) on a padded buffer**; `mem0` = the buffer as earlier decoder runs left it: the same
    size as the padded text `buf` and equal to it from the start of this literal on -/
theorem scan_spec (lossy : Bool) (buf mem0 : Buf) (len sdst : Nat) (hp : Padded buf len) (h0 : mem0.size = buf.size)
    (hag : ∀ k, sdst ≤ k → mem0[k]? = buf[k]?) : ∀ f src, sdst ≤ src → src ≤ len + 1 →
    2 * (len + 2 - src) + 3 ≤ f →
    Post buf mem0 sdst (bytes buf sdst src) (decodeFrom lossy buf src).view (scan lossy f mem0 sdst src) := by
  intro f
  induction f with
  | zero => intro src _ _ hf; omega
  | succ f ih =>
    intro src hss hsl hf
    have hsz := hp.size
    have h32 : src + 32 ≤ buf.size := by omega
    unfold scan
    have h32m : src + 32 ≤ mem0.size := by rw [h0]; exact h32
    simp only [h32m, if_true]
    have hag' : ∀ k, src ≤ k → mem0[k]? = buf[k]? := fun k hk => hag k (by omega)
    rw [findP_congr (· == 34) mem0 buf h0 32 src (src + 32) (by omega) hag',
      findP_congr (· == 92) mem0 buf h0 32 src (src + 32) (by omega) hag',
      findP_congr isCtl mem0 buf h0 32 src (src + 32) (by omega) hag']
    obtain ⟨bv1, bv2, bv3, bv4⟩ := block_view lossy buf src h32
    obtain ⟨q1, q2, q3, q4⟩ := findP_spec (· == 34) buf 32 src (src + 32) (by omega) (by omega) h32
    obtain ⟨b1, b2, b3, b4⟩ := findP_spec (· == 92) buf 32 src (src + 32) (by omega) (by omega) h32
    generalize findP (· == 34) buf src (src + 32) = q at *
    generalize findP (· == 92) buf src (src + 32) = b at *
    generalize findP isCtl buf src (src + 32) = u at *
    have hqb : ∀ x, src ≤ x → x < q → x ≤ len := by
      intro x hx1 hx2
      apply Classical.byContradiction
      intro hc
      obtain ⟨c, hc1, hc2⟩ := q3 (len + 1) hsl (by omega)
      rw [hp.q] at hc1
      have : c = 34 := (Option.some.inj hc1).symm
      subst this
      simp at hc2
    by_cases hqf : q < b ∧ ¬ (u < q)
    · simp only [hqf, not_false_eq_true, and_self, if_true, Post]
      refine ⟨bytes buf src q, bv2 hqf.2 hqf.1, ?_, h0, fun _ _ => trivial, fun k hk => hag k (by omega), by omega⟩
      rw [show sdst + (q - sdst) = q by omega, bytes_ext mem0 buf sdst q (fun k hk _ => hag k hk)]
      exact bytes_append buf sdst src q hss q1 (by omega)
    · simp only [hqf, if_false]
      by_cases huq : u < q
      · simp only [huq, if_true, Post]
        exact bv1 huq
      · simp only [huq, if_false]
        have hnq : ¬ q < b := fun h => hqf ⟨h, huq⟩
        by_cases hbq : b < q
        · simp only [hbq, if_true]
          obtain ⟨hb92, hsb, hview⟩ := bv3 huq hbq
          have hble : b ≤ len := hqb b hsb hbq
          have hinv : Inv buf mem0 mem0 sdst b b := ⟨h0, by omega, Nat.le_refl _, fun k hk => hag k (by omega), fun _ _ => rfl⟩
          have := (loops_spec lossy buf mem0 len sdst hp f).1 mem0 b b hinv hb92 (by omega) (by omega)
          rw [bytes_ext mem0 buf sdst b (fun k hk _ => hag k hk), bytes_append buf sdst src b hss hsb (by omega)] at this
          rw [hview]
          exact Post_map buf mem0 sdst _ _ _ _ this
        · simp only [hbq, if_false]
          have hview := bv4 huq hnq hbq
          have hq32 : q = src + 32 := by
            apply Classical.byContradiction
            intro hc
            have hql : q < src + 32 := by omega
            have hbe : b = q := by omega
            obtain ⟨c1, hc1, hc1'⟩ := q4 hql
            obtain ⟨c2, hc2, hc2'⟩ := b4 (by omega)
            rw [hbe, hc1] at hc2
            have : c1 = c2 := Option.some.inj hc2
            subst this
            have e1 : c1 = 34 := by simpa using hc1'
            have e2 : c1 = 92 := by simpa using hc2'
            rw [e1] at e2; cases e2
          have hs32 : src + 32 ≤ len + 1 := by
            have := hqb (src + 31) (by omega) (by omega); omega
          have := ih (src + 32) (by omega) hs32 (by omega)
          rw [bytes_append buf sdst src (src + 32) hss (by omega) h32] at this
          rw [hview]
          exact Post_map buf mem0 sdst _ _ _ _ this

theorem padTail_size : padTail.size = 64 := by decide
theorem padTail_0 : padTail[0]? = some 120 := by decide
theorem padTail_1 : padTail[1]? = some 34 := by decide

theorem padded_pad (t : Buf) : Padded (pad t) t.size := by
  have hpad : pad t = t ++ padTail := rfl
  refine ⟨?_, ?_, ?_⟩
  · rw [hpad, Array.size_append, padTail_size]
  · rw [hpad, Array.getElem?_append_right (Nat.le_refl _), Nat.sub_self]; exact padTail_0
  · rw [hpad, Array.getElem?_append_right (by omega), show t.size + 1 - t.size = 1 by omega]; exact padTail_1

/-- **`parse_string_inplace` on the padded copy of a text, after any earlier decoder runs**: `mem0` is ANY buffer of the size
    of the padded copy that equals it from `i` on — as the buffer is when the literals in front of `i` have been decoded in
    place.  No load or store outside the buffer, termination, and — against the specification's reading of the ORIGINAL
    padded text — the decoded bytes, the end of the literal, nothing changed in front of the literal, and the original text
    from the reader's final position on -/
theorem run_spec_mem (lossy : Bool) (t mem0 : Buf) (i : Nat) (hi : i ≤ t.size) (h0 : mem0.size = (pad t).size)
    (hag : ∀ k, i ≤ k → mem0[k]? = (pad t)[k]?) :
    Post (pad t) mem0 i [] (Spec.stringS lossy (pad t) i) (run lossy mem0 i) := by
  have hp := padded_pad t
  generalize pad t = buf at hp h0 hag ⊢
  unfold run
  have := scan_spec lossy buf mem0 t.size i hp h0 hag (3 * mem0.size + 8) i (Nat.le_refl _) (by omega) (by rw [h0, hp.size]; omega)
  rw [bytes_self, decode_correct] at this
  exact this

/-- … in particular on the padded copy itself -/
theorem run_spec (lossy : Bool) (t : Buf) (i : Nat) (hi : i ≤ t.size) :
    Post (pad t) (pad t) i [] (Spec.stringS lossy (pad t) i) (run lossy (pad t) i) :=
  run_spec_mem lossy t (pad t) i hi rfl (fun _ _ => rfl)

/-- `Post` spelled out for a whole literal (`acc = []`) -/
theorem Post_unpack (buf mem0 : Buf) (i : Nat) (v : Option (List UInt8 × Nat)) (r : Res) : Post buf mem0 i [] v r →
    match r with
    | .ok mem cnt e =>
      ∃ bs, v = some (bs, e) ∧ bytes mem i (i + cnt) = bs ∧ mem.size = buf.size ∧
        (∀ k, k < i → mem[k]? = mem0[k]?) ∧ (∀ k, e ≤ k → mem[k]? = buf[k]?) ∧ i + cnt < e
    | .err _ => v = none
    | .fault => False
    | .fuel => False := by
  intro h
  cases r with
  | ok mem cnt e =>
    obtain ⟨tail, h1, h2, h3, h4, h5, h6⟩ := h
    exact ⟨tail, h1, by simpa using h2, h3, h4, h5, h6⟩
  | err c => exact h
  | fault => exact h
  | fuel => exact h

/-- string literals of the padded text, one after the other: each starts inside the text, at or behind the end of the one
    before, and is decodable; with the decodings -/
inductive Chain (lossy : Bool) (t : Buf) : Nat → List Nat → List (List UInt8 × Nat) → Prop
  | nil (lb : Nat) : Chain lossy t lb [] []
  | cons (lb i : Nat) (bs : List UInt8) (e : Nat) (rest : List Nat) (ds : List (List UInt8 × Nat)) :
      lb ≤ i → i ≤ t.size → Spec.stringS lossy (pad t) i = some (bs, e) → Chain lossy t e rest ds →
      Chain lossy t lb (i :: rest) ((bs, e) :: ds)

/-- **all literals of a document decoded in place, in one buffer**: whatever chain of literals of the padded text is decoded
    in order — every run working on what the runs before it have left — each run terminates without an access outside the
    buffer and reports the length and the end the specification gives for that literal in the ORIGINAL text, and when all
    are done every literal's decoding stands at its place in the final buffer (later runs have not disturbed earlier
    results), while everything in front of the first literal's lower bound is as it was -/
theorem runMany_spec (lossy : Bool) (t : Buf) : ∀ (is : List Nat) (ds : List (List UInt8 × Nat)) (lb : Nat) (mem0 : Buf),
    Chain lossy t lb is ds → mem0.size = (pad t).size → (∀ k, lb ≤ k → mem0[k]? = (pad t)[k]?) →
    ∃ memF, runMany lossy mem0 is = some (memF, ds.map (fun d => (d.1.length, d.2))) ∧ memF.size = (pad t).size ∧
      (∀ k, k < lb → memF[k]? = mem0[k]?) ∧
      (∀ n (hn : n < is.length) (hd : n < ds.length), bytes memF is[n] (is[n] + ds[n].1.length) = ds[n].1) := by
  intro is
  induction is with
  | nil =>
    intro ds lb mem0 hc h0 _
    cases hc
    exact ⟨mem0, rfl, h0, fun _ _ => rfl, fun n hn _ => by simp at hn⟩
  | cons i rest ih =>
    intro ds lb mem0 hc h0 hag
    cases hc with
    | cons _ _ bs e _ ds' hlb hi hs hrest =>
      have hrun := Post_unpack (pad t) mem0 i _ _ (run_spec_mem lossy t mem0 i hi h0 (fun k hk => hag k (by omega)))
      rw [hs] at hrun
      cases hr : run lossy mem0 i with
      | err c => rw [hr] at hrun; cases hrun
      | fault => rw [hr] at hrun; exact hrun.elim
      | fuel => rw [hr] at hrun; exact hrun.elim
      | ok mem1 cnt e1 =>
        rw [hr] at hrun
        obtain ⟨bs1, h1, h2, h3, h4, h5, h6⟩ := hrun
        simp only [Option.some.injEq, Prod.mk.injEq] at h1
        obtain ⟨hb, he⟩ := h1
        subst hb; subst he
        obtain ⟨memF, hm1, hm2, hm3, hm4⟩ := ih ds' e mem1 hrest h3 h5
        have hele : e ≤ (pad t).size := Spec.stringS_le lossy (pad t) i (bs, e) hs
        have hcnt : cnt = bs.length := by
          have := congrArg List.length h2
          rw [bytes_length mem1 i (i + cnt) (by omega) (by rw [h3]; omega)] at this
          omega
        refine ⟨memF, ?_, hm2, ?_, ?_⟩
        · simp only [runMany, hr, hm1, Option.map_some, List.map_cons, hcnt]
        · intro k hk
          rw [hm3 k (by omega)]
          exact h4 k (by omega)
        · intro n hn hd
          cases n with
          | zero =>
            simp only [List.getElem_cons_zero]
            rw [← hcnt, ← h2]
            exact bytes_ext _ _ _ _ (fun k _ hk2 => hm3 k (by omega))
          | succ n =>
            simp only [List.getElem_cons_succ]
            exact hm4 n (by simpa using hn) (by simpa using hd)

/-- what the specification reads in the padded copy, in terms of the text itself -/
theorem stringS_pad (lossy : Bool) (t : Buf) (i : Nat) :
    (∀ bs e, Spec.stringS lossy (pad t) i = some (bs, e) → e ≤ t.size → Spec.stringS lossy t i = some (bs, e)) ∧
    (∀ bs e, Spec.stringS lossy (pad t) i = some (bs, e) → t.size < e → Spec.stringS lossy t i = none) ∧
    (Spec.stringS lossy (pad t) i = none → Spec.stringS lossy t i = none) := by
  have hpad : pad t = t ++ padTail := rfl
  rw [hpad]
  refine ⟨?_, ?_, ?_⟩
  · intro bs e h he
    exact StrPad.stringS_prefix lossy t padTail _ i (bs, e) rfl h he
  · intro bs e h he
    cases hs : Spec.stringS lossy t i with
    | none => rfl
    | some r =>
      have := StrPad.stringS_extend lossy t padTail _ i r rfl hs
      rw [h] at this
      have hr : r = (bs, e) := (Option.some.inj this).symm
      have := Spec.stringS_le lossy t i r hs
      rw [hr] at this
      simp only at this
      omega
  · intro h
    cases hs : Spec.stringS lossy t i with
    | none => rfl
    | some r =>
      have := StrPad.stringS_extend lossy t padTail _ i r rfl hs
      rw [h] at this
      cases this

end StrIn
end Sonic
