import SonicModel.Impl.Space
namespace Sonic
namespace Space
open Simd

/-! ### masks of lane predicates as numbers -/

theorem maskOf_append (p : UInt8 → Bool) : ∀ (a b : List UInt8), maskOf p (a ++ b) = maskOf p a + 2 ^ a.length * maskOf p b := by
  intro a
  induction a with
  | nil => intro b; simp [maskOf]
  | cons x r ih =>
    intro b
    simp only [List.cons_append, maskOf, ih, List.length_cons, Nat.pow_succ]
    rw [Nat.mul_add]; ac_rfl

theorem maskOf_lt (p : UInt8 → Bool) : ∀ (a : List UInt8), maskOf p a < 2 ^ a.length := by
  intro a
  induction a with
  | nil => simp [maskOf]
  | cons x r ih =>
    simp only [maskOf, List.length_cons, Nat.pow_succ]
    split <;> omega

theorem maskOf_zero (p : UInt8 → Bool) : ∀ (a : List UInt8), maskOf p a = 0 ↔ ∀ b ∈ a, p b = false := by
  intro a
  induction a with
  | nil => simp [maskOf]
  | cons x r ih =>
    simp only [maskOf, List.mem_cons, forall_eq_or_imp]
    constructor
    · intro h
      have h1 : (if p x = true then 1 else 0) = 0 := by omega
      have h2 : maskOf p r = 0 := by omega
      refine ⟨?_, ih.mp h2⟩
      cases hp : p x with
      | false => rfl
      | true => simp [hp] at h1
    · intro ⟨h1, h2⟩
      simp [h1, ih.mpr h2]

/-- `trailing_zeros` of a lane mask is the index of the first lane that satisfies the predicate -/
theorem tz_maskOf (p : UInt8 → Bool) : ∀ (a : List UInt8) (n : Nat), maskOf p a ≠ 0 → a.length ≤ n →
    tzF n (maskOf p a) = a.findIdx p := by
  intro a
  induction a with
  | nil => intro n h; simp [maskOf] at h
  | cons x r ih =>
    intro n h hn
    cases n with
    | zero => simp at hn
    | succ n =>
      simp only [maskOf] at h ⊢
      rw [tzF, List.findIdx_cons]
      cases hp : p x with
      | true =>
        have : (1 + 2 * maskOf p r) % 2 = 1 := by omega
        simp [hp, this]
      | false =>
        simp only [hp, Bool.false_eq_true, if_false, Nat.zero_add] at h ⊢
        have h0 : (2 * maskOf p r) % 2 ≠ 1 := by omega
        simp only [h0, if_false]
        have : 2 * maskOf p r / 2 = maskOf p r := by omega
        rw [this, ih n (by omega) (by simpa using hn)]
        simp [Nat.add_comm]

theorem tz_shift : ∀ (k n x : Nat), x ≠ 0 → tzF (k + n) (2 ^ k * x) = k + tzF n x := by
  intro k
  induction k with
  | zero => intro n x _; simp
  | succ k ih =>
    intro n x hx
    have e : k + 1 + n = (k + n) + 1 := by omega
    rw [e, tzF]
    have e2 : 2 ^ (k + 1) * x = 2 * (2 ^ k * x) := by rw [Nat.pow_succ]; ac_rfl
    have h0 : (2 ^ (k + 1) * x) % 2 ≠ 1 := by rw [e2]; omega
    have h1 : 2 ^ (k + 1) * x / 2 = 2 ^ k * x := by rw [e2]; omega
    simp only [h0, if_false, h1, ih n x hx]
    omega


def nonWs (b : UInt8) : Bool := !isWs b

theorem drop_cons_get (buf : Buf) (i : Nat) (h : i < buf.size) : buf.toList.drop i = buf[i] :: buf.toList.drop (i + 1) := by
  rw [List.drop_eq_getElem_cons (by simpa using h)]
  simp

/-- the first non-blank lane of a stretch of `n` bytes against the bytewise scan -/
theorem skipWs_take (buf : Buf) : ∀ (n i : Nat), i + n ≤ buf.size →
    (((buf.toList.drop i).take n).findIdx nonWs < n → skipWs buf i = i + ((buf.toList.drop i).take n).findIdx nonWs) ∧
    (((buf.toList.drop i).take n).findIdx nonWs = n → skipWs buf i = skipWs buf (i + n)) := by
  intro n
  induction n with
  | zero => intro i _; simp
  | succ n ih =>
    intro i hsz
    have hi : i < buf.size := by omega
    rw [drop_cons_get buf i hi, List.take_succ_cons, List.findIdx_cons]
    obtain ⟨ih1, ih2⟩ := ih (i + 1) (by omega)
    cases hw : nonWs buf[i] with
    | true =>
      simp only [cond_true]
      have hnw : isWs buf[i] = false := by simpa [nonWs] using hw
      refine ⟨fun _ => by rw [skipWs_fix buf i hi hnw]; rfl, fun h => by omega⟩
    | false =>
      simp only [cond_false]
      have hws : isWs buf[i] = true := by simpa [nonWs] using hw
      have hstep : skipWs buf i = skipWs buf (i + 1) := by
        conv => lhs; rw [skipWs]
        simp [hi, hws]
      refine ⟨fun h => ?_, fun h => ?_⟩
      · rw [hstep, ih1 (by omega)]; omega
      · rw [hstep, ih2 (by omega)]; congr 1; omega

theorem window_length (buf : Buf) (i : Nat) (h : i + 64 ≤ buf.size) : (window buf i).length = 64 := by
  simp [window]; omega

theorem window_drop (buf : Buf) (s off : Nat) (h : off ≤ 64) :
    (window buf s).drop off = (buf.toList.drop (s + off)).take (64 - off) := by
  unfold window
  rw [List.drop_take, List.drop_drop]

theorem bytewise_congr (buf : Buf) (i j : Nat) (h : skipWs buf i = skipWs buf j) : bytewise buf i = bytewise buf j := by
  unfold bytewise; rw [h]

theorem bytewise_at (buf : Buf) (i d : Nat) (h : skipWs buf i = i + d) (hlt : i + d < buf.size) :
    bytewise buf i = (some buf[i + d], i + d + 1) := by
  unfold bytewise; rw [h]; simp [hlt]


/-- the cache is right for a reader standing at `pos` (or further on): either nothing is cached yet, or the cached bitmap is
    the whitespace bitmap of the 64 bytes at `start`, a window inside the input that begins at or before `pos` -/
def InvP (buf : Buf) (bits : Nat) (start : Int) (pos : Nat) : Prop :=
  (start = -128 ∧ bits = 0) ∨ ∃ s : Nat, start = (s : Int) ∧ s + 64 ≤ buf.size ∧ s ≤ pos ∧ bits = nsBits buf s

theorem InvP.mono {buf : Buf} {bits : Nat} {start : Int} {p q : Nat} (h : InvP buf bits start p) (hpq : p ≤ q) :
    InvP buf bits start q := by
  rcases h with h | ⟨s, h1, h2, h3, h4⟩
  · exact Or.inl h
  · exact Or.inr ⟨s, h1, h2, by omega, h4⟩

/-- what a call has to deliver: the bytewise answer, and a cache that is right at the byte it found -/
def Post (buf : Buf) (i : Nat) (r : Option UInt8 × St) : Prop :=
  r.1 = (bytewise buf i).1 ∧ r.2.idx = (bytewise buf i).2 ∧ InvP buf r.2.bits r.2.start (skipWs buf i)

theorem post_congr (buf : Buf) (i j : Nat) (r : Option UInt8 × St) (h : skipWs buf i = skipWs buf j) (hp : Post buf j r) :
    Post buf i r := by
  unfold Post at *
  rw [bytewise_congr buf i j h, h]; exact hp

theorem blocks_spec (buf : Buf) : ∀ (f i : Nat),
    match blocks buf f i with
    | .inl (some (c, j, bm, s)) => s + 64 ≤ buf.size ∧ bm = nsBits buf s ∧ s ≤ skipWs buf i ∧ bytewise buf i = (some c, j)
    | .inl none => False
    | .inr i' => skipWs buf i = skipWs buf i' := by
  intro f
  induction f with
  | zero => intro i; simp [blocks]
  | succ f ih =>
    intro i
    rw [blocks]
    by_cases hblk : i + 64 ≤ buf.size
    · simp only [hblk, if_true]
      have hw := window_length buf i hblk
      obtain ⟨t1, t2⟩ := skipWs_take buf 64 i hblk
      have hwin : (buf.toList.drop i).take 64 = window buf i := rfl
      rw [hwin] at t1 t2
      by_cases hbm : nsBits buf i ≠ 0
      · simp only [hbm, ne_eq, not_false_eq_true, if_true]
        have htz := tz_maskOf (fun b => !isWs b) (window buf i) 64 hbm (by omega)
        have hlt : (window buf i).findIdx nonWs < 64 := by
          have : ∃ b ∈ window buf i, nonWs b = true := by
            apply Classical.byContradiction; intro hne
            apply hbm
            unfold nsBits
            rw [maskOf_zero]
            intro b hb
            cases hx : (!isWs b) with
            | false => rfl
            | true => exact absurd ⟨b, hb, by simpa [nonWs] using hx⟩ hne
          have := List.findIdx_lt_length_of_exists this
          omega
        have hsk := t1 hlt
        unfold nsBits at htz ⊢
        have hfi : List.findIdx (fun b => !isWs b) (window buf i) = List.findIdx nonWs (window buf i) := rfl
        rw [htz, hfi]
        refine ⟨hblk, trivial, by omega, ?_⟩
        rw [bytewise_at buf i _ hsk (by omega)]
        simp [show i + List.findIdx nonWs (window buf i) < buf.size by omega]
      · have hbm0 : nsBits buf i = 0 := by simpa using hbm
        simp only [hbm0, ne_eq, not_true_eq_false, if_false]
        have hall : (window buf i).findIdx nonWs = 64 := by
          unfold nsBits at hbm0
          rw [maskOf_zero] at hbm0
          have : ∀ b ∈ window buf i, nonWs b = false := by
            intro b hb; have := hbm0 b hb; simpa [nonWs] using this
          rw [List.findIdx_eq_length_of_false this, hw]
        have hsk := t2 hall
        have := ih (i + 64)
        cases hb : blocks buf f (i + 64) with
        | inl x =>
          rw [hb] at this
          cases x with
          | none => exact this
          | some q =>
            obtain ⟨c, j, bm, s⟩ := q
            simp only at this ⊢
            obtain ⟨a1, a2, a3, a4⟩ := this
            exact ⟨a1, a2, by rw [hsk]; exact a3, by rw [bytewise_congr buf i (i + 64) hsk]; exact a4⟩
        | inr i' =>
          rw [hb] at this
          simp only at this ⊢
          rw [hsk]; exact this
    · simp only [hblk, if_false]


theorem skipWs_ge' (buf : Buf) (i : Nat) : i ≤ skipWs buf i := skipWs_ge buf i

/-- the block loop and the bytewise tail, from a state whose cache is right -/
theorem tail_spec (buf : Buf) (F : Nat) (stc : St) (h : InvP buf stc.bits stc.start stc.idx) :
    Post buf stc.idx
      (match blocks buf F stc.idx with
       | .inl (some (c, j, bm, s)) => (some c, { idx := j, bits := bm, start := (s : Int) })
       | .inl none => (none, stc)
       | .inr i => ((bytewise buf i).1, { stc with idx := (bytewise buf i).2 })) := by
  have hb := blocks_spec buf F stc.idx
  cases hr : blocks buf F stc.idx with
  | inl x =>
    rw [hr] at hb
    cases x with
    | none => exact hb.elim
    | some q =>
      obtain ⟨c, j, bm, s⟩ := q
      simp only at hb ⊢
      obtain ⟨a1, a2, a3, a4⟩ := hb
      refine ⟨by rw [a4], by rw [a4], Or.inr ⟨s, rfl, a1, a3, a2⟩⟩
  | inr i' =>
    rw [hr] at hb
    simp only at hb ⊢
    refine ⟨by rw [bytewise_congr buf _ _ hb], by rw [bytewise_congr buf _ _ hb], ?_⟩
    exact h.mono (skipWs_ge buf stc.idx)

/-- **fast path 2 and the loops of `skip_space`** -/
theorem rest_spec (buf : Buf) (st : St) (h : InvP buf st.bits st.start st.idx) : Post buf st.idx (skipSpace.rest buf st) := by
  unfold skipSpace.rest
  rcases h with ⟨hs, hb⟩ | ⟨s, hs, hsz, hle, hb⟩
  · -- nothing cached yet
    have hoff : ¬ ((st.idx : Int) - st.start < 64) := by rw [hs]; omega
    simp only [hoff, if_false]
    exact tail_spec buf _ st (Or.inl ⟨hs, hb⟩)
  · have hofft : ((st.idx : Int) - st.start).toNat = st.idx - s := by rw [hs]; omega
    have hst : st.start.toNat = s := by rw [hs]; simp
    by_cases hoff : (st.idx : Int) - st.start < 64
    · simp only [hoff, if_true, hofft, hst]
      have ho : st.idx - s < 64 := by rw [hs] at hoff; omega
      generalize hoe : st.idx - s = o at *
      have hW := window_length buf s hsz
      have hsplit : window buf s = (window buf s).take o ++ (window buf s).drop o := (List.take_append_drop o _).symm
      have hlenT : ((window buf s).take o).length = o := by simp [hW]; omega
      have hbits : st.bits = maskOf (fun b => !isWs b) ((window buf s).take o) + 2 ^ o * maskOf (fun b => !isWs b) ((window buf s).drop o) := by
        rw [hb]; unfold nsBits
        conv => lhs; rw [hsplit, maskOf_append, hlenT]
      have hlow := maskOf_lt (fun b => !isWs b) ((window buf s).take o)
      rw [hlenT] at hlow
      generalize hM : maskOf (fun b => !isWs b) ((window buf s).drop o) = M at hbits
      have hdiv : st.bits / 2 ^ o = M := by
        rw [hbits, Nat.add_mul_div_left _ _ (Nat.pow_pos (by decide)), Nat.div_eq_of_lt hlow, Nat.zero_add]
      rw [hdiv]
      have hdrop := window_drop buf s o (by omega)
      have hidx : s + o = st.idx := by omega
      rw [hidx] at hdrop
      obtain ⟨t1, t2⟩ := skipWs_take buf (64 - o) st.idx (by omega)
      rw [← hdrop] at t1 t2
      by_cases hM0 : M * 2 ^ o ≠ 0
      · simp only [hM0, ne_eq, not_false_eq_true, if_true]
        have hMne : M ≠ 0 := by intro hh; apply hM0; rw [hh]; simp
        have hlenD : ((window buf s).drop o).length = 64 - o := by simp [hW]
        have htz : tzF 64 (M * 2 ^ o) = o + ((window buf s).drop o).findIdx nonWs := by
          have e64 : 64 = o + (64 - o) := by omega
          rw [Nat.mul_comm]
          conv => lhs; rw [e64]
          rw [tz_shift o (64 - o) M hMne, ← hM, tz_maskOf (fun b => !isWs b) _ (64 - o) (by rw [hM]; exact hMne) (by omega)]
          rfl
        have hlt : ((window buf s).drop o).findIdx nonWs < 64 - o := by
          have : ∃ b ∈ (window buf s).drop o, nonWs b = true := by
            apply Classical.byContradiction; intro hne
            apply hMne
            rw [← hM, maskOf_zero]
            intro b hbm
            cases hx : (!isWs b) with
            | false => rfl
            | true => exact absurd ⟨b, hbm, by simpa [nonWs] using hx⟩ hne
          have := List.findIdx_lt_length_of_exists this
          omega
        have hsk := t1 hlt
        rw [htz]
        generalize ((window buf s).drop o).findIdx nonWs = d at *
        have hpos : s + (o + d) = st.idx + d := by omega
        rw [hpos]
        unfold Post
        rw [bytewise_at buf st.idx d hsk (by omega)]
        refine ⟨by simp [show st.idx + d < buf.size by omega], rfl, ?_⟩
        rw [hsk]
        exact Or.inr ⟨s, hs, hsz, by omega, hb⟩
      · have hM0' : M * 2 ^ o = 0 := by simpa using hM0
        simp only [hM0', ne_eq, not_true_eq_false, if_false]
        have hMz : M = 0 := by
          have : 0 < 2 ^ o := Nat.pow_pos (by decide)
          cases Nat.mul_eq_zero.mp hM0' with
          | inl h => exact h
          | inr h => omega
        have hall : ((window buf s).drop o).findIdx nonWs = 64 - o := by
          rw [← hM, maskOf_zero] at hMz
          have : ∀ b ∈ (window buf s).drop o, nonWs b = false := by
            intro b hbm; have := hMz b hbm; simpa [nonWs] using this
          rw [List.findIdx_eq_length_of_false this]; simp [hW]
        have hsk := t2 hall
        have hto : st.idx + (64 - o) = s + 64 := by omega
        rw [hto] at hsk
        have := tail_spec buf (buf.size / 64 + 1) { st with idx := s + 64 } (Or.inr ⟨s, hs, hsz, by simp, hb⟩)
        exact post_congr buf st.idx (s + 64) _ hsk this
    · simp only [hoff, if_false]
      exact tail_spec buf _ st (Or.inr ⟨s, hs, hsz, hle, hb⟩)


theorem bytewise_some (buf : Buf) (i : Nat) (c : UInt8) (h : buf[skipWs buf i]? = some c) :
    bytewise buf i = (some c, skipWs buf i + 1) := by
  simp only [bytewise, h]

theorem bytewise_none (buf : Buf) (i : Nat) (h : buf[skipWs buf i]? = none) : bytewise buf i = (none, skipWs buf i) := by
  simp only [bytewise, h]

theorem skipWs_step_ws (buf : Buf) (i : Nat) (c : UInt8) (h : buf[i]? = some c) (hw : isWs c = true) : skipWs buf i = skipWs buf (i + 1) := by
  have hi : i < buf.size := (Array.getElem?_eq_some_iff.mp h).1
  have hb : buf[i] = c := by
    have := getElem?_pos buf i hi; rw [h] at this; exact (Option.some.inj this).symm
  conv => lhs; rw [skipWs]
  simp [hi, hb, hw]

theorem bytewise_here (buf : Buf) (i : Nat) (c : UInt8) (h : buf[i]? = some c) (hw : isWs c = false) :
    bytewise buf i = (some c, i + 1) ∧ skipWs buf i = i := by
  have hi : i < buf.size := (Array.getElem?_eq_some_iff.mp h).1
  have hb : buf[i] = c := by
    have := getElem?_pos buf i hi; rw [h] at this; exact (Option.some.inj this).symm
  have : skipWs buf i = i := skipWs_fix buf i hi (by rw [hb]; exact hw)
  refine ⟨?_, this⟩
  rw [bytewise_some buf i c (by rw [this]; exact h), this]

/-- **`skip_space` with its cached bitmap answers what the bytewise scan answers, and leaves a cache that is right** -/
theorem skipSpace_spec (buf : Buf) (st : St) (h : InvP buf st.bits st.start st.idx) : Post buf st.idx (skipSpace buf st) := by
  unfold skipSpace
  cases hb0 : buf[st.idx]? with
  | none => exact rest_spec buf st h
  | some c0 =>
    simp only
    by_cases hw0 : isWs c0 = true
    · simp only [hw0, Bool.not_true, Bool.false_eq_true, if_false]
      have hs0 := skipWs_step_ws buf st.idx c0 hb0 hw0
      cases hb1 : buf[st.idx + 1]? with
      | none =>
        simp only
        exact post_congr buf _ _ _ hs0 (rest_spec buf { st with idx := st.idx + 1 } (h.mono (by simp)))
      | some c1 =>
        simp only
        by_cases hw1 : isWs c1 = true
        · simp only [hw1, Bool.not_true, Bool.false_eq_true, if_false]
          have hs1 := skipWs_step_ws buf (st.idx + 1) c1 hb1 hw1
          exact post_congr buf _ _ _ (hs0.trans hs1) (rest_spec buf { st with idx := st.idx + 2 } (h.mono (by simp)))
        · have hw1' : isWs c1 = false := by simpa using hw1
          simp only [hw1', Bool.not_false, if_true]
          obtain ⟨e1, e2⟩ := bytewise_here buf (st.idx + 1) c1 hb1 hw1'
          refine post_congr buf _ _ _ hs0 ⟨by rw [e1], by rw [e1], ?_⟩
          rw [e2]; exact h.mono (by simp)
    · have hw0' : isWs c0 = false := by simpa using hw0
      simp only [hw0', Bool.not_false, if_true]
      obtain ⟨e1, e2⟩ := bytewise_here buf st.idx c0 hb0 hw0'
      exact ⟨by rw [e1], by rw [e1], by rw [e2]; exact h⟩

/-- the cache invariant of a parser state -/
def Inv (buf : Buf) (st : St) : Prop := InvP buf st.bits st.start st.idx

theorem inv_init (buf : Buf) : Inv buf init := Or.inl ⟨rfl, rfl⟩

theorem bytewise_ge (buf : Buf) (i : Nat) : skipWs buf i ≤ (bytewise buf i).2 := by
  cases hb : buf[skipWs buf i]? with
  | none => rw [bytewise_none buf i hb]; exact Nat.le_refl _
  | some c => rw [bytewise_some buf i c hb]; exact Nat.le_succ _

theorem inv_skipSpace (buf : Buf) (st : St) (h : Inv buf st) : Inv buf (skipSpace buf st).2 := by
  obtain ⟨_, h2, h3⟩ := skipSpace_spec buf st h
  unfold Inv; rw [h2]; exact h3.mono (bytewise_ge buf st.idx)

theorem inv_eat (buf : Buf) (st : St) (n : Nat) (h : Inv buf st) : Inv buf (eat buf st n) := by
  unfold Inv eat at *; exact h.mono (by simp)

/-- `skip_space_peek`: the same answer, the reader standing AT the byte found, the cache still right there -/
theorem skipSpacePeek_spec (buf : Buf) (st : St) (h : Inv buf st) :
    (skipSpacePeek buf st).1 = (bytewise buf st.idx).1 ∧ (skipSpacePeek buf st).2.idx = skipWs buf st.idx ∧
      Inv buf (skipSpacePeek buf st).2 := by
  obtain ⟨h1, h2, h3⟩ := skipSpace_spec buf st h
  unfold skipSpacePeek
  cases hr : skipSpace buf st with
  | mk r st' =>
    rw [hr] at h1 h2 h3
    simp only at h1 h2 h3
    cases hb : buf[skipWs buf st.idx]? with
    | none =>
      rw [bytewise_none buf st.idx hb] at h1 h2
      simp only at h1 h2
      subst h1
      simp only
      exact ⟨by rw [bytewise_none buf st.idx hb], h2, by unfold Inv; rw [h2]; exact h3⟩
    | some c =>
      rw [bytewise_some buf st.idx c hb] at h1 h2
      simp only at h1 h2
      subst h1
      simp only
      refine ⟨by rw [bytewise_some buf st.idx c hb], by rw [h2]; simp, ?_⟩
      unfold Inv; simp only [h2, Nat.add_sub_cancel]; exact h3

/-- operations on the parser as far as this cache is concerned -/
inductive Op where
  | skip | peek | eat (n : Nat)

def step (buf : Buf) (st : St) : Op → St
  | .skip => (skipSpace buf st).2
  | .peek => (skipSpacePeek buf st).2
  | .eat n => eat buf st n

/-- **every state reachable by any sequence of `skip_space`, `skip_space_peek` and `eat` keeps the cache right** — so every
    `skip_space` in any such history returns exactly the first non-blank byte at or after the reader -/
theorem inv_reachable (buf : Buf) (ops : List Op) : Inv buf (ops.foldl (step buf) init) := by
  have : ∀ (ops : List Op) (st : St), Inv buf st → Inv buf (ops.foldl (step buf) st) := by
    intro ops
    induction ops with
    | nil => intro st h; exact h
    | cons op r ih =>
      intro st h
      simp only [List.foldl_cons]
      apply ih
      cases op with
      | skip => exact inv_skipSpace buf st h
      | peek => exact (skipSpacePeek_spec buf st h).2.2
      | eat n => exact inv_eat buf st n h
  exact this ops init (inv_init buf)

theorem skipSpace_after_any_history (buf : Buf) (ops : List Op) :
    (skipSpace buf (ops.foldl (step buf) init)).1 = (bytewise buf (ops.foldl (step buf) init).idx).1 ∧
    (skipSpace buf (ops.foldl (step buf) init)).2.idx = (bytewise buf (ops.foldl (step buf) init).idx).2 := by
  obtain ⟨h1, h2, _⟩ := skipSpace_spec buf _ (inv_reachable buf ops)
  exact ⟨h1, h2⟩

end Space
end Sonic
