import SonicModel.Spec.Scan
import SonicModel.Spec.Grammar
namespace Sonic
namespace Spec

/-! ### the scalar scan over a range of a buffer, and ranges that leave its state balanced -/

/-- `scan` over the bytes `buf[i..e)` -/
def scanB (left right : UInt8) (buf : Buf) (i e : Nat) (s : ScanSt) : Option Nat × ScanSt :=
  if h : i < e ∧ i < buf.size then
    let p := scanStep left right s buf[i]
    if p.2 then (some 1, p.1)
    else ((scanB left right buf (i+1) e p.1).1.map (· + 1), (scanB left right buf (i+1) e p.1).2)
  else (none, s)
termination_by e - i

/-- a range that the scan passes without closing, returning outside any string with `k` more brackets of each kind -/
def BalR (left right : UInt8) (buf : Buf) (i e : Nat) : Prop :=
  ∀ s : ScanSt, s.inStr = false → s.esc = false → s.r ≤ s.l →
    ∃ k, scanB left right buf i e s = (none, ⟨false, false, s.l + k, s.r + k⟩)

theorem scanB_empty (left right : UInt8) (buf : Buf) (i e : Nat) (s : ScanSt) (h : e ≤ i) :
    scanB left right buf i e s = (none, s) := by
  rw [scanB]
  have : ¬ (i < e ∧ i < buf.size) := by omega
  simp [this]

/-- splitting a range -/
theorem scanB_split (left right : UInt8) (buf : Buf) : ∀ (n i m e : Nat) (s : ScanSt), m - i = n → i ≤ m → m ≤ e → m ≤ buf.size →
    scanB left right buf i e s =
      (match (scanB left right buf i m s).1 with
       | some x => (some x, (scanB left right buf i e s).2)
       | none => ((scanB left right buf m e (scanB left right buf i m s).2).1.map (· + (m - i)),
                  (scanB left right buf m e (scanB left right buf i m s).2).2)) := by
  intro n
  induction n with
  | zero =>
    intro i m e s hn him hme _
    have : m = i := by omega
    subst this
    rw [scanB_empty left right buf m m s (Nat.le_refl _)]
    simp only [Nat.sub_self, Nat.add_zero]
    cases hh : (scanB left right buf m e s).1 with
    | none => simp only [Option.map_none]; rw [← hh]
    | some x => simp only [Option.map_some]; rw [← hh]
  | succ n ih =>
    intro i m e s hn him hme hmb
    have hlt : i < m := by omega
    have c1 : i < m ∧ i < buf.size := ⟨hlt, by omega⟩
    have c2 : i < e ∧ i < buf.size := ⟨by omega, by omega⟩
    rw [scanB.eq_1 left right buf i m s, scanB.eq_1 left right buf i e s]
    simp only [c1, c2, and_self, dite_true]
    by_cases hd : (scanStep left right s buf[i]).2 = true
    · simp only [hd, if_true]
    · simp only [hd, Bool.false_eq_true, if_false]
      have := ih (i+1) m e (scanStep left right s buf[i]).1 (by omega) (by omega) hme hmb
      rw [this]
      cases hh : (scanB left right buf (i + 1) m (scanStep left right s buf[i]).1).1 with
      | some x => simp
      | none =>
        simp only [Option.map_none, Option.map_map]
        congr 1
        · congr 1
          funext x
          simp only [Function.comp]; omega

theorem balR_refl (left right : UInt8) (buf : Buf) (i : Nat) : BalR left right buf i i := by
  intro s h1 h2 _
  refine ⟨0, ?_⟩
  rw [scanB_empty left right buf i i s (Nat.le_refl _)]
  cases s; simp_all

theorem balR_trans (left right : UInt8) (buf : Buf) (i m e : Nat) (him : i ≤ m) (hme : m ≤ e) (hmb : m ≤ buf.size)
    (h1 : BalR left right buf i m) (h2 : BalR left right buf m e) : BalR left right buf i e := by
  intro s hs he hr
  obtain ⟨k1, hk1⟩ := h1 s hs he hr
  obtain ⟨k2, hk2⟩ := h2 ⟨false, false, s.l + k1, s.r + k1⟩ rfl rfl (by simp; omega)
  refine ⟨k1 + k2, ?_⟩
  rw [scanB_split left right buf (m - i) i m e s rfl him hme hmb, hk1]
  simp only [hk2, Option.map_none]
  have e1 : s.l + k1 + k2 = s.l + (k1 + k2) := by omega
  have e2 : s.r + k1 + k2 = s.r + (k1 + k2) := by omega
  rw [e1, e2]

/-- a byte that the scan ignores outside strings -/
def plain (left right b : UInt8) : Bool := b != 34 && b != 92 && b != left && b != right

theorem scanStep_plain (left right : UInt8) (s : ScanSt) (b : UInt8) (hs : s.inStr = false) (he : s.esc = false)
    (hp : plain left right b = true) : scanStep left right s b = (s, false) := by
  unfold plain at hp
  simp only [Bool.and_eq_true, bne_iff_ne, ne_eq] at hp
  obtain ⟨⟨⟨h1, h2⟩, h3⟩, h4⟩ := hp
  have e1 : (b == 34) = false := by simpa using h1
  have e2 : (b == 92) = false := by simpa using h2
  have e3 : (b == left) = false := by simpa using h3
  have e4 : (b == right) = false := by simpa using h4
  cases s
  simp_all [scanStep]

theorem balR_plain (left right : UInt8) (buf : Buf) : ∀ (n i e : Nat), e - i = n →
    (∀ k (hk : k < buf.size), i ≤ k → k < e → plain left right buf[k] = true) → BalR left right buf i e := by
  intro n
  induction n with
  | zero => intro i e hn _ s _ _ _; exact ⟨0, by rw [scanB_empty left right buf i e s (by omega)]; cases s; simp_all⟩
  | succ n ih =>
    intro i e hn hp s hs he hr
    by_cases hb : i < buf.size
    · have c : i < e ∧ i < buf.size := ⟨by omega, hb⟩
      rw [scanB]
      simp only [c, and_self, dite_true]
      rw [scanStep_plain left right s buf[i] hs he (hp i hb (Nat.le_refl _) (by omega))]
      simp only [Bool.false_eq_true, if_false]
      obtain ⟨k, hk⟩ := ih (i+1) e (by omega) (fun k hk h1 h2 => hp k hk (by omega) h2) s hs he hr
      exact ⟨k, by rw [hk]; rfl⟩
    · refine ⟨0, ?_⟩
      rw [scanB]
      have : ¬ (i < e ∧ i < buf.size) := fun h => hb h.2
      simp only [this, dite_false]
      cases s; simp_all

end Spec
end Sonic
