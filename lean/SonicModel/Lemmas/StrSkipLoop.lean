import SonicModel.Lemmas.StrSkipProof
namespace Sonic
namespace StrSkip
open Simd Spec

/-! ### the scalar tail and the block loop -/

def outOf (eaten : Nat) (st : Bool) (data : List UInt8) (r : Option Nat) : Option (Nat × Bool) :=
  r.map fun n => (eaten + n, st || (data.take n).any (· == 92))

theorem tail_spec : ∀ (fuel : Nat) (data : List UInt8) (eaten : Nat) (st : Bool), data.length < fuel →
    tail fuel data eaten st = outOf eaten st data (strScan data false) := by
  intro fuel
  induction fuel using Nat.strongRecOn with
  | _ fuel ih =>
    intro data eaten st hf
    cases fuel with
    | zero => omega
    | succ fuel =>
      cases data with
      | nil => simp [tail, strScan, outOf]
      | cons ch rest =>
        simp only [tail, strScan, Bool.not_false, Bool.true_and, Bool.and_true]
        by_cases hb : (ch == 92) = true
        · have hch : ch = 92 := by simpa using hb
          subst hch
          simp only [beq_self_eq_true, if_true]
          have h34 : ((92 : UInt8) == 34) = false := by decide
          simp only [h34, Bool.false_eq_true, if_false]
          cases rest with
          | nil => simp [strScan, outOf]
          | cons c rest' =>
            simp only [List.length_cons] at hf
            have hlen : ¬ (rest'.length + 1 + 1 < 2) := by omega
            simp only [List.length_cons, hlen, if_false, List.drop_succ_cons, List.drop_zero]
            rw [ih fuel (by omega) rest' (eaten + 2) true (by omega)]
            simp only [strScan, Bool.not_true, Bool.false_and, Bool.and_false, Bool.false_eq_true, if_false]
            cases strScan rest' false with
            | none => simp [outOf]
            | some n =>
              simp only [outOf, Option.map_some, Option.some.injEq, Prod.mk.injEq]
              refine ⟨by omega, ?_⟩
              simp [List.take_succ_cons]
        · have hb' : (ch == 92) = false := by simpa using hb
          simp only [hb', Bool.false_eq_true, if_false]
          by_cases hq : (ch == 34) = true
          · simp [hq, outOf, hb']
          · simp only [hq, Bool.false_eq_true, if_false]
            simp only [List.length_cons] at hf
            rw [ih fuel (by omega) rest (eaten + 1) st (by omega)]
            cases strScan rest false with
            | none => simp [outOf]
            | some n =>
              simp only [outOf, Option.map_some, Option.some.injEq, Prod.mk.injEq]
              refine ⟨by omega, ?_⟩
              simp [List.take_succ_cons, hb']

theorem strScan_escaped (data : List UInt8) :
    strScan data true = (strScan (data.drop 1) false).map (· + 1) := by
  cases data with
  | nil => simp [strScan]
  | cons c rest => simp [strScan]

theorem strScanSt_le : ∀ (a : List UInt8) (e : Bool) (n : Nat), (strScanSt a e).1 = some n → n ≤ a.length := by
  intro a
  induction a with
  | nil => intro e n h; simp [strScanSt] at h
  | cons b rest ih =>
    intro e n h
    simp only [strScanSt] at h
    by_cases hc : (!e && b == 34) = true
    · simp only [hc, if_true, Option.some.injEq] at h
      subst h; simp
    · simp only [hc, Bool.false_eq_true, if_false] at h
      cases hr : (strScanSt rest (b == 92 && !e)).1 with
      | none => rw [hr] at h; simp at h
      | some m =>
        rw [hr] at h
        simp only [Option.map_some, Option.some.injEq] at h
        have := ih _ _ hr
        simp only [List.length_cons]; omega

/-- a piece of text that leaves the scan in the "next byte is escaped" state contains a backslash -/
theorem strScanSt_esc_flag : ∀ (a : List UInt8) (e : Bool), a ≠ [] → (strScanSt a e).2 = true →
    a.any (· == 92) = true := by
  intro a
  induction a with
  | nil => intro e h; exact absurd rfl h
  | cons b rest ih =>
    intro e _ h
    simp only [strScanSt] at h
    by_cases hc : (!e && b == 34) = true
    · simp [hc] at h
    · simp only [hc, Bool.false_eq_true, if_false] at h
      cases rest with
      | nil =>
        simp only [strScanSt, Bool.and_eq_true] at h
        simp [h.1]
      | cons c rest' =>
        have := ih (b == 92 && !e) (by simp) h
        simp only [List.any_cons] at this ⊢
        rw [this]; simp

/-- **the whole of `skip_string_unchecked`** with any carry and status -/
theorem skipString_spec : ∀ (fuel : Nat) (data : List UInt8) (prev : BitVec 32) (eaten : Nat) (st : Bool),
    data.length / 32 < fuel → (prev = 0#32 ∨ prev = 1#32) → (prev = 1#32 → st = true) →
    skipString fuel data prev eaten st = outOf eaten st data (strScan data (decide (prev = 1#32))) := by
  intro fuel
  induction fuel with
  | zero => intro data prev eaten st h; omega
  | succ fuel ih =>
    intro data prev eaten st hf hp hst
    unfold skipString
    by_cases hlen : data.length ≥ 32
    · simp only [hlen, if_true]
      have hl : (data.take 32).length = 32 := by rw [List.length_take]; omega
      have hb := block_spec (data.take 32) hl prev hp
      have happ := strScan_append (data.take 32) (data.drop 32) (decide (prev = 1#32))
      rw [List.take_append_drop] at happ
      rw [happ]
      have hflag : (st || (block (data.take 32) prev).2.2) = (st || flagOf (data.take 32) (block (data.take 32) prev).1) := by
        rcases hp with rfl | rfl
        · have := hb.2.2
          simp only [BitVec.reduceEq, decide_false, Bool.false_or] at this
          rw [this]
        · rw [hst rfl]; simp
      cases hblk : block (data.take 32) prev with
      | mk r rest =>
        obtain ⟨prev', need⟩ := rest
        rw [hblk] at hb hflag
        simp only at hb hflag
        cases r with
        | some n =>
          simp only
          have h1 := hb.1
          cases hsc : strScanSt (data.take 32) (decide (prev = 1#32)) with
          | mk r2 e2 =>
            rw [hsc] at h1
            simp only at h1
            subst h1
            simp only [outOf, Option.map_some, hflag, flagOf]
            rw [List.take_take]
            have hn : n ≤ 32 := by
              have := strScanSt_le (data.take 32) (decide (prev = 1#32)) n (by rw [hsc])
              omega
            rw [Nat.min_eq_left hn]
        | none =>
          simp only
          have h1 := hb.1
          have h2 := hb.2.1 rfl
          cases hsc : strScanSt (data.take 32) (decide (prev = 1#32)) with
          | mk r2 e2 =>
            rw [hsc] at h1 h2
            simp only at h1 h2
            subst h1
            simp only
            have hinv : prev' = 1#32 → (st || need) = true := by
              intro h1
              rw [hflag]
              have he2 : e2 = true := by rw [← h2.2, h1]; rfl
              have hne : data.take 32 ≠ [] := by
                intro h0; rw [h0] at hl; simp at hl
              have := strScanSt_esc_flag (data.take 32) (decide (prev = 1#32)) hne (by rw [hsc]; exact he2)
              simp [flagOf, this]
            rw [ih (data.drop 32) prev' (eaten + 32) (st || need)
              (by rw [List.length_drop]; omega) h2.1 hinv, h2.2, hl, hflag]
            cases strScan (data.drop 32) e2 with
            | none => simp [outOf]
            | some m =>
              simp only [outOf, flagOf, Option.map_some, Option.some.injEq, Prod.mk.injEq]
              refine ⟨by omega, ?_⟩
              rw [show m + 32 = 32 + m by omega, List.take_add, List.any_append, Bool.or_assoc]
    · simp only [hlen, if_false]
      have hlt : data.length < 32 := by omega
      rcases hp with rfl | rfl
      · simp only [ne_eq, not_true_eq_false, if_false]
        rw [tail_spec _ _ _ _ (by omega)]
        rfl
      · have hne : (1#32 : BitVec 32) ≠ 0#32 := by decide
        simp only [ne_eq, hne, not_false_eq_true, if_true]
        rw [tail_spec _ _ _ _ (by rw [List.length_drop]; omega), hst rfl]
        rw [decide_true, strScan_escaped]
        cases strScan (data.drop 1) false with
        | none => simp [outOf]
        | some m =>
          simp only [outOf, Option.map_some, Bool.true_or, Option.some.injEq, Prod.mk.injEq, and_true]
          omega

/-- **`skip_string_unchecked` is the scalar string scan** for every text -/
theorem skipString_eq_scalar (data : List UInt8) :
    skipString (data.length / 32 + 1) data 0#32 0 false = skipStringScalar data := by
  rw [skipString_spec _ data 0#32 0 false (by omega) (Or.inl rfl) (by decide)]
  unfold skipStringScalar outOf
  have hd : decide ((0#32 : BitVec 32) = 1#32) = false := by decide
  rw [hd]
  cases strScan data false <;> simp

end StrSkip
end Sonic
