import SonicModel.Lemmas.GetUValue
namespace Sonic
namespace GetU
open Gen Spec Impl

/-! ### the unchecked walkers find what the specification finds (whenever what they pass over is well-formed) -/

/-- no byte of `[i, j)` is one of the tokens -/
def FreeR (toks : List UInt8) (buf : Buf) (i j : Nat) : Prop :=
  ∀ k (hk : k < buf.size), i ≤ k → k < j → toks.contains buf[k] = false

theorem free_trans (toks : List UInt8) (buf : Buf) (i m j : Nat) (h1 : FreeR toks buf i m) (h2 : FreeR toks buf m j) :
    FreeR toks buf i j := by
  intro k hk a b
  by_cases hkm : k < m
  · exact h1 k hk a hkm
  · exact h2 k hk (by omega) b

theorem free_one (toks : List UInt8) (buf : Buf) (i : Nat) (c : UInt8) (h : buf[i]? = some c) (hc : toks.contains c = false) :
    FreeR toks buf i (i + 1) := by
  intro k hk a b
  have : k = i := by omega
  subst this
  rw [(Array.getElem?_eq_some_iff.mp h).2]; exact hc

theorem free_obj (buf : Buf) (i j : Nat) (h : AllR noTok buf i j) : FreeR [34, 125] buf i j :=
  fun k hk a b => noTok_obj _ (h k hk a b)
theorem free_arr (buf : Buf) (i j : Nat) (h : AllR noTok buf i j) : FreeR [93, 44] buf i j :=
  fun k hk a b => noTok_arr _ (h k hk a b)

theorem nextTok_at (buf : Buf) (toks : List UInt8) (adv i j : Nat) (c : UInt8) (hij : i ≤ j) (hfree : FreeR toks buf i j)
    (hj : buf[j]? = some c) (hc : toks.contains c = true) : nextTok buf toks adv i = some (c, j + adv) := by
  have h := Array.getElem?_eq_some_iff.mp hj
  have := nextTok_find buf toks adv i j hij h.1 hfree (by rw [h.2]; exact hc)
  rw [this, h.2]

/-- **the member loop of the unchecked object walker finds what the specification finds** -/
theorem getObjLoopU_spec (buf : Buf) (k : List UInt8) (q : Nat) : buf[q]? = some 34 →
    match findMember buf k q with
    | .at w => ∃ v, getObjLoopU buf k (q+1) = .ok v ∧ skipWs buf v = w
    | .missing => ∃ c p, getObjLoopU buf k (q+1) = .err c p
    | .malformed => True := by
  fun_induction findMember buf k q
  case case1 i hq hs => intro _; trivial
  case case2 i hq e1 c hcol v hs =>
    intro _
    obtain ⟨esc, hd⟩ := decodeFrom_of_stringS_some buf (i+1) k e1 hs
    have hclo := parseObjectClo_ok_of_colon buf e1 hcol
    rw [getObjLoopU]; simp only [hd, hclo, ite_true]
    exact ⟨_, rfl, rfl⟩
  case case3 i hq name e1 hs c hcol v hname e hv j hclose =>
    intro _
    obtain ⟨esc, hd⟩ := decodeFrom_of_stringS_some buf (i+1) name e1 hs
    have hclo := parseObjectClo_ok_of_colon buf e1 hcol
    obtain ⟨cv, p, hsv, _, _, hvp, hpe, hfree⟩ := skipValueU_of_value buf _ (skipWs buf e1 + 1) e hv
    have hnt : nextTok buf [34, 125] 1 p = some (125, j + 1) :=
      nextTok_at buf _ 1 p j 125 (by have := skipWs_ge buf e; omega)
        (free_trans _ buf p e j (free_obj buf p e hfree) (free_obj buf e j (skipWs_noTok buf e))) hclose (by decide)
    rw [getObjLoopU]; simp only [hd, hclo, hname, ite_false, hsv, hnt]
    exact ⟨_, _, rfl⟩
  case case4 i hq name e1 hs c hcol v hname e hv j hnclose hcomma hlt ih =>
    intro _
    obtain ⟨esc, hd⟩ := decodeFrom_of_stringS_some buf (i+1) name e1 hs
    have hclo := parseObjectClo_ok_of_colon buf e1 hcol
    obtain ⟨cv, p, hsv, _, _, hvp, hpe, hfree⟩ := skipValueU_of_value buf _ (skipWs buf e1 + 1) e hv
    have pstr := stringS_progress false buf (i+1) (name, e1) hs
    cases hb : buf[skipWs buf (skipWs buf e + 1)]? with
    | none =>
      have : findMember buf k (skipWs buf (skipWs buf e + 1)) = .malformed := by
        rw [findMember]; simp [hb]
      rw [show findMember buf k (skipWs buf (j + 1)) = .malformed from this]
      trivial
    | some c2 =>
      by_cases hq2 : c2 = 34
      · subst hq2
        have hfr : FreeR [34, 125] buf p (skipWs buf (j + 1)) :=
          free_trans _ buf p e _ (free_obj buf p e hfree)
            (free_trans _ buf e j _ (free_obj buf e j (skipWs_noTok buf e))
              (free_trans _ buf j (j + 1) _ (free_one _ buf j 44 hcomma (by decide)) (free_obj buf (j+1) _ (skipWs_noTok buf (j+1)))))
        have hnt : nextTok buf [34, 125] 1 p = some (34, skipWs buf (j + 1) + 1) :=
          nextTok_at buf _ 1 p _ 34 (by have := skipWs_ge buf e; have := skipWs_ge buf (j+1); omega) hfr hb (by decide)
        rw [getObjLoopU]; simp only [hd, hclo, hname, ite_false, hsv, hnt, beq_self_eq_true, ite_true]
        have hg : i + 1 < skipWs buf (j + 1) + 1 := by
          have : i < skipWs buf (j + 1) := hlt
          omega
        have hg2 : i + 1 < buf.size := by simp only at pstr; omega
        simp only [hg, hg2, and_self, dite_true]
        exact ih hb
      · have : findMember buf k (skipWs buf (skipWs buf e + 1)) = .malformed := by
          rw [findMember]
          have : ¬ (some c2 = some (34 : UInt8)) := by simpa using hq2
          simp [hb, this]
        rw [show findMember buf k (skipWs buf (j + 1)) = .malformed from this]
        trivial
  case case5 i hq name e1 hs c hcol v hname e hv j hnclose hcomma hlt => intro _; trivial
  case case6 i hq name e1 hs c hcol v hname e hv j hnclose hncomma => intro _; trivial
  case case7 i hq name e1 hs c hcol v hname hv => intro _; trivial
  case case8 i hq name e1 hs c hncol => intro _; trivial
  case case9 i hq => intro h; exact absurd h hq

/-- **the element loop of the unchecked array walker finds what the specification finds** -/
theorem getArrLoopU_spec (buf : Buf) : ∀ n i,
    match findElem buf n (skipWs buf i) with
    | .at w => ∃ v, getArrLoopU n buf i = .ok v ∧ skipWs buf v = w
    | .missing => ∃ c p, getArrLoopU n buf i = .err c p
    | .malformed => True := by
  intro n
  induction n with
  | zero => intro i; simp [findElem, getArrLoopU]
  | succ n ih =>
    intro i
    unfold findElem
    cases hv : value false (Spec.fuelFor buf) buf (skipWs buf i) with
    | ok e =>
      obtain ⟨cv, p, hsv, _, hne, hvp, hpe, hfree⟩ := skipValueU_of_value buf _ i e hv
      simp only
      by_cases h93 : buf[skipWs buf e]? = some 93
      · simp only [h93, ite_true]
        have hnt : nextTok buf [93, 44] 1 p = some (93, skipWs buf e + 1) :=
          nextTok_at buf _ 1 p _ 93 (by have := skipWs_ge buf e; omega)
            (free_trans _ buf p e _ (free_arr buf p e hfree) (free_arr buf e _ (skipWs_noTok buf e))) h93 (by decide)
        unfold getArrLoopU
        simp only [hsv, u8_beq_false hne, Bool.false_eq_true, if_false, hnt]
        exact ⟨_, _, rfl⟩
      · simp only [h93, if_false]
        by_cases h44 : buf[skipWs buf e]? = some 44
        · simp only [h44, ite_true]
          by_cases hlt : skipWs buf (skipWs buf e + 1) < buf.size
          · simp only [hlt, ite_true]
            have hnt : nextTok buf [93, 44] 1 p = some (44, skipWs buf e + 1) :=
              nextTok_at buf _ 1 p _ 44 (by have := skipWs_ge buf e; omega)
                (free_trans _ buf p e _ (free_arr buf p e hfree) (free_arr buf e _ (skipWs_noTok buf e))) h44 (by decide)
            unfold getArrLoopU
            simp only [hsv, u8_beq_false hne, Bool.false_eq_true, if_false, hnt, beq_self_eq_true, if_true]
            exact ih (skipWs buf e + 1)
          · simp only [hlt, if_false]
        · simp only [h44, if_false]
    | err => simp only
    | fuel => simp only

/-- with the reader in front of a `]` every further step fails (the empty array: `get_from_array(0)` returns at once, the
    error comes from the next step or from the final checked skip) -/
theorem getUnchecked_at_close (buf : Buf) (p : Nat) (h : buf[skipWs buf p]? = some 93) (rest : List Step) :
    ∃ c q, getUnchecked buf p rest = .err c q := by
  have e1 : ((93 : UInt8) == 123) = false := by decide
  have e2 : ((93 : UInt8) == 91) = false := by decide
  cases rest with
  | nil =>
    unfold getUnchecked
    have hf : Impl.fuelFor buf = (3 * buf.size + 5) + 1 := by unfold Impl.fuelFor; omega
    rw [hf, skipOne, skipSpace_spec]
    simp only [h, Option.map_some]
    have e3 : ((93 : UInt8) == 45 || isDigit 93) = false := by decide
    have e4 : ((93 : UInt8) == 34) = false := by decide
    have e5 : ((93 : UInt8) == 116) = false := by decide
    have e6 : ((93 : UInt8) == 102) = false := by decide
    have e7 : ((93 : UInt8) == 110) = false := by decide
    simp only [e1, e2, e3, e4, e5, e6, e7, Bool.false_eq_true, if_false]
    exact ⟨_, _, rfl⟩
  | cons s rest =>
    cases s with
    | key k =>
      unfold getUnchecked getFromObjectU
      rw [skipSpace_spec]
      simp only [h, Option.map_some, e1, Bool.false_eq_true, if_false]
      exact ⟨_, _, rfl⟩
    | idx n =>
      unfold getUnchecked getFromArrayU
      rw [skipSpace_spec]
      simp only [h, Option.map_some, e2, Bool.false_eq_true, if_false]
      exact ⟨_, _, rfl⟩

/-- **unchecked `get` == specification lookup** whenever what the lookup passes over is well-formed: for every buffer,
    every start index and every path, if the specification finds the value so does the unchecked walker — the same span —,
    and if the path does not resolve (key / index absent, or a step of the wrong kind) the walker fails -/
theorem getUnchecked_spec (buf : Buf) : ∀ path i,
    match look buf (skipWs buf i) path with
    | .found s e => getUnchecked buf i path = .found s e
    | .missing => ∃ c p, getUnchecked buf i path = .err c p
    | .wrongKind => ∃ c p, getUnchecked buf i path = .err c p
    | .malformed => True := by
  intro path
  induction path with
  | nil =>
    intro i
    unfold look valueSpan getUnchecked
    cases hv : value false (Spec.fuelFor buf) buf (skipWs buf i) with
    | ok e => simp only [skipOne_of_value_ok buf i e hv]
    | err => simp only
    | fuel => simp only
  | cons s rest ih =>
    intro i
    cases s with
    | key k =>
      unfold look getUnchecked getFromObjectU
      rw [skipSpace_spec]
      cases hb : buf[skipWs buf i]? with
      | none =>
        have : ¬ ((none : Option UInt8) = some 123) := by simp
        simp only [Option.map_none, this, ite_false]
        cases value false (Spec.fuelFor buf) buf (skipWs buf i) <;> first | trivial | exact ⟨_, _, rfl⟩
      | some c =>
        simp only [Option.map_some]
        by_cases hc : c = 123
        · subst hc
          simp only [beq_self_eq_true, ite_true]
          by_cases h125 : buf[skipWs buf (skipWs buf i + 1)]? = some 125
          · simp only [h125, ite_true]
            have hnt : nextTok buf [34, 125] 1 (skipWs buf i + 1) = some (125, skipWs buf (skipWs buf i + 1) + 1) :=
              nextTok_at buf _ 1 _ _ 125 (skipWs_ge buf _) (free_obj buf _ _ (skipWs_noTok buf _)) h125 (by decide)
            simp only [hnt]
            exact ⟨_, _, rfl⟩
          · simp only [h125, ite_false]
            by_cases hq : buf[skipWs buf (skipWs buf i + 1)]? = some 34
            · have hnt : nextTok buf [34, 125] 1 (skipWs buf i + 1) = some (34, skipWs buf (skipWs buf i + 1) + 1) :=
                nextTok_at buf _ 1 _ _ 34 (skipWs_ge buf _) (free_obj buf _ _ (skipWs_noTok buf _)) hq (by decide)
              simp only [hnt, beq_self_eq_true, ite_true]
              have hA := getObjLoopU_spec buf k (skipWs buf (skipWs buf i + 1)) hq
              cases hf : findMember buf k (skipWs buf (skipWs buf i + 1)) with
              | «at» w =>
                rw [hf] at hA
                obtain ⟨v, hv, hw⟩ := hA
                simp only [hv]
                have := ih v
                rw [hw] at this
                exact this
              | missing =>
                rw [hf] at hA
                obtain ⟨c', p', hv⟩ := hA
                simp only [hv]
                exact ⟨_, _, rfl⟩
              | malformed => trivial
            · have hfm : findMember buf k (skipWs buf (skipWs buf i + 1)) = .malformed := by
                rw [findMember]; simp [hq]
              simp only [hfm]
        · have n1 : ¬ (some c = some (123 : UInt8)) := by simpa using hc
          simp only [u8_beq_false hc, Bool.false_eq_true, ite_false, n1]
          cases value false (Spec.fuelFor buf) buf (skipWs buf i) <;> first | trivial | exact ⟨_, _, rfl⟩
    | idx n =>
      unfold look getUnchecked getFromArrayU
      rw [skipSpace_spec]
      cases hb : buf[skipWs buf i]? with
      | none =>
        have : ¬ ((none : Option UInt8) = some 91) := by simp
        simp only [Option.map_none, this, ite_false]
        cases value false (Spec.fuelFor buf) buf (skipWs buf i) <;> first | trivial | exact ⟨_, _, rfl⟩
      | some c =>
        simp only [Option.map_some]
        by_cases hc : c = 91
        · subst hc
          simp only [beq_self_eq_true, ite_true]
          by_cases h93 : buf[skipWs buf (skipWs buf i + 1)]? = some 93
          · simp only [h93, ite_true]
            -- `]` right away: the element loop sees it (count > 0) or — for index 0 — the checked skip of the value does
            cases n with
            | zero =>
              unfold getArrLoopU
              simp only
              exact getUnchecked_at_close buf (skipWs buf i + 1) h93 rest
            | succ n =>
              unfold getArrLoopU skipValueU
              rw [skipSpace_spec]
              simp only [h93, Option.map_some]
              have e1 : ((93 : UInt8) == 123) = false := by decide
              have e2 : ((93 : UInt8) == 91) = false := by decide
              have e3 : ((93 : UInt8) == 34) = false := by decide
              simp only [e1, e2, e3, Bool.false_eq_true, if_false, beq_self_eq_true, if_true]
              exact ⟨_, _, rfl⟩
          · simp only [h93, ite_false]
            have hB := getArrLoopU_spec buf n (skipWs buf i + 1)
            cases hf : findElem buf n (skipWs buf (skipWs buf i + 1)) with
            | «at» w =>
              rw [hf] at hB
              obtain ⟨v, hv, hw⟩ := hB
              simp only [hv]
              have := ih v
              rw [hw] at this
              exact this
            | missing =>
              rw [hf] at hB
              obtain ⟨c', p', hv⟩ := hB
              simp only [hv]
              exact ⟨_, _, rfl⟩
            | malformed => trivial
        · have n1 : ¬ (some c = some (91 : UInt8)) := by simpa using hc
          simp only [u8_beq_false hc, Bool.false_eq_true, ite_false, n1]
          cases value false (Spec.fuelFor buf) buf (skipWs buf i) <;> first | trivial | exact ⟨_, _, rfl⟩

end GetU
end Sonic
