import SonicModel.Lemmas.SkipRefine
import SonicModel.Lemmas.SpecMono
namespace Sonic
open Gen

/-- what `skip_array` computes, in spec terms (`i` = index just after `[`) -/
def Spec.arrayRest (g : Nat) (buf : Buf) (i : Nat) : Res :=
  if buf[skipWs buf i]? = some 93 then .ok (skipWs buf i + 1) else Spec.elems false g buf (skipWs buf i)

/-- what `skip_object` computes, in spec terms (`i` = index just after `{`) -/
def Spec.objectRest (g : Nat) (buf : Buf) (i : Nat) : Res :=
  if buf[skipWs buf i]? = some 125 then .ok (skipWs buf i + 1) else Spec.members false g buf (skipWs buf i)

theorem eq_of_beq_u8 {a b : UInt8} (h : (a == b) = true) : a = b := by simpa using h

set_option maxHeartbeats 1000000 in
/-- **Layer 1 == Layer 0 for the validate-and-skip path**, by induction on the fuel of the
    implementation model with an existential fuel for the specification. -/
theorem skip_refine (buf : Buf) : ∀ f i,
    (Impl.skipOne buf.size f buf i ≠ .fuel →
      ∃ g, Spec.value false g buf (skipWs buf i) = (Impl.skipOne buf.size f buf i).erase) ∧
    (Impl.skipArray buf.size f buf i ≠ .fuel →
      ∃ g, Spec.arrayRest g buf i = (Impl.skipArray buf.size f buf i).erase) ∧
    (Impl.skipArrayLoop buf.size f buf i ≠ .fuel →
      ∃ g, Spec.elems false g buf (skipWs buf i) = (Impl.skipArrayLoop buf.size f buf i).erase) ∧
    (Impl.skipObject buf.size f buf i ≠ .fuel →
      ∃ g, Spec.objectRest g buf i = (Impl.skipObject buf.size f buf i).erase) ∧
    (buf[i]? = some 34 → Impl.skipObjectLoop buf.size f buf (i+1) ≠ .fuel →
      ∃ g, Spec.members false g buf i = (Impl.skipObjectLoop buf.size f buf (i+1)).erase) := by
  intro f
  induction f with
  | zero => intro i; simp [Impl.skipOne, Impl.skipArray, Impl.skipArrayLoop, Impl.skipObject, Impl.skipObjectLoop]
  | succ f ih =>
    intro i
    have ih1 := fun j => (ih j).1
    have ih2 := fun j => (ih j).2.1
    have ih3 := fun j => (ih j).2.2.1
    have ih4 := fun j => (ih j).2.2.2.1
    have ih5 := fun j => (ih j).2.2.2.2
    clear ih
    refine ⟨?_, ?_, ?_, ?_, ?_⟩
    · -- skip_one
      intro hne
      unfold Impl.skipOne at hne ⊢
      rw [skipSpace_spec] at hne ⊢
      cases hb : buf[skipWs buf i]? with
      | none => exact ⟨1, by simp [Spec.value, hb]⟩
      | some c =>
        have hp := (Array.getElem?_eq_some_iff.mp hb).1
        have hv := (Array.getElem?_eq_some_iff.mp hb).2
        simp only [hb, Option.map_some] at hne ⊢
        by_cases hnum : (c == 45 || isDigit c) = true
        · refine ⟨1, ?_⟩
          simp only [Spec.value, hb, hnum, ite_true, Spec.numberS_false]
          have hc : buf[skipWs buf i] = 45 ∨ isDigit buf[skipWs buf i] = true := by
            rw [hv]; simpa using hnum
          have := doSkipNumber_refines buf (skipWs buf i) hp hc
          rw [hv] at this
          exact this.symm
        · simp only [hnum] at hne ⊢
          by_cases hq : (c == 34) = true
          · refine ⟨1, ?_⟩
            simp only [Spec.value, hb, hnum, hq, ite_true, Spec.string]
            exact (skipString_refines buf _).symm
          · simp only [hq] at hne ⊢
            by_cases ho : (c == 123) = true
            · simp only [ho, ite_true, Bool.false_eq_true, ite_false] at hne ⊢
              obtain ⟨g, hg⟩ := ih4 _ hne
              refine ⟨g+1, ?_⟩
              rw [← hg]
              simp only [Spec.value, hb, hnum, hq, ho, Spec.objectRest]
              simp
            · simp only [ho] at hne ⊢
              by_cases ha : (c == 91) = true
              · simp only [ha, ite_true, Bool.false_eq_true, ite_false] at hne ⊢
                obtain ⟨g, hg⟩ := ih2 _ hne
                refine ⟨g+1, ?_⟩
                rw [← hg]
                simp only [Spec.value, hb, hnum, hq, ho, ha, Spec.arrayRest]
                simp
              · simp only [ha] at hne ⊢
                by_cases ht : (c == 116) = true
                · refine ⟨1, ?_⟩
                  simp only [Spec.value, hb, hnum, hq, ho, ha, ht, ite_true]
                  exact (parseLiteral_refines buf _ _ (by simp)).symm
                · by_cases hf : (c == 102) = true
                  · refine ⟨1, ?_⟩
                    simp only [Spec.value, hb, hnum, hq, ho, ha, ht, hf, ite_true]
                    exact (parseLiteral_refines buf _ _ (by simp)).symm
                  · by_cases hn : (c == 110) = true
                    · refine ⟨1, ?_⟩
                      simp only [Spec.value, hb, hnum, hq, ho, ha, ht, hf, hn, ite_true]
                      exact (parseLiteral_refines buf _ _ (by simp)).symm
                    · refine ⟨1, ?_⟩
                      simp [Spec.value, hb, hnum, hq, ho, ha, ht, hf, hn]
    · -- skip_array
      intro hne
      unfold Impl.skipArray at hne ⊢
      rw [skipSpace_spec] at hne ⊢
      unfold Spec.arrayRest
      cases hb : buf[skipWs buf i]? with
      | none =>
        refine ⟨2, ?_⟩
        simp [Spec.elems, Spec.value, hb]
      | some c =>
        simp only [hb, Option.map_some] at hne ⊢
        by_cases hc : (c == 93) = true
        · have := eq_of_beq_u8 hc
          subst this
          exact ⟨0, by simp⟩
        · have hc' : ¬ (some c = some (93 : UInt8)) := by simpa using hc
          simp only [hc, hc'] at hne ⊢
          have e : skipWs buf i + 1 - 1 = skipWs buf i := by omega
          rw [e] at hne ⊢
          obtain ⟨g, hg⟩ := ih3 _ hne
          rw [skipWs_idem] at hg
          exact ⟨g, by simpa using hg⟩
    · -- loop of skip_array
      intro hne
      unfold Impl.skipArrayLoop at hne ⊢
      cases hso : Impl.skipOne buf.size f buf i with
      | fuel => simp [hso] at hne
      | err c p =>
        obtain ⟨g, hg⟩ := ih1 i (by simp [hso])
        refine ⟨g+1, ?_⟩
        simp only [hso] at hg ⊢
        simp [Spec.elems, hg]
      | ok e =>
        obtain ⟨g1, hg1⟩ := ih1 i (by simp [hso])
        simp only [hso] at hg1 hne ⊢
        rw [skipSpace_spec] at hne ⊢
        cases hb : buf[skipWs buf e]? with
        | none => refine ⟨g1+1, ?_⟩; simp [Spec.elems, hg1, hb]
        | some c =>
          simp only [hb, Option.map_some] at hne ⊢
          by_cases hc : (c == 93) = true
          · have := eq_of_beq_u8 hc
            subst this
            refine ⟨g1+1, ?_⟩; simp [Spec.elems, hg1, hb]
          · have hc' : ¬ (some c = some (93 : UInt8)) := by simpa using hc
            by_cases hcm : (c == 44) = true
            · have := eq_of_beq_u8 hcm
              subst this
              simp only [hc, hcm, ite_true] at hne ⊢
              obtain ⟨g2, hg2⟩ := ih3 _ hne
              refine ⟨max g1 g2 + 1, ?_⟩
              have v := Spec.value_mono (Nat.le_max_left g1 g2) buf _ _ hg1 (by simp)
              have l := Spec.elems_mono (Nat.le_max_right g1 g2) buf _ _ hg2
                (by intro h; apply hne; cases hx : Impl.skipArrayLoop (Array.size buf) f buf (skipWs buf e + 1) <;> simp_all)
              simp [Spec.elems, v, hb, l]
            · have hcm' : ¬ (some c = some (44 : UInt8)) := by simpa using hcm
              refine ⟨g1+1, ?_⟩; simp [Spec.elems, hg1, hb, hc, hcm, hc', hcm']
    · -- skip_object
      intro hne
      unfold Impl.skipObject at hne ⊢
      rw [skipSpace_spec] at hne ⊢
      unfold Spec.objectRest
      cases hb : buf[skipWs buf i]? with
      | none =>
        refine ⟨1, ?_⟩
        simp [Spec.members, hb]
      | some c =>
        simp only [hb, Option.map_some] at hne ⊢
        by_cases hc : (c == 125) = true
        · have := eq_of_beq_u8 hc
          subst this
          exact ⟨0, by simp⟩
        · have hc' : ¬ (some c = some (125 : UInt8)) := by simpa using hc
          simp only [hc, hc'] at hne ⊢
          by_cases hq : (c == 34) = true
          · have := eq_of_beq_u8 hq
            subst this
            simp only [hq, ite_true] at hne ⊢
            obtain ⟨g, hg⟩ := ih5 _ hb hne
            exact ⟨g, by simpa using hg⟩
          · have hq' : ¬ (some c = some (34 : UInt8)) := by simpa using hq
            refine ⟨1, ?_⟩
            simp [Spec.members, hb, hq, hq']
    · -- loop of skip_object
      intro hq hne
      unfold Impl.skipObjectLoop at hne ⊢
      have hs := skipString_refines buf (i+1)
      cases hstr : Impl.skipString buf buf.size (i+1) with
      | fuel => simp [hstr] at hne
      | err c p =>
        refine ⟨1, ?_⟩
        rw [hstr] at hs
        cases hsg : Spec.stringG buf (i+1) with
        | none => simp [Spec.members, hq, Spec.string, hsg]
        | some k => simp [hsg] at hs
      | ok k =>
        rw [hstr] at hs
        have hsg : Spec.stringG buf (i+1) = some k := by
          cases hsg : Spec.stringG buf (i+1) with
          | none => simp [hsg] at hs
          | some k' => simp [hsg] at hs; simp [hs]
        simp only [hstr] at hne ⊢
        have hclo := parseObjectClo_spec buf k
        cases hc : Impl.parseObjectClo buf k with
        | fuel => simp [hc] at hne
        | err c p =>
          refine ⟨1, ?_⟩
          rw [hc] at hclo
          have : ¬ (buf[skipWs buf k]? = some 58) := by
            intro h; simp [h] at hclo
          simp [Spec.members, hq, Spec.string, hsg, this]
        | ok v =>
          rw [hc] at hclo
          have hcol : buf[skipWs buf k]? = some 58 := by
            by_cases h : buf[skipWs buf k]? = some 58
            · exact h
            · simp [h] at hclo
          have hv : v = skipWs buf k + 1 := by simp [hcol] at hclo; exact hclo
          subst hv
          simp only [hc] at hne ⊢
          cases hso : Impl.skipOne buf.size f buf (skipWs buf k + 1) with
          | fuel => simp [hso] at hne
          | err c p =>
            obtain ⟨g, hg⟩ := ih1 (skipWs buf k + 1) (by simp [hso])
            refine ⟨g+1, ?_⟩
            simp only [hso] at hg ⊢
            simp [Spec.members, hq, Spec.string, hsg, hcol, hg]
          | ok e =>
            obtain ⟨g1, hg1⟩ := ih1 (skipWs buf k + 1) (by simp [hso])
            simp only [hso] at hg1 hne ⊢
            rw [skipSpace_spec] at hne ⊢
            cases hb : buf[skipWs buf e]? with
            | none => refine ⟨g1+1, ?_⟩; simp [Spec.members, hq, Spec.string, hsg, hcol, hg1, hb]
            | some c =>
              simp only [hb, Option.map_some] at hne ⊢
              by_cases hcb : (c == 125) = true
              · have := eq_of_beq_u8 hcb
                subst this
                refine ⟨g1+1, ?_⟩; simp [Spec.members, hq, Spec.string, hsg, hcol, hg1, hb]
              · have hcb' : ¬ (some c = some (125 : UInt8)) := by simpa using hcb
                by_cases hcm : (c == 44) = true
                · have := eq_of_beq_u8 hcm
                  subst this
                  simp only [hcb, hcm, ite_true] at hne ⊢
                  rw [skipSpace_spec] at hne ⊢
                  cases hb2 : buf[skipWs buf (skipWs buf e + 1)]? with
                  | none =>
                    refine ⟨g1+2, ?_⟩
                    have v := Spec.value_mono (Nat.le_succ g1) buf _ _ hg1 (by simp)
                    simp [Spec.members, hq, Spec.string, hsg, hcol, v, hb, hb2]
                  | some c2 =>
                    simp only [hb2, Option.map_some] at hne ⊢
                    by_cases hq2 : (c2 == 34) = true
                    · have := eq_of_beq_u8 hq2
                      subst this
                      simp only [hq2, ite_true] at hne ⊢
                      obtain ⟨g2, hg2⟩ := ih5 _ hb2 hne
                      refine ⟨max g1 g2 + 1, ?_⟩
                      have v := Spec.value_mono (Nat.le_max_left g1 g2) buf _ _ hg1 (by simp)
                      have l := Spec.members_mono (Nat.le_max_right g1 g2) buf _ _ hg2
                        (by intro h; apply hne; cases hx : Impl.skipObjectLoop (Array.size buf) f buf (skipWs buf (skipWs buf e + 1) + 1) <;> simp_all)
                      simp [Spec.members, hq, Spec.string, hsg, hcol, v, hb, l]
                    · have hq2' : ¬ (some c2 = some (34 : UInt8)) := by simpa using hq2
                      refine ⟨g1+2, ?_⟩
                      have v := Spec.value_mono (Nat.le_succ g1) buf _ _ hg1 (by simp)
                      simp [Spec.members, hq, Spec.string, hsg, hcol, v, hb, hb2, hq2, hq2']
                · have hcm' : ¬ (some c = some (44 : UInt8)) := by simpa using hcm
                  refine ⟨g1+1, ?_⟩
                  simp [Spec.members, hq, Spec.string, hsg, hcol, hg1, hb, hcb, hcm, hcb', hcm']

end Sonic
