import SonicModel.Lemmas.BraceLoop
import SonicModel.Lemmas.StringBits
import SonicModel.Spec.Scan
namespace Sonic
namespace Block
open Simd Spec

/-! ### one 64-byte block of the bit-parallel skipper is the scalar scan of its 64 bytes -/

theorem toMask_bit (p : UInt8 → Bool) (bl : List UInt8) (j : Nat) (hj : j < 64) :
    (toMask p bl).getLsbD j = (match bl[j]? with | some b => p b | none => false) := by
  unfold toMask
  rw [BitVec.getLsbD_ofNat, Sonic.Thm.C17.mask_bit]
  simp only [hj, decide_true, Bool.true_and]
  cases bl[j]? <;> rfl

/-- carries of a block state are well-formed -/
def Good (st : St) : Prop :=
  (st.prevIn = 0#64 ∨ st.prevIn = BitVec.allOnes 64) ∧ (st.prevEsc = 0#64 ∨ st.prevEsc = 1#64)

def dec (st : St) : ScanSt :=
  ⟨decide (st.prevIn = BitVec.allOnes 64), decide (st.prevEsc = 1#64), st.l, st.r⟩

theorem getEscaped_zero (pe : BitVec 64) (hp : pe = 0#64 ∨ pe = 1#64) : getEscaped pe 0#64 = (pe, 0#64) := by
  unfold getEscaped EVEN
  rcases hp with rfl | rfl <;> simp only <;> (apply Prod.ext <;> simp only <;> bv_decide)

theorem stringBits_eq (bs quote pi pe : BitVec 64) (hp : pe = 0#64 ∨ pe = 1#64) :
    stringBits bs quote pi pe =
      (pxor (quote &&& ~~~(getEscaped pe bs).1) ^^^ pi,
       (if (pxor (quote &&& ~~~(getEscaped pe bs).1) ^^^ pi).getLsbD 63 then BitVec.allOnes 64 else 0#64),
       (getEscaped pe bs).2) := by
  unfold stringBits
  by_cases h : bs = 0#64
  · subst h
    rw [getEscaped_zero pe hp]
    simp
  · simp [h]

/-- the in-string state before byte `j` -/
def inPrev (p : Bool) (q : Nat → Bool) : Nat → Bool
  | 0 => p
  | j+1 => inBit p q j

theorem inBit_step (p : Bool) (q : Nat → Bool) (j : Nat) : inBit p q j = xor (inPrev p q j) (q j) := by
  cases j <;> rfl

def proj (x : Option Nat × ScanSt) : Option Nat × Nat × Nat := (x.1, x.2.l, x.2.r)

/-- the positional scan of the masks of a block, from position `j` on, is the scalar scan of the bytes from `j` on -/
theorem posScan_is_scan (bl : List UInt8) (hl : bl.length = 64) (left right : UInt8)
    (pi pe : BitVec 64) (hpi : pi = 0#64 ∨ pi = BitVec.allOnes 64) (hpe : pe = 0#64 ∨ pe = 1#64) :
    let BS := toMask (· == 92) bl
    let E := (getEscaped pe BS).1
    let q := toMask (· == 34) bl &&& ~~~E
    let IN := pxor q ^^^ pi
    let R := toMask (· == right) bl &&& ~~~IN
    let L := toMask (· == left) bl &&& ~~~IN
    let eB := decide (pe = 1#64)
    let iB := decide (pi = BitVec.allOnes 64)
    ∀ (k j : Nat), j + k = 64 → ∀ (l r : Nat),
      posScan k (R >>> j) (L >>> j) l r =
        proj (scan left right (bl.drop j) ⟨inPrev iB q.getLsbD j, escBit eB BS.getLsbD j, l, r⟩) ∧
      ((scan left right (bl.drop j) ⟨inPrev iB q.getLsbD j, escBit eB BS.getLsbD j, l, r⟩).1 = none →
        (scan left right (bl.drop j) ⟨inPrev iB q.getLsbD j, escBit eB BS.getLsbD j, l, r⟩).2.inStr = inPrev iB q.getLsbD 64 ∧
        (scan left right (bl.drop j) ⟨inPrev iB q.getLsbD j, escBit eB BS.getLsbD j, l, r⟩).2.esc = escBit eB BS.getLsbD 64) := by
  intro BS E q IN R L eB iB k
  induction k with
  | zero =>
    intro j hj l r
    have : j = 64 := by omega
    subst this
    have hd : bl.drop 64 = [] := by rw [List.drop_eq_nil_iff]; omega
    rw [hd]
    simp [posScan, scan, proj]
  | succ k ih =>
    intro j hj l r
    have hj64 : j < 64 := by omega
    have hjl : j < bl.length := by omega
    have hdrop : bl.drop j = bl[j] :: bl.drop (j + 1) := by
      rw [List.drop_eq_getElem_cons hjl]
    have hget : bl[j]? = some bl[j] := by simp [hjl]
    -- the bits of the masks at position `j`
    have hBS : BS.getLsbD j = (bl[j] == 92) := by
      show (toMask (· == 92) bl).getLsbD j = _
      rw [toMask_bit _ bl j hj64, hget]
    have hE : E.getLsbD j = escBit eB BS.getLsbD j := escaped_bits pe BS hpe j hj64
    have hq : q.getLsbD j = (bl[j] == 34 && !escBit eB BS.getLsbD j) := by
      show (toMask (· == 34) bl &&& ~~~E).getLsbD j = _
      rw [BitVec.getLsbD_and, BitVec.getLsbD_not, toMask_bit _ bl j hj64, hget, hE]
      simp [hj64]
    have hIN : IN.getLsbD j = inBit iB q.getLsbD j := instring_bits q pi hpi j hj64
    have hR : R.getLsbD j = (!inBit iB q.getLsbD j && bl[j] == right) := by
      show (toMask (· == right) bl &&& ~~~IN).getLsbD j = _
      rw [BitVec.getLsbD_and, BitVec.getLsbD_not, toMask_bit _ bl j hj64, hget, hIN]
      simp [hj64, Bool.and_comm]
    have hL : L.getLsbD j = (!inBit iB q.getLsbD j && bl[j] == left) := by
      show (toMask (· == left) bl &&& ~~~IN).getLsbD j = _
      rw [BitVec.getLsbD_and, BitVec.getLsbD_not, toMask_bit _ bl j hj64, hget, hIN]
      simp [hj64, Bool.and_comm]
    have hR0 : (R >>> j).getLsbD 0 = R.getLsbD j := by rw [BitVec.getLsbD_ushiftRight]; rfl
    have hL0 : (L >>> j).getLsbD 0 = L.getLsbD j := by rw [BitVec.getLsbD_ushiftRight]; rfl
    have hRs : (R >>> j) >>> 1 = R >>> (j + 1) := (BitVec.shiftRight_add R j 1).symm
    have hLs : (L >>> j) >>> 1 = L >>> (j + 1) := (BitVec.shiftRight_add L j 1).symm
    -- one step of the scalar scan
    have hinS : xor (inPrev iB q.getLsbD j) (bl[j] == 34 && !escBit eB BS.getLsbD j) = inBit iB q.getLsbD j := by
      rw [inBit_step, hq]
    have hescS : (bl[j] == 92 && !escBit eB BS.getLsbD j) = escBit eB BS.getLsbD (j + 1) := by
      rw [escBit, hBS]
    rw [hdrop]
    simp only [posScan, scan, scanStep, hR0, hL0, hRs, hLs, hR, hL, hinS, hescS]
    have hnext : inBit iB q.getLsbD j = inPrev iB q.getLsbD (j + 1) := rfl
    by_cases hc : (!inBit iB q.getLsbD j && bl[j] == right) = true
    · simp only [hc, if_true]
      by_cases hlt : l < r + 1
      · simp [hlt, proj]
      · have := ih (j + 1) (by omega) l (r + 1)
        simp only [← hnext] at this
        simp only [hlt, if_false, decide_false, Bool.false_eq_true]
        refine ⟨?_, ?_⟩
        · rw [this.1]; simp [proj, bump]
        · intro hn
          apply this.2
          cases hs : (scan left right (bl.drop (j + 1)) ⟨inBit iB q.getLsbD j, escBit eB BS.getLsbD (j + 1), l, r + 1⟩).1 with
          | none => rfl
          | some n => rw [hs] at hn; simp at hn
    · have hc' : (!inBit iB q.getLsbD j && bl[j] == right) = false := by simpa using hc
      simp only [hc', Bool.false_eq_true, if_false]
      have := ih (j + 1) (by omega) (l + (if (!inBit iB q.getLsbD j && bl[j] == left) = true then 1 else 0)) r
      simp only [← hnext] at this
      refine ⟨?_, ?_⟩
      · rw [this.1]; simp [proj, bump]
      · intro hn
        apply this.2
        cases hs : (scan left right (bl.drop (j + 1)) ⟨inBit iB q.getLsbD j, escBit eB BS.getLsbD (j + 1), l + (if (!inBit iB q.getLsbD j && bl[j] == left) = true then 1 else 0), r⟩).1 with
        | none => rfl
        | some n => rw [hs] at hn; simp at hn


theorem masks_disjoint (bl : List UInt8) (left right : UInt8) (hne : left ≠ right) (X : BitVec 64) :
    (toMask (· == left) bl &&& ~~~X) &&& (toMask (· == right) bl &&& ~~~X) = 0#64 := by
  apply BitVec.eq_of_getLsbD_eq
  intro i hi
  simp only [BitVec.getLsbD_and, BitVec.getLsbD_zero, toMask_bit _ bl i hi]
  cases h : bl[i]? with
  | none => simp
  | some b =>
    simp only
    by_cases hb : b = left
    · subst hb
      have : (b == right) = false := by simpa using hne
      simp [this]
    · have : (b == left) = false := by simpa using hb
      simp [this]

theorem ite_allOnes (b : Bool) :
    decide ((if b = true then BitVec.allOnes 64 else 0#64) = BitVec.allOnes 64) = b := by
  cases b
  · have : ¬ ((0#64 : BitVec 64) = BitVec.allOnes 64) := by decide
    simp [this]
  · simp

theorem good_state (b : Bool) (c : BitVec 64) (hc : c = 0#64 ∨ c = 1#64) (l r : Nat) :
    Good ⟨if b = true then BitVec.allOnes 64 else 0#64, c, l, r⟩ := by
  refine ⟨?_, hc⟩
  cases b
  · left; simp
  · right; simp

theorem final_state (b : Bool) (c : BitVec 64) (l r : Nat) (s : ScanSt)
    (h1 : s.inStr = b) (h2 : s.esc = decide (c = 1#64)) (h3 : s.l = l) (h4 : s.r = r) :
    dec ⟨if b = true then BitVec.allOnes 64 else 0#64, c, l, r⟩ = s := by
  obtain ⟨i, e, l', r'⟩ := s
  simp only at h1 h2 h3 h4
  subst h1 h2 h3 h4
  simp only [dec, ite_allOnes]

/-- **one block**: the bit-parallel `skip_container_loop` on 64 bytes decides exactly what the scalar
    scan of these bytes decides, and hands the same state on to the next block -/
theorem containerBlock_spec (bl : List UInt8) (hl : bl.length = 64) (st : St) (hg : Good st)
    (left right : UInt8) (hne : left ≠ right) :
    (containerBlock bl st left right).1 = (scan left right bl (dec st)).1 ∧
    ((scan left right bl (dec st)).1 = none →
      Good (containerBlock bl st left right).2 ∧ dec (containerBlock bl st left right).2 = (scan left right bl (dec st)).2) := by
  obtain ⟨hpi, hpe⟩ := hg
  have hsb := stringBits_eq (toMask (· == 92) bl) (toMask (· == 34) bl) st.prevIn st.prevEsc hpe
  have hK := posScan_is_scan bl hl left right st.prevIn st.prevEsc hpi hpe 64 0 (by omega) st.l st.r
  simp only [BitVec.ushiftRight_zero, List.drop_zero] at hK
  obtain ⟨hK1, hK2⟩ := hK
  have hdis := masks_disjoint bl left right hne
    (pxor (toMask (· == 34) bl &&& ~~~(getEscaped st.prevEsc (toMask (· == 92) bl)).1) ^^^ st.prevIn)
  have hloop := braceLoop_eq_posScan 64 64 _ _ st.l st.r (fits_64 _) (fits_64 _) hdis (Nat.le_refl _)
  have hstate : (⟨inPrev (decide (st.prevIn = BitVec.allOnes 64)) (toMask (· == 34) bl &&& ~~~(getEscaped st.prevEsc (toMask (· == 92) bl)).1).getLsbD 0,
      escBit (decide (st.prevEsc = 1#64)) (toMask (· == 92) bl).getLsbD 0, st.l, st.r⟩ : ScanSt) = dec st := rfl
  rw [hstate] at hK1 hK2
  unfold containerBlock
  simp only [hsb, hloop, hK1, proj]
  refine ⟨trivial, ?_⟩
  intro hn
  obtain ⟨hin, hesc⟩ := hK2 hn
  have hcar := escaped_carry st.prevEsc (toMask (· == 92) bl) hpe
  have hIN63 := instring_bits (toMask (· == 34) bl &&& ~~~(getEscaped st.prevEsc (toMask (· == 92) bl)).1) st.prevIn hpi 63 (by omega)
  refine ⟨good_state _ _ hcar.1 _ _, ?_⟩
  apply final_state
  · rw [hin]; exact hIN63.symm
  · rw [hesc]; exact hcar.2.symm
  · rfl
  · rfl


/-! ### the whole text: block after block, the rest padded with zeros -/

theorem scan_append (left right : UInt8) : ∀ (a b : List UInt8) (s : ScanSt),
    (scan left right (a ++ b) s).1 =
      (match (scan left right a s).1 with
       | some n => some n
       | none => ((scan left right b (scan left right a s).2).1).map (· + a.length)) := by
  intro a
  induction a with
  | nil => intro b s; simp [scan]
  | cons x rest ih =>
    intro b s
    simp only [List.cons_append, scan]
    by_cases hd : (scanStep left right s x).2 = true
    · simp [hd]
    · simp only [hd, Bool.false_eq_true, if_false]
      rw [ih b (scanStep left right s x).1]
      cases h : (scan left right rest (scanStep left right s x).1).1 with
      | some n => simp
      | none =>
        simp only [Option.map_none, List.length_cons, Option.map_map]
        congr 1

theorem scan_zeros (left right : UInt8) (hr : right ≠ 0) : ∀ (k : Nat) (s : ScanSt),
    (scan left right (List.replicate k 0) s).1 = none := by
  intro k
  induction k with
  | zero => intro s; simp [scan]
  | succ k ih =>
    intro s
    have h0 : ((0 : UInt8) == right) = false := by
      have : ¬ ((0 : UInt8) = right) := fun e => hr e.symm
      simpa using this
    have hstep : (scanStep left right s 0).2 = false := by
      simp [scanStep, h0]
    simp only [List.replicate_succ, scan, hstep, Bool.false_eq_true, if_false, ih, Option.map_none]

theorem skipContainer_spec (left right : UInt8) (hne : left ≠ right) (hr : right ≠ 0) :
    ∀ (fuel : Nat) (data : List UInt8) (st : St) (eaten : Nat), Good st → data.length < 64 * fuel →
      skipContainer fuel data st left right eaten = ((scan left right data (dec st)).1).map (· + eaten) := by
  intro fuel
  induction fuel with
  | zero => intro data st eaten _ h; omega
  | succ f ih =>
    intro data st eaten hg hlen
    rw [skipContainer]
    by_cases hge : data.length ≥ 64
    · simp only [hge, if_true]
      have hl : (data.take 64).length = 64 := by rw [List.length_take]; omega
      obtain ⟨h1, h2⟩ := containerBlock_spec (data.take 64) hl st hg left right hne
      have happ := scan_append left right (data.take 64) (data.drop 64) (dec st)
      rw [List.take_append_drop] at happ
      cases hres : (scan left right (data.take 64) (dec st)).1 with
      | some n =>
        rw [hres] at h1 happ
        have : containerBlock (data.take 64) st left right = (some n, (containerBlock (data.take 64) st left right).2) := by
          rw [← h1]
        rw [this]
        simp only [happ, Option.map_some]
        congr 1; omega
      | none =>
        rw [hres] at h1 happ
        obtain ⟨hg', hdec⟩ := h2 hres
        have : containerBlock (data.take 64) st left right = (none, (containerBlock (data.take 64) st left right).2) := by
          rw [← h1]
        rw [this]
        simp only
        rw [ih (data.drop 64) _ (eaten + 64) hg' (by rw [List.length_drop]; omega), hdec, happ, hl]
        simp only [Option.map_map]
        congr 1
        funext n
        simp only [Function.comp]; omega
    · simp only [hge, if_false]
      have hl : (data ++ List.replicate (64 - data.length) 0).length = 64 := by
        rw [List.length_append, List.length_replicate]; omega
      obtain ⟨h1, _⟩ := containerBlock_spec _ hl st hg left right hne
      have happ := scan_append left right data (List.replicate (64 - data.length) 0) (dec st)
      cases hres : (scan left right data (dec st)).1 with
      | some n =>
        rw [hres] at happ
        simp only at happ
        rw [happ] at h1
        have : containerBlock (data ++ List.replicate (64 - data.length) 0) st left right =
            (some n, (containerBlock (data ++ List.replicate (64 - data.length) 0) st left right).2) := by
          rw [← h1]
        rw [this]
        simp only [Option.map_some]
        congr 1; omega
      | none =>
        rw [hres] at happ
        simp only at happ
        rw [scan_zeros left right hr] at happ
        rw [happ] at h1
        simp only [Option.map_none] at h1
        have : containerBlock (data ++ List.replicate (64 - data.length) 0) st left right =
            (none, (containerBlock (data ++ List.replicate (64 - data.length) 0) st left right).2) := by
          rw [← h1]
        rw [this]
        simp

/-- **the bit-parallel container skipper is the scalar scan**: for every text (the bytes after the opening
    bracket), whatever it contains, `skip_container` — 64-byte blocks, escape mask by carry-propagating
    addition, in-string mask by prefix xor, brackets counted by popcount over the right-bracket bits —
    consumes exactly as many bytes as walking the text byte by byte does, or fails exactly when that does -/
theorem skipContainer_eq_scalar (left right : UInt8) (hne : left ≠ right) (hr : right ≠ 0) (data : List UInt8) :
    skipContainer (data.length / 64 + 1) data St.init left right 0 = skipContainerScalar left right data := by
  have hg : Good St.init := ⟨Or.inl rfl, Or.inl rfl⟩
  rw [skipContainer_spec left right hne hr _ data St.init 0 hg (by omega)]
  have hd : dec St.init = ScanSt.init := by
    have : ¬ ((0#64 : BitVec 64) = BitVec.allOnes 64) := by decide
    have h1 : ¬ ((0#64 : BitVec 64) = 1#64) := by decide
    simp [dec, St.init, ScanSt.init, this, h1]
  rw [hd]
  unfold skipContainerScalar
  cases (scan left right data ScanSt.init).1 <;> simp

end Block
end Sonic
