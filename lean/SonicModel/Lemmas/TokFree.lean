import SonicModel.Lemmas.ScanGrammar
namespace Sonic
namespace Spec
open Gen

/-! ### ranges of bytes that all satisfy a predicate (generalisation of `PlainR`): whitespace, digits, number tokens, literals -/

def AllR (P : UInt8 → Bool) (buf : Buf) (i e : Nat) : Prop :=
  ∀ k (hk : k < buf.size), i ≤ k → k < e → P buf[k] = true

theorem allR_trans (P : UInt8 → Bool) (buf : Buf) (i m e : Nat)
    (h1 : AllR P buf i m) (h2 : AllR P buf m e) : AllR P buf i e := by
  intro k hk a b
  by_cases hkm : k < m
  · exact h1 k hk a hkm
  · exact h2 k hk (by omega) b

theorem allR_one (P : UInt8 → Bool) (buf : Buf) (i : Nat) (c : UInt8) (h : buf[i]? = some c)
    (hp : P c = true) : AllR P buf i (i + 1) := by
  intro k hk a b
  have : k = i := by omega
  subst this
  have := (Array.getElem?_eq_some_iff.mp h).2
  rw [this]; exact hp

theorem allR_empty (P : UInt8 → Bool) (buf : Buf) (i e : Nat) (h : e ≤ i) : AllR P buf i e := by
  intro k _ a b; omega

theorem skipWs_allR (P : UInt8 → Bool) (hws : ∀ b : UInt8, isWs b = true → P b = true) (buf : Buf) (i : Nat) :
    AllR P buf i (skipWs buf i) := by
  fun_induction skipWs buf i
  · rename_i i hlt hw ih
    intro k hkk a b
    by_cases hki : k = i
    · subst hki; exact hws _ hw
    · exact ih k hkk (by omega) b
  · rename_i i hlt hw
    intro k _ a b; omega
  · rename_i i hlt
    intro k _ a b; omega

theorem skipDigits_allR (P : UInt8 → Bool) (hdig : ∀ b : UInt8, isDigit b = true → P b = true) (buf : Buf) (i : Nat) :
    AllR P buf i (skipDigits buf i) := by
  fun_induction skipDigits buf i
  · rename_i i hlt hw ih
    intro k hkk a b
    by_cases hki : k = i
    · subst hki; exact hdig _ hw
    · exact ih k hkk (by omega) b
  · rename_i i hlt hw
    intro k _ a b; omega
  · rename_i i hlt
    intro k _ a b; omega


theorem litAt_allR (P : UInt8 → Bool) (buf : Buf) : ∀ (bs : List UInt8) (i e : Nat),
    (∀ b ∈ bs, P b = true) → litAt buf i bs = some e → AllR P buf i e ∧ i ≤ e := by
  intro bs
  induction bs with
  | nil => intro i e _ h; simp [litAt] at h; subst h; exact ⟨allR_empty _ _ _ _ (Nat.le_refl _), Nat.le_refl _⟩
  | cons b rest ih =>
    intro i e hp h
    simp only [litAt] at h
    by_cases hb : buf[i]? = some b
    · simp only [hb, if_true] at h
      obtain ⟨h1, h2⟩ := ih (i+1) e (fun x hx => hp x (by simp [hx])) h
      exact ⟨allR_trans _ _ i (i+1) e (allR_one _ _ i b hb (hp b (by simp))) h1, by omega⟩
    · simp [hb] at h

/-- a number token consists of plain bytes -/
theorem number_allR (P : UInt8 → Bool) (hdig : ∀ b : UInt8, isDigit b = true → P b = true)
    (hminus : P 45 = true) (hdot : P 46 = true) (hplus : P 43 = true) (he1 : P 101 = true) (he2 : P 69 = true) (buf : Buf) (i e : Nat)
    (h : number buf i = some e) : AllR P buf i e := by
  -- the exponent part
  have hexpo : ∀ a r, expo buf a = some r → AllR P buf a r := by
    intro a r hx
    unfold expo at hx
    by_cases hE : (buf[a]? = some 101 || buf[a]? = some 69) = true
    · simp only [hE, if_true] at hx
      have hEp : AllR P buf a (a + 1) := by
        simp only [Bool.or_eq_true, decide_eq_true_eq] at hE
        rcases hE with h1 | h1
        · exact allR_one _ _ a 101 h1 he1
        · exact allR_one _ _ a 69 h1 he2
      by_cases hS : (buf[a+1]? = some 45 || buf[a+1]? = some 43) = true
      · simp only [hS, if_true] at hx
        have hSp : AllR P buf (a+1) (a + 2) := by
          simp only [Bool.or_eq_true, decide_eq_true_eq] at hS
          rcases hS with h1 | h1
          · exact allR_one _ _ (a+1) 45 h1 hminus
          · exact allR_one _ _ (a+1) 43 h1 hplus
        by_cases hd : isDigitAt buf (a+2) = true
        · simp only [hd, if_true, Option.some.injEq] at hx
          subst hx
          have hdp : AllR P buf (a+2) (a+2+1) := by
            unfold isDigitAt at hd
            cases hc : buf[a+2]? with
            | none => simp [hc] at hd
            | some c => simp only [hc] at hd; exact allR_one _ _ (a+2) c hc (hdig c hd)
          exact allR_trans _ _ a (a+1) _ hEp (allR_trans _ _ (a+1) (a+2) _ hSp
            (allR_trans _ _ (a+2) (a+2+1) _ hdp (skipDigits_allR _ hdig buf (a+2+1))))
        · simp [hd] at hx
      · simp only [hS, Bool.false_eq_true, if_false] at hx
        by_cases hd : isDigitAt buf (a+1) = true
        · simp only [hd, if_true, Option.some.injEq] at hx
          subst hx
          have hdp : AllR P buf (a+1) (a+1+1) := by
            unfold isDigitAt at hd
            cases hc : buf[a+1]? with
            | none => simp [hc] at hd
            | some c => simp only [hc] at hd; exact allR_one _ _ (a+1) c hc (hdig c hd)
          exact allR_trans _ _ a (a+1) _ hEp (allR_trans _ _ (a+1) (a+1+1) _ hdp (skipDigits_allR _ hdig buf (a+1+1)))
        · simp [hd] at hx
    · simp only [hE, Bool.false_eq_true, if_false, Option.some.injEq] at hx
      subst hx; exact allR_empty _ _ _ _ (Nat.le_refl _)
  -- the fraction part
  have hfrac : ∀ a r, frac buf a = some r → AllR P buf a r := by
    intro a r hx
    unfold frac at hx
    by_cases hD : buf[a]? = some 46
    · simp only [hD, if_true] at hx
      by_cases hd : isDigitAt buf (a+1) = true
      · simp only [hd, if_true, Option.some.injEq] at hx
        subst hx
        have hdp : AllR P buf (a+1) (a+2) := by
          unfold isDigitAt at hd
          cases hc : buf[a+1]? with
          | none => simp [hc] at hd
          | some c => simp only [hc] at hd; exact allR_one _ _ (a+1) c hc (hdig c hd)
        exact allR_trans _ _ a (a+1) _ (allR_one _ _ a 46 hD hdot)
          (allR_trans _ _ (a+1) (a+2) _ hdp (skipDigits_allR _ hdig buf (a+2)))
      · simp [hd] at hx
    · simp only [hD, if_false, Option.some.injEq] at hx
      subst hx; exact allR_empty _ _ _ _ (Nat.le_refl _)
  unfold number at h
  -- the sign
  have hsign : AllR P buf i (if buf[i]? = some 45 then i + 1 else i) := by
    by_cases hm : buf[i]? = some 45
    · simp only [hm, if_true]; exact allR_one _ _ i 45 hm hminus
    · simp only [hm, if_false]; exact allR_empty _ _ _ _ (Nat.le_refl _)
  generalize (if buf[i]? = some 45 then i + 1 else i) = i1 at h hsign
  simp only at h
  cases hc : buf[i1]? with
  | none => simp [hc] at h
  | some c =>
    simp only [hc] at h
    by_cases hd : isDigit c = true
    · simp only [hd, if_true] at h
      unfold afterFirst at h
      simp only at h
      have hfirst := allR_one P buf i1 c hc (hdig c hd)
      have hint : AllR P buf (i1+1) (if (c == 48) = true then i1 + 1 else skipDigits buf (i1 + 1)) := by
        by_cases hz : (c == 48) = true
        · simp only [hz, if_true]; exact allR_empty _ _ _ _ (Nat.le_refl _)
        · simp only [hz, Bool.false_eq_true, if_false]; exact skipDigits_allR _ hdig buf (i1+1)
      generalize (if (c == 48) = true then i1 + 1 else skipDigits buf (i1 + 1)) = i2 at h hint
      by_cases hbad : (c == 48 && isDigitAt buf i2) = true
      · simp [hbad] at h
      · simp only [hbad, Bool.false_eq_true, if_false] at h
        cases hfr : frac buf i2 with
        | none => simp [hfr] at h
        | some i3 =>
          simp only [hfr, Option.bind_some] at h
          exact allR_trans _ _ i i1 e hsign (allR_trans _ _ i1 (i1+1) e hfirst
            (allR_trans _ _ (i1+1) i2 e hint (allR_trans _ _ i2 i3 e (hfrac i2 i3 hfr) (hexpo i3 e h))))
    · simp [hd] at h



end Spec
end Sonic
