import SonicModel.Lemmas.ImplFuel
import SonicModel.Impl.Entry
namespace Sonic
open Gen Impl

theorem utf8Seq_le (buf : Buf) (i n : Nat) (h : Spec.utf8Seq buf i = some n) : i + n ≤ buf.size := by
  unfold Spec.utf8Seq at h
  have l0 : ∀ c, buf[i]? = some c → i < buf.size := fun c h => Spec.getElem?_some_lt h
  have l1 : ∀ c, buf[i+1]? = some c → i + 1 < buf.size := fun c h => Spec.getElem?_some_lt h
  have l2 : ∀ c, buf[i+2]? = some c → i + 2 < buf.size := fun c h => Spec.getElem?_some_lt h
  have l3 : ∀ c, buf[i+3]? = some c → i + 3 < buf.size := fun c h => Spec.getElem?_some_lt h
  grind

theorem utf8FirstInvalid_le (buf : Buf) (i : Nat) (h : i ≤ buf.size) : Spec.utf8FirstInvalid buf i ≤ buf.size := by
  fun_induction Spec.utf8FirstInvalid buf i
  · rename_i hs _ ih; exact ih (utf8Seq_le _ _ _ hs)
  all_goals omega

theorem nextInvalid_none_iff (buf : Buf) : nextInvalid true buf = none ↔ Spec.utf8Valid buf = true := by
  unfold nextInvalid Spec.utf8Valid
  have := utf8FirstInvalid_le buf 0 (Nat.zero_le _)
  simp only [ite_true]
  split
  · simp; omega
  · simp; omega

/-- `parse_trailing` of the checked reader accepts exactly "only whitespace follows" -/
theorem parseTrailing_ok_iff (buf : Buf) (e : Nat) :
    (∃ j, parseTrailing buf buf.size e = .ok j) ↔ skipWs buf e = buf.size := by
  unfold parseTrailing
  by_cases h1 : e > buf.size
  · simp only [h1, ite_true]
    have := skipWs_eof buf e (by omega)
    constructor
    · intro ⟨j, hj⟩; simp at hj
    · intro h; omega
  · simp only [h1, ite_false]
    by_cases h2 : buf.size - e = 0
    · simp only [h2, ite_true]
      have : skipWs buf e = e := skipWs_eof buf e (by omega)
      constructor
      · intro _; omega
      · intro _; exact ⟨e, rfl⟩
    · simp only [h2, ite_false]
      rw [skipSpace_spec]
      cases hb : buf[skipWs buf e]? with
      | none =>
        have hle := skipWs_le buf e (by omega)
        have : ¬ skipWs buf e < buf.size := by
          intro hlt; simp [hlt] at hb
        simp only [Option.map_none]
        constructor
        · intro _; omega
        · intro _; exact ⟨_, rfl⟩
      | some c =>
        have hlt := (Array.getElem?_eq_some_iff.mp hb).1
        simp only [Option.map_some]
        have : ¬ (skipWs buf e + 1 > buf.size) := by omega
        simp only [this, ite_false]
        constructor
        · intro ⟨j, hj⟩; simp at hj
        · intro h; omega

/-- **C02, validate-and-skip entry points, as an equivalence on whole inputs**: the model of
    `from_slice::<LazyValue>` (and `IgnoredAny`, strict `OwnedLazyValue`) accepts a byte string
    if and only if it is valid UTF-8 and a document of the RFC 8259 grammar. -/
theorem lazyFrom_accept_iff (buf : Buf) :
    (∃ s e, lazyFrom true buf = .accept s e) ↔
      (Spec.utf8Valid buf = true ∧ (Spec.document false buf).isSome = true) := by
  have heq := skipOne_eq_value buf 0
  have hnf := skipOne_fuelFor_ne_fuel buf 0
  unfold lazyFrom Spec.document
  simp only
  cases hso : skipOne buf.size (fuelFor buf) buf 0 with
  | fuel => exact absurd hso hnf
  | err c p =>
    rw [hso] at heq
    simp only [IRes.erase_err] at heq
    rw [← heq]
    simp
  | ok e =>
    rw [hso] at heq
    simp only [IRes.erase_ok] at heq
    rw [← heq]
    simp only
    have htr := parseTrailing_ok_iff buf e
    cases hpt : parseTrailing buf buf.size e with
    | fuel =>
      have : ¬ skipWs buf e = buf.size := fun h => by
        obtain ⟨j, hj⟩ := htr.mpr h; rw [hpt] at hj; simp at hj
      simp [this]
    | err c p =>
      have : ¬ skipWs buf e = buf.size := fun h => by
        obtain ⟨j, hj⟩ := htr.mpr h; rw [hpt] at hj; simp at hj
      simp [this]
    | ok j =>
      have hw : skipWs buf e = buf.size := htr.mp ⟨j, hpt⟩
      simp only [hw, ite_true, Option.isSome_some, and_true]
      have hn := nextInvalid_none_iff buf
      cases hinv : nextInvalid true buf with
      | none => simp [hn.mp hinv]
      | some p =>
        have : ¬ Spec.utf8Valid buf = true := fun h => by rw [hn.mpr h] at hinv; simp at hinv
        simp [this]

end Sonic
