import SonicModel.Impl.Many
namespace Sonic
namespace Many
open Spec

theorem findKid_updKid_same (f : Trie → Trie) (s : Step) (kids : List (Step × Trie)) :
    findKid s (updKid f s kids) = some (f ((findKid s kids).getD Trie.empty)) := by
  induction kids with
  | nil => simp [updKid, findKid]
  | cons p r ih =>
    obtain ⟨s', c⟩ := p
    simp only [updKid, findKid]
    split <;> simp_all [findKid]

theorem findKid_updKid_ne (f : Trie → Trie) (s s' : Step) (h : s' ≠ s) (kids : List (Step × Trie)) :
    findKid s' (updKid f s kids) = findKid s' kids := by
  induction kids with
  | nil => simp [updKid, findKid, h.symm]
  | cons p r ih =>
    obtain ⟨s2, c⟩ := p
    simp only [updKid, findKid]
    split
    · rename_i e; subst e
      simp [findKid, h.symm]
    · simp only [findKid]
      split
      · rfl
      · exact ih

theorem orderAt_empty (q : List Step) : orderAt Trie.empty q = [] := by
  cases q <;> simp [orderAt, Trie.at, Trie.empty, findKid, Trie.order]

theorem orderAt_cons (o : List Nat) (kids : List (Step × Trie)) (s : Step) (r : List Step) :
    orderAt (.node o kids) (s :: r) = match findKid s kids with
      | some c => orderAt c r
      | none => [] := by
  simp only [orderAt, Trie.at]
  cases findKid s kids <;> rfl

/-- adding a path registers its slot at the end of that path and nowhere else -/
theorem orderAt_insert (i : Nat) : ∀ (p : List Step) (t : Trie) (q : List Step) (j : Nat),
    j ∈ orderAt (t.insert i p) q ↔ (j ∈ orderAt t q ∨ (j = i ∧ q = p)) := by
  intro p
  induction p with
  | nil =>
    intro t q j
    obtain ⟨o, kids⟩ := t
    cases q with
    | nil => simp [Trie.insert, orderAt, Trie.at, Trie.order]
    | cons s r => simp [Trie.insert, orderAt_cons]
  | cons s rest ih =>
    intro t q j
    obtain ⟨o, kids⟩ := t
    cases q with
    | nil => simp [Trie.insert, orderAt, Trie.at, Trie.order]
    | cons s' r =>
      simp only [Trie.insert, orderAt_cons]
      by_cases hs : s' = s
      · subst hs
        rw [findKid_updKid_same]
        simp only []
        rw [ih]
        cases hk : findKid s' kids with
        | none => simp [orderAt_empty]
        | some c => simp
      · rw [findKid_updKid_ne _ _ _ hs]
        simp [hs]

theorem orderAt_buildFrom : ∀ (paths : List (List Step)) (t : Trie) (n : Nat) (q : List Step) (j : Nat),
    j ∈ orderAt (buildFrom t n paths) q ↔ (j ∈ orderAt t q ∨ ∃ k, k < paths.length ∧ j = n + k ∧ paths[k]? = some q) := by
  intro paths
  induction paths with
  | nil => intro t n q j; simp [buildFrom]
  | cons p rest ih =>
    intro t n q j
    simp only [buildFrom]
    rw [ih, orderAt_insert]
    constructor
    · rintro ((h | ⟨h1, h2⟩) | ⟨k, hk, hj, hp⟩)
      · exact Or.inl h
      · exact Or.inr ⟨0, by simp, by omega, by simp [h2]⟩
      · exact Or.inr ⟨k + 1, by simp; omega, by omega, by simpa using hp⟩
    · rintro (h | ⟨k, hk, hj, hp⟩)
      · exact Or.inl (Or.inl h)
      · cases k with
        | zero => simp at hp; exact Or.inl (Or.inr ⟨by omega, hp.symm⟩)
        | succ k => exact Or.inr ⟨k, by simp at hk; omega, by omega, by simpa using hp⟩

/-- **one slot per added path, in insertion order**: slot `j` is registered exactly at the end of
    the `j`-th path (repeated paths share a node, each with its own slot) -/
theorem build_slots (paths : List (List Step)) (q : List Step) (j : Nat) :
    j ∈ orderAt (build paths) q ↔ paths[j]? = some q := by
  unfold build
  rw [orderAt_buildFrom]
  simp only [orderAt_empty, List.not_mem_nil, false_or, Nat.zero_add]
  constructor
  · rintro ⟨k, _, rfl, hp⟩; exact hp
  · intro h
    have hlt : j < paths.length := by
      by_cases hh : j < paths.length
      · exact hh
      · simp [List.getElem?_eq_none (by omega : paths.length ≤ j)] at h
    exact ⟨j, hlt, rfl, h⟩

/-! ### slots -/

theorem unfilled_set {α} (out : List (Option α)) (p : Nat) (v : α) (h : out[p]? = some none) :
    unfilled (out.set p (some v)) + 1 = unfilled out := by
  induction out generalizing p with
  | nil => simp at h
  | cons a l ih =>
    cases p with
    | zero =>
      simp at h; subst h
      simp [unfilled, List.filter_cons]
    | succ p =>
      simp at h
      have := ih p h
      cases a <;> simp [unfilled, List.filter_cons] at this ⊢ <;> omega

/-- the counter of `get_many_rec` is the number of unfilled slots: it reaches zero exactly when
    every path has its value (each slot is counted once, also when a node is visited again) -/
theorem fillSlots_remain {α} (v : α) (order : List Nat) : ∀ (out : List (Option α)) (remain : Nat),
    remain = unfilled out → (fillSlots v order (out, remain)).2 = unfilled (fillSlots v order (out, remain)).1 := by
  induction order with
  | nil => intro out remain h; simpa [fillSlots] using h
  | cons p rest ih =>
    intro out remain h
    simp only [fillSlots]
    split
    · rename_i hp
      apply ih
      have := unfilled_set out p v hp
      omega
    · exact ih out remain h

/-- a filled slot is never overwritten (the first member of a duplicated key wins) -/
theorem fillSlots_keeps {α} (v w : α) (order : List Nat) : ∀ (out : List (Option α)) (remain : Nat) (q : Nat),
    out[q]? = some (some w) → (fillSlots v order (out, remain)).1[q]? = some (some w) := by
  induction order with
  | nil => intro out remain q h; simpa [fillSlots] using h
  | cons p rest ih =>
    intro out remain q h
    simp only [fillSlots]
    split
    · rename_i hp
      apply ih
      by_cases hq : p = q
      · subst hq; rw [hp] at h; simp at h
      · rw [List.getElem?_set_ne hq]; exact h
    · exact ih out remain q h

/-! ### schema -/

theorem fillM_keys (sms dms : List (List UInt8 × Json)) : (fillM sms dms).map Prod.fst = sms.map Prod.fst := by
  induction sms with
  | nil => simp [fillM]
  | cons p r ih =>
    obtain ⟨k, sv⟩ := p
    simp only [fillM, List.map_cons, ih]
    cases lookupJ k dms <;> simp

theorem fillM_absent (sms dms : List (List UInt8 × Json)) (k : List UInt8) (h : lookupJ k dms = none) :
    lookupJ k (fillM sms dms) = lookupJ k sms := by
  induction sms with
  | nil => simp [fillM]
  | cons p r ih =>
    obtain ⟨k', sv⟩ := p
    simp only [fillM, lookupJ]
    by_cases hk : k' = k
    · subst hk; rw [h]; simp [lookupJ]
    · cases lookupJ k' dms <;> simp [lookupJ, hk, ih]

theorem fillM_present (sms dms : List (List UInt8 × Json)) (k : List UInt8) (sv dv : Json)
    (hs : lookupJ k sms = some sv) (hd : lookupJ k dms = some dv) :
    lookupJ k (fillM sms dms) = some (fill sv dv) := by
  induction sms with
  | nil => simp [lookupJ] at hs
  | cons p r ih =>
    obtain ⟨k', sv'⟩ := p
    simp only [fillM, lookupJ] at hs ⊢
    by_cases hk : k' = k
    · subst hk; simp at hs; subst hs; rw [hd]; simp [lookupJ]
    · simp [hk] at hs
      cases lookupJ k' dms <;> simp [lookupJ, hk, ih hs]

end Many
end Sonic
