import SonicModel.Impl.StrInplace
import SonicModel.Lemmas.StrBlockProof
/-
  Memory lemmas for the in-place decoder: stores (`wr`, `setIfInBounds`) change exactly the addressed bytes, block tests and
  hex reads depend only on the bytes they look at, the bytewise copy loops copy the run they pass over.
-/
namespace Sonic
namespace StrIn
open Gen Impl StrBlock

theorem bytes_ext (m1 m2 : Buf) (a b : Nat) (h : ∀ k, a ≤ k → k < b → m1[k]? = m2[k]?) : bytes m1 a b = bytes m2 a b := by
  unfold bytes
  apply List.ext_getElem?
  intro i
  simp only [List.getElem?_drop, List.getElem?_take]
  by_cases hi : a + i < b
  · simp only [hi, if_true]
    have := h (a + i) (by omega) hi
    simpa using this
  · simp [hi]

theorem bytes_cons (m : Buf) (i j : Nat) (c : UInt8) (hij : i < j) (hc : m[i]? = some c) : bytes m i j = c :: bytes m (i + 1) j := by
  unfold bytes
  have hci : (m.toList.take j)[i]? = some c := by
    rw [List.getElem?_take]; simp [hij]; simpa using hc
  rw [List.drop_eq_getElem?_toList_append, hci]; rfl

theorem bytes_length (m : Buf) (a b : Nat) (hab : a ≤ b) (hb : b ≤ m.size) : (bytes m a b).length = b - a := by
  unfold bytes; simp; omega

theorem set_get (mem : Buf) (d : Nat) (c : UInt8) (k : Nat) (hk : k ≠ d) : (mem.setIfInBounds d c)[k]? = mem[k]? := by
  rw [Array.getElem?_setIfInBounds]
  have : ¬ d = k := fun h => hk h.symm
  simp [this]

theorem set_get_self (mem : Buf) (d : Nat) (c : UInt8) (hd : d < mem.size) : (mem.setIfInBounds d c)[d]? = some c := by
  rw [Array.getElem?_setIfInBounds]; simp [hd]

theorem wr_size (bs : List UInt8) : ∀ (mem : Buf) (dst : Nat), (wr mem dst bs).size = mem.size := by
  induction bs with
  | nil => intro mem dst; rfl
  | cons b bs ih => intro mem dst; simp [wr, ih]

theorem wr_out (bs : List UInt8) : ∀ (mem : Buf) (dst k : Nat), k < dst ∨ dst + bs.length ≤ k → (wr mem dst bs)[k]? = mem[k]? := by
  induction bs with
  | nil => intro mem dst k _; rfl
  | cons b bs ih =>
    intro mem dst k hk
    simp only [wr]
    rw [ih _ _ k (by simp only [List.length_cons] at hk; omega)]
    exact set_get mem dst b k (by simp only [List.length_cons] at hk; omega)

theorem wr_bytes (bs : List UInt8) : ∀ (mem : Buf) (dst : Nat), dst + bs.length ≤ mem.size →
    bytes (wr mem dst bs) dst (dst + bs.length) = bs := by
  induction bs with
  | nil => intro mem dst _; simp [wr, bytes_self]
  | cons b bs ih =>
    intro mem dst hd
    simp only [List.length_cons] at hd
    have hget : (wr mem dst (b :: bs))[dst]? = some b := by
      simp only [wr]
      rw [wr_out bs _ _ dst (Or.inl (by omega))]
      exact set_get_self mem dst b (by omega)
    rw [bytes_cons _ dst _ b (by simp) hget]
    simp only [wr, List.length_cons]
    have := ih (mem.setIfInBounds dst b) (dst + 1) (by simp; omega)
    rw [show dst + (bs.length + 1) = dst + 1 + bs.length by omega, this]

/-- after storing `bs` at `dst`, the bytes from `sdst` up to the new `dst` are the old ones followed by `bs` -/
theorem wr_acc (mem : Buf) (sdst dst : Nat) (bs : List UInt8) (h1 : sdst ≤ dst) (h2 : dst + bs.length ≤ mem.size) :
    bytes (wr mem dst bs) sdst (dst + bs.length) = bytes mem sdst dst ++ bs := by
  rw [bytes_append _ sdst dst _ h1 (by omega) (by rw [wr_size]; exact h2), wr_bytes bs mem dst h2]
  congr 1
  exact bytes_ext _ _ _ _ (fun k _ hk => wr_out bs mem dst k (Or.inl hk))

theorem findP_congr (p : UInt8 → Bool) (m1 m2 : Buf) (hs : m1.size = m2.size) : ∀ (n i lim : Nat), lim - i = n →
    (∀ k, i ≤ k → m1[k]? = m2[k]?) → findP p m1 i lim = findP p m2 i lim := by
  intro n
  induction n with
  | zero =>
    intro i lim hn _
    rw [findP]
    conv => rhs; rw [findP]
    have : ¬ (i < lim) := by omega
    simp [this]
  | succ n ih =>
    intro i lim hn h
    rw [findP]
    conv => rhs; rw [findP]
    by_cases hc : i < lim ∧ i < m1.size
    · have hc2 : i < lim ∧ i < m2.size := by omega
      simp only [hc, hc2, and_self, dite_true]
      have he : m1[i] = m2[i] := by
        have := h i (Nat.le_refl _)
        rw [getElem?_pos m1 i hc.2, getElem?_pos m2 i hc2.2] at this
        exact Option.some.inj this
      rw [he, ih (i + 1) lim (by omega) (fun k hk => h k (by omega))]
    · have hc2 : ¬ (i < lim ∧ i < m2.size) := by omega
      simp [hc, hc2]

theorem hexAt_congr (m1 m2 : Buf) (s : Nat) (h : ∀ k, s ≤ k → m1[k]? = m2[k]?) : hexAt m1 s = hexAt m2 s := by
  unfold hexAt
  rw [h s (Nat.le_refl _), h (s + 1) (by omega), h (s + 2) (by omega), h (s + 3) (by omega)]

theorem hexAt_inrange (m : Buf) (s : Nat) (h : s + 4 ≤ m.size) : ∃ p, hexAt m s = some p := by
  unfold hexAt
  rw [getElem?_pos m s (by omega), getElem?_pos m (s + 1) (by omega), getElem?_pos m (s + 2) (by omega), getElem?_pos m (s + 3) (by omega)]
  exact ⟨_, rfl⟩

theorem hex_not_pad : ∀ c : UInt8, isHex c = true → c ≠ 34 ∧ c ≠ 120 ∧ c ≠ 92 :=
  UInt8.forall_of_fin _ (by decide +kernel)

/-- four bytes whose `hex_to_u32_nocheck` value is a code unit are hex digits -/
theorem hexAt_hex (buf : Buf) (s p : Nat) (h : hexAt buf s = some p) (hp : p < 0xFFFFFFFF) :
    ∀ k, s ≤ k → k < s + 4 → ∃ c, buf[k]? = some c ∧ isHex c = true := by
  unfold hexAt at h
  cases ha : buf[s]? with
  | none => simp [ha] at h
  | some a =>
    cases hb : buf[s + 1]? with
    | none => simp [ha, hb] at h
    | some b =>
      cases hc : buf[s + 2]? with
      | none => simp [ha, hb, hc] at h
      | some c =>
        cases hd : buf[s + 3]? with
        | none => simp [ha, hb, hc, hd] at h
        | some d =>
          simp only [ha, hb, hc, hd, Option.some.injEq] at h
          have hall : (isHex a && isHex b && isHex c && isHex d) = true := by
            cases hx : (isHex a && isHex b && isHex c && isHex d) with
            | true => rfl
            | false => have := hexToU32_invalid a b c d hx; omega
          simp only [Bool.and_eq_true] at hall
          intro k h1 h2
          have : k = s ∨ k = s + 1 ∨ k = s + 2 ∨ k = s + 3 := by omega
          rcases this with rfl | rfl | rfl | rfl
          · exact ⟨a, ha, hall.1.1.1⟩
          · exact ⟨b, hb, hall.1.1.2⟩
          · exact ⟨c, hc, hall.1.2⟩
          · exact ⟨d, hd, hall.2⟩

/-- the bytewise copy loops: the run `[src, p)` (no byte of it is `stop`, `stop` stands at `p`) is copied down to `dst` -/
theorem copyWhile_spec (stop : UInt8) : ∀ (n f : Nat) (mem : Buf) (src dst p : Nat), p - src = n → n < f → src ≤ p → dst ≤ src →
    p < mem.size → (∀ k, src ≤ k → k < p → ∃ c, mem[k]? = some c ∧ (c == stop) = false) → mem[p]? = some stop →
    ∃ mem', copyWhile stop f mem src dst = some (mem', p, dst + (p - src)) ∧ mem'.size = mem.size ∧
      (∀ k, k < dst ∨ dst + (p - src) ≤ k → mem'[k]? = mem[k]?) ∧
      bytes mem' dst (dst + (p - src)) = bytes mem src p := by
  intro n
  induction n with
  | zero =>
    intro f mem src dst p hn hf hsp _ _ _ hstop
    have : p = src := by omega
    subst this
    cases f with
    | zero => omega
    | succ f =>
      refine ⟨mem, ?_, rfl, fun _ _ => rfl, ?_⟩
      · simp [copyWhile, hstop]
      · simp [bytes_self]
  | succ n ih =>
    intro f mem src dst p hn hf hsp hds hp hrun hstop
    cases f with
    | zero => omega
    | succ f =>
      obtain ⟨c, hc, hcs⟩ := hrun src (Nat.le_refl _) (by omega)
      have hd : dst < mem.size := by omega
      have hmem1 : ∀ k, dst < k → (mem.setIfInBounds dst c)[k]? = mem[k]? := fun k hk => set_get mem dst c k (by omega)
      obtain ⟨mem', h1, h2, h3, h4⟩ := ih f (mem.setIfInBounds dst c) (src + 1) (dst + 1) p (by omega) (by omega) (by omega) (by omega)
        (by simp; exact hp)
        (fun k hk1 hk2 => by rw [hmem1 k (by omega)]; exact hrun k (by omega) hk2)
        (by rw [hmem1 p (by omega)]; exact hstop)
      refine ⟨mem', ?_, by rw [h2]; simp, ?_, ?_⟩
      · simp only [copyWhile, hc, hcs, Bool.false_eq_true, if_false, hd, if_true]
        rw [h1]; congr 3; omega
      · intro k hk
        rw [h3 k (by omega)]
        exact set_get mem dst c k (by omega)
      · have hget : mem'[dst]? = some c := by
          rw [h3 dst (Or.inl (by omega))]; exact set_get_self mem dst c hd
        rw [bytes_cons mem' dst _ c (by omega) hget, bytes_cons mem src p c (by omega) hc]
        congr 1
        rw [show dst + (p - src) = dst + 1 + (p - (src + 1)) by omega, h4]
        exact bytes_ext _ _ _ _ (fun k hk1 _ => hmem1 k (by omega))

end StrIn
end Sonic
