import SonicModel.Impl.NumSkip
import SonicModel.Lemmas.DeNum
namespace Sonic

open Impl in
/-- `numTail` looks at its start only through the end of the digit run -/
theorem numTail_congr (buf : Buf) (i i' : Nat) (b : Bool) (h : skipDigits buf i = skipDigits buf i') :
    numTail buf i b = numTail buf i' b := by
  unfold numTail; rw [h]

open Impl in
/-- **the 32-lane loop of `do_skip_number` equals the scalar scan**, for every buffer, every start and both states of
    the flag — whatever the alignment of the digits, the dot and the exponent to the 32-byte blocks -/
theorem numLoop_eq_numTail (buf : Buf) : ∀ (f i : Nat) (b : Bool), numLoop true buf f i b ≠ .fuel →
    numLoop true buf f i b = numTail buf i b := by
  intro f
  induction f with
  | zero => intro i b h; exact absurd (by rw [numLoop]) h
  | succ f ih =>
    intro i b hne
    rw [numLoop] at hne ⊢
    by_cases hblk : i + 32 ≤ buf.size
    · simp only [hblk, if_true] at hne ⊢
      have hge := skipDigits_ge buf i
      by_cases hlong : 32 ≤ skipDigits buf i - i
      · simp only [hlong, if_true] at hne ⊢
        rw [ih _ _ hne]
        apply numTail_congr
        have := De.run_digits buf _ i rfl
        exact (DomP.skipDigits_through buf _ i (i + 32) rfl (by omega) (fun x h1 h2 => this x h1 (by omega))).symm
      · simp only [hlong, if_false] at hne ⊢
        have hj : i + (skipDigits buf i - i) = skipDigits buf i := by omega
        rw [hj] at hne ⊢
        generalize hjd : skipDigits buf i = j at *
        unfold numTail
        simp only [hjd]
        by_cases hdot : (buf[j]? = some 46 && !b) = true
        · simp only [hdot, if_true] at hne ⊢
          cases hsd : skipSingleDigit buf (j + 1) with
          | err c p => simp only [hsd]
          | fuel => simp only [hsd]
          | ok k =>
            simp only [hsd] at hne ⊢
            have hk : k = j + 2 := by
              unfold skipSingleDigit at hsd
              cases hb : buf[j + 1]? with
              | none => simp [hb] at hsd
              | some c => simp only [hb] at hsd; split at hsd <;> simp at hsd; omega
            subst hk
            have hc2 : i + (j - i + 2) = j + 2 := by omega
            rw [hc2] at hne ⊢
            have hgk := skipDigits_ge buf (j + 2)
            by_cases hover : 32 ≤ j - i + 2
            · simp only [hover, if_true, Bool.true_or] at hne ⊢
              rw [ih _ _ hne]
              unfold numTail
              simp
            · simp only [hover, if_false] at hne ⊢
              by_cases hin : j - i + 2 + (skipDigits buf (j + 2) - (j + 2)) < 32
              · simp only [hin, if_true]
                have : j + 2 + (skipDigits buf (j + 2) - (j + 2)) = skipDigits buf (j + 2) := by omega
                rw [this]
              · simp only [hin, if_false] at hne ⊢
                rw [ih _ _ hne]
                have hd := De.run_digits buf _ (j + 2) rfl
                have hs : skipDigits buf (j + 2) = skipDigits buf (i + 32) :=
                  DomP.skipDigits_through buf _ (j + 2) (i + 32) rfl (by omega) (fun x h1 h2 => hd x h1 (by omega))
                unfold numTail
                simp [hs]
        · simp only [hdot, Bool.false_eq_true, if_false] at hne ⊢
    · simp only [hblk, if_false]

open Impl in
/-- the loop terminates: every round moves the reader forward -/
theorem numLoop_fuel (keep : Bool) (buf : Buf) : ∀ (f i : Nat), buf.size < f + i → 0 < f → ∀ b, numLoop keep buf f i b ≠ .fuel := by
  intro f
  induction f with
  | zero => intro i _ h0; omega
  | succ f ih =>
    intro i hsz _ b
    rw [numLoop]
    by_cases hblk : i + 32 ≤ buf.size
    · simp only [hblk, if_true]
      have hf : 0 < f := by omega
      split
      · exact ih _ (by omega) hf _
      · split
        · cases h : skipSingleDigit buf (i + (skipDigits buf i - i) + 1) with
          | ok k =>
            simp only
            split
            · exact ih _ (by omega) hf _
            · split
              · split
                · exact skipExponent_ne_fuel _ _
                · simp
              · exact ih _ (by omega) hf _
          | err c p => simp
          | fuel => exact absurd h (skipSingleDigit_ne_fuel _ _)
        · split
          · exact skipExponent_ne_fuel _ _
          · simp
    · simp only [hblk, if_false]
      exact numTail_ne_fuel buf i b

open Impl in
/-- **`do_skip_number` with its 32-lane loop is the scalar `do_skip_number`**: every buffer, every start -/
theorem doSkipNumberB_eq (buf : Buf) (first : UInt8) (i : Nat) : doSkipNumberB true buf first i = doSkipNumber buf first i := by
  have key : ∀ fst j, numAfterFirstB true buf fst j = numAfterFirst buf fst j := by
    intro fst j
    unfold numAfterFirstB numAfterFirst
    split
    · rfl
    · cases hb : buf[j]? with
      | none => rfl
      | some c =>
        have hlt : j < buf.size := (Array.getElem?_eq_some_iff.mp hb).1
        simp only
        split
        · exact numLoop_eq_numTail buf _ _ _ (numLoop_fuel true buf _ _ (by omega) (by omega) _)
        · split
          · cases hsd : skipSingleDigit buf (j + 1) with
            | ok k => exact numLoop_eq_numTail buf _ _ _ (numLoop_fuel true buf _ _ (by
                unfold skipSingleDigit at hsd
                cases hb2 : buf[j + 1]? with
                | none => simp [hb2] at hsd
                | some c2 => simp only [hb2] at hsd; split at hsd <;> simp at hsd; omega) (by omega) _)
            | err c p => rfl
            | fuel => rfl
          · rfl
  unfold doSkipNumberB doSkipNumber
  split
  · cases skipSingleDigit buf i with
    | ok k => exact key _ _
    | err c p => rfl
    | fuel => rfl
  · exact key _ _

/-! the flag matters: without it in the early `continue` (the mutation of seeds C02c, C14c, C04d — found independently by
    three sub-agents) a second fraction is swallowed when the dot stands in lane 30 of a block -/
/-- thirty digits, `.5.5`, then padding: the loop as coded stops before the second dot, the mutated one runs over it -/
def flagWitness : Buf := (List.replicate 30 (49 : UInt8) ++ [46, 53, 46, 53] ++ List.replicate 36 (32 : UInt8)).toArray
example : Impl.numLoop true flagWitness 70 0 false = .ok 32 := by decide +kernel
example : Impl.numLoop false flagWitness 70 0 false = .ok 34 := by decide +kernel
example : Impl.numTail flagWitness 0 false = .ok 32 := by decide +kernel

end Sonic
