import SonicModel.Lemmas.GetRefine
import SonicModel.Lemmas.SpecBound
namespace Sonic
open Gen Impl Spec

/-- what follows an array element that ended at `e` -/
def afterElem (buf : Buf) (e : Nat) : List (Nat × Nat) × Bool :=
  if buf[skipWs buf e]? = some 93 then ([], true)
  else if buf[skipWs buf e]? = some 44 then arrayGo buf (skipWs buf (skipWs buf e + 1))
  else ([], false)

theorem arrayGo_unfold (buf : Buf) (p : Nat) :
    arrayGo buf p = match value false (Spec.fuelFor buf) buf p with
      | .ok e => ((p, e) :: (afterElem buf e).1, (afterElem buf e).2)
      | _ => ([], false) := by
  rw [arrayGo]
  cases hv : value false (Spec.fuelFor buf) buf p with
  | ok e =>
    simp only
    have pr := (Spec.progress false buf _ _ e).1 hv
    have h1 := skipWs_ge buf e
    have h2 := skipWs_ge buf (skipWs buf e + 1)
    have hg : p < skipWs buf (skipWs buf e + 1) ∧ p < buf.size := by omega
    unfold afterElem
    split
    · simp
    · split
      · simp [hg]
      · simp
  | err => simp
  | fuel => simp

/-- the non-first steps of the checked array iterator produce exactly `afterElem` -/
theorem drainArr_rest (buf : Buf) : ∀ (m e : Nat), buf.size - e ≤ m → e ≤ buf.size →
    drainArr buf e false = afterElem buf e := by
  intro m
  induction m with
  | zero =>
    intro e hm he
    have : e = buf.size := by omega
    subst this
    rw [drainArr]
    unfold arrayElemLazy afterElem
    have hws : skipWs buf buf.size = buf.size := skipWs_eof buf _ (Nat.le_refl _)
    simp [skipSpace_spec, hws]
  | succ m ih =>
    intro e hm he
    rw [drainArr]
    unfold arrayElemLazy afterElem
    simp only [Bool.false_eq_true, ite_false, Bool.not_false, Bool.and_true]
    rw [skipSpace_spec]
    cases hb : buf[skipWs buf e]? with
    | none => simp
    | some c =>
      simp only [Option.map_some]
      by_cases h93 : c = 93
      · subst h93; simp
      · have n93 : ¬ (some c = some (93 : UInt8)) := by simpa using h93
        simp only [u8_beq_false h93, Bool.false_eq_true, ite_false, n93]
        by_cases h44 : c = 44
        · subst h44
          simp only [beq_self_eq_true, ite_true]
          rw [arrayGo_unfold]
          have heq := skipOne_eq_value buf (skipWs buf e + 1)
          cases hs : skipOne buf.size (Impl.fuelFor buf) buf (skipWs buf e + 1) with
          | fuel => exact absurd hs (skipOne_fuelFor_ne_fuel buf _)
          | err c' p' =>
            rw [hs] at heq; simp at heq; rw [← heq]
          | ok e2 =>
            rw [hs] at heq; simp at heq; rw [← heq]
            simp only
            have pr := (Spec.progress false buf _ _ e2).1 heq.symm
            have bd := (Spec.bound false buf _ _ e2).1 heq.symm
            have h1 := skipWs_ge buf e
            have h2 := skipWs_ge buf (skipWs buf e + 1)
            have hlt : skipWs buf e < buf.size := (Array.getElem?_eq_some_iff.mp hb).1
            have hg : e < e2 ∧ e < buf.size := by omega
            simp only [hg, and_self, dite_true]
            rw [ih e2 (by omega) bd]
        · have n44 : ¬ (some c = some (44 : UInt8)) := by simpa using h44
          simp [u8_beq_false h44, n44]

/-- **C12, arrays**: draining the checked array iterator from the start of any input yields
    exactly the specification's item sequence of the first value — one span per leading
    well-formed element, then a clean end (iff the container is well-formed) or an error. -/
theorem drainArr_eq_spec (buf : Buf) :
    drainArr buf 0 true = arrayItems buf (skipWs buf 0) := by
  rw [drainArr]
  unfold arrayElemLazy arrayItems
  simp only [ite_true]
  rw [skipSpace_spec]
  cases hb : buf[skipWs buf 0]? with
  | none => simp
  | some c =>
    simp only [Option.map_some]
    by_cases h91 : c = 91
    · subst h91
      simp only [beq_self_eq_true, ite_true]
      rw [skipSpace_spec]
      cases hb2 : buf[skipWs buf (skipWs buf 0 + 1)]? with
      | none =>
        have : arrayGo buf (skipWs buf (skipWs buf 0 + 1)) = ([], false) := by
          rw [arrayGo_unfold]
          cases hx : value false (Spec.fuelFor buf) buf (skipWs buf (skipWs buf 0 + 1)) with
          | ok e => exact absurd hx (value_none buf _ _ hb2 e)
          | err => rfl
          | fuel => rfl
        simp [this]
      | some c2 =>
        simp only [Option.map_some]
        by_cases h93 : c2 = 93
        · subst h93; simp
        · have n93 : ¬ (some c2 = some (93 : UInt8)) := by simpa using h93
          simp only [u8_beq_false h93, Bool.false_eq_true, ite_false, n93, Bool.not_true, Bool.and_false,
            Nat.add_sub_cancel]
          rw [arrayGo_unfold]
          have heq := skipOne_eq_value buf (skipWs buf (skipWs buf 0 + 1))
          rw [skipWs_idem] at heq
          cases hs : skipOne buf.size (Impl.fuelFor buf) buf (skipWs buf (skipWs buf 0 + 1)) with
          | fuel => exact absurd hs (skipOne_fuelFor_ne_fuel buf _)
          | err c' p' =>
            rw [hs] at heq; simp at heq; rw [← heq]
          | ok e2 =>
            rw [hs] at heq; simp at heq; rw [← heq]
            simp only [skipWs_idem]
            have pr := (Spec.progress false buf _ _ e2).1 heq.symm
            have bd := (Spec.bound false buf _ _ e2).1 heq.symm
            have h1 := skipWs_ge buf 0
            have h2 := skipWs_ge buf (skipWs buf 0 + 1)
            have hg : 0 < e2 ∧ 0 < buf.size := by omega
            simp only [hg, and_self, dite_true]
            rw [drainArr_rest buf (buf.size - e2) e2 (Nat.le_refl _) bd]
    · have n91 : ¬ (some c = some (91 : UInt8)) := by simpa using h91
      simp [u8_beq_false h91, n91]

end Sonic

namespace Sonic
open Gen Impl Spec

/-- what follows an object member whose value ended at `e` -/
def afterMember (buf : Buf) (e : Nat) : List (List UInt8 × Nat × Nat) × Bool :=
  if buf[skipWs buf e]? = some 125 then ([], true)
  else if buf[skipWs buf e]? = some 44 then objectGo buf (skipWs buf (skipWs buf e + 1))
  else ([], false)

theorem objectGo_unfold (buf : Buf) (p : Nat) :
    objectGo buf p =
      if buf[p]? = some 34 then
        match stringS false buf (p+1) with
        | none => ([], false)
        | some (name, e1) =>
          if buf[skipWs buf e1]? = some 58 then
            match value false (Spec.fuelFor buf) buf (skipWs buf (skipWs buf e1 + 1)) with
            | .ok e => ((name, skipWs buf (skipWs buf e1 + 1), e) :: (afterMember buf e).1, (afterMember buf e).2)
            | _ => ([], false)
          else ([], false)
      else ([], false) := by
  rw [objectGo]
  by_cases hq : buf[p]? = some 34
  · simp only [hq, ite_true]
    cases hs : stringS false buf (p+1) with
    | none => simp
    | some ne =>
      obtain ⟨name, e1⟩ := ne
      simp only
      have ps := stringS_progress false buf (p+1) (name, e1) hs
      by_cases hc : buf[skipWs buf e1]? = some 58
      · simp only [hc, ite_true]
        cases hv : value false (Spec.fuelFor buf) buf (skipWs buf (skipWs buf e1 + 1)) with
        | ok e =>
          simp only
          have pr := (Spec.progress false buf _ _ e).1 hv
          have h1 := skipWs_ge buf e1
          have h2 := skipWs_ge buf (skipWs buf e1 + 1)
          have h3 := skipWs_ge buf e
          have h4 := skipWs_ge buf (skipWs buf e + 1)
          simp only at ps
          have hg : p < skipWs buf (skipWs buf e + 1) ∧ p < buf.size := by omega
          unfold afterMember
          split
          · simp
          · split
            · simp [hg]
            · simp
        | err => simp
        | fuel => simp
      · simp [hc]
  · simp [hq]

/-- the part of `parse_entry_lazy` after the opening quote of the name at `q`, against the
    specification's reading of one member -/
theorem member_step (buf : Buf) (q : Nat) :
    (match decodeFrom false buf (q+1) with
      | .err c p => (Except.error (c, p) : Except (Code × Nat) (Option (List UInt8 × Nat × Nat × Nat)))
      | .ok name e _ =>
        match parseObjectClo buf e with
        | .ok v =>
          match skipOne buf.size (Impl.fuelFor buf) buf v with
          | .ok e2 => .ok (some (name, skipWs buf v, e2, e2))
          | .err c p => .error (c, p)
          | .fuel => .error (.Message, 0)
        | .err c p => .error (c, p)
        | .fuel => .error (.Message, 0)).toOption =
    (match stringS false buf (q+1) with
      | none => none
      | some (name, e1) =>
        if buf[skipWs buf e1]? = some 58 then
          match value false (Spec.fuelFor buf) buf (skipWs buf (skipWs buf e1 + 1)) with
          | .ok e => some (some (name, skipWs buf (skipWs buf e1 + 1), e, e))
          | _ => none
        else none) := by
  cases hs : stringS false buf (q+1) with
  | none =>
    obtain ⟨c, p, hd, _⟩ := decodeFrom_of_stringS_none buf (q+1) hs
    simp [hd, Except.toOption]
  | some ne =>
    obtain ⟨name, e1⟩ := ne
    obtain ⟨esc, hd⟩ := decodeFrom_of_stringS_some buf (q+1) name e1 hs
    simp only [hd]
    by_cases hc : buf[skipWs buf e1]? = some 58
    · have hclo := parseObjectClo_ok_of_colon buf e1 hc
      simp only [hclo, hc, ite_true]
      cases hv : value false (Spec.fuelFor buf) buf (skipWs buf (skipWs buf e1 + 1)) with
      | ok e => simp [skipOne_of_value_ok buf _ e hv, Except.toOption]
      | err =>
        obtain ⟨c', p', hso, _⟩ := skipOne_of_value_notok buf (skipWs buf e1 + 1) (by intro e he; rw [hv] at he; simp at he)
        simp [hso, Except.toOption]
      | fuel =>
        obtain ⟨c', p', hso, _⟩ := skipOne_of_value_notok buf (skipWs buf e1 + 1) (by intro e he; rw [hv] at he; simp at he)
        simp [hso, Except.toOption]
    · obtain ⟨c', p', hclo, _⟩ := parseObjectClo_err_of_nocolon buf e1 hc
      simp [hclo, hc, Except.toOption]

end Sonic

namespace Sonic
open Gen Impl Spec

/-- one object-iterator step that starts at the opening quote `q` of a member name, then the rest:
    it produces `objectGo buf q` provided later steps produce `afterMember` -/
theorem drainObj_from_quote (buf : Buf) (i q : Nat) (first : Bool) (hq : buf[q]? = some 34)
    (hiq : i ≤ q)
    (hstep : entryLazy buf.size buf i first =
      (match decodeFrom false buf (q+1) with
        | .err c p => (Except.error (c, p) : Except (Code × Nat) (Option (List UInt8 × Nat × Nat × Nat)))
        | .ok name e _ =>
          match parseObjectClo buf e with
          | .ok v =>
            match skipOne buf.size (Impl.fuelFor buf) buf v with
            | .ok e2 => .ok (some (name, skipWs buf v, e2, e2))
            | .err c p => .error (c, p)
            | .fuel => .error (.Message, 0)
          | .err c p => .error (c, p)
          | .fuel => .error (.Message, 0)))
    (hrest : ∀ e2, q < e2 → e2 ≤ buf.size → drainObj buf e2 false = afterMember buf e2) :
    drainObj buf i first = objectGo buf q := by
  rw [drainObj, hstep, objectGo_unfold]
  simp only [hq, ite_true]
  cases hs : stringS false buf (q+1) with
  | none =>
    obtain ⟨c, p, hd, _⟩ := decodeFrom_of_stringS_none buf (q+1) hs
    simp [hd]
  | some ne =>
    obtain ⟨name, e1⟩ := ne
    obtain ⟨esc, hd⟩ := decodeFrom_of_stringS_some buf (q+1) name e1 hs
    have ps := stringS_progress false buf (q+1) (name, e1) hs
    simp only [hd]
    by_cases hc : buf[skipWs buf e1]? = some 58
    · have hclo := parseObjectClo_ok_of_colon buf e1 hc
      simp only [hclo, hc, ite_true]
      cases hv : value false (Spec.fuelFor buf) buf (skipWs buf (skipWs buf e1 + 1)) with
      | ok e =>
        simp only [skipOne_of_value_ok buf _ e hv]
        have pr := (Spec.progress false buf _ _ e).1 hv
        have bd := (Spec.bound false buf _ _ e).1 hv
        have h1 := skipWs_ge buf e1
        have h2 := skipWs_ge buf (skipWs buf e1 + 1)
        simp only at ps
        have hg : i < e ∧ i < buf.size := by omega
        simp only [hg, and_self, dite_true]
        rw [hrest e (by omega) bd]
      | err =>
        obtain ⟨c', p', hso, _⟩ := skipOne_of_value_notok buf (skipWs buf e1 + 1) (by intro e he; rw [hv] at he; simp at he)
        simp [hso]
      | fuel =>
        obtain ⟨c', p', hso, _⟩ := skipOne_of_value_notok buf (skipWs buf e1 + 1) (by intro e he; rw [hv] at he; simp at he)
        simp [hso]
    · obtain ⟨c', p', hclo, _⟩ := parseObjectClo_err_of_nocolon buf e1 hc
      simp [hclo, hc]

theorem objectGo_noquote (buf : Buf) (p : Nat) (h : ¬ buf[p]? = some 34) : objectGo buf p = ([], false) := by
  rw [objectGo_unfold]; simp [h]

/-- the non-first steps of the checked object iterator produce exactly `afterMember` -/
theorem drainObj_rest (buf : Buf) : ∀ (m e : Nat), buf.size - e ≤ m → e ≤ buf.size →
    drainObj buf e false = afterMember buf e := by
  intro m
  induction m with
  | zero =>
    intro e hm he
    have : e = buf.size := by omega
    subst this
    rw [drainObj]
    unfold entryLazy afterMember
    have hws : skipWs buf buf.size = buf.size := skipWs_eof buf _ (Nat.le_refl _)
    simp [skipSpace_spec, hws]
  | succ m ih =>
    intro e hm he
    unfold afterMember
    cases hb : buf[skipWs buf e]? with
    | none =>
      rw [drainObj]; unfold entryLazy
      simp [skipSpace_spec, hb]
    | some c =>
      have hlt : skipWs buf e < buf.size := (Array.getElem?_eq_some_iff.mp hb).1
      have h1 := skipWs_ge buf e
      by_cases h125 : c = 125
      · subst h125
        rw [drainObj]; unfold entryLazy
        simp [skipSpace_spec, hb]
      · have n125 : ¬ (some c = some (125 : UInt8)) := by simpa using h125
        simp only [n125, ite_false]
        by_cases h44 : c = 44
        · subst h44
          simp only [ite_true]
          cases hb2 : buf[skipWs buf (skipWs buf e + 1)]? with
          | none =>
            rw [objectGo_noquote buf _ (by simp [hb2])]
            rw [drainObj]; unfold entryLazy
            simp [skipSpace_spec, hb, hb2]
          | some c2 =>
            by_cases hq : c2 = 34
            · subst hq
              have h2 := skipWs_ge buf (skipWs buf e + 1)
              apply drainObj_from_quote buf e (skipWs buf (skipWs buf e + 1)) false hb2 (by omega)
              · unfold entryLazy
                simp [skipSpace_spec, hb, hb2]
                cases decodeFrom false buf (skipWs buf (skipWs buf e + 1) + 1) with
                | err c p => rfl
                | ok name e' esc =>
                  simp only
                  cases parseObjectClo buf e' with
                  | err c p => rfl
                  | fuel => rfl
                  | ok v =>
                    simp only
                    cases skipOne buf.size (Impl.fuelFor buf) buf v <;> rfl
              · intro e2 hlt2 hle2
                exact ih e2 (by omega) hle2
            · rw [objectGo_noquote buf _ (by simp [hb2, hq])]
              rw [drainObj]; unfold entryLazy
              simp [skipSpace_spec, hb, hb2, u8_beq_false hq]
        · have n44 : ¬ (some c = some (44 : UInt8)) := by simpa using h44
          simp only [n44, ite_false]
          rw [drainObj]; unfold entryLazy
          simp [skipSpace_spec, hb, u8_beq_false h125, u8_beq_false h44]

/-- **C12, objects**: draining the checked object iterator from the start of any input yields
    exactly the specification's entry sequence of the first value (decoded names, value spans) -/
theorem drainObj_eq_spec (buf : Buf) :
    drainObj buf 0 true = objectItems buf (skipWs buf 0) := by
  unfold objectItems
  cases hb : buf[skipWs buf 0]? with
  | none =>
    rw [drainObj]; unfold entryLazy
    simp [skipSpace_spec, hb]
  | some c =>
    by_cases h123 : c = 123
    · subst h123
      simp only [ite_true]
      cases hb2 : buf[skipWs buf (skipWs buf 0 + 1)]? with
      | none =>
        rw [objectGo_noquote buf _ (by simp [hb2])]
        rw [drainObj]; unfold entryLazy
        simp [skipSpace_spec, hb, hb2]
      | some c2 =>
        by_cases h125 : c2 = 125
        · subst h125
          rw [drainObj]; unfold entryLazy
          simp [skipSpace_spec, hb, hb2]
        · have n125 : ¬ (some c2 = some (125 : UInt8)) := by simpa using h125
          simp only [n125, ite_false]
          by_cases hq : c2 = 34
          · subst hq
            apply drainObj_from_quote buf 0 (skipWs buf (skipWs buf 0 + 1)) true hb2 (Nat.zero_le _)
            · unfold entryLazy
              simp [skipSpace_spec, hb, hb2]
              cases decodeFrom false buf (skipWs buf (skipWs buf 0 + 1) + 1) with
              | err c p => rfl
              | ok name e' esc =>
                simp only
                cases parseObjectClo buf e' with
                | err c p => rfl
                | fuel => rfl
                | ok v =>
                  simp only
                  cases skipOne buf.size (Impl.fuelFor buf) buf v <;> rfl
            · intro e2 _ hle2
              exact drainObj_rest buf (buf.size - e2) e2 (Nat.le_refl _) hle2
          · rw [objectGo_noquote buf _ (by simp [hb2, hq])]
            rw [drainObj]; unfold entryLazy
            simp [skipSpace_spec, hb, hb2, u8_beq_false hq, u8_beq_false h125]
    · have n123 : ¬ (some c = some (123 : UInt8)) := by simpa using h123
      simp only [n123, ite_false]
      rw [drainObj]; unfold entryLazy
      simp [skipSpace_spec, hb, u8_beq_false h123]

end Sonic
