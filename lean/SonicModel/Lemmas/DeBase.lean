import SonicModel.Impl.De
import SonicModel.Lemmas.DomParseProof
namespace Sonic
namespace De
open Gen Spec Impl

/-! ### the typed deserializer (Impl/De.lean) against the reference semantics (Spec/Typed.lean): vocabulary -/

/-- the reference's verdict as a result of the deserializer: the value with the end of the text it came from -/
def ofOpt (o : Option Val) (e : Nat) : R Val :=
  match o with
  | some v => .ok v e
  | none => .err

/-- `r` is what the reference says about the tree `j` as a `ty` — at every sufficient fuel of the reference
    (its fuel only bounds the recursion; below the bound it answers `none`) -/
def Stab (buf : Buf) (ty : Ty) (j : Json) (e : Nat) (r : R Val) : Prop :=
  ∃ g0, ∀ g, g0 ≤ g → ofOpt (decode buf g ty j) e = r

def fname : Field → List UInt8
  | .mk n _ _ => n

mutual
/-- the types for which the refinement is proved: everything except `&str` (the reference does not look at
    escapes), 128-bit integers (their scanner stops inside a longer number token) and non-string map keys
    (read from the raw text of the key); the fields of a struct have different names -/
def cov : Ty → Bool
  | .bool => true
  | .int bits _ => decide (bits ≤ 64)
  | .f64 => true
  | .char => true
  | .str => true
  | .strRef => false
  | .unit => true
  | .opt t => cov t
  | .seq t => cov t
  | .tuple ts => covL ts
  | .newtype t => cov t
  | .map k v => (match k with | .str => true | _ => false) && cov v
  | .struct fields _ => covF fields && decide ((fields.map fname).Nodup)
  | .enum vs => covV vs
  | .bytes => true
def covL : List Ty → Bool
  | [] => true
  | t :: r => cov t && covL r
def covF : List Field → Bool
  | [] => true
  | .mk _ t _ :: r => cov t && covF r
def covV : List Variant → Bool
  | [] => true
  | .unit _ :: r => covV r
  | .newtype _ t :: r => cov t && covV r
  | .tuple _ ts :: r => covL ts && covV r
  | .struct _ fs :: r => covF fs && decide ((fs.map fname).Nodup) && covV r
end

/-- types that look at the text themselves (`Option` and newtype structs hand it on) -/
def direct : Ty → Bool
  | .opt _ => false
  | .newtype _ => false
  | _ => true

/-- what is known about a value standing at `s` (its first byte), denoting `x`, ending at `e` -/
structure ValueOK (buf : Buf) (s : Nat) (x : Json) (e : Nat) : Prop where
  inb : s < buf.size
  nows : skipWs buf s = s
  start : buf[s]? ≠ some 93 ∧ buf[s]? ≠ some 125 ∧ buf[s]? ≠ some 44
  lazy : ∃ F, Spec.value false F buf s = .ok e
  facts : ∀ f ty i, cov ty = true → skipWs buf i = s → de f ty buf i ≠ .fuel → Stab buf ty x e (de f ty buf i)

/-- the elements of an array from the first element's first byte to just after the closing bracket -/
inductive Elems (buf : Buf) : Nat → List Json → Nat → Prop where
  | last (p : Nat) (x : Json) (e1 : Nat) : ValueOK buf p x e1 → buf[skipWs buf e1]? = some 93 →
      Elems buf p [x] (skipWs buf e1 + 1)
  | cons (p : Nat) (x : Json) (e1 : Nat) (xs : List Json) (e : Nat) : ValueOK buf p x e1 → buf[skipWs buf e1]? = some 44 →
      Elems buf (skipWs buf (skipWs buf e1 + 1)) xs e → Elems buf p (x :: xs) e

/-- the members of an object from the opening quote of the first name to just after the closing brace -/
inductive Members (buf : Buf) : Nat → List (List UInt8 × Json) → Nat → Prop where
  | last (q : Nat) (k : List UInt8) (k1 : Nat) (x : Json) (e1 : Nat) : buf[q]? = some 34 → stringS false buf (q + 1) = some (k, k1) →
      buf[skipWs buf k1]? = some 58 → ValueOK buf (skipWs buf (skipWs buf k1 + 1)) x e1 → buf[skipWs buf e1]? = some 125 →
      Members buf q [(k, x)] (skipWs buf e1 + 1)
  | cons (q : Nat) (k : List UInt8) (k1 : Nat) (x : Json) (e1 : Nat) (ms : List (List UInt8 × Json)) (e : Nat) :
      buf[q]? = some 34 → stringS false buf (q + 1) = some (k, k1) →
      buf[skipWs buf k1]? = some 58 → ValueOK buf (skipWs buf (skipWs buf k1 + 1)) x e1 → buf[skipWs buf e1]? = some 44 →
      Members buf (skipWs buf (skipWs buf e1 + 1)) ms e → Members buf q ((k, x) :: ms) e

/-! ### stabilisation helpers -/

theorem stab_of_const (buf : Buf) (ty : Ty) (j : Json) (e : Nat) (o : Option Val)
    (h : ∀ g, decode buf (g + 1) ty j = o) : Stab buf ty j e (ofOpt o e) := by
  refine ⟨1, ?_⟩
  intro g hg
  obtain ⟨g', rfl⟩ : ∃ g', g = g' + 1 := ⟨g - 1, by omega⟩
  rw [h]

theorem stab_err (buf : Buf) (ty : Ty) (j : Json) (e : Nat) (h : ∀ g, decode buf (g + 1) ty j = none) : Stab buf ty j e .err :=
  stab_of_const buf ty j e none h

theorem stab_ok (buf : Buf) (ty : Ty) (j : Json) (e : Nat) (v : Val) (h : ∀ g, decode buf (g + 1) ty j = some v) :
    Stab buf ty j e (.ok v e) :=
  stab_of_const buf ty j e (some v) h

theorem ofOpt_map (o : Option Val) (e : Nat) (g : Val → Val) : ofOpt (o.map g) e = (ofOpt o e).map g := by
  cases o <;> rfl

/-- a type that hands the text on to `t` (and whose reference does the same) -/
theorem stab_through (buf : Buf) (ty t : Ty) (j : Json) (e : Nat) (r : R Val) (g : Val → Val)
    (hdec : ∀ n, decode buf (n + 1) ty j = (decode buf n t j).map g) (h : Stab buf t j e r) : Stab buf ty j e (r.map g) := by
  obtain ⟨g0, hg0⟩ := h
  refine ⟨g0 + 1, ?_⟩
  intro n hn
  obtain ⟨n', rfl⟩ : ∃ n', n = n' + 1 := ⟨n - 1, by omega⟩
  rw [hdec, ofOpt_map, hg0 n' (by omega)]

theorem R.map_id' (r : R Val) : r.map (fun x => x) = r := by cases r <;> rfl

/-! ### `skip_space` at a value -/

theorem skipSpace_at (buf : Buf) (i s : Nat) (c : UInt8) (hs : skipWs buf i = s) (hc : buf[s]? = some c) :
    skipSpace buf i = some (c, s + 1) := by
  rw [skipSpace_spec, hs, hc]; rfl

theorem getElem?_of_lt (buf : Buf) (s : Nat) (h : s < buf.size) : buf[s]? = some buf[s] := by simp [h]

/-! ### `Option` and newtype structs hand the value on -/

theorem litR_ok (buf : Buf) (j e : Nat) (rest : List UInt8) (v : Val) (h : parseLiteral buf j rest = .ok e) :
    litR buf j rest v = .ok v e := by
  simp [litR, h]

/-- from the facts for the types that look at the text themselves to the facts for every type -/
theorem lift_facts (buf : Buf) (s : Nat) (x : Json) (e : Nat)
    (base : ∀ f ty i, cov ty = true → direct ty = true → skipWs buf i = s → de f ty buf i ≠ .fuel → Stab buf ty x e (de f ty buf i))
    (hnull : x = .null → buf[s]? = some 110 ∧ parseLiteral buf (s + 1) [117, 108, 108] = .ok e)
    (hnn : x ≠ .null → buf[s]? ≠ some 110) :
    ∀ f ty i, cov ty = true → skipWs buf i = s → de f ty buf i ≠ .fuel → Stab buf ty x e (de f ty buf i) := by
  intro f
  induction f with
  | zero => intro ty i _ _ h; exact absurd (by rw [de]) h
  | succ f ih =>
    intro ty i hc hs hne
    cases ty with
    | opt t =>
      have hct : cov t = true := by simpa [cov] using hc
      have hde : de (f + 1) (.opt t) buf i =
          (if buf[s]? = some 110 then litR buf (s + 1) [117, 108, 108] .none else (de f t buf s).map .some) := by
        rw [de]; simp only [hs]
      by_cases hx : x = .null
      · obtain ⟨h110, hl⟩ := hnull hx
        rw [hde, if_pos h110, litR_ok buf _ e _ _ hl]
        subst hx
        exact stab_ok buf _ _ e _ (by intro g; simp [decode])
      · have h110 := hnn hx
        rw [hde, if_neg h110] at hne ⊢
        have hs2 : skipWs buf s = s := by rw [← hs, skipWs_idem]
        have hne2 : de f t buf s ≠ .fuel := by
          intro h; rw [h] at hne; exact hne rfl
        have := ih t s hct hs2 hne2
        refine stab_through buf (.opt t) t x e _ .some ?_ this
        intro n
        cases x <;> first | exact absurd rfl hx | simp [decode]
    | newtype t =>
      have hct : cov t = true := by simpa [cov] using hc
      have hde : de (f + 1) (.newtype t) buf i = de f t buf i := by rw [de]
      rw [hde] at hne ⊢
      have := ih t i hct hs hne
      have h2 := stab_through buf (.newtype t) t x e _ (fun v => v) (by intro n; cases x <;> simp [decode]) this
      rwa [R.map_id'] at h2
    | bool => exact base _ _ i hc rfl hs hne
    | int b sg => exact base _ _ i hc rfl hs hne
    | f64 => exact base _ _ i hc rfl hs hne
    | char => exact base _ _ i hc rfl hs hne
    | str => exact base _ _ i hc rfl hs hne
    | strRef => exact base _ _ i hc rfl hs hne
    | unit => exact base _ _ i hc rfl hs hne
    | seq t => exact base _ _ i hc rfl hs hne
    | tuple ts => exact base _ _ i hc rfl hs hne
    | map k v => exact base _ _ i hc rfl hs hne
    | struct fs d => exact base _ _ i hc rfl hs hne
    | enum vs => exact base _ _ i hc rfl hs hne
    | bytes => exact base _ _ i hc rfl hs hne

end De
end Sonic
