import SonicModel.Spec.Grammar
namespace Sonic
namespace Spec

/-- more fuel never changes a non-`fuel` answer -/
theorem mono (s : Bool) : ∀ f buf i,
    (∀ r, value s f buf i = r → r ≠ .fuel → value s (f+1) buf i = r) ∧
    (∀ r, elems s f buf i = r → r ≠ .fuel → elems s (f+1) buf i = r) ∧
    (∀ r, members s f buf i = r → r ≠ .fuel → members s (f+1) buf i = r) := by
  intro f
  induction f with
  | zero =>
    intro buf i
    refine ⟨?_, ?_, ?_⟩ <;>
      (intro r h hr; simp [value, elems, members] at h; exact absurd h.symm hr)
  | succ f ih =>
    intro buf i
    have ih1 := fun j => (ih buf j).1
    have ih2 := fun j => (ih buf j).2.1
    have ih3 := fun j => (ih buf j).2.2
    refine ⟨?_, ?_, ?_⟩
    · intro r h hr
      unfold value at h ⊢
      cases hb : buf[i]? with
      | none => simp [hb] at h ⊢; exact h
      | some c =>
        simp only [hb] at h ⊢
        repeat' split
        all_goals first | exact h | skip
        all_goals simp_all
        all_goals first | exact ih2 _ _ h hr | exact ih3 _ _ h hr | skip
    · intro r h hr
      unfold elems at h ⊢
      grind
    · intro r h hr
      unfold members at h ⊢
      grind

theorem value_mono {s : Bool} {g g' : Nat} (hle : g ≤ g') (buf i r) (h : value s g buf i = r)
    (hr : r ≠ .fuel) : value s g' buf i = r := by
  induction hle with
  | refl => exact h
  | step _ ih => exact (mono s _ buf i).1 r ih hr

theorem elems_mono {s : Bool} {g g' : Nat} (hle : g ≤ g') (buf i r) (h : elems s g buf i = r)
    (hr : r ≠ .fuel) : elems s g' buf i = r := by
  induction hle with
  | refl => exact h
  | step _ ih => exact (mono s _ buf i).2.1 r ih hr

theorem members_mono {s : Bool} {g g' : Nat} (hle : g ≤ g') (buf i r) (h : members s g buf i = r)
    (hr : r ≠ .fuel) : members s g' buf i = r := by
  induction hle with
  | refl => exact h
  | step _ ih => exact (mono s _ buf i).2.2 r ih hr

end Spec
end Sonic
