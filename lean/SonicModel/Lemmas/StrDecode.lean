import SonicModel.Lemmas.StrTables
import SonicModel.Lemmas.Utf8Enc
namespace Sonic
open Gen Impl

/-- the observable part of a decode result -/
def Impl.DecRes.view : DecRes → Option (List UInt8 × Nat)
  | .ok bs e _ => some (bs, e)
  | .err _ _ => none

theorem escTab_unescape : ∀ e : UInt8, isSimpleEsc e = true →
    (escapedTab[e.toNat]?.getD 0 != 0) = true ∧ escapedTab[e.toNat]?.getD 0 = Spec.unescape e := by
  apply Sonic.UInt8.forall_of_fin; decide +kernel

theorem escTab_zero : ∀ e : UInt8, isSimpleEsc e = false → (escapedTab[e.toNat]?.getD 0 != 0) = false := by
  apply Sonic.UInt8.forall_of_fin; decide +kernel

theorem simple_ne_u : ∀ e : UInt8, isSimpleEsc e = true → (e == 117) = false := by
  apply Sonic.UInt8.forall_of_fin; decide +kernel

/-- relation between the table-driven hex reader and the specification's -/
theorem hexAt_spec (buf : Buf) (i : Nat) :
    (Spec.hex4ok buf i = true → hexAt buf i = some (Spec.hex4val buf i)) ∧
    (Spec.hex4ok buf i = false → hexAt buf i = none ∨ ∃ v, hexAt buf i = some v ∧ 0xFFFFFFFF ≤ v) := by
  unfold Spec.hex4ok Spec.hex4val hexAt
  cases h0 : buf[i]? <;> cases h1 : buf[i+1]? <;> cases h2 : buf[i+2]? <;> cases h3 : buf[i+3]? <;> simp
  rename_i a b c d
  constructor
  · intro ha hb hc hd
    exact hexToU32_valid a b c d ha hb hc hd
  · intro h
    apply hexToU32_invalid
    simpa using h

theorem hex4ok_size' (buf : Buf) (i : Nat) (h : Spec.hex4ok buf i = true) : i + 3 < buf.size := by
  unfold Spec.hex4ok at h
  split at h
  · rename_i h3
    have := (Array.getElem?_eq_some_iff.mp h3).1
    omega
  · simp at h

theorem hex4val_lt (buf : Buf) (i : Nat) (h : Spec.hex4ok buf i = true) : Spec.hex4val buf i < 65536 := by
  unfold Spec.hex4ok at h
  unfold Spec.hex4val
  split at h
  · rename_i a b c d _ _ _ _
    have := hexVal_lt a; have := hexVal_lt b; have := hexVal_lt c; have := hexVal_lt d
    omega
  · simp at h

theorem shl10_or (a b : Nat) (hb : b < 1024) : (a <<< 10 ||| b) = a * 1024 + b := by
  rw [← Nat.shiftLeft_add_eq_or_of_lt (by simpa using hb), Nat.shiftLeft_eq]

/-- `parse_escaped_utf8` (as repaired) against the specification of one `\u` escape -/
theorem uEscape_rel (lossy : Bool) (buf : Buf) (i : Nat) :
    match Spec.uEscape lossy buf i with
    | some (cp, j) => parseEscapedUtf8 lossy buf i = .ok (cp, j) ∧ cp ≤ 0x10FFFF ∧ i + 4 ≤ j
    | none => (∃ c p, parseEscapedUtf8 lossy buf i = .error (c, p)) ∨
              (∃ cp j, parseEscapedUtf8 lossy buf i = .ok (cp, j) ∧ 0x10FFFF < cp) := by
  unfold Spec.uEscape parseEscapedUtf8
  by_cases hk : Spec.hex4ok buf i = true
  · have h1 := (hexAt_spec buf i).1 hk
    have hlt := hex4val_lt buf i hk
    simp only [hk, Bool.not_true, Bool.false_eq_true, ite_false, h1]
    generalize Spec.hex4val buf i = hi at hlt ⊢
    by_cases hs : (decide (0xD800 ≤ hi) && decide (hi < 0xDC00)) = true
    · simp only [hs, ite_true]
      have hs1 : 0xD800 ≤ hi ∧ hi < 0xDC00 := by simpa using hs
      by_cases hq : (buf[i+4]? = some 92 && buf[i+5]? = some 117 && Spec.hex4ok buf (i+6)
          && decide (0xDC00 ≤ Spec.hex4val buf (i+6)) && decide (Spec.hex4val buf (i+6) < 0xE000)) = true
      · simp only [hq, ite_true]
        simp only [Bool.and_eq_true, decide_eq_true_eq] at hq
        obtain ⟨⟨⟨⟨q1, q2⟩, q3⟩, q4⟩, q5⟩ := hq
        have h2 := (hexAt_spec buf (i+6)).1 q3
        have hsz := hex4ok_size' buf (i+6) q3
        have e1 : i + 4 + 6 ≤ buf.size := by omega
        have e2 : i + 4 + 1 = i + 5 := by omega
        have e3 : i + 4 + 2 = i + 6 := by omega
        have e4 : i + 4 + 6 = i + 10 := by omega
        simp only [e1, ite_true, e2, e3, e4, q1, q2, Bool.and_self, h2, q4, q5, decide_true]
        refine ⟨?_, ?_, by omega⟩
        · rw [shl10_or _ _ (by omega), Nat.add_assoc]
        · omega
      · simp only [hq]
        have hq' := hq
        cases lossy
        · -- strict: the spec rejects, the decoder must raise an error
          simp only [Bool.false_eq_true, ite_false]
          left
          by_cases e1 : i + 4 + 6 ≤ buf.size
          · simp only [e1, ite_true]
            by_cases e5 : (buf[i+4]? = some 92 && buf[i+4+1]? = some 117) = true
            · simp only [e5, ite_true]
              cases e6 : hexAt buf (i+4+2) with
              | none => exact ⟨_, _, rfl⟩
              | some p2 =>
                simp only
                by_cases e7 : (decide (0xDC00 ≤ p2) && decide (p2 < 0xE000)) = true
                · exfalso
                  apply hq
                  have e3 : i + 4 + 2 = i + 6 := by omega
                  have e2 : i + 4 + 1 = i + 5 := by omega
                  rw [e3] at e6; rw [e2] at e5
                  have hk2 : Spec.hex4ok buf (i+6) = true := by
                    by_cases hk2 : Spec.hex4ok buf (i+6) = true
                    · exact hk2
                    · have := (hexAt_spec buf (i+6)).2 (by simpa using hk2)
                      rcases this with h | ⟨v, hv, hge⟩
                      · simp [h] at e6
                      · rw [hv] at e6; simp at e6; subst e6
                        simp at e7; omega
                  have := (hexAt_spec buf (i+6)).1 hk2
                  rw [this] at e6; simp at e6
                  simp only [Bool.and_eq_true] at e5
                  simp [e5.1, e5.2, hk2, e6]
                  simpa using e7
                · simp only [e7]; exact ⟨_, _, rfl⟩
            · simp only [e5]; exact ⟨_, _, rfl⟩
          · simp only [e1]; exact ⟨_, _, rfl⟩
        · -- lossy: U+FFFD, only the first escape is consumed
          simp only [ite_true]
          refine ⟨?_, by omega, by omega⟩
          by_cases e1 : i + 4 + 6 ≤ buf.size
          · simp only [e1, ite_true]
            by_cases e5 : (buf[i+4]? = some 92 && buf[i+4+1]? = some 117) = true
            · simp only [e5, ite_true]
              cases e6 : hexAt buf (i+4+2) with
              | none => rfl
              | some p2 =>
                simp only
                by_cases e7 : (decide (0xDC00 ≤ p2) && decide (p2 < 0xE000)) = true
                · exfalso
                  apply hq
                  have e3 : i + 4 + 2 = i + 6 := by omega
                  have e2 : i + 4 + 1 = i + 5 := by omega
                  rw [e3] at e6; rw [e2] at e5
                  have hk2 : Spec.hex4ok buf (i+6) = true := by
                    by_cases hk2 : Spec.hex4ok buf (i+6) = true
                    · exact hk2
                    · have := (hexAt_spec buf (i+6)).2 (by simpa using hk2)
                      rcases this with h | ⟨v, hv, hge⟩
                      · simp [h] at e6
                      · rw [hv] at e6; simp at e6; subst e6
                        simp at e7; omega
                  have := (hexAt_spec buf (i+6)).1 hk2
                  rw [this] at e6; simp at e6
                  simp only [Bool.and_eq_true] at e5
                  simp [e5.1, e5.2, hk2, e6]
                  simpa using e7
                · simp only [e7]; rfl
            · simp only [e5]; rfl
          · simp only [e1]; rfl
    · simp only [hs]
      by_cases hl : (decide (0xDC00 ≤ hi) && decide (hi < 0xE000)) = true
      · simp only [hl, ite_true]
        cases lossy
        · simp only [Bool.false_eq_true, ite_false]; left; exact ⟨_, _, rfl⟩
        · simp only [ite_true]; exact ⟨rfl, by omega, by omega⟩
      · simp only [hl]
        exact ⟨rfl, by omega, by omega⟩
  · have hk' : Spec.hex4ok buf i = false := by simpa using hk
    simp only [hk', Bool.not_false, ite_true]
    rcases (hexAt_spec buf i).2 hk' with h | ⟨v, hv, hge⟩
    · left; simp only [h]; exact ⟨_, _, rfl⟩
    · right
      simp only [hv]
      have n1 : ¬ ((decide (0xD800 ≤ v) && decide (v < 0xDC00)) = true) := by simp; omega
      have n2 : ¬ ((decide (0xDC00 ≤ v) && decide (v < 0xE000)) = true) := by simp; omega
      simp only [n1, n2]
      exact ⟨v, i+4, rfl, by omega⟩

end Sonic
