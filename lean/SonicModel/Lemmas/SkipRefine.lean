import SonicModel.Spec.Grammar
import SonicModel.Impl.Skip
namespace Sonic
open Gen

/-! ## table facts (re-checked against the generated `ESCAPED_TAB` on every run) -/

theorem escTab_simple : ∀ c : UInt8, isSimpleEsc c = true → (c == 117) = false ∧ (Impl.escTab c == 0) = false := by
  apply Sonic.UInt8.forall_of_fin
  decide +kernel

theorem escTab_nonsimple : ∀ c : UInt8, isSimpleEsc c = false → (c == 117) = false → (Impl.escTab c == 0) = true := by
  apply Sonic.UInt8.forall_of_fin
  decide +kernel

theorem hex4ok_eq (buf : Buf) (i : Nat) : Impl.hex4ok buf i = Spec.hex4ok buf i := rfl

theorem hex4ok_size (buf : Buf) (i : Nat) (h : Spec.hex4ok buf i = true) : i + 3 < buf.size := by
  unfold Spec.hex4ok at h
  split at h
  · rename_i h3; 
    have := (Array.getElem?_eq_some_iff.mp h3).1
    omega
  · simp at h

/-! ## strings -/

theorem skipString_refines (buf : Buf) (i : Nat) :
    (Impl.skipString buf buf.size i).erase = Res.ofOpt (Spec.stringG buf i) := by
  fun_induction Spec.stringG buf i
  case case1 => rw [Impl.skipString]; simp_all +zetaDelta
  case case2 => rw [Impl.skipString]; simp_all +zetaDelta [Impl.skipEscapedChars]
  case case3 x hx c0 hnq hbs c hc hs ih =>
    have := escTab_simple c hs
    rw [Impl.skipString]; simp_all +zetaDelta +arith [Impl.skipEscapedChars]
  case case4 x hx c0 hnq hbs c hc hns hu hh ih =>
    have hsz := hex4ok_size buf _ hh
    rw [Impl.skipString]; simp_all +zetaDelta +arith [Impl.skipEscapedChars, hex4ok_eq]
    by_cases hle : buf.size ≤ x + 6
    · have : ¬ (x + 6 < buf.size) := by omega
      rw [Spec.stringG]; simp [hle, this]
    · simp [hle, ih]
  case case5 x hx c0 hnq hbs c hc hns hu hh =>
    rw [Impl.skipString]; simp_all +zetaDelta +arith [Impl.skipEscapedChars, hex4ok_eq]
    by_cases hle : buf.size ≤ x + 6 <;> simp [hle]
  case case6 x hx c0 hnq hbs c hc hns hu =>
    have := escTab_nonsimple c (by simpa using hns) (by simpa using hu)
    rw [Impl.skipString]; simp_all +zetaDelta +arith [Impl.skipEscapedChars]
  case case7 x hx c0 hnq hbs hlt =>
    have : buf[x] ≤ 31 := by
      have := UInt8.lt_iff_toNat_lt.mp hlt
      apply UInt8.le_iff_toNat_le.mpr
      simp +zetaDelta at this ⊢; omega
    rw [Impl.skipString]; simp_all +zetaDelta +arith
  case case8 x hx c0 hnq hbs hlt ih =>
    have : ¬ buf[x] ≤ 31 := by
      intro h
      have := UInt8.le_iff_toNat_le.mp h
      have h2 : ¬ (buf[x].toNat < 32) := by
        intro h3; apply hlt; apply UInt8.lt_iff_toNat_lt.mpr; simpa using h3
      simp at this; omega
    rw [Impl.skipString]; simp only [hx, dite_true]
    have h1 : (buf[x] == 92) = false := by simpa using hbs
    have h2 : (buf[x] == 34) = false := by simpa using hnq
    simp [h1, h2, this, ih]
  case case9 x hge =>
    rw [Impl.skipString]; simp [hge]

/-! ## numbers -/

theorem skipDigits_digit (buf : Buf) (i : Nat) (h : isDigitAt buf i = true) :
    skipDigits buf i = skipDigits buf (i+1) := by
  unfold isDigitAt at h
  rw [skipDigits]
  split at h
  · rename_i d hd
    have := Array.getElem?_eq_some_iff.mp hd
    obtain ⟨h1, h2⟩ := this
    simp [h1, h2, h]
  · simp at h

theorem skipDigits_nondigit (buf : Buf) (i : Nat) (h : isDigitAt buf i = false) :
    skipDigits buf i = i := by
  unfold isDigitAt at h
  rw [skipDigits]
  split at h
  · rename_i d hd
    have := Array.getElem?_eq_some_iff.mp hd
    obtain ⟨h1, h2⟩ := this
    simp [h1, h2, h]
  · rename_i hn
    have : ¬ i < buf.size := by
      intro hlt; simp [hlt] at hn
    simp [this]

theorem skipSingleDigit_spec (buf : Buf) (i : Nat) :
    (Impl.skipSingleDigit buf i).erase = if isDigitAt buf i then .ok (i+1) else .err := by
  unfold Impl.skipSingleDigit isDigitAt
  split <;> simp_all
  split <;> simp_all

theorem skipSingleDigit_ok (buf : Buf) (i k : Nat) (h : Impl.skipSingleDigit buf i = .ok k) :
    k = i + 1 ∧ isDigitAt buf i = true := by
  unfold Impl.skipSingleDigit at h
  unfold isDigitAt
  split at h
  · simp at h
  · split at h <;> simp_all

theorem skipExponent_spec (buf : Buf) (i : Nat) (he : Impl.isExpChar buf[i]? = true) :
    (Impl.skipExponent buf (i+1)).erase = Res.ofOpt (Spec.expo buf i) := by
  unfold Impl.isExpChar at he
  unfold Impl.skipExponent Spec.expo
  simp only [he, ite_true]
  have e : (if (buf[i + 1]? = some 45 || buf[i + 1]? = some 43) = true then i + 1 + 1 else i + 1)
      = (if (buf[i + 1]? = some 45 || buf[i + 1]? = some 43) = true then i + 2 else i + 1) := by
    split <;> rfl
  simp only [e]
  generalize (if (buf[i + 1]? = some 45 || buf[i + 1]? = some 43) = true then i + 2 else i + 1) = j
  have := skipSingleDigit_spec buf j
  cases h : Impl.skipSingleDigit buf j with
  | ok k =>
    obtain ⟨h1, h2⟩ := skipSingleDigit_ok buf j k h
    simp [h1, h2]
  | err c p => simp [h] at this; simp [this]
  | fuel => simp [h] at this; split at this <;> simp at this


theorem numTail_true (buf : Buf) (i : Nat) :
    (Impl.numTail buf i true).erase = Res.ofOpt (Spec.expo buf (skipDigits buf i)) := by
  unfold Impl.numTail
  simp only [Bool.not_true, Bool.and_false, Bool.false_eq_true, ite_false]
  by_cases he : Impl.isExpChar buf[skipDigits buf i]? = true
  · simp only [he, ite_true]; exact skipExponent_spec buf _ he
  · simp only [he]
    unfold Impl.isExpChar at he
    unfold Spec.expo
    simp [he]

theorem numTail_false (buf : Buf) (i : Nat) :
    (Impl.numTail buf i false).erase =
      Res.ofOpt ((Spec.frac buf (skipDigits buf i)).bind (Spec.expo buf)) := by
  unfold Impl.numTail Spec.frac
  by_cases hd : buf[skipDigits buf i]? = some 46
  · simp only [hd, Bool.not_false, Bool.and_true, decide_true, ite_true]
    have := skipSingleDigit_spec buf (skipDigits buf i + 1)
    cases h : Impl.skipSingleDigit buf (skipDigits buf i + 1) with
    | ok k =>
      obtain ⟨h1, h2⟩ := skipSingleDigit_ok buf _ k h
      subst h1
      simp only [h2, ite_true, Option.bind_some]
      have e1 : skipDigits buf (skipDigits buf i + 1 + 1) = skipDigits buf (skipDigits buf i + 2) := rfl
      by_cases he : Impl.isExpChar buf[skipDigits buf (skipDigits buf i + 1 + 1)]? = true
      · simp only [he, ite_true]; rw [skipExponent_spec buf _ he]
      · simp only [he]
        unfold Impl.isExpChar at he
        unfold Spec.expo
        simp [he]
    | err c p => simp [h] at this; simp [this]
    | fuel => simp [h] at this; split at this <;> simp at this
  · have hd' : (decide (buf[skipDigits buf i]? = some 46)) = false := by simpa using hd
    simp only [ite_false, hd, Option.bind_some]
    by_cases he : Impl.isExpChar buf[skipDigits buf i]? = true
    · simp only [he, ite_true]; exact skipExponent_spec buf _ he
    · simp only [he]
      unfold Impl.isExpChar at he
      unfold Spec.expo
      simp [he]

theorem afterFirst_nodigit (buf : Buf) (i : Nat) (hd : isDigitAt buf i = false) :
    (match buf[i]? with
      | some c =>
        if isDigit c then Impl.numTail buf (i+1) false
        else if c == 46 then
          match Impl.skipSingleDigit buf (i+1) with
          | .ok k => Impl.numTail buf k true
          | r => r
        else if c == 101 || c == 69 then Impl.skipExponent buf (i+1)
        else IRes.ok i
      | none => IRes.ok i).erase = Res.ofOpt ((Spec.frac buf i).bind (Spec.expo buf)) := by
  unfold Spec.frac
  cases hb : buf[i]? with
  | none => simp [Spec.expo, hb]
  | some c =>
    have hnd : isDigit c = false := by simpa [isDigitAt, hb] using hd
    simp only [hnd, Bool.false_eq_true, ite_false]
    by_cases h46 : c = 46
    · subst h46
      simp only [beq_self_eq_true, ite_true]
      have := skipSingleDigit_spec buf (i+1)
      cases h : Impl.skipSingleDigit buf (i + 1) with
      | ok k =>
        obtain ⟨h1, h2⟩ := skipSingleDigit_ok buf _ k h
        subst h1
        simp only [h2, ite_true, Option.bind_some]
        exact numTail_true buf (i+1+1)
      | err c p => simp [h] at this; simp [this]
      | fuel => simp [h] at this; split at this <;> simp at this
    · have h46' : (c == 46) = false := by simpa using h46
      have h46'' : ¬ (some c = some (46 : UInt8)) := by simpa using h46
      simp only [h46', Bool.false_eq_true, ite_false, h46'', Option.bind_some]
      by_cases he : (c == 101 || c == 69) = true
      · simp only [he, ite_true]
        have : Impl.isExpChar buf[i]? = true := by
          simp [Impl.isExpChar, hb]; simpa using he
        exact skipExponent_spec buf i this
      · simp only [he]
        unfold Spec.expo
        have : ¬ ((buf[i]? = some 101 || buf[i]? = some 69) = true) := by
          simp [hb]; simpa using he
        simp [this]

theorem numAfterFirst_refines (buf : Buf) (c : UInt8) (i : Nat) :
    (Impl.numAfterFirst buf c i).erase = Res.ofOpt (Spec.afterFirst buf c i) := by
  unfold Impl.numAfterFirst Spec.afterFirst
  by_cases hz : (c == 48) = true
  · simp only [hz, Bool.true_and, ite_true]
    by_cases hd : isDigitAt buf i = true
    · simp [hd]
    · simp only [hd]
      exact afterFirst_nodigit buf i (by simpa using hd)
  · simp only [hz, Bool.false_and, Bool.false_eq_true, ite_false]
    by_cases hd : isDigitAt buf i = true
    · rw [skipDigits_digit buf i hd]
      have : ∃ d, buf[i]? = some d ∧ isDigit d = true := by
        unfold isDigitAt at hd
        split at hd
        · rename_i d hd2; exact ⟨d, hd2, hd⟩
        · simp at hd
      obtain ⟨d, h1, h2⟩ := this
      simp only [h1, h2, ite_true]
      exact numTail_false buf (i+1)
    · have hd' : isDigitAt buf i = false := by simpa using hd
      rw [skipDigits_nondigit buf i hd']
      exact afterFirst_nodigit buf i hd'

theorem digit_ne_minus : ∀ c : UInt8, isDigit c = true → (c == 45) = false := by
  apply Sonic.UInt8.forall_of_fin
  decide +kernel

theorem doSkipNumber_refines (buf : Buf) (p : Nat) (hp : p < buf.size)
    (hc : buf[p] = 45 ∨ isDigit buf[p] = true) :
    (Impl.doSkipNumber buf buf[p] (p+1)).erase = Res.ofOpt (Spec.number buf p) := by
  have hget : buf[p]? = some buf[p] := by simp [hp]
  unfold Impl.doSkipNumber Spec.number
  cases hc with
  | inl hm =>
    simp only [hm, beq_self_eq_true, ite_true, hget]
    have := skipSingleDigit_spec buf (p+1)
    cases h : Impl.skipSingleDigit buf (p + 1) with
    | ok k =>
      obtain ⟨h1, h2⟩ := skipSingleDigit_ok buf _ k h
      subst h1
      have : ∃ d, buf[p+1]? = some d ∧ isDigit d = true := by
        unfold isDigitAt at h2
        split at h2
        · rename_i d hd2; exact ⟨d, hd2, h2⟩
        · simp at h2
      obtain ⟨d, hd1, hd2⟩ := this
      simp only [hd1, hd2, ite_true, Option.getD_some]
      exact numAfterFirst_refines buf d (p+1+1)
    | err c q =>
      simp [h] at this
      unfold isDigitAt at this
      cases hb : buf[p+1]? with
      | none => simp
      | some d => simp [hb] at this; simp [this]
    | fuel => simp [h] at this; split at this <;> simp at this
  | inr hd =>
    have hne := digit_ne_minus _ hd
    have hne' : ¬ (buf[p]? = some (45 : UInt8)) := by
      simp [hget]; simpa using hne
    simp only [hne, Bool.false_eq_true, ite_false, hne']
    simp only [hget, hd, ite_true]
    exact numAfterFirst_refines buf buf[p] (p+1)

/-! ## literals, colon -/

theorem litAt_some (buf : Buf) (bs : List UInt8) : ∀ (i e : Nat), litAt buf i bs = some e →
    e = i + bs.length ∧ (bs ≠ [] → i + bs.length ≤ buf.size) := by
  induction bs with
  | nil => intro i e h; simp [litAt] at h; simp [h]
  | cons b rest ih =>
    intro i e h
    simp only [litAt] at h
    split at h
    · rename_i hb
      have := ih (i+1) e h
      have hlt := (Array.getElem?_eq_some_iff.mp hb).1
      simp only [List.length_cons]
      refine ⟨by omega, fun _ => ?_⟩
      cases rest with
      | nil => simp; omega
      | cons r rs => have := this.2 (by simp); simp at this ⊢; omega
    · simp at h

theorem parseLiteral_refines (buf : Buf) (i : Nat) (bs : List UInt8) (hne : bs ≠ []) :
    (Impl.parseLiteral buf i bs).erase = Res.ofOpt (Spec.lit buf i bs) := by
  unfold Impl.parseLiteral Spec.lit
  cases h : litAt buf i bs with
  | none => split <;> simp
  | some e =>
    obtain ⟨h1, h2⟩ := litAt_some buf bs i e h
    simp [h2 hne, h1]

theorem skipSpace_spec (buf : Buf) (i : Nat) :
    Impl.skipSpace buf i = (buf[skipWs buf i]?).map (fun c => (c, skipWs buf i + 1)) := by
  unfold Impl.skipSpace
  by_cases h : skipWs buf i < buf.size <;> simp [h]

theorem colon_not_ws : isWs 58 = false := by decide

/-- `parse_object_clo` succeeds exactly when the first non-blank byte is `:` -/
theorem parseObjectClo_spec (buf : Buf) (k : Nat) :
    (Impl.parseObjectClo buf k).erase =
      if buf[skipWs buf k]? = some 58 then .ok (skipWs buf k + 1) else .err := by
  unfold Impl.parseObjectClo
  cases hb : buf[k]? with
  | none =>
    have hk : buf.size ≤ k := by
      by_cases h : k < buf.size
      · simp [h] at hb
      · omega
    rw [skipWs_eof buf k hk]; simp [hb]
  | some ch =>
    have hk := (Array.getElem?_eq_some_iff.mp hb).1
    have hv := (Array.getElem?_eq_some_iff.mp hb).2
    by_cases h58 : ch = 58
    · subst h58
      have : skipWs buf k = k := skipWs_fix buf k hk (by rw [hv]; exact colon_not_ws)
      simp [this, hb]
    · have h58' : (ch == 58) = false := by simpa using h58
      simp only [h58', Bool.false_eq_true, ite_false]
      rw [skipSpace_spec]
      cases hj : buf[skipWs buf k]? with
      | none => simp
      | some c =>
        simp only [Option.map_some]
        by_cases hc : c = 58
        · subst hc; simp
        · have : (c == 58) = false := by simpa using hc
          simp [this, hc]

end Sonic
