import SonicModel.Impl.Dom
namespace Sonic
open Gen Impl Spec

/-- node shape without the back-pointer distance -/
inductive Shape where
  | leaf (j : Json)
  | cont (isObj : Bool) (children : List Shape) (len : Nat)
  | hdr
  deriving Repr, Inhabited

mutual
def Impl.Node.shape : Node → Shape
  | .leaf j => .leaf j
  | .opened _ _ => .hdr
  | .closed o cs _ len => .cont o (shapes cs) len
def shapes : List Node → List Shape
  | [] => []
  | n :: ns => n.shape :: shapes ns
end

theorem shapes_append (a b : List Node) : shapes (a ++ b) = shapes a ++ shapes b := by
  induction a with
  | nil => simp [shapes]
  | cons x xs ih => simp [shapes, ih]

/-- the shape of the node a tree denotes -/
def shapeOf : Json → Shape
  | .arr xs => .cont false (shapeList xs) xs.length
  | .obj ms => .cont true (shapeMembers ms) ms.length
  | j => .leaf j
where
  shapeList : List Json → List Shape
    | [] => []
    | x :: xs => shapeOf x :: shapeList xs
  shapeMembers : List (List UInt8 × Json) → List Shape
    | [] => []
    | (k, x) :: ms => .leaf (.str k) :: shapeOf x :: shapeMembers ms

theorem run_append (a b : List Ev) (v : Vis) : v.run (a ++ b) = (v.run a).bind fun v' => v'.run b := by
  induction a generalizing v with
  | nil => simp [Vis.run]
  | cons e es ih =>
    simp only [List.cons_append, Vis.run]
    cases v.step e with
    | none => simp
    | some v' => simp [ih]

/-- what a finished run looks like: `k` new nodes were pushed, the parent offset is restored, and
    the back-pointer distance of the first new node (if it is a container) is its distance to
    the enclosing header -/
def Pushed (v v' : Vis) (sh : List Shape) : Prop :=
  ∃ ns, v'.nodes = v.nodes ++ ns ∧ shapes ns = sh ∧ v'.parent = v.parent

mutual
/-- **stack discipline**: visiting the events of a tree pushes exactly one node with the tree's
    shape and restores `parent`, whatever the stack held before -/
theorem run_tree : ∀ (j : Json) (v : Vis), ∃ v', v.run (evOf j) = some v' ∧ Pushed v v' [shapeOf j]
  | .null, v => ⟨{ v with nodes := v.nodes ++ [.leaf .null] }, by simp [evOf, Vis.run, Vis.step], ⟨[.leaf .null], rfl, by simp [shapes, Node.shape, shapeOf], rfl⟩⟩
  | .bool b, v => ⟨{ v with nodes := v.nodes ++ [.leaf (.bool b)] }, by simp [evOf, Vis.run, Vis.step], ⟨[.leaf (.bool b)], rfl, by simp [shapes, Node.shape, shapeOf], rfl⟩⟩
  | .num s e, v => ⟨{ v with nodes := v.nodes ++ [.leaf (.num s e)] }, by simp [evOf, Vis.run, Vis.step], ⟨[.leaf (.num s e)], rfl, by simp [shapes, Node.shape, shapeOf], rfl⟩⟩
  | .str s, v => ⟨{ v with nodes := v.nodes ++ [.leaf (.str s)] }, by simp [evOf, Vis.run, Vis.step], ⟨[.leaf (.str s)], rfl, by simp [shapes, Node.shape, shapeOf], rfl⟩⟩
  | .arr xs, v => by
    obtain ⟨v2, h2, ns, hn, hs, hp⟩ := run_list xs { nodes := v.nodes ++ [.opened false v.parent], parent := v.nodes.length }
    simp only at hn hp
    refine ⟨{ nodes := v.nodes ++ [.closed false (if xs.length == 0 then [] else ns) (v.nodes.length - v.parent) xs.length], parent := v.parent }, ?_, ?_⟩
    · simp only [evOf, run_append, Vis.run, Vis.step, Option.bind_some, h2]
      have hidx : v2.nodes[v2.parent]? = some (.opened false v.parent) := by
        rw [hn, hp]; simp [List.getElem?_append]
      simp only [hidx, bne_self_eq_false, Bool.false_eq_true, ite_false]
      have hdrop : v2.nodes.drop (v2.parent + 1) = ns := by
        rw [hn, hp]; simp [List.drop_append]
      have htake : v2.nodes.take v2.parent = v.nodes := by
        rw [hn, hp]; simp [List.take_append]
      rw [hp] at hdrop htake
      simp [hdrop, htake, hp]
    · refine ⟨[_], rfl, ?_, rfl⟩
      simp only [shapes, Node.shape, shapeOf]
      cases xs with
      | nil =>
        simp only [List.length_nil, beq_self_eq_true, ite_true, shapes]
        simp [shapeOf.shapeList]
      | cons x rest => simp [hs]
  | .obj ms, v => by
    obtain ⟨v2, h2, ns, hn, hs, hp⟩ := run_members ms { nodes := v.nodes ++ [.opened true v.parent], parent := v.nodes.length }
    simp only at hn hp
    refine ⟨{ nodes := v.nodes ++ [.closed true (if ms.length == 0 then [] else ns) (v.nodes.length - v.parent) ms.length], parent := v.parent }, ?_, ?_⟩
    · simp only [evOf, run_append, Vis.run, Vis.step, Option.bind_some, h2]
      have hidx : v2.nodes[v2.parent]? = some (.opened true v.parent) := by
        rw [hn, hp]; simp [List.getElem?_append]
      simp only [hidx, bne_self_eq_false, Bool.false_eq_true, ite_false]
      have hdrop : v2.nodes.drop (v2.parent + 1) = ns := by
        rw [hn, hp]; simp [List.drop_append]
      have htake : v2.nodes.take v2.parent = v.nodes := by
        rw [hn, hp]; simp [List.take_append]
      rw [hp] at hdrop htake
      simp [hdrop, htake, hp]
    · refine ⟨[_], rfl, ?_, rfl⟩
      simp only [shapes, Node.shape, shapeOf]
      cases ms with
      | nil =>
        simp only [List.length_nil, beq_self_eq_true, ite_true, shapes]
        simp [shapeOf.shapeMembers]
      | cons x rest => simp [hs]
theorem run_list : ∀ (xs : List Json) (v : Vis), ∃ v', v.run (evOf.evList xs) = some v' ∧ Pushed v v' (shapeOf.shapeList xs)
  | [], v => ⟨v, by simp [evOf.evList, Vis.run], ⟨[], by simp, by simp [shapes, shapeOf.shapeList], rfl⟩⟩
  | x :: xs, v => by
    obtain ⟨v1, h1, n1, hn1, hs1, hp1⟩ := run_tree x v
    obtain ⟨v2, h2, n2, hn2, hs2, hp2⟩ := run_list xs v1
    refine ⟨v2, by simp [evOf.evList, run_append, h1, h2], ⟨n1 ++ n2, ?_, ?_, ?_⟩⟩
    · rw [hn2, hn1]; simp
    · rw [shapes_append, hs1, hs2]; simp [shapeOf.shapeList]
    · rw [hp2, hp1]
theorem run_members : ∀ (ms : List (List UInt8 × Json)) (v : Vis),
    ∃ v', v.run (evOf.evMembers ms) = some v' ∧ Pushed v v' (shapeOf.shapeMembers ms)
  | [], v => ⟨v, by simp [evOf.evMembers, Vis.run], ⟨[], by simp, by simp [shapes, shapeOf.shapeMembers], rfl⟩⟩
  | (k, x) :: ms, v => by
    obtain ⟨v1, h1, n1, hn1, hs1, hp1⟩ := run_tree x { v with nodes := v.nodes ++ [.leaf (.str k)] }
    obtain ⟨v2, h2, n2, hn2, hs2, hp2⟩ := run_members ms v1
    refine ⟨v2, ?_, ⟨[.leaf (.str k)] ++ n1 ++ n2, ?_, ?_, ?_⟩⟩
    · simp only [evOf.evMembers, run_append, Vis.run, Vis.step, Option.bind_some]
      simp [h1, h2]
    · rw [hn2, hn1]; simp
    · rw [shapes_append, shapes_append, hs1, hs2]; simp [shapes, Node.shape, shapeOf.shapeMembers]
    · rw [hp2, hp1]
end

end Sonic
