import SonicModel.Lemmas.DeBase
import SonicModel.Lemmas.NumClass
/-! number tokens through `parse_number`, in the terms of the specification's reading `Spec.decOf` (used by Lemmas/DeScalar) -/
namespace Sonic
namespace De
open Gen Spec Impl DomP

theorem run_digits (buf : Buf) : ∀ n i, skipDigits buf i - i = n → ∀ k, i ≤ k → k < skipDigits buf i → isDigitAt buf k = true := by
  intro n
  induction n with
  | zero =>
    intro i h k h1 h2
    have := skipDigits_ge buf i
    omega
  | succ n ih =>
    intro i h k h1 h2
    by_cases hd : isDigitAt buf i = true
    · have e := skipDigits_digit buf i hd
      by_cases hk : k = i
      · subst hk; exact hd
      · have hge := skipDigits_ge buf (i+1)
        exact ih (i+1) (by rw [← e]; omega) k (by omega) (by rw [← e]; exact h2)
    · have : skipDigits buf i = i := skipDigits_nondigit buf i (by simpa using hd)
      omega

theorem split3 (l : List UInt8) (a b : Nat) (hab : a ≤ b) :
    l = l.take a ++ ((l.take b).drop a ++ l.drop b) := by
  have h1 : l.take b ++ l.drop b = l := List.take_append_drop b l
  have h2 : (l.take b).take a ++ (l.take b).drop a = l.take b := List.take_append_drop a _
  have h3 : (l.take b).take a = l.take a := by rw [List.take_take]; congr 1; omega
  rw [← List.append_assoc, ← h3, h2, h1]


theorem expo_gt (buf : Buf) (k e : Nat) (hE : (buf[k]? = some 101 || buf[k]? = some 69) = true) (h : expo buf k = some e) : k < e := by
  unfold expo at h
  rw [if_pos hE] at h
  simp only at h
  by_cases hs : (buf[k + 1]? = some 45 || buf[k + 1]? = some 43) = true
  · simp only [hs, if_true] at h
    split at h
    · have := skipDigits_ge buf (k + 2 + 1)
      simp only [Option.some.injEq] at h
      omega
    · simp at h
  · simp only [hs, Bool.false_eq_true, if_false] at h
    split at h
    · have := skipDigits_ge buf (k + 1 + 1)
      simp only [Option.some.injEq] at h
      omega
    · simp at h

theorem expo_ge (buf : Buf) (k e : Nat) (h : expo buf k = some e) : k ≤ e := by
  by_cases hE : (buf[k]? = some 101 || buf[k]? = some 69) = true
  · exact Nat.le_of_lt (expo_gt buf k e hE h)
  · have hEo : ¬ (buf[k]? = some 101 ∨ buf[k]? = some 69) := by simpa using hE
    rw [expo_noexp buf k hEo] at h
    simp only [Option.some.injEq] at h; omega

/-- the head of a number token: first digit, end of the integer digits, and the grammar of what follows them -/
theorem token_head (buf : Buf) (s e i1 : Nat) (hi1 : i1 = if buf[s]? = some 45 then s + 1 else s)
    (h : number buf s = some e) :
    ∃ c, buf[i1]? = some c ∧ isDigit c = true ∧ (c = 48 → skipDigits buf i1 = i1 + 1) ∧ i1 < skipDigits buf i1 ∧
      (frac buf (skipDigits buf i1)).bind (expo buf) = some e := by
  unfold number at h
  simp only [← hi1] at h
  cases hb1 : buf[i1]? with
  | none => simp [hb1] at h
  | some c =>
    simp only [hb1] at h
    by_cases hdc : isDigit c = true
    · simp only [hdc, if_true] at h
      unfold afterFirst at h
      simp only at h
      have hdi1 : isDigitAt buf i1 = true := by unfold isDigitAt; rw [hb1]; exact hdc
      have hi2 : (if (c == 48) = true then i1 + 1 else skipDigits buf (i1 + 1)) = skipDigits buf i1 ∧
          (c = 48 → skipDigits buf i1 = i1 + 1) := by
        by_cases h48 : c = 48
        · subst h48
          simp only [beq_self_eq_true, if_true, Bool.true_and] at h ⊢
          have hnd : isDigitAt buf (i1 + 1) = false := by
            cases hx : isDigitAt buf (i1 + 1) with
            | false => rfl
            | true => simp [hx] at h
          rw [skipDigits_digit buf i1 hdi1, skipDigits_nondigit buf _ hnd]
          exact ⟨rfl, fun _ => rfl⟩
        · have : (c == 48) = false := by simpa using h48
          simp only [this, Bool.false_eq_true, if_false]
          exact ⟨(skipDigits_digit buf i1 hdi1).symm, fun hh => absurd hh h48⟩
      obtain ⟨hi2a, hi2b⟩ := hi2
      rw [hi2a] at h
      have hbind : (frac buf (skipDigits buf i1)).bind (expo buf) = some e := by
        split at h
        · simp at h
        · exact h
      have hlt : i1 < skipDigits buf i1 := by
        rw [skipDigits_digit buf i1 hdi1]
        have := skipDigits_ge buf (i1 + 1); omega
      exact ⟨c, rfl, hdc, hi2b, hlt, hbind⟩
    · simp [hdc] at h

/-- the shape of an integer token: where it ends and what follows -/
theorem int_token_shape (buf : Buf) (s e i1 : Nat) (hi1 : i1 = if buf[s]? = some 45 then s + 1 else s)
    (h : number buf s = some e) (hint : (decOf buf s e).isInt = true) :
    ∃ c, buf[i1]? = some c ∧ isDigit c = true ∧ e = skipDigits buf i1 ∧ i1 < e ∧ (c = 48 → e = i1 + 1) ∧
      isDigitAt buf e = false ∧ buf[e]? ≠ some 46 ∧ buf[e]? ≠ some 101 ∧ buf[e]? ≠ some 69 := by
  obtain ⟨c, hb1, hdc, hi2b, hlt0, hbind⟩ := token_head buf s e i1 hi1 h
  unfold decOf fracOf expOf at hint
  simp only [← hi1] at hint
  have hidem := skipDigits_idem buf i1
  generalize hi2 : skipDigits buf i1 = i2 at *
  rcases tail_of_grammar buf i2 e hbind with ⟨hdot, hdig, hexp⟩ | ⟨hndot, hexp⟩
  · exfalso
    have h1 := expo_ge buf _ e hexp
    have h2 := skipDigits_ge buf (i2 + 2)
    have : (buf[i2]? = some 46 && decide (i2 < e)) = true := by simp [hdot]; omega
    simp [this] at hint
  · have hnf : (buf[i2]? = some 46 && decide (i2 < e)) = false := by simp [hndot]
    simp only [hnf, Bool.false_eq_true, if_false, Bool.not_false, Bool.true_and] at hint
    by_cases hE : (buf[i2]? = some 101 || buf[i2]? = some 69) = true
    · exfalso
      have := expo_gt buf i2 e hE hexp
      simp [hE, this] at hint
    · have hEo : ¬ (buf[i2]? = some 101 ∨ buf[i2]? = some 69) := by simpa using hE
      rw [expo_noexp buf i2 hEo] at hexp
      have he : e = i2 := by simpa using hexp.symm
      subst he
      refine ⟨c, hb1, hdc, rfl, hlt0, hi2b, hidem, hndot, ?_, ?_⟩
      · intro hh; exact hEo (Or.inl hh)
      · intro hh; exact hEo (Or.inr hh)

/-- a token with a fraction or an exponent: what stands behind its integer digits -/
theorem nonint_token_shape (buf : Buf) (s e i1 : Nat) (hi1 : i1 = if buf[s]? = some 45 then s + 1 else s)
    (h : number buf s = some e) (hint : (decOf buf s e).isInt = false) :
    (buf[i1]? = some 48 → skipDigits buf i1 = i1 + 1) ∧
    (buf[skipDigits buf i1]? = some 46 ∨ buf[skipDigits buf i1]? = some 101 ∨ buf[skipDigits buf i1]? = some 69) := by
  obtain ⟨c, hb1, hdc, hi2b, hlt0, hbind⟩ := token_head buf s e i1 hi1 h
  refine ⟨fun h48 => hi2b (by rw [hb1] at h48; simpa using h48), ?_⟩
  unfold decOf fracOf expOf at hint
  simp only [← hi1] at hint
  generalize hi2 : skipDigits buf i1 = i2 at *
  by_cases hdot : buf[i2]? = some 46
  · exact Or.inl hdot
  · have hnf : (buf[i2]? = some 46 && decide (i2 < e)) = false := by simp [hdot]
    simp only [hnf, Bool.false_eq_true, if_false, Bool.not_false, Bool.true_and] at hint
    by_cases hE : (buf[i2]? = some 101 || buf[i2]? = some 69) = true
    · simp only [Bool.or_eq_true, decide_eq_true_eq] at hE
      exact Or.inr hE
    · simp [hE] at hint

theorem getElem?_toArray_toList (buf : Buf) (k : Nat) : buf.toList[k]? = buf[k]? := by
  simp

/-- an integer token through the digit machine -/
theorem int_token_parse (buf : Buf) (s e i1 : Nat) (hi1 : i1 = if buf[s]? = some 45 then s + 1 else s)
    (h : number buf s = some e) (hint : (decOf buf s e).isInt = true) :
    ∃ D : List UInt8, D ≠ [] ∧ allDigits D ∧ (D.head? = some 48 → D = [48]) ∧ digitsVal buf i1 e 0 = digitsOf D 0 ∧
      ∀ bound neg, parseNumber buf bound i1 neg =
        (if D = [48] then (if neg then .zero true else .unsigned 0) else intResult neg D, e) := by
  obtain ⟨c, hb1, hdc, he, hlt, h48, hnd, h46, h101, h69⟩ := int_token_shape buf s e i1 hi1 h hint
  have hesz : e ≤ buf.size := by
    rw [he]; apply skipDigits_le
    have : i1 < buf.size := by
      cases hx : buf[i1]? with
      | none => rw [hx] at hb1; cases hb1
      | some _ => exact (Array.getElem?_eq_some_iff.mp hx).1
    omega
  let l := buf.toList
  have hl : l.length = buf.size := by simp [l]
  let A := l.take i1
  let D := (l.take e).drop i1
  let R := l.drop e
  have hbuf : buf = (A ++ (D ++ R)).toArray := by
    have := split3 l i1 e (Nat.le_of_lt hlt)
    apply Array.ext'
    simpa [l, A, D, R] using this
  have hA : A.length = i1 := by simp [A, hl]; omega
  have hD : D.length = e - i1 := by simp [D, hl]; omega
  have hget : ∀ k, k < D.length → D[k]? = buf[i1 + k]? := by
    intro k hk
    simp only [D, List.getElem?_drop, List.getElem?_take]
    have : i1 + k < e := by omega
    simp [this, l]
  have hDd : allDigits D := by
    intro d hd
    obtain ⟨k, hk, hkd⟩ := List.mem_iff_getElem.mp hd
    have h1 := hget k hk
    rw [List.getElem?_eq_getElem hk, hkd] at h1
    have h2 := run_digits buf _ i1 rfl (i1 + k) (by omega) (by rw [← he]; omega)
    unfold isDigitAt at h2
    rw [← h1] at h2
    exact h2
  have hDne : D ≠ [] := by
    intro hh; rw [hh] at hD; simp at hD; omega
  have hhead : D.head? = some c := by
    rw [List.head?_eq_getElem?, hget 0 (by omega)]; simpa using hb1
  have hR : EndsInt R := by
    have hRh : R.head? = buf[e]? := by
      simp only [R, List.head?_drop, l]; simp
    refine ⟨?_, by rw [hRh]; exact h46, by rw [hRh]; exact h101, by rw [hRh]; exact h69⟩
    intro x hx
    rw [hRh] at hx
    unfold isDigitAt at hnd
    rw [hx] at hnd
    exact hnd
  refine ⟨D, hDne, hDd, ?_, ?_, ?_⟩
  · intro hh
    rw [hhead] at hh
    have hc48 : c = 48 := by simpa using hh
    have := h48 hc48
    cases hDc : D with
    | nil => exact absurd hDc hDne
    | cons d r =>
      rw [hDc] at hhead hD
      simp at hhead hD
      have : r = [] := by
        apply List.eq_nil_of_length_eq_zero; omega
      rw [this, hhead, hc48]
  · have := digitsVal_run D A R 0
    rw [← hbuf, hA, hD] at this
    rw [← this]; congr 1; omega
  · intro bound neg
    cases hDc : D with
    | nil => exact absurd hDc hDne
    | cons d I' =>
      have hdc' : d = c := by rw [hDc] at hhead; simpa using hhead
      subst hdc'
      have he' : e = A.length + (I'.length + 1) := by
        rw [hA]; rw [hDc] at hD; simp at hD; omega
      by_cases hz : d = 48
      · have hI' : I' = [] := by
          have := h48 hz
          rw [hDc] at hD; simp at hD
          apply List.eq_nil_of_length_eq_zero; omega
        subst hI'; subst hz
        have := int_zero A R hR bound neg
        have hb2 : buf = (A ++ ([48] ++ R)).toArray := by rw [hbuf, hDc]
        rw [← hb2, hA] at this
        rw [this]
        simp [he', hA]
      · have hI'd : allDigits I' := by
          intro x hx; exact hDd x (by rw [hDc]; simp [hx])
        have := int_nonzero A R d I' hdc hz hI'd hR bound neg
        have hb2 : buf = (A ++ (d :: I' ++ R)).toArray := by rw [hbuf, hDc]
        rw [← hb2, hA] at this
        rw [this]
        have hne : ¬ (d :: I' = [48]) := by
          intro hh; simp at hh; exact hz hh.1
        simp [hne, he', hA]

theorem intResult_class (neg : Bool) (D : List UInt8) (hne : D ≠ []) (hd : allDigits D) (hz : D.head? ≠ some 48) :
    (neg = false → digitsOf D 0 < 2^64 → intResult neg D = .unsigned (digitsOf D 0)) ∧
    (neg = true → 0 < digitsOf D 0 → digitsOf D 0 ≤ 2^63 → intResult neg D = .signed (-(digitsOf D 0 : Int))) ∧
    ((¬(neg = false ∧ digitsOf D 0 < 2^64) ∧ ¬(neg = true ∧ 0 < digitsOf D 0 ∧ digitsOf D 0 ≤ 2^63)) →
      (∀ w, intResult neg D ≠ .unsigned w) ∧ (∀ w, intResult neg D ≠ .signed w)) := by
  cases hD : D with
  | nil => exact absurd hD hne
  | cons c I' =>
    have hc : isDigit c = true := hd c (by rw [hD]; simp)
    have h48 : c ≠ 48 := by intro h; apply hz; rw [hD, h]; rfl
    have hlow : 10 ^ I'.length ≤ digitsOf (c :: I') 0 := digitsOf_ge c I' hc h48
    have hup : digitsOf (c :: I') 0 < 10 ^ (c :: I').length := digitsOf_lt (c :: I') (by rw [← hD]; exact hd)
    have hlen : (c :: I').length = I'.length + 1 := by simp
    unfold intResult
    simp only [hlen]
    generalize digitsOf (c :: I') 0 = v at *
    have p19 := NumClass.pow19_lt
    have p63 := NumClass.pow63_lt
    have p64 := NumClass.pow64_lt
    by_cases h19 : I'.length + 1 ≤ 19
    · have hp := Nat.pow_le_pow_right (show 0 < 10 by decide) h19
      rw [hlen] at hup
      simp only [h19, if_true]
      refine ⟨?_, ?_, ?_⟩
      · intro hn _; simp [hn]
      · intro hn h0 h63
        have : ¬ (v > 2^63) := by omega
        simp [hn, this]
      · intro ⟨h1, h2⟩
        cases neg with
        | false => exfalso; exact h1 ⟨rfl, by omega⟩
        | true =>
          have hpos : 0 < v := by
            have : 0 < 10 ^ I'.length := Nat.pow_pos (by decide)
            omega
          have : v > 2^63 := by
            apply Classical.byContradiction; intro hc'
            exact h2 ⟨rfl, hpos, by omega⟩
          simp [this]
    · simp only [h19, if_false]
      have h19' : 19 ≤ I'.length := by omega
      have hp := Nat.pow_le_pow_right (show 0 < 10 by decide) h19'
      by_cases h20 : I'.length + 1 = 20 ∧ v < 2^64
      · simp only [h20, and_self, if_true]
        refine ⟨?_, ?_, ?_⟩
        · intro hn _; simp [hn]
        · intro hn h0 h63; exfalso; omega
        · intro ⟨h1, h2⟩
          cases neg with
          | false => exfalso; apply h1; exact ⟨rfl, trivial⟩
          | true => simp
      · simp only [h20, if_false]
        refine ⟨?_, ?_, ?_⟩
        · intro hn hv
          exfalso
          apply h20
          refine ⟨?_, hv⟩
          apply Classical.byContradiction; intro hc'
          have : 20 ≤ I'.length := by omega
          have := Nat.pow_le_pow_right (show 0 < 10 by decide) this
          omega
        · intro hn h0 h63; exfalso; omega
        · intro _; simp


theorem pn_float (buf : Buf) (bound i1 : Nat) (neg : Bool)
    (h0 : buf[i1]? = some 48 → skipDigits buf i1 = i1 + 1)
    (hA : buf[skipDigits buf i1]? = some 46 ∨ buf[skipDigits buf i1]? = some 101 ∨ buf[skipDigits buf i1]? = some 69) :
    (∀ v, (parseNumber buf bound i1 neg).1 ≠ .unsigned v) ∧ (∀ w, (parseNumber buf bound i1 neg).1 ≠ .signed w) := by
  unfold parseNumber
  by_cases hz : buf[i1]? = some 48
  · rw [if_pos hz]
    rw [h0 hz] at hA
    simp only
    rcases hA with hA | hA | hA <;> (simp only [hA]; repeat' split) <;> simp
  · rw [if_neg hz]
    simp only
    rcases hA with hA | hA | hA <;> (simp [hA]; repeat' split) <;> simp

theorem decOf_int (buf : Buf) (s e i1 : Nat) (hi1 : i1 = if buf[s]? = some 45 then s + 1 else s)
    (he : e = skipDigits buf i1) (h46 : buf[e]? ≠ some 46) (h101 : buf[e]? ≠ some 101) (h69 : buf[e]? ≠ some 69) :
    decOf buf s e = { neg := decide (buf[s]? = some 45), mant := digitsVal buf i1 e 0, exp := 0, isInt := true } := by
  unfold decOf fracOf expOf
  simp only [← hi1, ← he]
  simp [h46, h101, h69]

/-- **what `parse_number` says about a number token, in the specification's terms**: the token is consumed exactly, and
    its classification is `Unsigned` / `Signed` exactly for the integer literals within u64 / i64 -/
theorem tok_class (buf : Buf) (s e : Nat) (c : UInt8) (hb : buf[s]? = some c) (h : number buf s = some e) :
    (numTok buf c (s + 1)).2.1 = s ∧ (numTok buf c (s + 1)).2.2 = e ∧ (numTok buf c (s + 1)).1 ≠ .invalid ∧
    (((decOf buf s e).isInt = true ∧ (decOf buf s e).neg = false ∧ (decOf buf s e).mant < 2 ^ 64 ∧ (decOf buf s e).exp = 0 ∧
        (numTok buf c (s + 1)).1 = .unsigned (decOf buf s e).mant) ∨
     ((decOf buf s e).isInt = true ∧ (decOf buf s e).neg = true ∧ 0 < (decOf buf s e).mant ∧ (decOf buf s e).mant ≤ 2 ^ 63 ∧
        (decOf buf s e).exp = 0 ∧ (numTok buf c (s + 1)).1 = .signed (-((decOf buf s e).mant : Int))) ∨
     (¬ ((decOf buf s e).isInt = true ∧ (decOf buf s e).neg = false ∧ (decOf buf s e).mant < 2 ^ 64) ∧
      ¬ ((decOf buf s e).isInt = true ∧ (decOf buf s e).neg = true ∧ 0 < (decOf buf s e).mant ∧ (decOf buf s e).mant ≤ 2 ^ 63) ∧
      (∀ v, (numTok buf c (s + 1)).1 ≠ .unsigned v) ∧ (∀ w, (numTok buf c (s + 1)).1 ≠ .signed w))) := by
  have hi1 : (if (c == 45) = true then s + 1 else s) = (if buf[s]? = some 45 then s + 1 else s) := by
    rw [hb]
    by_cases h45 : c = 45
    · subst h45; simp
    · have : (c == 45) = false := by simpa using h45
      have h2 : ¬ (some c = some (45 : UInt8)) := by simpa using h45
      simp [this, h2]
  have hneg : (c == 45) = decide (buf[s]? = some 45) := by
    rw [hb]
    by_cases h45 : c = 45
    · subst h45; simp
    · have : (c == 45) = false := by simpa using h45
      simp [this, h45]
  generalize hi1d : (if buf[s]? = some 45 then s + 1 else s) = i1 at hi1
  have hpn := parseNumber_of_number buf Gen.expAccBound s e (c == 45) h
  rw [hi1d] at hpn
  unfold numTok
  simp only [Nat.add_sub_cancel, hi1]
  refine ⟨trivial, hpn.1, hpn.2, ?_⟩
  by_cases hint : (decOf buf s e).isInt = true
  · obtain ⟨c1, hb1, hdc, he, hlt, h48, hnd, h46, h101, h69⟩ := int_token_shape buf s e i1 hi1d.symm h hint
    obtain ⟨D, hDne, hDd, hD48, hval, hparse⟩ := int_token_parse buf s e i1 hi1d.symm h hint
    have hdec := decOf_int buf s e i1 hi1d.symm he h46 h101 h69
    rw [hdec]
    simp only [hparse, hval, ← hneg]
    by_cases hz : D = [48]
    · subst hz
      simp only [if_true]
      have hv : digitsOf [48] 0 = 0 := by simp [digitsOf]
      rw [hv]
      cases (c == 45) with
      | false => left; simp
      | true => right; right; simp
    · simp only [hz, if_false]
      have hhz : D.head? ≠ some 48 := fun hh => hz (hD48 hh)
      obtain ⟨cA, cB, cC⟩ := intResult_class (c == 45) D hDne hDd hhz
      by_cases hA : (c == 45) = false ∧ digitsOf D 0 < 2 ^ 64
      · left
        exact ⟨trivial, hA.1, hA.2, trivial, cA hA.1 hA.2⟩
      · by_cases hB : (c == 45) = true ∧ 0 < digitsOf D 0 ∧ digitsOf D 0 ≤ 2 ^ 63
        · right; left
          exact ⟨trivial, hB.1, hB.2.1, hB.2.2, trivial, cB hB.1 hB.2.1 hB.2.2⟩
        · right; right
          refine ⟨?_, ?_, cC ⟨hA, hB⟩⟩
          · intro hh; exact hA ⟨hh.2.1, hh.2.2⟩
          · intro hh; exact hB ⟨hh.2.1, hh.2.2.1, hh.2.2.2⟩
  · have hint' : (decOf buf s e).isInt = false := by simpa using hint
    obtain ⟨h0, hA⟩ := nonint_token_shape buf s e i1 hi1d.symm h hint'
    right; right
    refine ⟨?_, ?_, pn_float buf _ i1 _ h0 hA⟩
    · intro hh; exact hint hh.1
    · intro hh; exact hint hh.1

end De
end Sonic
