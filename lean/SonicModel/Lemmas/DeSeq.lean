import SonicModel.Lemmas.DeScalar
/-! the typed deserializer on arrays: `Vec<T>`, tuples / tuple structs / fixed-size arrays, byte buffers written as arrays -/
namespace Sonic
namespace De
open Gen Spec Impl DomP

/-- where `next_element_seed` finds the reader: before the first element, or before the comma after an element -/
def Entry (buf : Buf) (i : Nat) (first : Bool) (p : Nat) : Prop :=
  (first = true ∧ skipWs buf i = p) ∨ (first = false ∧ buf[skipWs buf i]? = some 44 ∧ skipWs buf (skipWs buf i + 1) = p)

/-- `next_element_seed` at an element -/
theorem nextElem_at (buf : Buf) (f : Nat) (t : Ty) (i : Nat) (first : Bool) (p : Nat) (x : Json) (e1 : Nat)
    (hE : Entry buf i first p) (hv : ValueOK buf p x e1) :
    ∃ i', skipWs buf i' = p ∧ nextElem (f + 1) t buf i first = (de f t buf i').map some := by
  rcases hE with ⟨hf, hp⟩ | ⟨hf, hc, hp⟩
  · subst hf
    refine ⟨skipWs buf i, by rw [skipWs_idem]; exact hp, ?_⟩
    rw [nextElem]
    obtain ⟨c, hb⟩ : ∃ c, buf[p]? = some c := ⟨_, getElem?_of_lt buf p hv.inb⟩
    simp only [hp, hb]
    have h93 : (c == 93) = false := by
      have := hv.start.1
      rw [hb] at this
      simpa using this
    simp [h93]
  · subst hf
    refine ⟨skipWs buf i + 1, hp, ?_⟩
    rw [nextElem]
    simp only [hc]
    have : ((44 : UInt8) == 93) = false := by decide
    simp [this]

/-- `next_element_seed` at the closing bracket -/
theorem nextElem_end (buf : Buf) (f : Nat) (t : Ty) (i : Nat) (first : Bool) (h : buf[skipWs buf i]? = some 93) :
    nextElem (f + 1) t buf i first = .ok none (skipWs buf i) := by
  rw [nextElem]; simp [h]

theorem endSeq_at (buf : Buf) (i : Nat) (v : Val) (h : buf[skipWs buf i]? = some 93) :
    endSeq buf i v = .ok v (skipWs buf i + 1) := by
  unfold endSeq; rw [skipSpace_spec, h]; simp

theorem endSeq_not (buf : Buf) (i : Nat) (v : Val) (h : buf[skipWs buf i]? ≠ some 93) : endSeq buf i v = .err := by
  unfold endSeq; rw [skipSpace_spec]
  cases hb : buf[skipWs buf i]? with
  | none => rfl
  | some c =>
    have : (c == 93) = false := by rw [hb] at h; simpa using h
    simp [this]

/-- what the reference says about a list of elements, as a result -/
def ofList (o : Option (List Val)) (acc : List Val) (e : Nat) : R (List Val) :=
  match o with
  | some vs => .ok (acc ++ vs) e
  | none => .err

/-- **`Vec<T>` over the elements of an array**: the loop reads exactly the elements, stops at the bracket, and its
    result is the reference's (at every sufficient fuel of the reference) -/
theorem seqLoop_elems (buf : Buf) (t : Ty) (hc : cov t = true) (p : Nat) (xs : List Json) (e : Nat) (hel : Elems buf p xs e) :
    ∀ f i first acc, Entry buf i first p → seqLoop f t buf i first acc ≠ .fuel →
      ∃ g0, ∀ g, g0 ≤ g → seqLoop f t buf i first acc = ofList (sequenceOpt (decodeList buf g t xs)) acc (e - 1) := by
  induction hel with
  | last p x e1 hv hcl =>
    intro f i first acc hE hne
    cases f with
    | zero => exact absurd (by rw [seqLoop]) hne
    | succ f =>
      cases f with
      | zero => exact absurd (by rw [seqLoop, nextElem]) hne
      | succ f =>
        obtain ⟨i', hi', hnx⟩ := nextElem_at buf f t i first p x e1 hE hv
        rw [seqLoop, hnx] at hne ⊢
        have hde : de f t buf i' ≠ .fuel := by
          intro h; rw [h] at hne; exact hne rfl
        obtain ⟨g1, hg1⟩ := hv.facts f t i' hc hi' hde
        refine ⟨g1 + 1, ?_⟩
        intro g hg
        obtain ⟨g', rfl⟩ : ∃ g', g = g' + 1 := ⟨g - 1, by omega⟩
        have := hg1 g' (by omega)
        simp only [decodeList]
        cases hd : decode buf g' t x with
        | none =>
          rw [hd] at this; simp only [ofOpt] at this
          rw [← this]; rfl
        | some v =>
          rw [hd] at this; simp only [ofOpt] at this
          rw [← this]
          simp only [R.map]
          cases f with
          | zero => exact absurd (by rw [de]) hde
          | succ f =>
            rw [seqLoop, nextElem_end buf f t e1 false hcl]
            cases g' with
            | zero => simp [decode] at hd
            | succ g'' => simp [decodeList, sequenceOpt, ofList]
  | cons p x e1 xs e hv hco hel ih =>
    intro f i first acc hE hne
    cases f with
    | zero => exact absurd (by rw [seqLoop]) hne
    | succ f =>
      cases f with
      | zero => exact absurd (by rw [seqLoop, nextElem]) hne
      | succ f =>
        obtain ⟨i', hi', hnx⟩ := nextElem_at buf f t i first p x e1 hE hv
        rw [seqLoop, hnx] at hne ⊢
        have hde : de f t buf i' ≠ .fuel := by
          intro h; rw [h] at hne; exact hne rfl
        obtain ⟨g1, hg1⟩ := hv.facts f t i' hc hi' hde
        cases hr : de f t buf i' with
        | fuel => exact absurd hr hde
        | err =>
          refine ⟨g1 + 1, ?_⟩
          intro g hg
          obtain ⟨g', rfl⟩ : ∃ g', g = g' + 1 := ⟨g - 1, by omega⟩
          have := hg1 g' (by omega)
          rw [hr] at this
          cases hd : decode buf g' t x with
          | none => simp [decodeList, hd, sequenceOpt, ofList, R.map]
          | some v => rw [hd] at this; simp [ofOpt] at this
        | ok v e' =>
          have he' : e' = e1 := by
            have := hg1 g1 (Nat.le_refl _)
            rw [hr] at this
            cases hd : decode buf g1 t x with
            | none => rw [hd] at this; simp [ofOpt] at this
            | some w => rw [hd] at this; simp [ofOpt] at this; exact this.2.symm
          subst he'
          rw [hr] at hne
          simp only [R.map] at hne ⊢
          have hE2 : Entry buf e' false (skipWs buf (skipWs buf e' + 1)) := Or.inr ⟨rfl, hco, rfl⟩
          obtain ⟨g2, hg2⟩ := ih (f + 1) e' false (acc ++ [v]) hE2 hne
          refine ⟨max g1 g2 + 1, ?_⟩
          intro g hg
          obtain ⟨g', rfl⟩ : ∃ g', g = g' + 1 := ⟨g - 1, by omega⟩
          have h1 := hg1 g' (by omega)
          have h2 := hg2 g' (by omega)
          rw [hr] at h1
          cases hd : decode buf g' t x with
          | none => rw [hd] at h1; simp [ofOpt] at h1
          | some w =>
            rw [hd] at h1; simp only [ofOpt, R.ok.injEq] at h1
            rw [h2]
            simp only [decodeList, hd, sequenceOpt]
            cases sequenceOpt (decodeList buf g' t xs) with
            | none => rfl
            | some vs => simp [ofList, h1.1]


/-- the tuple visitor followed by `end_seq`, as one result -/
def tupleEnd (buf : Buf) (r : R (List Val)) : R Val :=
  match r with
  | .ok vs e => endSeq buf e (.seq vs)
  | .err => .err
  | .fuel => .fuel

def ofZip (len_ok : Bool) (o : Option (List Val)) (acc : List Val) (e : Nat) : R Val :=
  if len_ok then (match o with | some vs => .ok (.seq (acc ++ vs)) e | none => .err) else .err

theorem entry_not_close (buf : Buf) (i : Nat) (first : Bool) (p : Nat) (x : Json) (e1 : Nat)
    (hE : Entry buf i first p) (hv : ValueOK buf p x e1) : buf[skipWs buf i]? ≠ some 93 := by
  rcases hE with ⟨_, hp⟩ | ⟨_, hc, _⟩
  · rw [hp]; exact hv.start.1
  · rw [hc]; decide

theorem elems_head (buf : Buf) (p : Nat) (xs : List Json) (e : Nat) (h : Elems buf p xs e) :
    ∃ x e1 r, xs = x :: r ∧ ValueOK buf p x e1 := by
  cases h with
  | last p x e1 hv _ => exact ⟨x, e1, [], rfl, hv⟩
  | cons p x e1 xs e hv _ _ => exact ⟨x, e1, xs, rfl, hv⟩

/-- **tuples, tuple structs and fixed-size arrays over the elements of an array**: one element per component, then the
    bracket — exactly when the reference finds as many elements as components and every one of its type -/
theorem tupleLoop_elems (buf : Buf) (p : Nat) (xs : List Json) (e : Nat) (hel : Elems buf p xs e) :
    ∀ ts, covL ts = true → ∀ f i first acc, Entry buf i first p → tupleLoop f ts buf i first acc ≠ .fuel →
      ∃ g0, ∀ g, g0 ≤ g → tupleEnd buf (tupleLoop f ts buf i first acc) =
        ofZip (decide (xs.length = ts.length)) (sequenceOpt (decodeZip buf g ts xs)) acc e := by
  induction hel with
  | last p x e1 hv hcl =>
    intro ts hcov f i first acc hE hne
    cases f with
    | zero => exact absurd (by rw [tupleLoop]) hne
    | succ f =>
      cases ts with
      | nil =>
        refine ⟨0, ?_⟩
        intro g _
        rw [tupleLoop]
        simp only [tupleEnd, endSeq_not buf i _ (entry_not_close buf i first p x e1 hE hv)]
        simp [ofZip]
      | cons t ts' =>
        have hct : cov t = true := by simp [covL] at hcov; exact hcov.1
        cases f with
        | zero => exact absurd (by rw [tupleLoop, nextElem]) hne
        | succ f =>
          obtain ⟨i', hi', hnx⟩ := nextElem_at buf f t i first p x e1 hE hv
          rw [tupleLoop, hnx] at hne ⊢
          have hde : de f t buf i' ≠ .fuel := by
            intro h; rw [h] at hne; exact hne rfl
          obtain ⟨g1, hg1⟩ := hv.facts f t i' hct hi' hde
          cases hr : de f t buf i' with
          | fuel => exact absurd hr hde
          | err =>
            refine ⟨g1 + 1, ?_⟩
            intro g hg
            obtain ⟨g', rfl⟩ : ∃ g', g = g' + 1 := ⟨g - 1, by omega⟩
            have := hg1 g' (by omega)
            rw [hr] at this
            cases hd : decode buf g' t x with
            | none => simp [decodeZip, hd, sequenceOpt, ofZip, R.map, tupleEnd]
            | some v => rw [hd] at this; simp [ofOpt] at this
          | ok v e' =>
            have he' : e' = e1 := by
              have := hg1 g1 (Nat.le_refl _)
              rw [hr] at this
              cases hd : decode buf g1 t x with
              | none => rw [hd] at this; simp [ofOpt] at this
              | some w => rw [hd] at this; simp [ofOpt] at this; exact this.2.symm
            subst he'
            rw [hr] at hne
            simp only [R.map] at hne ⊢
            refine ⟨g1 + 2, ?_⟩
            intro g hg
            obtain ⟨g', rfl⟩ : ∃ g', g = g' + 2 := ⟨g - 2, by omega⟩
            have h1 := hg1 (g' + 1) (by omega)
            rw [hr] at h1
            cases hd : decode buf (g' + 1) t x with
            | none => rw [hd] at h1; simp [ofOpt] at h1
            | some w =>
              rw [hd] at h1; simp only [ofOpt, R.ok.injEq] at h1
              cases ts' with
              | nil =>
                rw [tupleLoop]
                simp only [tupleEnd, endSeq_at buf e' _ hcl]
                simp [ofZip, decodeZip, hd, sequenceOpt, h1.1]
              | cons t2 ts2 =>
                cases f with
                | zero => exact absurd (by rw [tupleLoop, nextElem]) hne
                | succ f =>
                  rw [tupleLoop, nextElem_end buf f t2 e' false hcl]
                  simp [tupleEnd, ofZip]
  | cons p x e1 xs e hv hco hel ih =>
    intro ts hcov f i first acc hE hne
    cases f with
    | zero => exact absurd (by rw [tupleLoop]) hne
    | succ f =>
      cases ts with
      | nil =>
        refine ⟨0, ?_⟩
        intro g _
        rw [tupleLoop]
        simp only [tupleEnd, endSeq_not buf i _ (entry_not_close buf i first p x e1 hE hv)]
        simp [ofZip]
      | cons t ts' =>
        have hct : cov t = true := by simp [covL] at hcov; exact hcov.1
        have hcts : covL ts' = true := by simp [covL] at hcov; exact hcov.2
        cases f with
        | zero => exact absurd (by rw [tupleLoop, nextElem]) hne
        | succ f =>
          obtain ⟨i', hi', hnx⟩ := nextElem_at buf f t i first p x e1 hE hv
          rw [tupleLoop, hnx] at hne ⊢
          have hde : de f t buf i' ≠ .fuel := by
            intro h; rw [h] at hne; exact hne rfl
          obtain ⟨g1, hg1⟩ := hv.facts f t i' hct hi' hde
          cases hr : de f t buf i' with
          | fuel => exact absurd hr hde
          | err =>
            refine ⟨g1 + 1, ?_⟩
            intro g hg
            obtain ⟨g', rfl⟩ : ∃ g', g = g' + 1 := ⟨g - 1, by omega⟩
            have := hg1 g' (by omega)
            rw [hr] at this
            cases hd : decode buf g' t x with
            | none => simp [decodeZip, hd, sequenceOpt, ofZip, R.map, tupleEnd]
            | some v => rw [hd] at this; simp [ofOpt] at this
          | ok v e' =>
            have he' : e' = e1 := by
              have := hg1 g1 (Nat.le_refl _)
              rw [hr] at this
              cases hd : decode buf g1 t x with
              | none => rw [hd] at this; simp [ofOpt] at this
              | some w => rw [hd] at this; simp [ofOpt] at this; exact this.2.symm
            subst he'
            rw [hr] at hne
            simp only [R.map] at hne ⊢
            have hE2 : Entry buf e' false (skipWs buf (skipWs buf e' + 1)) := Or.inr ⟨rfl, hco, rfl⟩
            obtain ⟨g2, hg2⟩ := ih ts' hcts (f + 1) e' false (acc ++ [v]) hE2 hne
            refine ⟨max g1 g2 + 1, ?_⟩
            intro g hg
            obtain ⟨g', rfl⟩ : ∃ g', g = g' + 1 := ⟨g - 1, by omega⟩
            have h1 := hg1 g' (by omega)
            have h2 := hg2 g' (by omega)
            rw [hr] at h1
            cases hd : decode buf g' t x with
            | none => rw [hd] at h1; simp [ofOpt] at h1
            | some w =>
              rw [hd] at h1; simp only [ofOpt, R.ok.injEq] at h1
              rw [h2]
              simp only [decodeZip, hd, sequenceOpt, List.length_cons]
              have hlen : decide (xs.length + 1 = ts'.length + 1) = decide (xs.length = ts'.length) := by simp
              rw [hlen]
              unfold ofZip
              split
              · cases sequenceOpt (decodeZip buf g' ts' xs) with
                | none => rfl
                | some vs => simp [h1.1]
              · rfl


theorem elems_end (buf : Buf) (p : Nat) (xs : List Json) (e : Nat) (h : Elems buf p xs e) :
    buf[skipWs buf (e - 1)]? = some 93 ∧ skipWs buf (e - 1) + 1 = e := by
  induction h with
  | last p x e1 hv hcl =>
    simp only [Nat.add_sub_cancel, skipWs_idem]
    exact ⟨hcl, trivial⟩
  | cons p x e1 xs e hv hco hel ih => exact ih

theorem ofList_nil (o : Option (List Val)) (e : Nat) : ofList o [] e = (match o with | some vs => .ok vs e | none => .err) := by
  cases o <;> simp [ofList]

end De
end Sonic
