import SonicModel.Impl.Num
import SonicModel.Spec.Num
namespace Sonic
open Impl Spec

theorem digitsVal_ge (buf : Buf) (i j acc : Nat) : acc ≤ digitsVal buf i j acc := by
  fun_induction digitsVal buf i j acc
  · rename_i ih; omega
  · omega

/-- the wrapping accumulation of `parse_number` equals the exact value as long as the exact value
    fits in 64 bits -/
theorem wrapDigits_eq (buf : Buf) (i j acc : Nat) (h : digitsVal buf i j acc < 2^64) :
    wrapDigits buf i j acc = digitsVal buf i j acc := by
  fun_induction wrapDigits buf i j acc
  · rename_i i acc hc ih
    rw [digitsVal]
    simp only [hc, and_self, dite_true]
    rw [digitsVal] at h
    simp only [hc, and_self, dite_true] at h
    have hge := digitsVal_ge buf (i+1) j (acc * 10 + (buf[i].toNat - 48))
    have hlt : acc * 10 + (buf[i].toNat - 48) < 2^64 := by omega
    rw [Nat.mod_eq_of_lt hlt] at ih ⊢
    exact ih h
  · rename_i hc
    rw [digitsVal]; simp [hc]

/-- a run of `n` digits denotes a number below `10^n` -/
theorem digitsVal_lt (buf : Buf) : ∀ (n i acc : Nat), (∀ k, i ≤ k → k < i + n → k < buf.size ∧ isDigit buf[k]! = true) →
    digitsVal buf i (i + n) acc < (acc + 1) * 10 ^ n := by
  intro n
  induction n with
  | zero => intro i acc _; rw [digitsVal]; simp
  | succ n ih =>
    intro i acc hd
    have h0 := hd i (Nat.le_refl _) (by omega)
    rw [digitsVal]
    have hc : i < i + (n + 1) ∧ i < buf.size := ⟨by omega, h0.1⟩
    simp only [hc, and_self, dite_true]
    have hdig : buf[i].toNat - 48 ≤ 9 := by
      have := h0.2
      have e : buf[i]! = buf[i] := by simp [h0.1]
      rw [e] at this
      unfold isDigit at this
      simp only [Bool.and_eq_true, decide_eq_true_eq] at this
      have h1 := UInt8.le_iff_toNat_le.mp this.2
      simp at h1; omega
    have := ih (i+1) (acc * 10 + (buf[i].toNat - 48)) (by
      intro k hk1 hk2; exact hd k (by omega) (by omega))
    have e2 : i + 1 + n = i + (n + 1) := by omega
    rw [e2] at this
    calc digitsVal buf (i+1) (i + (n+1)) (acc * 10 + (buf[i].toNat - 48))
        < (acc * 10 + (buf[i].toNat - 48) + 1) * 10 ^ n := this
      _ ≤ ((acc + 1) * 10) * 10 ^ n := Nat.mul_le_mul_right _ (by omega)
      _ = (acc + 1) * 10 ^ (n + 1) := by rw [Nat.pow_succ, Nat.mul_assoc, Nat.mul_comm 10]

end Sonic

namespace Sonic
open Impl Spec

theorem skipDigits_all (buf : Buf) : ∀ (m i : Nat), buf.size - i = m → i ≤ buf.size →
    (∀ k, i ≤ k → k < buf.size → isDigit buf[k]! = true) → skipDigits buf i = buf.size := by
  intro m
  induction m with
  | zero => intro i hm hi _; rw [skipDigits]; have : ¬ i < buf.size := by omega
            simp [this]; omega
  | succ m ih =>
    intro i hm hi hd
    have hlt : i < buf.size := by omega
    rw [skipDigits]
    have := hd i (Nat.le_refl _) hlt
    have e : buf[i]! = buf[i] := by simp [hlt]
    rw [e] at this
    simp only [hlt, dite_true, this, ite_true]
    exact ih (i+1) (by omega) (by omega) (fun k hk1 hk2 => hd k (by omega) hk2)

/-- **plain unsigned integers of up to 19 digits are returned exactly** (no wrap-around in the
    64-bit accumulation, classification `Unsigned`, the whole literal consumed) -/
theorem int_exact_unsigned (buf : Buf) (bound : Nat) (h1 : 1 ≤ buf.size) (h19 : buf.size ≤ 19)
    (hd : ∀ k, k < buf.size → isDigit buf[k]! = true) (h0 : buf[0]! ≠ 48) :
    parseNumber buf bound 0 false = (.unsigned (digitsVal buf 0 buf.size 0), buf.size) := by
  have hsk : skipDigits buf 0 = buf.size :=
    skipDigits_all buf buf.size 0 (by omega) (by omega) (fun k _ hk => hd k hk)
  have hb0 : ¬ (buf[0]? = some 48) := by
    have : 0 < buf.size := by omega
    simp [this] at h0 ⊢; exact h0
  have hend : buf[buf.size]? = none := by simp
  have hlt := digitsVal_lt buf buf.size 0 0 (by intro k _ hk; exact ⟨by omega, hd k (by omega)⟩)
  simp only [Nat.zero_add, Nat.one_mul] at hlt
  have hpow : (10:Nat) ^ buf.size ≤ 10 ^ 19 := Nat.pow_le_pow_right (by decide) h19
  have h64 : digitsVal buf 0 buf.size 0 < 2^64 := by
    have : (10:Nat)^19 < 2^64 := by decide
    omega
  have hw := wrapDigits_eq buf 0 buf.size 0 h64
  unfold parseNumber
  simp only [hb0, ite_false, hsk, Nat.sub_zero]
  have hne : buf.size ≠ 0 := by omega
  have hc0 : ¬ ((buf.size == 0) = true) := by simpa using hne
  have hc19 : ¬ (buf.size > 19) := by omega
  simp [hc0, hc19, hend, hw]

end Sonic
