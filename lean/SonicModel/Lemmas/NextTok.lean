import SonicModel.Impl.GetU
import SonicModel.Lemmas.StrSkipProof
namespace Sonic
namespace GetU
open StrSkip (firstBit toMask toMask_bit shr0 shr1 shr32 firstBit_lsb firstBit_shift)

/-! ### `get_next_token`, 32 bytes at a time, is the scalar search for the first token byte -/

theorem foldl_or_bit (toks : List UInt8) (bl : List UInt8) (j : Nat) (hj : j < 32) : ∀ m : BitVec 32,
    (toks.foldl (fun m t => m ||| toMask (· == t) bl) m).getLsbD j =
      (m.getLsbD j || (match bl[j]? with | some b => toks.contains b | none => false)) := by
  induction toks with
  | nil => intro m; cases bl[j]? <;> simp
  | cons t rest ih =>
    intro m
    simp only [List.foldl_cons]
    rw [ih, BitVec.getLsbD_or, toMask_bit _ bl j hj]
    cases bl[j]? with
    | none => simp
    | some b =>
      simp only [List.contains_cons]
      cases m.getLsbD j <;> simp [Bool.or_comm]

theorem tokMask_bit (toks : List UInt8) (bl : List UInt8) (j : Nat) (hj : j < 32) :
    (tokMask toks bl).getLsbD j = (match bl[j]? with | some b => toks.contains b | none => false) := by
  unfold tokMask
  rw [foldl_or_bit toks bl j hj]
  simp

/-- the bits of the token mask from position `j` on are the scalar search from byte `j` on -/
theorem tail_blk (toks : List UInt8) (adv : Nat) (bl rest : List UInt8) (hl : bl.length = 32) :
    ∀ (k j pos : Nat), j + k = 32 →
      tailTok toks adv (bl.drop j ++ rest) pos =
        match firstBit k (tokMask toks bl >>> j) with
        | some n => some (bl.getD (j + n - 1) 0, pos + (n - 1) + adv)
        | none => tailTok toks adv rest (pos + k) := by
  intro k
  induction k with
  | zero =>
    intro j pos hj
    have : j = 32 := by omega
    subst this
    have hd : bl.drop 32 = [] := by rw [List.drop_eq_nil_iff]; omega
    rw [hd]
    simp [firstBit, shr32]
  | succ k ih =>
    intro j pos hj
    have hj32 : j < 32 := by omega
    have hjl : j < bl.length := by omega
    have hdrop : bl.drop j = bl[j] :: bl.drop (j + 1) := by rw [List.drop_eq_getElem_cons hjl]
    have hget : bl[j]? = some bl[j] := by simp [hjl]
    have hbit : (tokMask toks bl).getLsbD j = toks.contains bl[j] := by
      rw [tokMask_bit toks bl j hj32, hget]
    rw [hdrop]
    simp only [List.cons_append, tailTok]
    by_cases hc : toks.contains bl[j] = true
    · simp only [hc, if_true]
      have h0 : (tokMask toks bl >>> j).getLsbD 0 = true := by rw [shr0, hbit]; exact hc
      rw [firstBit_lsb k _ h0]
      simp only [Option.some.injEq, Prod.mk.injEq]
      refine ⟨?_, by omega⟩
      rw [show j + 1 - 1 = j by omega, List.getD_eq_getElem?_getD, hget]; rfl
    · have hc' : toks.contains bl[j] = false := by simpa using hc
      simp only [hc', Bool.false_eq_true, if_false]
      have h0 : (tokMask toks bl >>> j).getLsbD 0 = false := by rw [shr0, hbit]; exact hc'
      rw [firstBit_shift k _ h0, shr1, ih (j + 1) (pos + 1) (by omega)]
      cases hfb : firstBit k (tokMask toks bl >>> (j + 1)) with
      | none => simp only [Option.map_none]; rw [show pos + 1 + k = pos + (k + 1) by omega]
      | some n =>
        have hn : 1 ≤ n := by
          unfold firstBit at hfb
          split at hfb
          · simp only [Option.some.injEq] at hfb; omega
          · simp at hfb
        simp only [Option.map_some, Option.some.injEq, Prod.mk.injEq]
        refine ⟨?_, by omega⟩
        rw [show j + 1 + n - 1 = j + (n + 1) - 1 by omega]

theorem tailTok_append_none (toks : List UInt8) (adv : Nat) (a b : List UInt8) : ∀ pos,
    (∀ c ∈ a, toks.contains c = false) → tailTok toks adv (a ++ b) pos = tailTok toks adv b (pos + a.length) := by
  induction a with
  | nil => intro pos _; simp
  | cons c a ih =>
    intro pos h
    simp only [List.cons_append, tailTok, h c (by simp), Bool.false_eq_true, if_false, List.length_cons]
    rw [ih (pos + 1) (fun x hx => h x (by simp [hx]))]
    congr 1; omega

/-- **`get_next_token` is the scalar search** -/
theorem nextTokenBlk_eq_tail (toks : List UInt8) (adv : Nat) : ∀ (fuel : Nat) (data : List UInt8) (pos : Nat),
    data.length / 32 < fuel → nextTokenBlk toks adv fuel data pos = tailTok toks adv data pos := by
  intro fuel
  induction fuel with
  | zero => intro data pos h; omega
  | succ fuel ih =>
    intro data pos hf
    unfold nextTokenBlk
    by_cases hlen : data.length ≥ 32
    · simp only [hlen, if_true]
      have hl : (data.take 32).length = 32 := by rw [List.length_take]; omega
      have hb := tail_blk toks adv (data.take 32) (data.drop 32) hl 32 0 pos (by omega)
      simp only [List.drop_zero, List.take_append_drop, BitVec.ushiftRight_zero] at hb
      rw [hb]
      unfold firstBit
      by_cases hm : tokMask toks (data.take 32) = 0#32
      · simp only [hm, ne_eq, not_true_eq_false, if_false]
        rw [ih (data.drop 32) (pos + 32) (by rw [List.length_drop]; omega)]
      · simp only [ne_eq, hm, not_false_eq_true, if_true]
        show some (_, pos + StrSkip.tzr 32 _ + adv) = _
        simp only [Option.some.injEq, Prod.mk.injEq]
        refine ⟨?_, by omega⟩
        rw [show 0 + (StrSkip.tzr 32 (tokMask toks (data.take 32)) + 1) - 1 = StrSkip.tzr 32 (tokMask toks (data.take 32)) by omega]
        rfl
    · simp only [hlen, if_false]

end GetU
end Sonic
