import SonicModel.Lemmas.StrSkipBits
import SonicModel.Spec.Scan
namespace Sonic
namespace StrSkip
open Simd Spec
open Block (escBit)

/-! ### `skip_string_unchecked`, 32 bytes at a time, is the scalar string scan -/

/-- the scalar scan of a piece of text, with the escape state after it -/
def strScanSt : List UInt8 → Bool → Option Nat × Bool
  | [], e => (none, e)
  | b :: rest, e =>
    if !e && b == 34 then (some 1, false)
    else ((strScanSt rest (b == 92 && !e)).1.map (· + 1), (strScanSt rest (b == 92 && !e)).2)

theorem strScan_append (a b : List UInt8) : ∀ e,
    strScan (a ++ b) e =
      match strScanSt a e with
      | (some n, _) => some n
      | (none, e') => (strScan b e').map (· + a.length) := by
  induction a with
  | nil => intro e; simp [strScanSt]
  | cons c a ih =>
    intro e
    simp only [List.cons_append, strScan, strScanSt]
    by_cases h : (!e && c == 34) = true
    · simp [h]
    · simp only [h, Bool.false_eq_true, if_false]
      rw [ih]
      cases h1 : strScanSt a (c == 92 && !e) with
      | mk r e' =>
        cases r with
        | some n => simp
        | none =>
          simp only [Option.map_none, List.length_cons]
          cases strScan b e' <;> simp <;> omega

/-- does the text up to the closing quote (or all of it) contain a backslash -/
def flagOf (l : List UInt8) (r : Option Nat) : Bool :=
  match r with
  | some n => (l.take n).any (· == 92)
  | none => l.any (· == 92)

theorem flagOf_cons_one (b : UInt8) (l : List UInt8) : flagOf (b :: l) (some 1) = (b == 92) := by
  simp [flagOf]

theorem flagOf_cons_map (b : UInt8) (l : List UInt8) (r : Option Nat) :
    flagOf (b :: l) (r.map (· + 1)) = (b == 92 || flagOf l r) := by
  cases r <;> simp [flagOf]

theorem toMask_bit (p : UInt8 → Bool) (bl : List UInt8) (j : Nat) (hj : j < 32) :
    (toMask p bl).getLsbD j = (match bl[j]? with | some b => p b | none => false) := by
  unfold toMask
  rw [BitVec.getLsbD_ofNat, Sonic.Thm.C17.mask_bit]
  simp only [hj, decide_true, Bool.true_and]
  cases bl[j]? <;> rfl

theorem shr0 (x : BitVec 32) (j : Nat) : (x >>> j).getLsbD 0 = x.getLsbD j := by
  rw [BitVec.getLsbD_ushiftRight]; rfl

theorem shr1 (x : BitVec 32) (j : Nat) : (x >>> j) >>> 1 = x >>> (j + 1) := (BitVec.shiftRight_add x j 1).symm

theorem shr32 (x : BitVec 32) : x >>> 32 = 0#32 := by bv_decide

/-- the first set bit of `q` from position `j` on, as the block code computes it -/
def firstBit (k : Nat) (x : BitVec 32) : Option Nat := if x ≠ 0#32 then some (tzr k x + 1) else none

theorem firstBit_lsb (k : Nat) (x : BitVec 32) (h : x.getLsbD 0 = true) : firstBit (k + 1) x = some 1 := by
  simp [firstBit, lsb_ne x h, tzr, h]

theorem firstBit_shift (k : Nat) (x : BitVec 32) (h : x.getLsbD 0 = false) :
    firstBit (k + 1) x = (firstBit k (x >>> 1)).map (· + 1) := by
  unfold firstBit
  by_cases hx : x = 0#32
  · subst hx; simp
  · have := shift_ne x h hx
    have ht : tzr (k + 1) x = 1 + tzr k (x >>> 1) := by
      show (if x.getLsbD 0 then 0 else 1 + tzr k (x >>> 1)) = _
      rw [h]; rfl
    simp only [ne_eq, hx, not_false_eq_true, if_true, this, Option.map_some, ht]
    congr 1; omega

/-- with the escape analysis: the bits of `quote & !escaped` from position `j` on are the scalar scan from byte `j` on -/
theorem scan_need (bl : List UInt8) (hl : bl.length = 32) (prev : BitVec 32) (hp : prev = 0#32 ∨ prev = 1#32) :
    let BS := toMask (· == 92) bl
    let E := (getEscaped prev BS).1
    let q := toMask (· == 34) bl &&& ~~~E
    let eB := decide (prev = 1#32)
    ∀ (k j : Nat), j + k = 32 →
      (strScanSt (bl.drop j) (escBit eB BS.getLsbD j)).1 = firstBit k (q >>> j) ∧
      ((strScanSt (bl.drop j) (escBit eB BS.getLsbD j)).1 = none →
        (strScanSt (bl.drop j) (escBit eB BS.getLsbD j)).2 = escBit eB BS.getLsbD 32) := by
  intro BS E q eB k
  induction k with
  | zero =>
    intro j hj
    have : j = 32 := by omega
    subst this
    have hd : bl.drop 32 = [] := by rw [List.drop_eq_nil_iff]; omega
    rw [hd]
    simp [strScanSt, firstBit, shr32]
  | succ k ih =>
    intro j hj
    have hj32 : j < 32 := by omega
    have hjl : j < bl.length := by omega
    have hdrop : bl.drop j = bl[j] :: bl.drop (j + 1) := by rw [List.drop_eq_getElem_cons hjl]
    have hget : bl[j]? = some bl[j] := by simp [hjl]
    have hBS : BS.getLsbD j = (bl[j] == 92) := by
      show (toMask (· == 92) bl).getLsbD j = _
      rw [toMask_bit _ bl j hj32, hget]
    have hE : E.getLsbD j = escBit eB BS.getLsbD j := escaped_bits prev BS hp j hj32
    have hq : q.getLsbD j = (!escBit eB BS.getLsbD j && bl[j] == 34) := by
      show (toMask (· == 34) bl &&& ~~~E).getLsbD j = _
      rw [BitVec.getLsbD_and, BitVec.getLsbD_not, toMask_bit _ bl j hj32, hget, hE]
      simp [hj32, Bool.and_comm]
    have hescS : (bl[j] == 92 && !escBit eB BS.getLsbD j) = escBit eB BS.getLsbD (j + 1) := by
      rw [escBit, hBS]
    rw [hdrop]
    simp only [strScanSt, hescS]
    by_cases hc : (!escBit eB BS.getLsbD j && bl[j] == 34) = true
    · simp only [hc, if_true]
      have h0 : (q >>> j).getLsbD 0 = true := by rw [shr0, hq]; exact hc
      rw [firstBit_lsb k _ h0]
      simp
    · simp only [hc, Bool.false_eq_true, if_false]
      have h0 : (q >>> j).getLsbD 0 = false := by rw [shr0, hq]; simpa using hc
      rw [firstBit_shift k _ h0, shr1]
      have := ih (j + 1) (by omega)
      refine ⟨by rw [this.1], ?_⟩
      intro hn
      apply this.2
      cases hs : (strScanSt (bl.drop (j + 1)) (escBit eB BS.getLsbD (j + 1))).1 with
      | none => rfl
      | some n => rw [hs] at hn; simp at hn

/-- without the escape analysis (no carry, no backslash before the first quote): the first quote bit is the scalar scan -/
theorem scan_plain (bl : List UInt8) (hl : bl.length = 32) :
    let BS := toMask (· == 92) bl
    let Q := toMask (· == 34) bl
    ∀ (k j : Nat), j + k = 32 → ((Q >>> j) - 1#32) &&& (BS >>> j) = 0#32 →
      (strScanSt (bl.drop j) false).1 = firstBit k (Q >>> j) ∧
      ((strScanSt (bl.drop j) false).1 = none → (strScanSt (bl.drop j) false).2 = false) ∧
      flagOf (bl.drop j) (strScanSt (bl.drop j) false).1 = false := by
  intro BS Q k
  induction k with
  | zero =>
    intro j hj _
    have : j = 32 := by omega
    subst this
    have hd : bl.drop 32 = [] := by rw [List.drop_eq_nil_iff]; omega
    rw [hd]
    simp [strScanSt, firstBit, shr32, flagOf]
  | succ k ih =>
    intro j hj hlow
    have hj32 : j < 32 := by omega
    have hjl : j < bl.length := by omega
    have hdrop : bl.drop j = bl[j] :: bl.drop (j + 1) := by rw [List.drop_eq_getElem_cons hjl]
    have hget : bl[j]? = some bl[j] := by simp [hjl]
    have hBS : BS.getLsbD j = (bl[j] == 92) := by
      show (toMask (· == 92) bl).getLsbD j = _
      rw [toMask_bit _ bl j hj32, hget]
    have hQ : Q.getLsbD j = (bl[j] == 34) := by
      show (toMask (· == 34) bl).getLsbD j = _
      rw [toMask_bit _ bl j hj32, hget]
    rw [hdrop]
    simp only [strScanSt, Bool.not_false, Bool.true_and, Bool.and_true]
    by_cases hc : (bl[j] == 34) = true
    · simp only [hc, if_true]
      have h0 : (Q >>> j).getLsbD 0 = true := by rw [shr0, hQ]; exact hc
      rw [firstBit_lsb k _ h0, flagOf_cons_one]
      have : bl[j] = 34 := by simpa using hc
      simp [this]
    · simp only [hc, Bool.false_eq_true, if_false]
      have h0 : (Q >>> j).getLsbD 0 = false := by rw [shr0, hQ]; simpa using hc
      have hst := low_step (Q >>> j) (BS >>> j) h0 hlow
      rw [shr0, hBS, shr1, shr1] at hst
      rw [hst.1]
      rw [firstBit_shift k _ h0, shr1]
      have := ih (j + 1) (by omega) hst.2
      refine ⟨by rw [this.1], ?_, ?_⟩
      · intro hn
        apply this.2.1
        cases hs : (strScanSt (bl.drop (j + 1)) false).1 with
        | none => rfl
        | some n => rw [hs] at hn; simp at hn
      · rw [flagOf_cons_map, hst.1, this.2.2]; rfl

theorem and_shift (x y : BitVec 32) (h : x &&& y = 0#32) : (x >>> 1) &&& (y >>> 1) = 0#32 := by bv_decide

/-- when a backslash stands before the first quote bit, the scanned text contains a backslash (whatever the escape state) -/
theorem flag_need (bl : List UInt8) (hl : bl.length = 32) :
    let BS := toMask (· == 92) bl
    let Q := toMask (· == 34) bl
    ∀ (k j : Nat), j + k = 32 → ((Q >>> j) - 1#32) &&& (BS >>> j) ≠ 0#32 → (Q >>> j) &&& (BS >>> j) = 0#32 →
      ∀ e, flagOf (bl.drop j) (strScanSt (bl.drop j) e).1 = true := by
  intro BS Q k
  induction k with
  | zero =>
    intro j hj h _ e
    have : j = 32 := by omega
    subst this
    rw [shr32, shr32] at h
    simp at h
  | succ k ih =>
    intro j hj hne hdis e
    have hj32 : j < 32 := by omega
    have hjl : j < bl.length := by omega
    have hdrop : bl.drop j = bl[j] :: bl.drop (j + 1) := by rw [List.drop_eq_getElem_cons hjl]
    have hget : bl[j]? = some bl[j] := by simp [hjl]
    have hBS : BS.getLsbD j = (bl[j] == 92) := by
      show (toMask (· == 92) bl).getLsbD j = _
      rw [toMask_bit _ bl j hj32, hget]
    have hQ : Q.getLsbD j = (bl[j] == 34) := by
      show (toMask (· == 34) bl).getLsbD j = _
      rw [toMask_bit _ bl j hj32, hget]
    rw [hdrop]
    simp only [strScanSt]
    by_cases hb : (bl[j] == 92) = true
    · -- a backslash right here
      by_cases hc : (!e && bl[j] == 34) = true
      · simp only [hc, if_true]; rw [flagOf_cons_one]; exact hb
      · simp only [hc, Bool.false_eq_true, if_false]; rw [flagOf_cons_map, hb]; rfl
    · have hb' : (bl[j] == 92) = false := by simpa using hb
      have hy0 : (BS >>> j).getLsbD 0 = false := by rw [shr0, hBS]; exact hb'
      by_cases hq : (bl[j] == 34) = true
      · have hx0 : (Q >>> j).getLsbD 0 = true := by rw [shr0, hQ]; exact hq
        exact absurd (low_odd _ _ hx0 hdis) hne
      · have hq' : (bl[j] == 34) = false := by simpa using hq
        have hx0 : (Q >>> j).getLsbD 0 = false := by rw [shr0, hQ]; exact hq'
        have h1 := low_step_ne _ _ hx0 hy0 hne
        have h2 := and_shift _ _ hdis
        rw [shr1, shr1] at h1 h2
        simp only [hq', Bool.and_false, Bool.false_eq_true, if_false]
        rw [flagOf_cons_map, ih (j + 1) (by omega) h1 h2]
        simp

theorem masks_disjoint (bl : List UInt8) : toMask (· == 34) bl &&& toMask (· == 92) bl = 0#32 := by
  apply BitVec.eq_of_getLsbD_eq
  intro i hi
  rw [BitVec.getLsbD_and, toMask_bit _ bl i hi, toMask_bit _ bl i hi]
  cases h : bl[i]? with
  | none => simp
  | some b =>
    simp only [BitVec.getLsbD_zero]
    by_cases h1 : b = 34
    · subst h1; decide
    · simp [h1]

theorem getEscaped_zero : getEscaped 0#32 0#32 = (0#32, 0#32) := by
  unfold getEscaped EVEN; apply Prod.ext <;> simp only <;> bv_decide

/-- **one block** -/
theorem block_spec (bl : List UInt8) (hl : bl.length = 32) (prev : BitVec 32) (hp : prev = 0#32 ∨ prev = 1#32) :
    (block bl prev).1 = (strScanSt bl (decide (prev = 1#32))).1 ∧
    ((block bl prev).1 = none →
      ((block bl prev).2.1 = 0#32 ∨ (block bl prev).2.1 = 1#32) ∧
      decide ((block bl prev).2.1 = 1#32) = (strScanSt bl (decide (prev = 1#32))).2) ∧
    (decide (prev = 1#32) || (block bl prev).2.2) = (decide (prev = 1#32) || flagOf bl (block bl prev).1) := by
  have hdrop0 : bl.drop 0 = bl := rfl
  by_cases hneed : (decide (((toMask (· == 34) bl - 1#32) &&& toMask (· == 92) bl) ≠ 0#32) || decide (prev ≠ 0#32)) = true
  · -- the escape analysis runs
    have hs := scan_need bl hl prev hp 32 0 (by omega)
    simp only [BitVec.ushiftRight_zero, hdrop0] at hs
    have he0 : escBit (decide (prev = 1#32)) (toMask (· == 92) bl).getLsbD 0 = decide (prev = 1#32) := rfl
    rw [he0] at hs
    have hblock : block bl prev =
        (firstBit 32 (toMask (· == 34) bl &&& ~~~(getEscaped prev (toMask (· == 92) bl)).1),
          (getEscaped prev (toMask (· == 92) bl)).2, true) := by
      unfold block firstBit tz
      simp only [hneed, if_true]
      split <;> rfl
    have hcar := escaped_carry prev (toMask (· == 92) bl) hp
    rw [hblock]
    refine ⟨hs.1.symm, ?_, ?_⟩
    · intro hn
      simp only at hn
      refine ⟨hcar.1, ?_⟩
      simp only
      rw [hcar.2, hs.2 (by rw [hs.1]; exact hn)]
    · simp only [Bool.or_true]
      rw [← hs.1]
      rcases hp with rfl | rfl
      · simp only [BitVec.reduceEq, decide_false, Bool.false_or, ne_eq, not_true_eq_false, Bool.or_false,
          decide_eq_true_eq] at hneed ⊢
        have := flag_need bl hl 32 0 (by omega)
        simp only [BitVec.ushiftRight_zero, hdrop0] at this
        exact (this hneed (masks_disjoint bl) false).symm
      · simp
  · -- the short cut
    have hneed' : (decide (((toMask (· == 34) bl - 1#32) &&& toMask (· == 92) bl) ≠ 0#32) || decide (prev ≠ 0#32)) = false := by
      simpa using hneed
    simp only [Bool.or_eq_false_iff, decide_eq_false_iff_not, ne_eq, Classical.not_not] at hneed'
    obtain ⟨hlow, hprev⟩ := hneed'
    subst hprev
    have hs := scan_plain bl hl 32 0 (by omega)
    simp only [BitVec.ushiftRight_zero, hdrop0] at hs
    have hs := hs hlow
    have hblock : block bl 0#32 = (firstBit 32 (toMask (· == 34) bl), 0#32, false) := by
      unfold block firstBit tz
      simp only [hlow]
      simp only [ne_eq, not_true_eq_false, decide_false, Bool.or_self, Bool.false_eq_true, if_false]
      split <;> rfl
    rw [hblock]
    have hd : decide ((0#32 : BitVec 32) = 1#32) = false := by decide
    simp only [hd]
    refine ⟨hs.1.symm, ?_, ?_⟩
    · intro hn
      refine ⟨Or.inl trivial, ?_⟩
      exact (hs.2.1 (by rw [hs.1]; exact hn)).symm
    · simp only [Bool.false_or]
      rw [← hs.1, hs.2.2]

end StrSkip
end Sonic
