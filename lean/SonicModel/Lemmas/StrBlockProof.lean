import SonicModel.Impl.StrBlock
import SonicModel.Lemmas.StrDecodeMain
import SonicModel.Lemmas.StrTables
import SonicModel.Lemmas.ImplFuel
namespace Sonic
namespace StrBlock
open Gen Impl

theorem findP_spec (p : UInt8 → Bool) (buf : Buf) : ∀ (n i lim : Nat), lim - i = n → i ≤ lim → lim ≤ buf.size →
    i ≤ findP p buf i lim ∧ findP p buf i lim ≤ lim ∧
    (∀ k, i ≤ k → k < findP p buf i lim → ∃ c, buf[k]? = some c ∧ p c = false) ∧
    (findP p buf i lim < lim → ∃ c, buf[findP p buf i lim]? = some c ∧ p c = true) := by
  intro n
  induction n with
  | zero =>
    intro i lim hn hle hsz
    have : i = lim := by omega
    subst this
    rw [findP]
    simp only [Nat.lt_irrefl, false_and, dite_false, Nat.le_refl, true_and]
    exact ⟨fun k a b => by omega, fun h => h.elim⟩
  | succ n ih =>
    intro i lim hn hle hsz
    rw [findP]
    have h1 : i < lim ∧ i < buf.size := by omega
    simp only [h1, and_self, dite_true]
    by_cases hp : p buf[i] = true
    · simp only [hp, if_true]
      refine ⟨Nat.le_refl _, by omega, by intro k a b; omega, ?_⟩
      intro _; exact ⟨buf[i], by simp [h1.2], hp⟩
    · simp only [hp, Bool.false_eq_true, if_false]
      obtain ⟨a, b, c, d⟩ := ih (i + 1) lim (by omega) (by omega) hsz
      refine ⟨by omega, b, ?_, d⟩
      intro k hk1 hk2
      by_cases hki : k = i
      · subst hki; exact ⟨buf[k], by simp [h1.2], by simpa using hp⟩
      · exact c k (by omega) hk2

theorem bytes_self (buf : Buf) (i : Nat) : bytes buf i i = [] := by
  simp [bytes]

theorem bytes_snoc (buf : Buf) (i j : Nat) (c : UInt8) (hij : i ≤ j) (hc : buf[j]? = some c) :
    bytes buf i (j + 1) = bytes buf i j ++ [c] := by
  have hj : j < buf.size := (Array.getElem?_eq_some_iff.mp hc).1
  have hcj : buf.toList[j]? = some c := by simpa using hc
  unfold bytes
  rw [List.take_add_one, hcj]
  simp only [Option.toList_some]
  rw [List.drop_append_of_le_length (by simp; omega)]

theorem bytes_append (buf : Buf) (i j k : Nat) (hij : i ≤ j) (hjk : j ≤ k) (hk : k ≤ buf.size) :
    bytes buf i k = bytes buf i j ++ bytes buf j k := by
  unfold bytes
  have h1 : (buf.toList.take k).take j = buf.toList.take j := by rw [List.take_take]; congr 1; omega
  have h2 : buf.toList.take k = (buf.toList.take k).take j ++ (buf.toList.take k).drop j := (List.take_append_drop j _).symm
  conv => lhs; rw [h2, h1]
  rw [List.drop_append_of_le_length (by simp; omega)]

theorem ctl_not_special (c : UInt8) (h : isCtl c = true) : c ≠ 34 ∧ c ≠ 92 := by
  revert h; revert c
  apply UInt8.forall_of_fin
  decide +kernel

/-! ### one step of the scalar decoder, as a view -/

theorem view_quote (lossy : Bool) (buf : Buf) (i : Nat) (h : buf[i]? = some 34) :
    (decodeFrom lossy buf i).view = some ([], i + 1) := by
  have hi : i < buf.size := (Array.getElem?_eq_some_iff.mp h).1
  have hb : buf[i] = 34 := by
    have := getElem?_pos buf i hi; rw [h] at this; exact (Option.some.inj this).symm
  rw [decodeFrom]
  simp [hi, hb, DecRes.view]

theorem view_eof (lossy : Bool) (buf : Buf) (i : Nat) (h : buf[i]? = none) : (decodeFrom lossy buf i).view = none := by
  have hi : ¬ i < buf.size := by
    intro hh; rw [getElem?_pos buf i hh] at h; cases h
  rw [decodeFrom]
  simp [hi, DecRes.view]

theorem view_ctl (lossy : Bool) (buf : Buf) (i : Nat) (c : UInt8) (h : buf[i]? = some c) (hc : isCtl c = true) :
    (decodeFrom lossy buf i).view = none := by
  have hi : i < buf.size := (Array.getElem?_eq_some_iff.mp h).1
  have hb : buf[i] = c := by
    have := getElem?_pos buf i hi; rw [h] at this; exact (Option.some.inj this).symm
  obtain ⟨h1, h2⟩ := ctl_not_special c hc
  rw [decodeFrom]
  have e1 : (c == 34) = false := by simpa using h1
  have e2 : (c == 92) = false := by simpa using h2
  have e3 : c ≤ 0x1f := by simpa [isCtl] using hc
  simp [hi, hb, e1, e2, e3, DecRes.view]

theorem view_plain (lossy : Bool) (buf : Buf) (i : Nat) (c : UInt8) (h : buf[i]? = some c) (h1 : c ≠ 34) (h2 : c ≠ 92)
    (h3 : isCtl c = false) :
    (decodeFrom lossy buf i).view = ((decodeFrom lossy buf (i + 1)).view).map (fun r => (c :: r.1, r.2)) := by
  have hi : i < buf.size := (Array.getElem?_eq_some_iff.mp h).1
  have hb : buf[i] = c := by
    have := getElem?_pos buf i hi; rw [h] at this; exact (Option.some.inj this).symm
  have e1 : (c == 34) = false := by simpa using h1
  have e2 : (c == 92) = false := by simpa using h2
  have e3 : ¬ (c ≤ 0x1f) := by simpa [isCtl] using h3
  conv => lhs; rw [decodeFrom]
  simp only [hi, dite_true, hb, e1, e2, Bool.false_eq_true, if_false, e3]
  cases decodeFrom lossy buf (i + 1) <;> simp [DecRes.view]


def Plain (buf : Buf) (k : Nat) : Prop := ∃ c, buf[k]? = some c ∧ c ≠ 34 ∧ c ≠ 92 ∧ isCtl c = false

/-- a run of plain bytes is copied as it stands -/
theorem view_run (lossy : Bool) (buf : Buf) : ∀ (n i j : Nat), j - i = n → i ≤ j → (∀ k, i ≤ k → k < j → Plain buf k) →
    (decodeFrom lossy buf i).view = ((decodeFrom lossy buf j).view).map (fun r => (bytes buf i j ++ r.1, r.2)) := by
  intro n
  induction n with
  | zero =>
    intro i j hn hij _
    have : i = j := by omega
    subst this
    simp [bytes_self]
  | succ n ih =>
    intro i j hn hij hp
    obtain ⟨c, hc, h1, h2, h3⟩ := hp i (Nat.le_refl _) (by omega)
    rw [view_plain lossy buf i c hc h1 h2 h3, ih (i + 1) j (by omega) (by omega) (fun k a b => hp k (by omega) b)]
    have hb : bytes buf i j = c :: bytes buf (i + 1) j := by
      have hj : j ≤ buf.size ∨ True := Or.inr trivial
      unfold bytes
      have hi : i < buf.size := (Array.getElem?_eq_some_iff.mp hc).1
      have hci : (buf.toList.take j)[i]? = some c := by
        rw [List.getElem?_take]; simp [show i < j by omega]; simpa using hc
      rw [List.drop_eq_getElem?_toList_append, hci]; rfl
    cases (decodeFrom lossy buf j).view with
    | none => rfl
    | some r => simp [hb]


theorem peu_adv (lossy : Bool) (buf : Buf) (s cp j : Nat) (h : parseEscapedUtf8 lossy buf s = .ok (cp, j)) : s + 4 ≤ j := by
  unfold parseEscapedUtf8 at h
  cases hh : hexAt buf s with
  | none => simp [hh] at h
  | some p1 =>
    simp only [hh] at h
    repeat' split at h
    all_goals (first | (cases h; done) | (simp only [Except.ok.injEq, Prod.mk.injEq] at h; omega))

/-- the scalar decoder at a backslash -/
theorem view_bs (lossy : Bool) (buf : Buf) (b : Nat) (h : buf[b]? = some 92) :
    (decodeFrom lossy buf b).view =
      (match buf[b + 1]? with
       | none => none
       | some e =>
         if e == 117 then
           (match parseEscapedUtf8 lossy buf (b + 2) with
            | .error _ => none
            | .ok (cp, j) =>
              if (codepointToUtf8 cp).isEmpty then none
              else ((decodeFrom lossy buf j).view).map (fun r => (codepointToUtf8 cp ++ r.1, r.2)))
         else if escapedTab[e.toNat]?.getD 0 != 0 then
           ((decodeFrom lossy buf (b + 2)).view).map (fun r => ((escapedTab[e.toNat]?.getD 0) :: r.1, r.2))
         else none) := by
  have hi : b < buf.size := (Array.getElem?_eq_some_iff.mp h).1
  have hb : buf[b] = 92 := by
    have := getElem?_pos buf b hi; rw [h] at this; exact (Option.some.inj this).symm
  conv => lhs; rw [decodeFrom]
  have e1 : ((92 : UInt8) == 34) = false := by decide
  simp only [hi, dite_true, hb, e1, Bool.false_eq_true, if_false, beq_self_eq_true, if_true]
  cases hb1 : buf[b + 1]? with
  | none => simp [DecRes.view]
  | some e =>
    simp only
    by_cases hu : (e == 117) = true
    · simp only [hu, if_true]
      cases hp : parseEscapedUtf8 lossy buf (b + 2) with
      | error x => obtain ⟨c, q⟩ := x; simp [DecRes.view]
      | ok r =>
        obtain ⟨cp, j⟩ := r
        simp only
        by_cases hem : (codepointToUtf8 cp).isEmpty = true
        · simp [hem, DecRes.view]
        · have hadv := peu_adv lossy buf (b + 2) cp j hp
          have : b + 2 < j := by omega
          simp only [hem, Bool.false_eq_true, if_false, this, if_true]
          cases decodeFrom lossy buf j <;> simp [DecRes.view]
    · simp only [hu, Bool.false_eq_true, if_false]
      by_cases ht : (escapedTab[e.toNat]?.getD 0 != 0) = true
      · simp only [ht, if_true]
        cases decodeFrom lossy buf (b + 2) <;> simp [DecRes.view]
      · simp [ht, DecRes.view]


/-- what `parse_escaped_char` establishes, against the scalar decoder standing at the backslash -/
def EscPost (lossy : Bool) (buf : Buf) (b : Nat) (acc : List UInt8) : Option (Option (List UInt8 × Nat)) → Prop
  | none => True
  | some none => (decodeFrom lossy buf b).view = none
  | some (some (acc', j)) => ∃ mid, acc' = acc ++ mid ∧ b + 1 < j ∧ buf[j]? ≠ some 92 ∧
      (decodeFrom lossy buf b).view = ((decodeFrom lossy buf j).view).map (fun r => (mid ++ r.1, r.2))

theorem escChars_spec (lossy : Bool) (buf : Buf) : ∀ (f b : Nat) (acc : List UInt8), buf[b]? = some 92 →
    EscPost lossy buf b acc (escChars lossy buf f (b + 1) acc) := by
  intro f
  induction f with
  | zero => intro b acc _; simp [escChars, EscPost]
  | succ f ih =>
    intro b acc hb
    have hv := view_bs lossy buf b hb
    rw [escChars]
    cases hb1 : buf[b + 1]? with
    | none => simp only [hb1] at hv ⊢; exact hv
    | some e =>
      simp only [hb1] at hv ⊢
      -- the one escape
      have key : ∀ (m : List UInt8) (j : Nat), m ≠ [] ∨ True → b + 1 < j →
          (decodeFrom lossy buf b).view = ((decodeFrom lossy buf j).view).map (fun r => (m ++ r.1, r.2)) →
          EscPost lossy buf b acc
            (if buf[j]? = some 92 then escChars lossy buf f (j + 1) (acc ++ m) else some (some (acc ++ m, j))) := by
        intro m j _ hj hvj
        by_cases h92 : buf[j]? = some 92
        · simp only [h92, if_true]
          have := ih j (acc ++ m) h92
          cases hr : escChars lossy buf f (j + 1) (acc ++ m) with
          | none => simp [EscPost]
          | some r =>
            rw [hr] at this
            cases r with
            | none =>
              simp only [EscPost] at this ⊢
              rw [hvj, this]; rfl
            | some p =>
              obtain ⟨acc', j'⟩ := p
              simp only [EscPost] at this ⊢
              obtain ⟨mid, h1, h2, h3, h4⟩ := this
              refine ⟨m ++ mid, by rw [h1, List.append_assoc], by omega, h3, ?_⟩
              rw [hvj, h4]
              cases (decodeFrom lossy buf j').view with
              | none => rfl
              | some r => simp [List.append_assoc]
        · simp only [h92, if_false, EscPost]
          exact ⟨m, rfl, hj, h92, hvj⟩
      by_cases hu : (e == 117) = true
      · simp only [hu, if_true] at hv ⊢
        cases hp : parseEscapedUtf8 lossy buf (b + 1 + 1) with
        | error x => simp only [hp] at hv ⊢; simpa [EscPost] using hv
        | ok r =>
          obtain ⟨cp, j⟩ := r
          simp only [hp] at hv ⊢
          by_cases hem : (codepointToUtf8 cp).isEmpty = true
          · simp only [hem, if_true] at hv ⊢; simpa [EscPost] using hv
          · simp only [hem, Bool.false_eq_true, if_false] at hv ⊢
            have hadv := peu_adv lossy buf (b + 1 + 1) cp j hp
            exact key _ j (Or.inr trivial) (by omega) hv
      · simp only [hu, Bool.false_eq_true, if_false] at hv ⊢
        generalize escapedTab[e.toNat]?.getD 0 = t at hv ⊢
        by_cases ht : (t != 0) = true
        · simp only [ht, if_true] at hv ⊢
          have := key [t] (b + 1 + 1) (Or.inr trivial) (by omega) (by simpa using hv)
          simpa using this
        · simp only [ht, Bool.false_eq_true, if_false] at hv ⊢; simpa [EscPost] using hv


theorem hex_not_ctl (c : UInt8) (h : isHex c = true) : isCtl c = false := by
  revert h; revert c
  apply UInt8.forall_of_fin
  decide +kernel

theorem tab_not_ctl (c : UInt8) (h : (escapedTab[c.toNat]?.getD 0 != 0) = true) : isCtl c = false := by
  revert h; revert c
  apply UInt8.forall_of_fin
  decide +kernel

/-- four bytes whose `hex_to_u32_nocheck` value is a code unit are hex digits: none of them is a control byte -/
theorem hexAt_small (buf : Buf) (s p : Nat) (h : hexAt buf s = some p) (hp : p < 0xFFFFFFFF) :
    ∀ k, s ≤ k → k < s + 4 → ∃ c, buf[k]? = some c ∧ isCtl c = false := by
  unfold hexAt at h
  cases ha : buf[s]? with
  | none => simp [ha] at h
  | some a =>
    cases hb : buf[s + 1]? with
    | none => simp [ha, hb] at h
    | some b =>
      cases hc : buf[s + 2]? with
      | none => simp [ha, hb, hc] at h
      | some c =>
        cases hd : buf[s + 3]? with
        | none => simp [ha, hb, hc, hd] at h
        | some d =>
          simp only [ha, hb, hc, hd, Option.some.injEq] at h
          have hall : (isHex a && isHex b && isHex c && isHex d) = true := by
            cases hx : (isHex a && isHex b && isHex c && isHex d) with
            | true => rfl
            | false => have := hexToU32_invalid a b c d hx; omega
          simp only [Bool.and_eq_true] at hall
          intro k h1 h2
          have : k = s ∨ k = s + 1 ∨ k = s + 2 ∨ k = s + 3 := by omega
          rcases this with rfl | rfl | rfl | rfl
          · exact ⟨a, ha, hex_not_ctl a hall.1.1.1⟩
          · exact ⟨b, hb, hex_not_ctl b hall.1.1.2⟩
          · exact ⟨c, hc, hex_not_ctl c hall.1.2⟩
          · exact ⟨d, hd, hex_not_ctl d hall.2⟩


theorem utf8_nonempty_small (cp : Nat) (h : (codepointToUtf8 cp).isEmpty = false) : cp ≤ 0x10FFFF := by
  unfold codepointToUtf8 at h
  by_cases h1 : cp ≤ 0x10FFFF
  · exact h1
  · have a : ¬ cp ≤ 0x7F := by omega
    have b : ¬ cp ≤ 0x7FF := by omega
    have c : ¬ cp ≤ 0xFFFF := by omega
    simp [a, b, c, h1] at h

/-- what `parse_escaped_utf8` consumed, when the code point it returns can be written, holds no control byte -/
theorem peu_no_ctl (lossy : Bool) (buf : Buf) (s cp j : Nat) (h : parseEscapedUtf8 lossy buf s = .ok (cp, j))
    (hne : (codepointToUtf8 cp).isEmpty = false) :
    ∀ k, s ≤ k → k < j → ∃ c, buf[k]? = some c ∧ isCtl c = false := by
  unfold parseEscapedUtf8 at h
  cases hh : hexAt buf s with
  | none => simp [hh] at h
  | some p1 =>
    simp only [hh] at h
    have first : p1 < 0xFFFFFFFF → ∀ k, s ≤ k → k < s + 4 → ∃ c, buf[k]? = some c ∧ isCtl c = false :=
      hexAt_small buf s p1 hh
    by_cases hhi : (decide (0xD800 ≤ p1) && decide (p1 < 0xDC00)) = true
    · have hp1 : p1 < 0xFFFFFFFF := by
        simp only [Bool.and_eq_true, decide_eq_true_eq] at hhi; omega
      simp only [hhi, if_true] at h
      by_cases hsz : s + 4 + 6 ≤ buf.size
      · simp only [hsz, if_true] at h
        by_cases hbu : (buf[s + 4]? = some 92 && buf[s + 4 + 1]? = some 117) = true
        · simp only [hbu, if_true] at h
          cases hh2 : hexAt buf (s + 4 + 2) with
          | none =>
            simp only [hh2] at h
            split at h
            · simp only [Except.ok.injEq, Prod.mk.injEq] at h
              intro k h1 h2; exact first hp1 k h1 (by omega)
            · cases h
          | some p2 =>
            simp only [hh2] at h
            by_cases hlo : (decide (0xDC00 ≤ p2) && decide (p2 < 0xE000)) = true
            · simp only [hlo, if_true, Except.ok.injEq, Prod.mk.injEq] at h
              have hp2 : p2 < 0xFFFFFFFF := by
                simp only [Bool.and_eq_true, decide_eq_true_eq] at hlo; omega
              have second := hexAt_small buf (s + 4 + 2) p2 hh2 hp2
              simp only [Bool.and_eq_true, decide_eq_true_eq] at hbu
              intro k h1 h2
              by_cases hk1 : k < s + 4
              · exact first hp1 k h1 hk1
              · by_cases hk2 : k = s + 4
                · subst hk2; exact ⟨92, hbu.1, by decide⟩
                · by_cases hk3 : k = s + 4 + 1
                  · subst hk3; exact ⟨117, hbu.2, by decide⟩
                  · exact second k (by omega) (by omega)
            · simp only [hlo, Bool.false_eq_true, if_false] at h
              split at h
              · simp only [Except.ok.injEq, Prod.mk.injEq] at h
                intro k h1 h2; exact first hp1 k h1 (by omega)
              · cases h
        · simp only [hbu, Bool.false_eq_true, if_false] at h
          split at h
          · simp only [Except.ok.injEq, Prod.mk.injEq] at h
            intro k h1 h2; exact first hp1 k h1 (by omega)
          · cases h
      · simp only [hsz, if_false] at h
        split at h
        · simp only [Except.ok.injEq, Prod.mk.injEq] at h
          intro k h1 h2; exact first hp1 k h1 (by omega)
        · cases h
    · simp only [hhi, Bool.false_eq_true, if_false] at h
      by_cases hlo : (decide (0xDC00 ≤ p1) && decide (p1 < 0xE000)) = true
      · have hp1 : p1 < 0xFFFFFFFF := by
          simp only [Bool.and_eq_true, decide_eq_true_eq] at hlo; omega
        simp only [hlo, if_true] at h
        split at h
        · simp only [Except.ok.injEq, Prod.mk.injEq] at h
          intro k h1 h2; exact first hp1 k h1 (by omega)
        · cases h
      · simp only [hlo, Bool.false_eq_true, if_false, Except.ok.injEq, Prod.mk.injEq] at h
        have : p1 ≤ 0x10FFFF := by rw [h.1]; exact utf8_nonempty_small cp hne
        intro k h1 h2; exact first (by omega) k h1 (by omega)


/-- **a literal the scalar decoder accepts ends in a quote and holds no raw control byte** -/
theorem view_shape (lossy : Bool) (buf : Buf) : ∀ (n i : Nat) (bs : List UInt8) (e : Nat), buf.size - i ≤ n →
    (decodeFrom lossy buf i).view = some (bs, e) →
    i < e ∧ buf[e - 1]? = some 34 ∧ ∀ k, i ≤ k → k + 1 < e → ∃ c, buf[k]? = some c ∧ isCtl c = false := by
  intro n
  induction n with
  | zero =>
    intro i bs e hn h
    have : buf[i]? = none := by simp; omega
    rw [view_eof lossy buf i this] at h; cases h
  | succ n ih =>
    intro i bs e hn h
    cases hb : buf[i]? with
    | none => rw [view_eof lossy buf i hb] at h; cases h
    | some c =>
      have hi : i < buf.size := (Array.getElem?_eq_some_iff.mp hb).1
      by_cases hq : c = 34
      · subst hq
        rw [view_quote lossy buf i hb] at h
        simp only [Option.some.injEq, Prod.mk.injEq] at h
        obtain ⟨_, rfl⟩ := h
        exact ⟨by omega, by simpa using hb, fun k a b => by omega⟩
      · by_cases hbs : c = 92
        · subst hbs
          rw [view_bs lossy buf i hb] at h
          cases hb1 : buf[i + 1]? with
          | none => simp [hb1] at h
          | some x =>
            simp only [hb1] at h
            by_cases hu : (x == 117) = true
            · simp only [hu, if_true] at h
              cases hp : parseEscapedUtf8 lossy buf (i + 2) with
              | error y => simp [hp] at h
              | ok r =>
                obtain ⟨cp, j⟩ := r
                simp only [hp] at h
                by_cases hem : (codepointToUtf8 cp).isEmpty = true
                · simp [hem] at h
                · have hem' : (codepointToUtf8 cp).isEmpty = false := by simpa using hem
                  simp only [hem', Bool.false_eq_true, if_false] at h
                  have hadv := peu_adv lossy buf (i + 2) cp j hp
                  cases hv : (decodeFrom lossy buf j).view with
                  | none => simp [hv] at h
                  | some r =>
                    obtain ⟨bs', e'⟩ := r
                    simp only [hv, Option.map_some, Option.some.injEq, Prod.mk.injEq] at h
                    obtain ⟨_, rfl⟩ := h
                    obtain ⟨a1, a2, a3⟩ := ih j bs' e' (by omega) hv
                    refine ⟨by omega, a2, ?_⟩
                    intro k h1 h2
                    by_cases hk : j ≤ k
                    · exact a3 k hk h2
                    · by_cases hk0 : k = i
                      · subst hk0; exact ⟨92, hb, by decide⟩
                      · by_cases hk1 : k = i + 1
                        · subst hk1
                          have : x = 117 := by simpa using hu
                          subst this; exact ⟨117, hb1, by decide⟩
                        · exact peu_no_ctl lossy buf (i + 2) cp j hp hem' k (by omega) (by omega)
            · simp only [hu, Bool.false_eq_true, if_false] at h
              by_cases ht : (escapedTab[x.toNat]?.getD 0 != 0) = true
              · have hxc := tab_not_ctl x ht
                generalize escapedTab[x.toNat]?.getD 0 = t at h ht
                simp only [ht, if_true] at h
                cases hv : (decodeFrom lossy buf (i + 2)).view with
                | none => simp [hv] at h
                | some r =>
                  obtain ⟨bs', e'⟩ := r
                  simp only [hv, Option.map_some, Option.some.injEq, Prod.mk.injEq] at h
                  obtain ⟨_, rfl⟩ := h
                  obtain ⟨a1, a2, a3⟩ := ih (i + 2) bs' e' (by omega) hv
                  refine ⟨by omega, a2, ?_⟩
                  intro k h1 h2
                  by_cases hk : i + 2 ≤ k
                  · exact a3 k hk h2
                  · by_cases hk0 : k = i
                    · subst hk0; exact ⟨92, hb, by decide⟩
                    · have : k = i + 1 := by omega
                      subst this; exact ⟨x, hb1, hxc⟩
              · generalize escapedTab[x.toNat]?.getD 0 = t at h ht
                simp [ht] at h
        · by_cases hc : isCtl c = true
          · rw [view_ctl lossy buf i c hb hc] at h; cases h
          · have hc' : isCtl c = false := by simpa using hc
            rw [view_plain lossy buf i c hb hq hbs hc'] at h
            cases hv : (decodeFrom lossy buf (i + 1)).view with
            | none => simp [hv] at h
            | some r =>
              obtain ⟨bs', e'⟩ := r
              simp only [hv, Option.map_some, Option.some.injEq, Prod.mk.injEq] at h
              obtain ⟨_, rfl⟩ := h
              obtain ⟨a1, a2, a3⟩ := ih (i + 1) bs' e' (by omega) hv
              refine ⟨by omega, a2, ?_⟩
              intro k h1 h2
              by_cases hk : i + 1 ≤ k
              · exact a3 k hk h2
              · have : k = i := by omega
                subst this; exact ⟨c, hb, hc'⟩


/-- **one 32-byte block against the scalar decoder**: what the three offsets (first quote `q`, first backslash `b`,
    first control byte `u`; `i + 32` = none) say -/
theorem block_view (lossy : Bool) (buf : Buf) (i : Nat) (h32 : i + 32 ≤ buf.size) :
    (findP isCtl buf i (i + 32) < findP (· == 34) buf i (i + 32) → (decodeFrom lossy buf i).view = none) ∧
    (¬ findP isCtl buf i (i + 32) < findP (· == 34) buf i (i + 32) →
      findP (· == 34) buf i (i + 32) < findP (· == 92) buf i (i + 32) →
      (decodeFrom lossy buf i).view = some (bytes buf i (findP (· == 34) buf i (i + 32)), findP (· == 34) buf i (i + 32) + 1)) ∧
    (¬ findP isCtl buf i (i + 32) < findP (· == 34) buf i (i + 32) →
      findP (· == 92) buf i (i + 32) < findP (· == 34) buf i (i + 32) →
      buf[findP (· == 92) buf i (i + 32)]? = some 92 ∧ i ≤ findP (· == 92) buf i (i + 32) ∧
      (decodeFrom lossy buf i).view = ((decodeFrom lossy buf (findP (· == 92) buf i (i + 32))).view).map
        (fun r => (bytes buf i (findP (· == 92) buf i (i + 32)) ++ r.1, r.2))) ∧
    (¬ findP isCtl buf i (i + 32) < findP (· == 34) buf i (i + 32) →
      ¬ findP (· == 34) buf i (i + 32) < findP (· == 92) buf i (i + 32) →
      ¬ findP (· == 92) buf i (i + 32) < findP (· == 34) buf i (i + 32) →
      (decodeFrom lossy buf i).view = ((decodeFrom lossy buf (i + 32)).view).map (fun r => (bytes buf i (i + 32) ++ r.1, r.2))) := by
  obtain ⟨q1, q2, q3, q4⟩ := findP_spec (· == 34) buf 32 i (i + 32) (by omega) (by omega) h32
  obtain ⟨b1, b2, b3, b4⟩ := findP_spec (· == 92) buf 32 i (i + 32) (by omega) (by omega) h32
  obtain ⟨u1, u2, u3, u4⟩ := findP_spec isCtl buf 32 i (i + 32) (by omega) (by omega) h32
  generalize findP (· == 34) buf i (i + 32) = q at *
  generalize findP (· == 92) buf i (i + 32) = b at *
  generalize findP isCtl buf i (i + 32) = u at *
  have plain : ∀ m, m ≤ q → m ≤ b → m ≤ u → ∀ k, i ≤ k → k < m → Plain buf k := by
    intro m hq hb hu k h1 h2
    obtain ⟨c, hc, hc1⟩ := q3 k h1 (by omega)
    obtain ⟨c', hc', hc2⟩ := b3 k h1 (by omega)
    obtain ⟨c'', hc'', hc3⟩ := u3 k h1 (by omega)
    rw [hc] at hc' hc''
    cases hc'; cases hc''
    exact ⟨c, hc, by simpa using hc1, by simpa using hc2, hc3⟩
  have bu : b < i + 32 → u < i + 32 → b ≠ u := by
    intro hb hu hbu
    subst hbu
    obtain ⟨c, hc, hc1⟩ := b4 hb
    obtain ⟨c', hc', hc2⟩ := u4 hu
    rw [hc] at hc'; cases hc'
    have : c = 92 := by simpa using hc1
    subst this; revert hc2; decide
  have qb : q < i + 32 → b < i + 32 → q ≠ b := by
    intro hq hb hqb
    subst hqb
    obtain ⟨c, hc, hc1⟩ := q4 hq
    obtain ⟨c', hc', hc2⟩ := b4 hb
    rw [hc] at hc'; cases hc'
    have : c = 34 := by simpa using hc1
    subst this; revert hc2; decide
  refine ⟨?_, ?_, ?_, ?_⟩
  · intro huq
    have hu : u < i + 32 := by omega
    obtain ⟨cu, hcu, hcu1⟩ := u4 hu
    by_cases hbu : b < u
    · have hb : b < i + 32 := by omega
      obtain ⟨cb, hcb, hcb1⟩ := b4 hb
      have hcb92 : cb = 92 := by simpa using hcb1
      subst hcb92
      rw [view_run lossy buf _ i b rfl b1 (plain b (by omega) (Nat.le_refl _) (by omega))]
      cases hv : (decodeFrom lossy buf b).view with
      | none => rfl
      | some r =>
        exfalso
        obtain ⟨bs, e⟩ := r
        obtain ⟨s1, s2, s3⟩ := view_shape lossy buf _ b bs e (Nat.le_refl _) hv
        have he : q ≤ e - 1 := by
          apply Classical.byContradiction; intro hlt
          obtain ⟨c, hc, hc1⟩ := q3 (e - 1) (by omega) (by omega)
          rw [s2] at hc; cases hc
          revert hc1; decide
        obtain ⟨c, hc, hc1⟩ := s3 u (by omega) (by omega)
        rw [hcu] at hc; cases hc
        rw [hcu1] at hc1; cases hc1
    · have hub : u < b := by
        have := bu
        by_cases hb : b < i + 32
        · have := this hb hu; omega
        · omega
      rw [view_run lossy buf _ i u rfl u1 (plain u (by omega) (by omega) (Nat.le_refl _)), view_ctl lossy buf u cu hcu hcu1]
      rfl
  · intro hnu hqb
    have hq : q < i + 32 := by omega
    obtain ⟨cq, hcq, hcq1⟩ := q4 hq
    have : cq = 34 := by simpa using hcq1
    subst this
    rw [view_run lossy buf _ i q rfl q1 (plain q (Nat.le_refl _) (by omega) (by omega)), view_quote lossy buf q hcq]
    simp
  · intro hnu hbq
    have hb : b < i + 32 := by omega
    obtain ⟨cb, hcb, hcb1⟩ := b4 hb
    have : cb = 92 := by simpa using hcb1
    subst this
    exact ⟨hcb, b1, view_run lossy buf _ i b rfl b1 (plain b (by omega) (Nat.le_refl _) (by omega))⟩
  · intro hnu h1 h2
    have hqb : q = b := by omega
    have hq32 : q = i + 32 := by
      apply Classical.byContradiction; intro hne
      exact qb (by omega) (by omega) hqb
    exact view_run lossy buf _ i (i + 32) rfl (by omega) (plain (i + 32) (by omega) (by omega) (by omega))


def accView (acc : List UInt8) (o : Option (List UInt8 × Nat)) : Option (List UInt8 × Nat) := o.map (fun r => (acc ++ r.1, r.2))

theorem accView_map (acc m : List UInt8) (o : Option (List UInt8 × Nat)) :
    accView acc (o.map (fun r => (m ++ r.1, r.2))) = accView (acc ++ m) o := by
  cases o <;> simp [accView]

theorem accView_cons (acc : List UInt8) (c : UInt8) (o : Option (List UInt8 × Nat)) :
    accView acc (o.map (fun r => (c :: r.1, r.2))) = accView (acc ++ [c]) o := by
  cases o <;> simp [accView]

/-- **`parse_string_escaped` with its 32-byte blocks against the scalar decoder** -/
theorem esc_spec (lossy : Bool) (buf : Buf) : ∀ f,
    (∀ acc b r, buf[b]? = some 92 → escEntry true lossy buf f acc (b + 1) = some r →
        r.view = accView acc (decodeFrom lossy buf b).view) ∧
    (∀ acc i r, escLoop true lossy buf f acc i = some r → r.view = accView acc (decodeFrom lossy buf i).view) ∧
    (∀ acc i r, escTail true lossy buf f acc i = some r → r.view = accView acc (decodeFrom lossy buf i).view) := by
  intro f
  induction f with
  | zero => refine ⟨?_, ?_, ?_⟩ <;> (intros; simp [escEntry, escLoop, escTail] at *)
  | succ f ih =>
    obtain ⟨ihA, ihB, ihC⟩ := ih
    refine ⟨?_, ?_, ?_⟩
    · intro acc b r hb h
      rw [escEntry] at h
      have hs := escChars_spec lossy buf (f + 1) b acc hb
      cases hc : escChars lossy buf (f + 1) (b + 1) acc with
      | none => rw [hc] at h; cases h
      | some x =>
        rw [hc] at h hs
        cases x with
        | none =>
          simp only [Option.some.injEq] at h
          simp only [EscPost] at hs
          rw [← h, hs]; rfl
        | some p =>
          obtain ⟨acc', j⟩ := p
          simp only at h
          simp only [EscPost] at hs
          obtain ⟨mid, h1, h2, h3, h4⟩ := hs
          rw [ihB acc' j r h, h4, accView_map, h1]
    · intro acc i r h
      rw [escLoop] at h
      by_cases hblk : i + 32 ≤ buf.size
      · simp only [hblk, if_true] at h
        obtain ⟨c1, c2, c3, c4⟩ := block_view lossy buf i hblk
        generalize findP (· == 34) buf i (i + 32) = q at *
        generalize findP (· == 92) buf i (i + 32) = b at *
        generalize findP isCtl buf i (i + 32) = u at *
        by_cases huq : u < q
        · simp only [huq, if_true, Option.some.injEq] at h
          rw [← h, c1 huq]; rfl
        · simp only [huq, if_false] at h
          by_cases hqb : q < b
          · simp only [hqb, if_true, Option.some.injEq] at h
            rw [← h, c2 huq hqb]; simp [DecRes.view, accView]
          · simp only [hqb, if_false] at h
            by_cases hbq : b < q
            · simp only [hbq, if_true] at h
              obtain ⟨d1, d2, d3⟩ := c3 huq hbq
              rw [ihA _ b r d1 h, d3, accView_map]
            · simp only [hbq, if_false] at h
              rw [ihB _ _ r h, c4 huq hqb hbq, accView_map]
      · simp only [hblk, if_false] at h
        exact ihC acc i r h
    · intro acc i r h
      rw [escTail] at h
      cases hb : buf[i]? with
      | none =>
        simp only [hb, Option.some.injEq] at h
        rw [← h, view_eof lossy buf i hb]; rfl
      | some c =>
        simp only [hb] at h
        by_cases hq : (c == 34) = true
        · simp only [hq, if_true, Option.some.injEq] at h
          have : c = 34 := by simpa using hq
          subst this
          rw [← h, view_quote lossy buf i hb]; simp [DecRes.view, accView]
        · simp only [hq, Bool.false_eq_true, if_false] at h
          by_cases hbs : (c == 92) = true
          · simp only [hbs, if_true] at h
            have : c = 92 := by simpa using hbs
            subst this
            exact ihA acc i r hb h
          · simp only [hbs, Bool.false_eq_true, if_false] at h
            by_cases hc : isCtl c = true
            · simp only [hc, if_true, Option.some.injEq] at h
              rw [← h, view_ctl lossy buf i c hb hc]; rfl
            · simp only [hc, Bool.false_eq_true, if_false] at h
              have := ihC _ _ r h
              rw [this, view_plain lossy buf i c hb (by simpa using hq) (by simpa using hbs) (by simpa using hc), accView_cons]

/-- **`parse_string_raw` with its 32-byte blocks against the scalar decoder** -/
theorem raw_spec (lossy : Bool) (buf : Buf) : ∀ f,
    (∀ start i r, start ≤ i → rawLoop true lossy buf f start i = some r →
        r.view = accView (bytes buf start i) (decodeFrom lossy buf i).view) ∧
    (∀ start i r, start ≤ i → rawTail true lossy buf f start i = some r →
        r.view = accView (bytes buf start i) (decodeFrom lossy buf i).view) := by
  intro f
  induction f with
  | zero => refine ⟨?_, ?_⟩ <;> (intros; simp [rawLoop, rawTail] at *)
  | succ f ih =>
    obtain ⟨ihD, ihE⟩ := ih
    refine ⟨?_, ?_⟩
    · intro start i r hsi h
      rw [rawLoop] at h
      by_cases hblk : i + 32 ≤ buf.size
      · simp only [hblk, if_true] at h
        obtain ⟨c1, c2, c3, c4⟩ := block_view lossy buf i hblk
        obtain ⟨q1, q2, _, _⟩ := findP_spec (· == 34) buf 32 i (i + 32) (by omega) (by omega) hblk
        generalize findP (· == 34) buf i (i + 32) = q at *
        generalize findP (· == 92) buf i (i + 32) = b at *
        generalize findP isCtl buf i (i + 32) = u at *
        by_cases hfirst : q < b ∧ ¬ (u < q)
        · simp only [hfirst, not_false_eq_true, and_self, if_true, Option.some.injEq] at h
          rw [← h, c2 hfirst.2 hfirst.1]
          simp [DecRes.view, accView, bytes_append buf start i q hsi q1 (by omega)]
        · simp only [hfirst, if_false] at h
          by_cases huq : u < q
          · simp only [huq, if_true, Option.some.injEq] at h
            rw [← h, c1 huq]; rfl
          · simp only [huq, if_false] at h
            have hqb : ¬ q < b := fun hh => hfirst ⟨hh, huq⟩
            by_cases hbq : b < q
            · simp only [hbq, if_true] at h
              obtain ⟨d1, d2, d3⟩ := c3 huq hbq
              rw [(esc_spec lossy buf f).1 _ b r d1 h, d3, accView_map, bytes_append buf start i b hsi d2 (by omega)]
            · simp only [hbq, if_false] at h
              rw [ihD start (i + 32) r (by omega) h, c4 huq hqb hbq, accView_map,
                bytes_append buf start i (i + 32) hsi (by omega) hblk]
      · simp only [hblk, if_false] at h
        exact ihE start i r hsi h
    · intro start i r hsi h
      rw [rawTail] at h
      cases hb : buf[i]? with
      | none =>
        simp only [hb, Option.some.injEq] at h
        rw [← h, view_eof lossy buf i hb]; rfl
      | some c =>
        simp only [hb] at h
        by_cases hq : (c == 34) = true
        · simp only [hq, if_true, Option.some.injEq] at h
          have : c = 34 := by simpa using hq
          subst this
          rw [← h, view_quote lossy buf i hb]; simp [DecRes.view, accView]
        · simp only [hq, Bool.false_eq_true, if_false] at h
          by_cases hbs : (c == 92) = true
          · simp only [hbs, if_true] at h
            have : c = 92 := by simpa using hbs
            subst this
            exact (esc_spec lossy buf f).1 _ i r hb h
          · simp only [hbs, Bool.false_eq_true, if_false] at h
            by_cases hc : isCtl c = true
            · simp only [hc, if_true, Option.some.injEq] at h
              rw [← h, view_ctl lossy buf i c hb hc]; rfl
            · simp only [hc, Bool.false_eq_true, if_false] at h
              rw [ihE start (i + 1) r (by omega) h,
                view_plain lossy buf i c hb (by simpa using hq) (by simpa using hbs) (by simpa using hc),
                accView_cons, bytes_snoc buf start i c hsi hb]

/-! ### termination: every call moves the reader forward -/

theorem escChars_adv (lossy : Bool) (buf : Buf) : ∀ (f i : Nat) (acc acc' : List UInt8) (j : Nat),
    escChars lossy buf f i acc = some (some (acc', j)) → i < j := by
  intro f
  induction f with
  | zero => intro i acc acc' j h; simp [escChars] at h
  | succ f ih =>
    intro i acc acc' j h
    rw [escChars] at h
    cases hb : buf[i]? with
    | none => simp [hb] at h
    | some e =>
      simp only [hb] at h
      generalize escapedTab[e.toNat]?.getD 0 = t at h
      have key : ∀ (m : List UInt8) (j0 : Nat), i < j0 →
          (if buf[j0]? = some 92 then escChars lossy buf f (j0 + 1) m else some (some (m, j0))) = some (some (acc', j)) → i < j := by
        intro m j0 hj0 hh
        by_cases h92 : buf[j0]? = some 92
        · simp only [h92, if_true] at hh
          have := ih _ _ _ _ hh; omega
        · simp only [h92, if_false, Option.some.injEq, Prod.mk.injEq] at hh
          omega
      by_cases hu : (e == 117) = true
      · simp only [hu, if_true] at h
        cases hp : parseEscapedUtf8 lossy buf (i + 1) with
        | error x => simp [hp] at h
        | ok r =>
          obtain ⟨cp, j0⟩ := r
          simp only [hp] at h
          by_cases hem : (codepointToUtf8 cp).isEmpty = true
          · simp [hem] at h
          · simp only [hem, Bool.false_eq_true, if_false] at h
            have := peu_adv lossy buf (i + 1) cp j0 hp
            exact key _ j0 (by omega) h
      · simp only [hu, Bool.false_eq_true, if_false] at h
        by_cases ht : (t != 0) = true
        · simp only [ht, if_true] at h
          exact key _ (i + 1) (by omega) h
        · simp [ht] at h

theorem escChars_fuel (lossy : Bool) (buf : Buf) : ∀ (f i : Nat) (acc : List UInt8), 2 * (buf.size + 1 - i) + 2 ≤ f →
    escChars lossy buf f i acc ≠ none := by
  intro f
  induction f with
  | zero => intro i acc h; omega
  | succ f ih =>
    intro i acc hsz
    rw [escChars]
    cases hb : buf[i]? with
    | none => simp
    | some e =>
      have hi : i < buf.size := (Array.getElem?_eq_some_iff.mp hb).1
      simp only
      generalize escapedTab[e.toNat]?.getD 0 = t
      have key : ∀ (m : List UInt8) (j0 : Nat), i < j0 →
          (if buf[j0]? = some 92 then escChars lossy buf f (j0 + 1) m else some (some (m, j0))) ≠ none := by
        intro m j0 hj0
        by_cases h92 : buf[j0]? = some 92
        · simp only [h92, if_true]
          exact ih _ _ (by omega)
        · simp [h92]
      by_cases hu : (e == 117) = true
      · simp only [hu, if_true]
        cases hp : parseEscapedUtf8 lossy buf (i + 1) with
        | error x => simp
        | ok r =>
          obtain ⟨cp, j0⟩ := r
          simp only
          by_cases hem : (codepointToUtf8 cp).isEmpty = true
          · simp [hem]
          · simp only [hem, Bool.false_eq_true, if_false]
            have := peu_adv lossy buf (i + 1) cp j0 hp
            exact key _ j0 (by omega)
      · simp only [hu, Bool.false_eq_true, if_false]
        by_cases ht : (t != 0) = true
        · simp only [ht, if_true]; exact key _ (i + 1) (by omega)
        · simp [ht]

theorem esc_fuel (order lossy : Bool) (buf : Buf) : ∀ f,
    (∀ acc i, 2 * (buf.size + 1 - i) + 2 ≤ f → escEntry order lossy buf f acc i ≠ none) ∧
    (∀ acc i, 2 * (buf.size + 1 - i) + 2 ≤ f → escLoop order lossy buf f acc i ≠ none) ∧
    (∀ acc i, 2 * (buf.size + 1 - i) + 1 ≤ f → escTail order lossy buf f acc i ≠ none) := by
  intro f
  induction f with
  | zero => refine ⟨?_, ?_, ?_⟩ <;> (intro acc i h; omega)
  | succ f ih =>
    obtain ⟨ihA, ihB, ihC⟩ := ih
    refine ⟨?_, ?_, ?_⟩
    · intro acc i hsz
      rw [escEntry]
      have := escChars_fuel lossy buf (f + 1) i acc hsz
      cases hc : escChars lossy buf (f + 1) i acc with
      | none => exact absurd hc this
      | some x =>
        cases x with
        | none => simp
        | some p =>
          obtain ⟨acc', j⟩ := p
          simp only
          have hadv := escChars_adv lossy buf _ _ _ _ _ hc
          have hi : i < buf.size := by
            rw [escChars] at hc
            cases hb : buf[i]? with
            | none => simp [hb] at hc
            | some e => exact (Array.getElem?_eq_some_iff.mp hb).1
          exact ihB acc' j (by omega)
    · intro acc i hsz
      rw [escLoop]
      by_cases hblk : i + 32 ≤ buf.size
      · simp only [hblk, if_true]
        obtain ⟨b1, b2, _, _⟩ := findP_spec (· == 92) buf 32 i (i + 32) (by omega) (by omega) hblk
        generalize findP (· == 34) buf i (i + 32) = q
        generalize findP (· == 92) buf i (i + 32) = b at b1 b2
        generalize findP isCtl buf i (i + 32) = u
        cases order
        · simp only [Bool.false_eq_true, if_false]
          split
          · simp
          · split
            · exact ihA _ _ (by omega)
            · split
              · simp
              · exact ihB _ _ (by omega)
        · simp only [if_true]
          split
          · simp
          · split
            · simp
            · split
              · exact ihA _ _ (by omega)
              · exact ihB _ _ (by omega)
      · simp only [hblk, if_false]
        exact ihC _ _ (by omega)
    · intro acc i hsz
      rw [escTail]
      cases hb : buf[i]? with
      | none => simp
      | some c =>
        have hi : i < buf.size := (Array.getElem?_eq_some_iff.mp hb).1
        simp only
        split
        · simp
        · split
          · exact ihA _ _ (by omega)
          · split
            · simp
            · exact ihC _ _ (by omega)

theorem raw_fuel (order lossy : Bool) (buf : Buf) : ∀ f,
    (∀ start i, 2 * (buf.size + 1 - i) + 2 ≤ f → rawLoop order lossy buf f start i ≠ none) ∧
    (∀ start i, 2 * (buf.size + 1 - i) + 1 ≤ f → rawTail order lossy buf f start i ≠ none) := by
  intro f
  induction f with
  | zero => refine ⟨?_, ?_⟩ <;> (intro s i h; omega)
  | succ f ih =>
    obtain ⟨ihD, ihE⟩ := ih
    refine ⟨?_, ?_⟩
    · intro start i hsz
      rw [rawLoop]
      by_cases hblk : i + 32 ≤ buf.size
      · simp only [hblk, if_true]
        obtain ⟨b1, b2, _, _⟩ := findP_spec (· == 92) buf 32 i (i + 32) (by omega) (by omega) hblk
        generalize findP (· == 34) buf i (i + 32) = q
        generalize findP (· == 92) buf i (i + 32) = b at b1 b2
        generalize findP isCtl buf i (i + 32) = u
        split
        · simp
        · split
          · simp
          · split
            · exact (esc_fuel order lossy buf f).1 _ _ (by omega)
            · exact ihD _ _ (by omega)
      · simp only [hblk, if_false]
        exact ihE _ _ (by omega)
    · intro start i hsz
      rw [rawTail]
      cases hb : buf[i]? with
      | none => simp
      | some c =>
        have hi : i < buf.size := (Array.getElem?_eq_some_iff.mp hb).1
        simp only
        split
        · simp
        · split
          · exact (esc_fuel order lossy buf f).1 _ _ (by omega)
          · split
            · simp
            · exact ihE _ _ (by omega)

/-- **the copying decoder with its 32-byte blocks = the scalar decoder**, for every buffer and every start of a literal:
    whenever the block model terminates it accepts exactly the literals the scalar decoder accepts (which are the
    specification's, `decode_correct`), with the same bytes and the same end -/
theorem parseStringRaw_eq (lossy : Bool) (buf : Buf) (i : Nat) :
    ∃ r, parseStringRaw lossy buf i = some r ∧ r.view = (decodeFrom lossy buf i).view := by
  have hf := (raw_fuel true lossy buf (3 * buf.size + 8)).1 i i (by omega)
  cases h : parseStringRaw lossy buf i with
  | none => exact absurd h hf
  | some r =>
    refine ⟨r, rfl, ?_⟩
    have := (raw_spec lossy buf _).1 i i r (Nat.le_refl _) h
    rw [this, bytes_self]
    cases (decodeFrom lossy buf i).view <;> simp [accView]

/-- bytes that are neither backslash, quote nor control are passed over one by one -/
theorem skipString_run (buf : Buf) (len : Nat) : ∀ (n i j : Nat), j - i = n → i ≤ j →
    (∀ k, i ≤ k → k < j → ∃ c, buf[k]? = some c ∧ isSpecial c = false) → skipString buf len i = skipString buf len j := by
  intro n
  induction n with
  | zero => intro i j hn hij _; have : i = j := by omega
            subst this; rfl
  | succ n ih =>
    intro i j hn hij hp
    obtain ⟨c, hc, hs⟩ := hp i (Nat.le_refl _) (by omega)
    have hi : i < buf.size := (Array.getElem?_eq_some_iff.mp hc).1
    have hb : buf[i] = c := by
      have := getElem?_pos buf i hi; rw [hc] at this; exact (Option.some.inj this).symm
    simp only [isSpecial, Bool.or_eq_false_iff] at hs
    have e3 : ¬ (c ≤ 0x1f) := by simpa [isCtl] using hs.2
    conv => lhs; rw [skipString]
    simp only [hi, dite_true, hb, hs.1.1, hs.1.2, Bool.false_eq_true, if_false, e3]
    exact ih (i + 1) j (by omega) (by omega) (fun k a b => hp k (by omega) b)

/-- **the checked `skip_string` with its 32-byte blocks is the scalar `skip_string`** (same end, same error code and
    position), for every buffer and start -/
theorem skipStringB_eq (buf : Buf) (len : Nat) : ∀ (f i : Nat), skipStringB buf len f i ≠ .fuel →
    skipStringB buf len f i = skipString buf len i := by
  intro f
  induction f with
  | zero => intro i h; exact absurd (by rw [skipStringB]) h
  | succ f ih =>
    intro i hne
    rw [skipStringB] at hne ⊢
    by_cases hblk : i + 32 ≤ buf.size
    · simp only [hblk, if_true] at hne ⊢
      obtain ⟨m1, m2, m3, m4⟩ := findP_spec isSpecial buf 32 i (i + 32) (by omega) (by omega) hblk
      generalize findP isSpecial buf i (i + 32) = m at *
      by_cases hm : m < i + 32
      · simp only [hm, if_true] at hne ⊢
        obtain ⟨c, hc, hs⟩ := m4 hm
        simp only [hc] at hne ⊢
        rw [skipString_run buf len _ i m rfl m1 m3]
        have hi : m < buf.size := (Array.getElem?_eq_some_iff.mp hc).1
        have hb : buf[m] = c := by
          have := getElem?_pos buf m hi; rw [hc] at this; exact (Option.some.inj this).symm
        conv => rhs; rw [skipString]
        simp only [hi, dite_true, hb]
        by_cases h92 : (c == 92) = true
        · simp only [h92, if_true] at hne ⊢
          cases hse : skipEscapedChars buf len (m + 1) with
          | ok j =>
            simp only [hse] at hne ⊢
            by_cases hmj : m < j
            · simp only [hmj, if_true] at hne ⊢
              exact ih j hne
            · simp only [hmj, if_false] at hne; exact absurd rfl hne
          | err a b => rfl
          | fuel => rfl
        · simp only [h92, Bool.false_eq_true, if_false]
          by_cases h34 : (c == 34) = true
          · simp only [h34, if_true]
          · simp only [h34, Bool.false_eq_true, if_false]
            have hctl : c ≤ 0x1f := by
              simp only [isSpecial, h92, h34, Bool.false_or] at hs
              simpa [isCtl] using hs
            simp [hctl]
      · simp only [hm, if_false] at hne ⊢
        rw [ih _ hne]
        have : m = i + 32 := by omega
        subst this
        exact (skipString_run buf len _ i (i + 32) rfl (by omega) m3).symm
    · simp only [hblk, if_false]


theorem skipEscapedChars_adv (buf : Buf) (len i j : Nat) (h : skipEscapedChars buf len i = .ok j) : i < j := by
  unfold skipEscapedChars at h
  cases hb : buf[i]? with
  | none => simp [hb] at h
  | some c =>
    simp only [hb] at h
    repeat' split at h
    all_goals (first | (cases h; done) | (simp only [IRes.ok.injEq] at h; omega))

/-- the block loop always terminates: every round moves the reader forward -/
theorem skipEscapedChars_ne_fuel (buf : Buf) (len i : Nat) : skipEscapedChars buf len i ≠ .fuel := by
  unfold skipEscapedChars
  cases buf[i]? with
  | none => simp
  | some c => simp only; repeat' split
              all_goals simp

theorem skipStringB_fuel (buf : Buf) : ∀ (f i : Nat), 0 < f → buf.size + 1 ≤ f + i → skipStringB buf buf.size f i ≠ .fuel := by
  intro f
  induction f with
  | zero => intro i h; omega
  | succ f ih =>
    intro i _ hsz
    rw [skipStringB]
    by_cases hblk : i + 32 ≤ buf.size
    · simp only [hblk, if_true]
      obtain ⟨m1, m2, m3, m4⟩ := findP_spec isSpecial buf 32 i (i + 32) (by omega) (by omega) hblk
      generalize findP isSpecial buf i (i + 32) = m at *
      by_cases hm : m < i + 32
      · simp only [hm, if_true]
        obtain ⟨c, hc, hs⟩ := m4 hm
        simp only [hc]
        split
        · cases hse : skipEscapedChars buf buf.size (m + 1) with
          | ok j =>
            have := skipEscapedChars_adv buf buf.size _ j hse
            simp only
            rw [if_pos (by omega)]
            by_cases hj : j ≤ buf.size
            · exact ih j (by omega) (by omega)
            · -- the escape ran to the end of the input: the next round stops at once
              cases f with
              | zero => omega
              | succ f' =>
                rw [skipStringB]
                have : ¬ (j + 32 ≤ buf.size) := by omega
                simp only [this, if_false]
                exact skipString_ne_fuel buf j
          | err a b => simp
          | fuel => exact absurd hse (skipEscapedChars_ne_fuel buf buf.size _)
        · split <;> simp
      · simp only [hm, if_false]
        exact ih _ (by omega) (by omega)
    · simp only [hblk, if_false]
      exact skipString_ne_fuel buf i


end StrBlock
end Sonic
