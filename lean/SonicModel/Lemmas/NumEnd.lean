import SonicModel.Impl.Num
import SonicModel.Lemmas.SpecFuel
import SonicModel.Lemmas.LitProof
namespace Sonic
namespace DomP
open Gen Spec Impl

/-! ### the digit machine accepts every number token of the grammar, and stops where the token ends -/

theorem skipDigits_ge (buf : Buf) (i : Nat) : i ≤ skipDigits buf i := by
  fun_induction skipDigits buf i <;> omega

theorem skipDigits_digit (buf : Buf) (i : Nat) (h : isDigitAt buf i = true) : skipDigits buf i = skipDigits buf (i + 1) := by
  unfold isDigitAt at h
  cases hb : buf[i]? with
  | none => simp [hb] at h
  | some c =>
    simp only [hb] at h
    have hlt := (Array.getElem?_eq_some_iff.mp hb).1
    have hv := (Array.getElem?_eq_some_iff.mp hb).2
    rw [skipDigits]
    simp [hlt, hv, h]

theorem skipDigits_nondigit (buf : Buf) (i : Nat) (h : isDigitAt buf i = false) : skipDigits buf i = i := by
  unfold isDigitAt at h
  rw [skipDigits]
  by_cases hlt : i < buf.size
  · have hb : buf[i]? = some buf[i] := by simp [hlt]
    simp only [hb] at h
    simp [hlt, h]
  · simp [hlt]

theorem skipDigits_idem (buf : Buf) (i : Nat) : isDigitAt buf (skipDigits buf i) = false := by
  fun_induction skipDigits buf i
  · rename_i i hlt hd ih; exact ih
  · rename_i i hlt hd
    unfold isDigitAt
    have hb : buf[i]? = some buf[i] := by simp [hlt]
    simp only [hb]; simpa using hd
  · rename_i i hlt
    unfold isDigitAt
    have : buf[i]? = none := by simp; omega
    simp [this]

theorem expDigits_snd (buf : Buf) (bound : Nat) : ∀ (n j acc : Nat), buf.size - j = n →
    (expDigits buf bound j acc).2 = skipDigits buf j := by
  intro n
  induction n with
  | zero =>
    intro j acc hn
    rw [expDigits, skipDigits]
    have : ¬ j < buf.size := by omega
    simp [this]
  | succ n ih =>
    intro j acc hn
    rw [expDigits, skipDigits]
    have hlt : j < buf.size := by omega
    simp only [hlt, dite_true]
    by_cases hd : isDigit buf[j] = true
    · simp only [hd, if_true]; exact ih (j + 1) _ (by omega)
    · simp only [hd, Bool.false_eq_true, if_false]

/-- the exponent scanner and the grammar's exponent rule -/
theorem parseExponent_of_expo (buf : Buf) (bound k e : Nat) (hE : buf[k]? = some 101 ∨ buf[k]? = some 69)
    (h : expo buf k = some e) : ∃ v, parseExponent buf bound (k + 1) = some (v, e) := by
  unfold expo at h
  have hE' : (buf[k]? = some 101 || buf[k]? = some 69) = true := by simpa using hE
  simp only [hE', if_true] at h
  unfold parseExponent
  by_cases hs : (buf[k+1]? = some 45 || buf[k+1]? = some 43) = true
  · simp only [hs, if_true] at h
    split at h
    · rename_i hd
      simp only [Option.some.injEq] at h
      have hlt : ¬ k + 1 ≥ buf.size := by
        simp only [Bool.or_eq_true, decide_eq_true_eq] at hs
        rcases hs with h1 | h1 <;> (have := (Array.getElem?_eq_some_iff.mp h1).1; omega)
      have hs' : (buf[k+1]? = some 43 || buf[k+1]? = some 45) = true := by
        simp only [Bool.or_eq_true, decide_eq_true_eq] at hs ⊢; exact hs.symm
      simp only [hlt, if_false, hs', if_true, hd, Bool.not_true, Bool.false_eq_true]
      have := expDigits_snd buf bound _ (k + 1 + 1) 0 rfl
      rw [skipDigits_digit buf _ hd] at this
      rw [show k + 2 + 1 = k + 1 + 1 + 1 by omega] at h
      cases hx : expDigits buf bound (k + 1 + 1) 0 with
      | mk v idx =>
        rw [hx] at this
        simp only at this
        exact ⟨_, by rw [this, h]⟩
    · simp at h
  · simp only [hs, Bool.false_eq_true, if_false] at h
    split at h
    · rename_i hd
      simp only [Option.some.injEq] at h
      have hlt : ¬ k + 1 ≥ buf.size := by
        unfold isDigitAt at hd
        cases hb : buf[k+1]? with
        | none => simp [hb] at hd
        | some c => have := (Array.getElem?_eq_some_iff.mp hb).1; omega
      have hs' : (buf[k+1]? = some 43 || buf[k+1]? = some 45) = false := by
        simp only [Bool.or_eq_true, decide_eq_true_eq, not_or] at hs
        simp [hs.1, hs.2]
      simp only [hlt, if_false, hs', Bool.false_eq_true, hd, Bool.not_true]
      have := expDigits_snd buf bound _ (k + 1) 0 rfl
      rw [skipDigits_digit buf _ hd] at this
      cases hx : expDigits buf bound (k + 1) 0 with
      | mk v idx =>
        rw [hx] at this
        simp only at this
        exact ⟨_, by rw [this, h]⟩
    · simp at h

theorem expo_noexp (buf : Buf) (k : Nat) (h : ¬ (buf[k]? = some 101 ∨ buf[k]? = some 69)) : expo buf k = some k := by
  unfold expo
  have : (buf[k]? = some 101 || buf[k]? = some 69) = false := by
    simp only [not_or] at h; simp [h.1, h.2]
  simp [this]

theorem takeDigits_snd (buf : Buf) : ∀ (need i sig : Nat),
    i ≤ (takeDigits buf need i sig).2 ∧ skipDigits buf (takeDigits buf need i sig).2 = skipDigits buf i := by
  intro need
  induction need with
  | zero => intro i sig; simp [takeDigits]
  | succ need ih =>
    intro i sig
    unfold takeDigits
    by_cases hd : isDigitAt buf i = true
    · simp only [hd, if_true]
      have := ih (i + 1) (sig * 10 + dig buf i)
      exact ⟨by omega, by rw [this.2, skipDigits_digit buf i hd]⟩
    · simp only [hd, Bool.false_eq_true, if_false]; exact ⟨Nat.le_refl _, trivial⟩

/-- the fraction reader, started anywhere inside the fraction digits, ends where the grammar's exponent rule ends -/
theorem parseFraction_of_expo (buf : Buf) (bound i sig : Nat) (exp need : Int) (dot e : Nat)
    (h : expo buf (skipDigits buf i) = some e) :
    ∃ s x t, parseFraction buf bound i sig exp need dot = some (s, x, t, e) := by
  unfold parseFraction
  -- where the optional `takeDigits` leaves the reader
  have key : ∀ (p : Nat × Nat), skipDigits buf p.2 = skipDigits buf i →
      ∃ s x t, (let exp' := exp - ((p.2 : Int) - (dot : Int))
        let j := skipDigits buf p.2
        let trunc := decide (p.2 < j)
        if buf[j]? = some 101 || buf[j]? = some 69 then
          match parseExponent buf bound (j+1) with
          | some (e, k) => some (p.1, exp' + e, trunc, k)
          | none => none
        else some (p.1, exp', trunc, j)) = some (s, x, t, e) := by
    intro p hp
    simp only [hp]
    by_cases hE : (buf[skipDigits buf i]? = some 101 || buf[skipDigits buf i]? = some 69) = true
    · simp only [hE, if_true]
      obtain ⟨v, hv⟩ := parseExponent_of_expo buf bound _ e (by simpa using hE) h
      simp only [hv]
      exact ⟨_, _, _, rfl⟩
    · simp only [hE, Bool.false_eq_true, if_false]
      have := expo_noexp buf (skipDigits buf i) (by simpa using hE)
      rw [this] at h
      simp only [Option.some.injEq] at h
      rw [h]
      exact ⟨_, _, _, rfl⟩
  by_cases hn : need > 0
  · simp only [hn, if_true]
    exact key (takeDigits buf need.toNat i sig) (takeDigits_snd buf _ i sig).2
  · simp only [hn, if_false]
    exact key (sig, i) rfl

end DomP
end Sonic

namespace Sonic
namespace DomP
open Gen Spec Impl

theorem skipZeros_spec (buf : Buf) : ∀ (fuel k : Nat), buf.size - k ≤ fuel →
    k ≤ parseNumber.skipZeros buf k fuel ∧
    (∀ x, k ≤ x → x < parseNumber.skipZeros buf k fuel → buf[x]? = some 48) ∧
    buf[parseNumber.skipZeros buf k fuel]? ≠ some 48 := by
  intro fuel
  induction fuel with
  | zero =>
    intro k hk
    unfold parseNumber.skipZeros
    refine ⟨Nat.le_refl _, fun x a b => by omega, ?_⟩
    have : buf[k]? = none := by simp; omega
    simp [this]
  | succ fuel ih =>
    intro k hk
    unfold parseNumber.skipZeros
    by_cases hz : buf[k]? = some 48
    · simp only [hz, if_true]
      have := ih (k + 1) (by omega)
      refine ⟨by omega, ?_, this.2.2⟩
      intro x a b
      by_cases hx : x = k
      · subst hx; exact hz
      · exact this.2.1 x (by omega) b
    · simp only [hz, if_false]
      exact ⟨Nat.le_refl _, fun x a b => by omega, hz⟩

theorem skipDigits_through (buf : Buf) : ∀ (n k r : Nat), r - k = n → k ≤ r →
    (∀ x, k ≤ x → x < r → isDigitAt buf x = true) → skipDigits buf k = skipDigits buf r := by
  intro n
  induction n with
  | zero => intro k r hn hkr _; have : k = r := by omega
            subst this; rfl
  | succ n ih =>
    intro k r hn hkr hd
    rw [skipDigits_digit buf k (hd k (Nat.le_refl _) (by omega))]
    exact ih (k + 1) r (by omega) (by omega) (fun x a b => hd x (by omega) b)

theorem isDigitAt_zero (buf : Buf) (x : Nat) (h : buf[x]? = some 48) : isDigitAt buf x = true := by
  unfold isDigitAt; simp only [h]; decide

end DomP
end Sonic
