import SonicModel.Lemmas.SpecFuel
import SonicModel.Lemmas.StrDecode
namespace Sonic
namespace Spec
open Gen

/-! ### what the strict grammar accepts the lazy grammar accepts, with the same extent -/

theorem uEscape_shape (buf : Buf) (i cp j : Nat) (h : uEscape false buf i = some (cp, j)) :
    hex4ok buf i = true ∧
      (j = i + 4 ∨ (j = i + 10 ∧ buf[i+4]? = some 92 ∧ buf[i+5]? = some 117 ∧ hex4ok buf (i+6) = true)) := by
  unfold uEscape at h
  by_cases hk : hex4ok buf i = true
  · refine ⟨hk, ?_⟩
    simp only [hk, Bool.not_true, Bool.false_eq_true, if_false] at h
    split at h
    · split at h
      · rename_i hq
        simp only [Bool.and_eq_true, decide_eq_true_eq] at hq
        simp only [Option.some.injEq, Prod.mk.injEq] at h
        exact Or.inr ⟨h.2.symm, hq.1.1.1.1, hq.1.1.1.2, hq.1.1.2⟩
      · simp at h
    · split at h
      · simp at h
      · simp only [Option.some.injEq, Prod.mk.injEq] at h
        exact Or.inl h.2.symm
  · simp [hk] at h

theorem simple_ne_u' : ∀ e : UInt8, e = 117 → isSimpleEsc e = false := by
  intro e h; subst h; decide

/-- a literal the strict decoder accepts is a literal of the grammar, with the same end -/
theorem stringS_stringG (buf : Buf) : ∀ (n i : Nat), buf.size - i = n → ∀ name e,
    stringS false buf i = some (name, e) → stringG buf i = some e := by
  intro n
  induction n using Nat.strongRecOn with
  | _ n ih =>
    intro i hn name e h
    rw [stringS] at h
    rw [stringG]
    by_cases hlt : i < buf.size
    · simp only [hlt, dite_true] at h ⊢
      by_cases hq : (buf[i] == 34) = true
      · simp only [hq, if_true, Option.some.injEq, Prod.mk.injEq] at h ⊢
        exact h.2
      · simp only [hq, Bool.false_eq_true, if_false] at h ⊢
        by_cases hbs : (buf[i] == 92) = true
        · simp only [hbs, if_true] at h ⊢
          cases h1 : buf[i+1]? with
          | none => simp [h1] at h
          | some c =>
            simp only [h1] at h ⊢
            by_cases hse : isSimpleEsc c = true
            · simp only [hse, if_true] at h ⊢
              cases hr : stringS false buf (i+2) with
              | none => simp [hr] at h
              | some r =>
                obtain ⟨s, j⟩ := r
                simp only [hr, Option.map_some, Option.some.injEq, Prod.mk.injEq] at h
                rw [← h.2]
                exact ih (buf.size - (i+2)) (by omega) (i+2) rfl s j hr
            · simp only [hse, Bool.false_eq_true, if_false] at h ⊢
              by_cases hu : (c == 117) = true
              · simp only [hu, if_true] at h ⊢
                cases hue : uEscape false buf (i+2) with
                | none => simp [hue] at h
                | some r =>
                  obtain ⟨cp, j⟩ := r
                  simp only [hue] at h
                  obtain ⟨hx, hshape⟩ := uEscape_shape buf (i+2) cp j hue
                  by_cases hj : i + 2 < j
                  · simp only [hj, dite_true] at h
                    cases hr : stringS false buf j with
                    | none => simp [hr] at h
                    | some r2 =>
                      obtain ⟨s, k⟩ := r2
                      simp only [hr, Option.map_some, Option.some.injEq, Prod.mk.injEq] at h
                      have hrec := ih (buf.size - j) (by omega) j rfl s k hr
                      simp only [hx, if_true]
                      rcases hshape with rfl | ⟨rfl, hb1, hb2, hx2⟩
                      · rw [show i + 6 = i + 2 + 4 by omega, hrec, h.2]
                      · -- a surrogate pair: the second escape is one more `\\uXXXX` for the grammar
                        have hlt6 : i + 6 < buf.size := by
                          have := (Array.getElem?_eq_some_iff.mp hb1).1; omega
                        rw [stringG]
                        have hb1' : buf[i+6]? = some 92 := by rw [show i + 6 = i + 2 + 4 by omega]; exact hb1
                        have hv6 : buf[i+6] = 92 := (Array.getElem?_eq_some_iff.mp hb1').2
                        have e1 : ((92 : UInt8) == 34) = false := by decide
                        simp only [hlt6, dite_true, hv6, e1, Bool.false_eq_true, if_false, beq_self_eq_true, if_true]
                        have hb2' : buf[i+6+1]? = some 117 := by rw [show i + 6 + 1 = i + 2 + 5 by omega]; exact hb2
                        simp only [hb2']
                        have e2 : isSimpleEsc 117 = false := by decide
                        have hx2' : hex4ok buf (i+6+2) = true := by rw [show i + 6 + 2 = i + 2 + 6 by omega]; exact hx2
                        simp only [e2, Bool.false_eq_true, if_false, beq_self_eq_true, if_true, hx2']
                        rw [show i + 6 + 6 = i + 2 + 10 by omega, hrec, h.2]
                  · simp [hj] at h
              · simp [hu] at h
        · simp only [hbs, Bool.false_eq_true, if_false] at h ⊢
          by_cases hctl : buf[i] < 32
          · simp [hctl] at h
          · simp only [hctl, if_false] at h ⊢
            cases hr : stringS false buf (i+1) with
            | none => simp [hr] at h
            | some r =>
              obtain ⟨s, j⟩ := r
              simp only [hr, Option.map_some, Option.some.injEq, Prod.mk.injEq] at h
              rw [← h.2]
              exact ih (buf.size - (i+1)) (by omega) (i+1) rfl s j hr
    · simp [hlt] at h

theorem string_strict_lazy (buf : Buf) (i e : Nat) (h : string true buf i = some e) : string false buf i = some e := by
  unfold string at h ⊢
  simp only [if_true] at h
  simp only [Bool.false_eq_true, if_false]
  cases hs : stringS false buf i with
  | none => simp [hs] at h
  | some r =>
    obtain ⟨name, e'⟩ := r
    simp only [hs, Option.map_some, Option.some.injEq] at h
    rw [← h]
    exact stringS_stringG buf _ i rfl name e' hs

theorem numberS_strict_lazy (buf : Buf) (i e : Nat) (h : numberS true buf i = some e) : numberS false buf i = some e := by
  rw [numberS_false]
  unfold numberS at h
  cases hn : number buf i with
  | none => simp [hn] at h
  | some e' =>
    simp only [hn] at h
    split at h
    · simp at h
    · simpa using h

end Spec
end Sonic

namespace Sonic
namespace Spec
open Gen

theorem ofOpt_ok_iff (o : Option Nat) (e : Nat) : Res.ofOpt o = .ok e ↔ o = some e := by
  cases o <;> simp [Res.ofOpt]

/-- **a document of the strict grammar is a document of the lazy grammar**, value by value and with the same extents -/
theorem strict_lazy : ∀ f buf i,
    (∀ e, value true f buf i = .ok e → value false f buf i = .ok e) ∧
    (∀ e, elems true f buf i = .ok e → elems false f buf i = .ok e) ∧
    (∀ e, members true f buf i = .ok e → members false f buf i = .ok e) := by
  intro f
  induction f with
  | zero =>
    intro buf i
    refine ⟨?_, ?_, ?_⟩ <;> (intro e h; simp [value, elems, members] at h)
  | succ f ih =>
    intro buf i
    have ih1 := fun j => (ih buf j).1
    have ih2 := fun j => (ih buf j).2.1
    have ih3 := fun j => (ih buf j).2.2
    refine ⟨?_, ?_, ?_⟩
    · intro e h
      unfold value at h ⊢
      cases hb : buf[i]? with
      | none => simp [hb] at h
      | some c =>
        simp only [hb] at h ⊢
        by_cases h1 : (c == 45 || isDigit c) = true
        · simp only [h1, if_true] at h ⊢
          rw [ofOpt_ok_iff] at h ⊢
          exact numberS_strict_lazy buf i e h
        · simp only [h1, Bool.false_eq_true, if_false] at h ⊢
          by_cases h2 : (c == 34) = true
          · simp only [h2, if_true] at h ⊢
            rw [ofOpt_ok_iff] at h ⊢
            exact string_strict_lazy buf (i+1) e h
          · simp only [h2, Bool.false_eq_true, if_false] at h ⊢
            by_cases h3 : (c == 123) = true
            · simp only [h3, if_true] at h ⊢
              split at h
              · rename_i hc; simp only [hc, if_true]; exact h
              · rename_i hc; simp only [hc, if_false]; exact ih3 _ e h
            · simp only [h3, Bool.false_eq_true, if_false] at h ⊢
              by_cases h4 : (c == 91) = true
              · simp only [h4, if_true] at h ⊢
                split at h
                · rename_i hc; simp only [hc, if_true]; exact h
                · rename_i hc; simp only [hc, if_false]; exact ih2 _ e h
              · simp only [h4, Bool.false_eq_true, if_false] at h ⊢
                exact h
    · intro e h
      unfold elems at h ⊢
      cases hv : value true f buf i with
      | ok e1 =>
        simp only [hv] at h
        simp only [ih1 i e1 hv]
        split at h
        · rename_i hc; simp only [hc, if_true]; exact h
        · rename_i hc
          simp only [hc, if_false]
          split at h
          · rename_i hc2; simp only [hc2, if_true]; exact ih2 _ e h
          · simp at h
      | err => simp [hv] at h
      | fuel => simp [hv] at h
    · intro e h
      unfold members at h ⊢
      split at h
      · rename_i hq
        simp only [hq, if_true]
        cases hs : string true buf (i+1) with
        | none => simp [hs] at h
        | some k =>
          simp only [hs] at h
          simp only [string_strict_lazy buf (i+1) k hs]
          split at h
          · rename_i hcol
            simp only [hcol, if_true]
            cases hv : value true f buf (skipWs buf (skipWs buf k + 1)) with
            | ok e1 =>
              simp only [hv] at h
              simp only [ih1 _ e1 hv]
              split at h
              · rename_i hc; simp only [hc, if_true]; exact h
              · rename_i hc
                simp only [hc, if_false]
                split at h
                · rename_i hc2; simp only [hc2, if_true]; exact ih3 _ e h
                · simp at h
            | err => simp [hv] at h
            | fuel => simp [hv] at h
          · simp at h
      · simp at h

theorem value_strict_lazy (buf : Buf) (f i e : Nat) (h : value true f buf i = .ok e) : value false f buf i = .ok e :=
  (strict_lazy f buf i).1 e h

end Spec
end Sonic
