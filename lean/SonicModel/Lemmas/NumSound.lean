import SonicModel.Lemmas.NumAccept
/-! the digit machine accepts ONLY number tokens (the converse of Lemmas/NumAccept) -/
namespace Sonic
namespace DomP
open Gen Spec Impl

/-- the exponent scanner accepts only what the grammar's exponent rule accepts, and ends where it ends -/
theorem expo_of_parseExponent (buf : Buf) (bound k e : Nat) (v : Int) (hE : buf[k]? = some 101 ∨ buf[k]? = some 69)
    (h : parseExponent buf bound (k + 1) = some (v, e)) : expo buf k = some e := by
  cases hx : expo buf k with
  | some e' =>
    obtain ⟨v', hv'⟩ := parseExponent_of_expo buf bound k e' hE hx
    rw [h] at hv'
    simp only [Option.some.injEq, Prod.mk.injEq] at hv'
    rw [hv'.2]
  | none =>
    exfalso
    unfold expo at hx
    have hE' : (buf[k]? = some 101 || buf[k]? = some 69) = true := by simpa using hE
    simp only [hE', if_true] at hx
    unfold parseExponent at h
    by_cases hs : (buf[k+1]? = some 45 || buf[k+1]? = some 43) = true
    · have hs' : (buf[k+1]? = some 43 || buf[k+1]? = some 45) = true := by
        simp only [Bool.or_eq_true, decide_eq_true_eq] at hs ⊢; exact hs.symm
      simp only [hs, if_true] at hx
      simp only [hs', if_true] at h
      split at hx
      · simp at hx
      · rename_i hd
        simp [hd] at h
    · have hs' : (buf[k+1]? = some 43 || buf[k+1]? = some 45) = false := by
        simp only [Bool.or_eq_true, decide_eq_true_eq, not_or] at hs
        simp [hs.1, hs.2]
      simp only [hs, Bool.false_eq_true, if_false] at hx
      simp only [hs', Bool.false_eq_true, if_false] at h
      split at hx
      · simp at hx
      · rename_i hd
        simp [hd] at h

theorem parseFraction_end (buf : Buf) (bound i sig : Nat) (exp need : Int) (dot : Nat) (s : Nat) (x : Int) (t : Bool) (e : Nat)
    (h : parseFraction buf bound i sig exp need dot = some (s, x, t, e)) : expo buf (skipDigits buf i) = some e := by
  unfold parseFraction at h
  by_cases hn : need > 0
  · simp only [hn, if_true] at h
    have hsn := (takeDigits_snd buf need.toNat i sig).2
    generalize takeDigits buf need.toNat i sig = td at h hsn
    obtain ⟨sig', i'⟩ := td
    simp only at h hsn
    rw [← hsn]
    by_cases hE : (buf[skipDigits buf i']? = some 101 || buf[skipDigits buf i']? = some 69) = true
    · simp only [hE, if_true] at h
      have hEo : buf[skipDigits buf i']? = some 101 ∨ buf[skipDigits buf i']? = some 69 := by simpa using hE
      cases hp : parseExponent buf bound (skipDigits buf i' + 1) with
      | none => simp [hp] at h
      | some r =>
        obtain ⟨e0, k⟩ := r
        simp only [hp, Option.some.injEq, Prod.mk.injEq] at h
        rw [← h.2.2.2]
        exact expo_of_parseExponent buf bound _ k e0 hEo hp
    · simp only [hE, Bool.false_eq_true, if_false, Option.some.injEq, Prod.mk.injEq] at h
      have hEo : ¬ (buf[skipDigits buf i']? = some 101 ∨ buf[skipDigits buf i']? = some 69) := by simpa using hE
      rw [expo_noexp buf _ hEo, h.2.2.2]
  · simp only [hn, if_false] at h
    by_cases hE : (buf[skipDigits buf i]? = some 101 || buf[skipDigits buf i]? = some 69) = true
    · simp only [hE, if_true] at h
      have hEo : buf[skipDigits buf i]? = some 101 ∨ buf[skipDigits buf i]? = some 69 := by simpa using hE
      cases hp : parseExponent buf bound (skipDigits buf i + 1) with
      | none => simp [hp] at h
      | some r =>
        obtain ⟨e0, k⟩ := r
        simp only [hp, Option.some.injEq, Prod.mk.injEq] at h
        rw [← h.2.2.2]
        exact expo_of_parseExponent buf bound _ k e0 hEo hp
    · simp only [hE, Bool.false_eq_true, if_false, Option.some.injEq, Prod.mk.injEq] at h
      have hEo : ¬ (buf[skipDigits buf i]? = some 101 ∨ buf[skipDigits buf i]? = some 69) := by simpa using hE
      rw [expo_noexp buf _ hEo, h.2.2.2]


theorem zeros_digits (buf : Buf) (a z : Nat) (h : ∀ x, a ≤ x → x < z → buf[x]? = some 48) (haz : a ≤ z) :
    skipDigits buf a = skipDigits buf z :=
  skipDigits_through buf _ a z rfl haz (fun x h1 h2 => isDigitAt_zero buf x (h x h1 h2))

/-- **the digit machine accepts only number tokens**: whenever `parse_number` does not answer `invalid` and does not stop
    in front of a digit, what it consumed is a number token of the grammar -/
theorem afterFirst_of_parseNumber (buf : Buf) (bound i1 : Nat) (neg : Bool) (p : PNum) (k : Nat)
    (h : parseNumber buf bound i1 neg = (p, k)) (hp : p ≠ .invalid) (hnd : isDigitAt buf k = false) :
    ∃ d, buf[i1]? = some d ∧ isDigit d = true ∧ afterFirst buf d (i1 + 1) = some k := by
  unfold parseNumber at h
  by_cases hz : buf[i1]? = some 48
  · rw [if_pos hz] at h
    refine ⟨48, hz, by decide, ?_⟩
    unfold afterFirst
    simp only [beq_self_eq_true, if_true, Bool.true_and]
    by_cases h46 : buf[i1 + 1]? = some 46
    · simp only [h46] at h
      have hnd1 : isDigitAt buf (i1 + 1) = false := by unfold isDigitAt; rw [h46]; decide
      simp only [hnd1, Bool.false_eq_true, if_false]
      by_cases hd2 : isDigitAt buf (i1 + 1 + 1) = true
      · simp only [hd2, Bool.not_true, Bool.false_eq_true, if_false] at h
        have hfrac : frac buf (i1 + 1) = some (skipDigits buf (i1 + 1 + 2)) := by
          unfold frac; simp [h46, hd2]
        rw [hfrac, Option.bind_some]
        have hz' := skipZeros_spec buf (buf.size - (i1 + 1 + 1)) (i1 + 1 + 1) (Nat.le_refl _)
        generalize parseNumber.skipZeros buf (i1 + 1 + 1) (buf.size - (i1 + 1 + 1)) = z at hz' h
        obtain ⟨hk1, hk2, hk3⟩ := hz'
        have hD : skipDigits buf (i1 + 1 + 2) = skipDigits buf z := by
          rw [show i1 + 1 + 2 = i1 + 1 + 1 + 1 by omega, ← skipDigits_digit buf (i1 + 1 + 1) hd2]
          exact zeros_digits buf _ z hk2 hk1
        rw [hD]
        by_cases hE : (buf[z]? = some 101 || buf[z]? = some 69) = true
        · simp only [hE, if_true] at h
          have hEo : buf[z]? = some 101 ∨ buf[z]? = some 69 := by simpa using hE
          have hndz : isDigitAt buf z = false := by
            unfold isDigitAt; rcases hEo with h1 | h1 <;> (simp only [h1]; decide)
          rw [skipDigits_nondigit buf z hndz]
          cases hpe : parseExponent buf bound (z + 1) with
          | none => simp [hpe] at h; exact absurd h.1.symm hp
          | some r =>
            obtain ⟨v, k'⟩ := r
            simp only [hpe, Prod.mk.injEq] at h
            rw [← h.2]
            exact expo_of_parseExponent buf bound z k' v hEo hpe
        · simp only [hE, Bool.false_eq_true, if_false] at h
          have hEo : ¬ (buf[z]? = some 101 ∨ buf[z]? = some 69) := by simpa using hE
          by_cases hdz : isDigitAt buf z = true
          · simp only [hdz, Bool.not_true, Bool.false_eq_true, if_false] at h
            by_cases hdz1 : isDigitAt buf (z + 1) = true
            · simp only [hdz1, if_true] at h
              cases hpf : parseFraction buf bound (z + 1) (dig buf z) 0 16 (i1 + 1 + 1) with
              | none => simp [hpf] at h; exact absurd h.1.symm hp
              | some r =>
                obtain ⟨s, x, t, k'⟩ := r
                simp only [hpf, Prod.mk.injEq] at h
                rw [← h.2, skipDigits_digit buf z hdz]
                exact parseFraction_end buf bound _ _ _ _ _ s x t k' hpf
            · simp only [hdz1, Bool.false_eq_true, if_false] at h
              have hndz1 : isDigitAt buf (z + 1) = false := by simpa using hdz1
              rw [skipDigits_digit buf z hdz, skipDigits_nondigit buf _ hndz1]
              by_cases hE1 : (buf[z + 1]? = some 101 || buf[z + 1]? = some 69) = true
              · simp only [hE1, if_true] at h
                have hEo1 : buf[z + 1]? = some 101 ∨ buf[z + 1]? = some 69 := by simpa using hE1
                cases hpe : parseExponent buf bound (z + 1 + 1) with
                | none => simp [hpe] at h; exact absurd h.1.symm hp
                | some r =>
                  obtain ⟨v, k'⟩ := r
                  simp only [hpe, Prod.mk.injEq] at h
                  rw [← h.2]
                  exact expo_of_parseExponent buf bound (z + 1) k' v hEo1 hpe
              · simp only [hE1, Bool.false_eq_true, if_false, Prod.mk.injEq] at h
                have hEo1 : ¬ (buf[z + 1]? = some 101 ∨ buf[z + 1]? = some 69) := by simpa using hE1
                rw [expo_noexp buf _ hEo1, h.2]
          · simp only [hdz, Bool.not_false, if_true, Prod.mk.injEq] at h
            have hndz : isDigitAt buf z = false := by simpa using hdz
            rw [skipDigits_nondigit buf z hndz, expo_noexp buf z hEo, h.2]
      · simp only [hd2, Bool.not_false, if_true, Prod.mk.injEq] at h
        exact absurd h.1.symm hp
    · by_cases hE : buf[i1 + 1]? = some 101 ∨ buf[i1 + 1]? = some 69
      · have hnd1 : isDigitAt buf (i1 + 1) = false := by
          unfold isDigitAt; rcases hE with h1 | h1 <;> (simp only [h1]; decide)
        simp only [hnd1, Bool.false_eq_true, if_false]
        have hfrac : frac buf (i1 + 1) = some (i1 + 1) := by unfold frac; simp [h46]
        rw [hfrac, Option.bind_some]
        have hpe : ∃ r, parseExponent buf bound (i1 + 1 + 1) = some r ∧ r.2 = k := by
          rcases hE with h1 | h1 <;> simp only [h1] at h <;>
          (cases hpe : parseExponent buf bound (i1 + 1 + 1) with
           | none => simp [hpe] at h; exact absurd h.1.symm hp
           | some r => simp only [hpe, Prod.mk.injEq] at h; exact ⟨r, rfl, h.2⟩)
        obtain ⟨⟨v, k'⟩, hr, hk'⟩ := hpe
        simp only at hk'
        subst hk'
        exact expo_of_parseExponent buf bound (i1 + 1) _ v hE hr
      · have hk : k = i1 + 1 := by
          simp only [not_or] at hE
          cases hb : buf[i1 + 1]? with
          | none => simp only [hb, Prod.mk.injEq] at h; exact h.2.symm
          | some c =>
            rw [hb] at h46 hE
            simp only [hb] at h
            have c1 : c ≠ 46 := fun hh => h46 (by rw [hh])
            have c2 : c ≠ 101 := fun hh => hE.1 (by rw [hh])
            have c3 : c ≠ 69 := fun hh => hE.2 (by rw [hh])
            have hm : (match (some c : Option UInt8) with
                | some 46 => (1 : Nat)
                | some 101 => 2
                | some 69 => 2
                | _ => 3) = 3 := by
              split <;> simp_all
            clear hm
            split at h
            · rename_i heq; simp only [Option.some.injEq] at heq; exact absurd heq c1
            · rename_i heq; simp only [Option.some.injEq] at heq; exact absurd heq c2
            · rename_i heq; simp only [Option.some.injEq] at heq; exact absurd heq c3
            · simp only [Prod.mk.injEq] at h; exact h.2.symm
        subst hk
        simp only [hnd, Bool.false_eq_true, if_false]
        have hfrac : frac buf (i1 + 1) = some (i1 + 1) := by unfold frac; simp [h46]
        rw [hfrac, Option.bind_some, expo_noexp buf _ hE]
  · rw [if_neg hz] at h
    simp only at h
    by_cases hcnt : (skipDigits buf i1 - i1 == 0) = true
    · simp only [hcnt, if_true, Prod.mk.injEq] at h
      exact absurd h.1.symm hp
    · simp only [hcnt, Bool.false_eq_true, if_false] at h
      have hgt : i1 < skipDigits buf i1 := by
        have := skipDigits_ge buf i1
        simp only [beq_iff_eq] at hcnt; omega
      have hdi : isDigitAt buf i1 = true := by
        cases hx : isDigitAt buf i1 with
        | true => rfl
        | false => rw [skipDigits_nondigit buf i1 hx] at hgt; omega
      obtain ⟨d, hbd⟩ : ∃ d, buf[i1]? = some d := by
        unfold isDigitAt at hdi
        cases hb : buf[i1]? with
        | none => simp [hb] at hdi
        | some d => exact ⟨d, rfl⟩
      have hdd : isDigit d = true := by unfold isDigitAt at hdi; rw [hbd] at hdi; exact hdi
      have hd48 : (d == 48) = false := by
        rw [hbd] at hz
        have : d ≠ 48 := fun hh => hz (by rw [hh])
        simpa using this
      refine ⟨d, hbd, hdd, ?_⟩
      unfold afterFirst
      simp only [hd48, Bool.false_eq_true, if_false, Bool.false_and]
      rw [← skipDigits_digit buf i1 hdi]
      generalize skipDigits buf i1 = j at h hgt
      by_cases hE : (buf[j]? = some 101 || buf[j]? = some 69) = true
      · simp only [hE, if_true] at h
        have hEo : buf[j]? = some 101 ∨ buf[j]? = some 69 := by simpa using hE
        have h46 : buf[j]? ≠ some 46 := by rcases hEo with h1 | h1 <;> (rw [h1]; decide)
        have hfrac : frac buf j = some j := by unfold frac; simp [h46]
        rw [hfrac, Option.bind_some]
        cases hpe : parseExponent buf bound (j + 1) with
        | none => simp [hpe] at h; exact absurd h.1.symm hp
        | some r =>
          obtain ⟨v, k'⟩ := r
          simp only [hpe, Prod.mk.injEq] at h
          rw [← h.2]
          exact expo_of_parseExponent buf bound j k' v hEo hpe
      · simp only [hE, Bool.false_eq_true, if_false] at h
        have hEo : ¬ (buf[j]? = some 101 ∨ buf[j]? = some 69) := by simpa using hE
        by_cases h46 : buf[j]? = some 46
        · simp only [h46, if_true] at h
          by_cases hd1 : isDigitAt buf (j + 1) = true
          · simp only [hd1, Bool.not_true, Bool.false_eq_true, if_false] at h
            have hfrac : frac buf j = some (skipDigits buf (j + 2)) := by unfold frac; simp [h46, hd1]
            rw [hfrac, Option.bind_some, show j + 2 = j + 1 + 1 by omega, ← skipDigits_digit buf (j + 1) hd1]
            split at h
            · rename_i s x t k' hpf
              simp only [Prod.mk.injEq] at h
              rw [← h.2]
              exact parseFraction_end buf bound _ _ _ _ _ s x t k' hpf
            · simp only [Prod.mk.injEq] at h; exact absurd h.1.symm hp
          · simp only [hd1, Bool.not_false, if_true, Prod.mk.injEq] at h
            exact absurd h.1.symm hp
        · simp only [h46, if_false] at h
          have hfrac : frac buf j = some j := by unfold frac; simp [h46]
          rw [hfrac, Option.bind_some, expo_noexp buf j hEo]
          have : k = j := by
            repeat' split at h
            all_goals (simp only [Prod.mk.injEq] at h; exact h.2.symm)
          rw [this]

end DomP
end Sonic

namespace Sonic
namespace DomP
open Gen Spec Impl

/-- … stated for the token: sign included -/
theorem number_of_parseNumber (buf : Buf) (bound w : Nat) (neg : Bool) (p : PNum) (k : Nat)
    (h : parseNumber buf bound (if buf[w]? = some 45 then w + 1 else w) neg = (p, k)) (hp : p ≠ .invalid)
    (hnd : isDigitAt buf k = false) : number buf w = some k := by
  obtain ⟨d, hb, hd, haf⟩ := afterFirst_of_parseNumber buf bound _ neg p k h hp hnd
  unfold number
  simp only [hb, hd, if_true, haf]

end DomP
end Sonic
