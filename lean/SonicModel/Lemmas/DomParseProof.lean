import SonicModel.Impl.DomParse
import SonicModel.Lemmas.NumAccept
import SonicModel.Lemmas.GetRefine
import SonicModel.Lemmas.IterURefine
import SonicModel.Lemmas.StrictLazy
namespace Sonic
namespace DomP
open Gen Spec Impl

/-! ### on every strictly well-formed value the decoding parser emits the tree the text denotes -/

theorem numAt_of_number (buf : Buf) (w e : Nat) (c : UInt8) (hc : buf[w]? = some c) (hn : number buf w = some e)
    (hfin : Spec.finite buf w e = true) : numAt buf c (w + 1) = .ok (.num w e) e := by
  unfold numAt
  have hnow : (if (c == 45) = true then w + 1 else w) = (if buf[w]? = some 45 then w + 1 else w) := by
    rw [hc]
    by_cases h45 : c = 45
    · subst h45; simp
    · have : (c == 45) = false := by simpa using h45
      have h2 : ¬ (some c = some (45 : UInt8)) := by simpa using h45
      simp [this, h2]
  simp only [Nat.add_sub_cancel]
  rw [hnow]
  obtain ⟨h1, h2⟩ := parseNumber_of_number buf Gen.expAccBound w e (c == 45) hn
  cases hp : parseNumber buf Gen.expAccBound (if buf[w]? = some 45 then w + 1 else w) (c == 45) with
  | mk r k =>
    rw [hp] at h1 h2
    simp only at h1 h2
    subst h1
    cases r with
    | invalid => exact absurd rfl h2
    | toFloat a b c' d => simp only [hfin, if_true]
    | unsigned v => simp only
    | signed v => simp only
    | zero n => simp only
    | negIntAsFloat s => simp only

theorem parseLiteral_of_lit (buf : Buf) (j : Nat) (bs : List UInt8) (hne : bs ≠ []) (e : Nat)
    (h : Res.ofOpt (lit buf j bs) = .ok e) : parseLiteral buf j bs = .ok e :=
  GetU.erase_ok _ _ (by rw [parseLiteral_refines buf j bs hne]; exact h)

theorem lit_of_ofOpt (buf : Buf) (j : Nat) (bs : List UInt8) (e : Nat) (h : Res.ofOpt (lit buf j bs) = .ok e) :
    lit buf j bs = some e := by
  cases hl : lit buf j bs with
  | none => rw [hl] at h; simp [Res.ofOpt] at h
  | some e' => rw [hl] at h; simp [Res.ofOpt] at h; rw [h]

/-- **the decoding parser on strictly well-formed text**: values, element lists, member lists -/
theorem parse_of_strict (buf : Buf) : ∀ f,
    (∀ w e, Spec.value true f buf w = .ok e → ∃ t, tree false f buf w = some (t, e) ∧
        ∀ c, buf[w]? = some c → dispatch f buf (some (c, w + 1)) = .ok t e) ∧
    (∀ p e, elems true f buf p = .ok e → ∃ xs, treeElems false f buf p = some (xs, e) ∧
        ∀ c, buf[p]? = some c → ∀ acc, arrLoop f buf (some (c, p + 1)) acc = .ok (.arr (acc ++ xs)) e) ∧
    (∀ q e, members true f buf q = .ok e → ∃ ms, treeMembers false f buf q = some (ms, e) ∧
        ∀ acc, objLoop f buf (q + 1) acc = .ok (.obj (acc ++ ms)) e) := by
  intro f
  induction f with
  | zero =>
    refine ⟨?_, ?_, ?_⟩ <;> (intro a e h; simp [Spec.value, elems, members] at h)
  | succ f ih =>
    obtain ⟨ih1, ih2, ih3⟩ := ih
    refine ⟨?_, ?_, ?_⟩
    · -- a value
      intro w e h
      unfold Spec.value at h
      cases hb : buf[w]? with
      | none => simp [hb] at h
      | some c =>
        simp only [hb] at h
        unfold tree
        simp only [hb]
        by_cases h1 : (c == 45 || isDigit c) = true
        · simp only [h1, if_true] at h ⊢
          have hn : numberS true buf w = some e := by
            cases hx : numberS true buf w with
            | none => rw [hx] at h; simp [Res.ofOpt] at h
            | some e' => rw [hx] at h; simp [Res.ofOpt] at h; rw [h]
          have hnum : number buf w = some e := by simpa using numberS_strict_lazy buf w e hn
          have hfin : Spec.finite buf w e = true := by
            unfold numberS at hn
            rw [hnum] at hn
            simp only [Bool.true_and] at hn
            split at hn
            · simp at hn
            · rename_i hnf; simpa using hnf
          refine ⟨.num w e, by simp [hnum], ?_⟩
          intro c' hc'
          have : c' = c := by simpa using hc'.symm
          subst this
          unfold dispatch
          simp only [h1, if_true]
          exact numAt_of_number buf w e c' hb hnum hfin
        · simp only [h1, Bool.false_eq_true, if_false] at h ⊢
          by_cases h2 : (c == 34) = true
          · simp only [h2, if_true] at h ⊢
            have hs : string true buf (w + 1) = some e := by
              cases hx : string true buf (w + 1) with
              | none => rw [hx] at h; simp [Res.ofOpt] at h
              | some e' => rw [hx] at h; simp [Res.ofOpt] at h; rw [h]
            unfold string at hs
            simp only [if_true] at hs
            cases hss : stringS false buf (w + 1) with
            | none => simp [hss] at hs
            | some r =>
              obtain ⟨bs, e'⟩ := r
              simp only [hss, Option.map_some, Option.some.injEq] at hs
              subst hs
              refine ⟨.str bs, by simp, ?_⟩
              intro c' hc'
              have : c' = c := by simpa using hc'.symm
              subst this
              unfold dispatch
              simp only [h1, Bool.false_eq_true, if_false, h2, if_true]
              obtain ⟨esc, hd⟩ := decodeFrom_of_stringS_some buf (w + 1) bs e' hss
              unfold strAt
              simp only [hd]
          · simp only [h2, Bool.false_eq_true, if_false] at h ⊢
            by_cases h3 : (c == 123) = true
            · simp only [h3, if_true] at h ⊢
              by_cases hcl : buf[skipWs buf (w + 1)]? = some 125
              · simp only [hcl, if_true] at h ⊢
                simp only [Res.ok.injEq] at h
                subst h
                refine ⟨.obj [], rfl, ?_⟩
                intro c' hc'
                have : c' = c := by simpa using hc'.symm
                subst this
                unfold dispatch
                simp only [h1, Bool.false_eq_true, if_false, h2, h3, if_true]
                rw [skipSpace_spec]
                simp only [hcl, Option.map_some, beq_self_eq_true, if_true]
              · simp only [hcl, if_false] at h ⊢
                obtain ⟨ms, hm, hloop⟩ := ih3 _ e h
                refine ⟨.obj ms, by simp [hm], ?_⟩
                intro c' hc'
                have : c' = c := by simpa using hc'.symm
                subst this
                unfold dispatch
                simp only [h1, Bool.false_eq_true, if_false, h2, h3, if_true]
                rw [skipSpace_spec]
                -- the member list starts at a quote
                have hq : buf[skipWs buf (w + 1)]? = some 34 := by
                  cases f with
                  | zero => simp [members] at h
                  | succ f' =>
                    unfold members at h
                    split at h
                    · rename_i hq; exact hq
                    · simp at h
                simp only [hq, Option.map_some]
                have e1 : ((34 : UInt8) == 125) = false := by decide
                simp only [e1, Bool.false_eq_true, if_false, beq_self_eq_true, if_true]
                have := hloop []
                simpa using this
            · simp only [h3, Bool.false_eq_true, if_false] at h ⊢
              by_cases h4 : (c == 91) = true
              · simp only [h4, if_true] at h ⊢
                by_cases hcl : buf[skipWs buf (w + 1)]? = some 93
                · simp only [hcl, if_true] at h ⊢
                  simp only [Res.ok.injEq] at h
                  subst h
                  refine ⟨.arr [], rfl, ?_⟩
                  intro c' hc'
                  have : c' = c := by simpa using hc'.symm
                  subst this
                  unfold dispatch
                  simp only [h1, Bool.false_eq_true, if_false, h2, h3, h4, if_true]
                  rw [skipSpace_spec]
                  simp only [hcl, Option.map_some, beq_self_eq_true, if_true]
                · simp only [hcl, if_false] at h ⊢
                  obtain ⟨xs, hx, hloop⟩ := ih2 _ e h
                  refine ⟨.arr xs, by simp [hx], ?_⟩
                  intro c' hc'
                  have : c' = c := by simpa using hc'.symm
                  subst this
                  unfold dispatch
                  simp only [h1, Bool.false_eq_true, if_false, h2, h3, h4, if_true]
                  rw [skipSpace_spec]
                  -- the element list starts at a byte
                  have hp := ((progress true buf f _ e).2.1 h).2
                  have hbp : buf[skipWs buf (w + 1)]? = some buf[skipWs buf (w + 1)] := by simp [hp]
                  rw [hbp]
                  simp only [Option.map_some]
                  have hne : (buf[skipWs buf (w + 1)] == 93) = false := by
                    rw [hbp] at hcl
                    simpa using hcl
                  simp only [hne, Bool.false_eq_true, if_false]
                  have := hloop _ hbp []
                  simpa using this
              · simp only [h4, Bool.false_eq_true, if_false] at h ⊢
                -- literals
                have hdisp : ∀ c', buf[w]? = some c' → dispatch (f + 1) buf (some (c', w + 1)) = litAtP buf c (w + 1) := by
                  intro c' hc'
                  have : c' = c := by simpa [hb] using hc'.symm
                  subst this
                  unfold dispatch
                  simp only [h1, Bool.false_eq_true, if_false, h2, h3, h4]
                by_cases h5 : (c == 116) = true
                · simp only [h5, if_true] at h ⊢
                  refine ⟨.bool true, by simp [lit_of_ofOpt buf _ _ e h], ?_⟩
                  intro c' hc'
                  rw [hdisp c' (by rw [hb]; exact hc')]
                  unfold litAtP
                  simp only [h5, if_true, parseLiteral_of_lit buf _ _ (by simp) e h]
                · simp only [h5, Bool.false_eq_true, if_false] at h ⊢
                  by_cases h6 : (c == 102) = true
                  · simp only [h6, if_true] at h ⊢
                    refine ⟨.bool false, by simp [lit_of_ofOpt buf _ _ e h], ?_⟩
                    intro c' hc'
                    rw [hdisp c' (by rw [hb]; exact hc')]
                    unfold litAtP
                    simp only [h5, Bool.false_eq_true, if_false, h6, if_true, parseLiteral_of_lit buf _ _ (by simp) e h]
                  · simp only [h6, Bool.false_eq_true, if_false] at h ⊢
                    by_cases h7 : (c == 110) = true
                    · simp only [h7, if_true] at h ⊢
                      refine ⟨.null, by simp [lit_of_ofOpt buf _ _ e h], ?_⟩
                      intro c' hc'
                      rw [hdisp c' (by rw [hb]; exact hc')]
                      unfold litAtP
                      simp only [h5, Bool.false_eq_true, if_false, h6, h7, if_true, parseLiteral_of_lit buf _ _ (by simp) e h]
                    · simp [h7] at h
    · -- elements
      intro p e h
      unfold elems at h
      cases hv : Spec.value true f buf p with
      | ok e1 =>
        simp only [hv] at h
        obtain ⟨t, ht, hdisp⟩ := ih1 p e1 hv
        unfold treeElems
        simp only [ht]
        by_cases hcl : buf[skipWs buf e1]? = some 93
        · simp only [hcl, if_true] at h ⊢
          simp only [Res.ok.injEq] at h
          subst h
          refine ⟨[t], rfl, ?_⟩
          intro c hc acc
          unfold arrLoop
          simp only [hdisp c hc]
          rw [skipSpace_spec]
          simp only [hcl, Option.map_some, beq_self_eq_true, if_true]
        · simp only [hcl, if_false] at h ⊢
          by_cases hco : buf[skipWs buf e1]? = some 44
          · simp only [hco, if_true] at h ⊢
            obtain ⟨xs, hx, hloop⟩ := ih2 _ e h
            refine ⟨t :: xs, by simp [hx], ?_⟩
            intro c hc acc
            unfold arrLoop
            simp only [hdisp c hc]
            rw [skipSpace_spec]
            simp only [hco, Option.map_some]
            have e1' : ((44 : UInt8) == 93) = false := by decide
            simp only [e1', Bool.false_eq_true, if_false, beq_self_eq_true, if_true]
            rw [skipSpace_spec]
            have hp := ((progress true buf f _ e).2.1 h).2
            have hbp : buf[skipWs buf (skipWs buf e1 + 1)]? = some buf[skipWs buf (skipWs buf e1 + 1)] := by simp [hp]
            rw [hbp]
            simp only [Option.map_some]
            have := hloop _ hbp (acc ++ [t])
            simpa using this
          · simp [hco] at h
      | err => simp [hv] at h
      | fuel => simp [hv] at h
    · -- members
      intro q e h
      unfold members at h
      split at h
      · rename_i hq
        cases hs : string true buf (q + 1) with
        | none => simp [hs] at h
        | some k1 =>
          simp only [hs] at h
          have hsS : ∃ name, stringS false buf (q + 1) = some (name, k1) := by
            unfold string at hs
            simp only [if_true] at hs
            cases hss : stringS false buf (q + 1) with
            | none => simp [hss] at hs
            | some r => obtain ⟨nm, e'⟩ := r; simp [hss] at hs; exact ⟨nm, by rw [hs]⟩
          obtain ⟨name, hname⟩ := hsS
          split at h
          · rename_i hcol
            cases hv : Spec.value true f buf (skipWs buf (skipWs buf k1 + 1)) with
            | ok e1 =>
              simp only [hv] at h
              obtain ⟨t, ht, hdisp⟩ := ih1 _ e1 hv
              unfold treeMembers
              simp only [hq, if_true, hname, hcol, ht]
              obtain ⟨esc, hd⟩ := decodeFrom_of_stringS_some buf (q + 1) name k1 hname
              have hclo := parseObjectClo_ok_of_colon buf k1 hcol
              have hvp := ((progress true buf f _ e1).1 hv).2
              have hbv : buf[skipWs buf (skipWs buf k1 + 1)]? = some buf[skipWs buf (skipWs buf k1 + 1)] := by simp [hvp]
              by_cases hcl : buf[skipWs buf e1]? = some 125
              · simp only [hcl, if_true] at h ⊢
                simp only [Res.ok.injEq] at h
                subst h
                refine ⟨[(name, t)], rfl, ?_⟩
                intro acc
                unfold objLoop
                simp only [hd, hclo]
                rw [skipSpace_spec, hbv]
                simp only [Option.map_some, hdisp _ hbv]
                rw [skipSpace_spec]
                simp only [hcl, Option.map_some, beq_self_eq_true, if_true]
              · simp only [hcl, if_false] at h ⊢
                by_cases hco : buf[skipWs buf e1]? = some 44
                · simp only [hco, if_true] at h ⊢
                  obtain ⟨ms, hm, hloop⟩ := ih3 _ e h
                  refine ⟨(name, t) :: ms, by simp [hm], ?_⟩
                  intro acc
                  unfold objLoop
                  simp only [hd, hclo]
                  rw [skipSpace_spec, hbv]
                  simp only [Option.map_some, hdisp _ hbv]
                  rw [skipSpace_spec]
                  simp only [hco, Option.map_some]
                  have e1' : ((44 : UInt8) == 125) = false := by decide
                  simp only [e1', Bool.false_eq_true, if_false, beq_self_eq_true, if_true]
                  rw [skipSpace_spec]
                  have hq2 : buf[skipWs buf (skipWs buf e1 + 1)]? = some 34 := by
                    cases f with
                    | zero => simp [members] at h
                    | succ f' =>
                      unfold members at h
                      split at h
                      · rename_i hq2; exact hq2
                      · simp at h
                  simp only [hq2, Option.map_some, beq_self_eq_true, if_true]
                  have := hloop (acc ++ [(name, t)])
                  simpa using this
                · simp [hco] at h
            | err => simp [hv] at h
            | fuel => simp [hv] at h
          · simp at h
      · simp at h

/-- **every strictly well-formed document is accepted by the decoding parser, which emits exactly the tree the text
    denotes** (nesting, array order, members in source order with duplicates, strings decoded, numbers as their literals) -/
theorem document_of_strict (buf : Buf) (s e : Nat) (h : Spec.document true buf = some (s, e)) :
    ∃ t, docTree false buf = some t ∧ DomP.document buf = some t := by
  unfold Spec.document at h
  simp only at h
  cases hv : Spec.value true (Spec.fuelFor buf) buf (skipWs buf 0) with
  | ok e1 =>
    simp only [hv] at h
    split at h
    · rename_i hend
      obtain ⟨t, ht, hdisp⟩ := (parse_of_strict buf (Spec.fuelFor buf)).1 _ e1 hv
      have hlt := ((progress true buf _ _ e1).1 hv).2
      have hb : buf[skipWs buf 0]? = some buf[skipWs buf 0] := by simp [hlt]
      refine ⟨t, ?_, ?_⟩
      · unfold docTree; simp only [ht, hend, if_true]
      · unfold DomP.document DomP.value
        rw [skipSpace_spec, hb]
        simp only [Option.map_some, hdisp _ hb, hend, if_true]
    · simp at h
  | err => simp [hv] at h
  | fuel => simp [hv] at h

end DomP
end Sonic
