import SonicModel.Spec.RenderTree
import SonicModel.Lemmas.RoundTrip
namespace Sonic
namespace Spec

/-- `X` stands in `L` at offset `p` -/
def At (L : List UInt8) (p : Nat) (X : List UInt8) : Prop := ∃ pre suf, L = pre ++ X ++ suf ∧ pre.length = p

theorem at_get (L : List UInt8) (p : Nat) (X : List UInt8) (h : At L p X) (k : Nat) (hk : k < X.length) :
    L.toArray[p + k]? = X[k]? := by
  obtain ⟨pre, suf, rfl, rfl⟩ := h
  exact get_mid pre X suf k hk

theorem at_head (L : List UInt8) (p : Nat) (c : UInt8) (X : List UInt8) (h : At L p (c :: X)) :
    L.toArray[p]? = some c := by
  have := at_get L p (c :: X) h 0 (by simp)
  simpa using this

theorem at_tail (L : List UInt8) (p : Nat) (c : UInt8) (X : List UInt8) (h : At L p (c :: X)) : At L (p + 1) X := by
  obtain ⟨pre, suf, rfl, rfl⟩ := h
  exact ⟨pre ++ [c], suf, by simp, by simp⟩

theorem at_left (L : List UInt8) (p : Nat) (A Bs : List UInt8) (h : At L p (A ++ Bs)) : At L p A := by
  obtain ⟨pre, suf, rfl, rfl⟩ := h
  exact ⟨pre, Bs ++ suf, by simp, rfl⟩

theorem at_right (L : List UInt8) (p : Nat) (A Bs : List UInt8) (h : At L p (A ++ Bs)) : At L (p + A.length) Bs := by
  obtain ⟨pre, suf, rfl, rfl⟩ := h
  exact ⟨pre ++ A, suf, by simp, by simp⟩

theorem skipWs_stay (buf : Buf) (i : Nat) (h : ∀ c, buf[i]? = some c → isWs c = false) : skipWs buf i = i := by
  rw [skipWs]
  split
  · rename_i hlt
    have := h buf[i] (by simp [hlt])
    simp [this]
  · rfl

theorem litAt_at (L : List UInt8) : ∀ (X : List UInt8) (p : Nat), At L p X → litAt L.toArray p X = some (p + X.length) := by
  intro X
  induction X with
  | nil => intro p _; simp [litAt]
  | cons c X ih =>
    intro p h
    have h0 := at_head L p c X h
    have := ih (p + 1) (at_tail L p c X h)
    simp only [litAt, h0, if_true, this, List.length_cons]
    congr 1; omega

theorem numhead_facts : ∀ c : UInt8, (c == 45 || isDigit c) = true → isWs c = false ∧ c ≠ 93 := by
  apply UInt8.forall_of_fin
  decide +kernel

/-- the first byte of a rendering is never whitespace nor `]` -/
theorem render_head (t : RJ) (h : t.WF) : ∃ c r, t.render = c :: r ∧ isWs c = false ∧ c ≠ 93 := by
  cases t with
  | null => exact ⟨110, _, rfl, by decide, by decide⟩
  | bool b => cases b <;> exact ⟨_, _, rfl, by decide, by decide⟩
  | num lit =>
    obtain ⟨hne, hhead, _⟩ := (h : NumOK lit)
    cases lit with
    | nil => exact absurd rfl hne
    | cons c r =>
      have := numhead_facts c (hhead c rfl)
      exact ⟨c, r, rfl, this.1, this.2⟩
  | str s => exact ⟨34, _, rfl, by decide, by decide⟩
  | arr xs => cases xs <;> exact ⟨91, _, rfl, by decide, by decide⟩
  | obj ms =>
    cases ms with
    | nil => exact ⟨123, _, rfl, by decide, by decide⟩
    | cons m r => obtain ⟨k, x⟩ := m; exact ⟨123, _, rfl, by decide, by decide⟩

/-- what reading `t` back means: wherever its rendering stands before a delimiter, with enough fuel -/
def ReadsBack (t : RJ) : Prop :=
  ∀ (L : List UInt8) (p f : Nat), At L p t.render → isDelim L.toArray[p + t.render.length]? → t.need ≤ f →
    tree false f L.toArray p = some (t.jsonAt p, p + t.render.length)

/-- the elements from `x` on (`p` at the first byte of `x`) -/
def ElemsReadBack (x : RJ) (xs : List RJ) : Prop :=
  ∀ (L : List UInt8) (p f : Nat), At L p (x.render ++ RJ.renderRest xs) → 1 + max x.need (RJ.needRest xs) ≤ f →
    treeElems false f L.toArray p =
      some (x.jsonAt p :: RJ.jsonRestAt xs (p + x.render.length), p + x.render.length + (RJ.renderRest xs).length)

def MembersReadBack (k : List UInt8) (x : RJ) (ms : List (List UInt8 × RJ)) : Prop :=
  ∀ (L : List UInt8) (p f : Nat), At L p (quoted k ++ 58 :: (x.render ++ RJ.renderRestM ms)) →
    1 + max x.need (RJ.needRestM ms) ≤ f →
    treeMembers false f L.toArray p =
      some ((k, x.jsonAt (p + (quoted k).length + 1)) :: RJ.jsonRestMAt ms (p + (quoted k).length + 1 + x.render.length),
            p + (quoted k).length + 1 + x.render.length + (RJ.renderRestM ms).length)

theorem delim_nonws (o : Option UInt8) (h : isDelim o) : ∀ c, o = some c → isWs c = false := by
  intro c hc
  rcases h with h | h | h | h <;> rw [h] at hc <;> simp at hc <;> subst hc <;> decide

/-- the key of a member: `"escape k"` read by the strict string grammar -/
theorem key_reads (L : List UInt8) (p : Nat) (k : List UInt8) (rest : List UInt8) (h : At L p (quoted k ++ rest)) :
    L.toArray[p]? = some 34 ∧ stringS false L.toArray (p + 1) = some (k, p + (quoted k).length) := by
  obtain ⟨pre, suf, rfl, rfl⟩ := h
  constructor
  · have := get_mid pre (quoted k ++ rest) suf 0 (by simp [quoted])
    simpa [quoted] using this
  · have e : pre ++ (quoted k ++ rest) ++ suf = (pre ++ [34]) ++ escape k ++ 34 :: (rest ++ suf) := by
      simp [quoted, List.append_assoc]
    rw [e]
    have := string_roundtrip k (pre ++ [34]) (rest ++ suf)
    simp only [List.length_append, List.length_cons, List.length_nil] at this
    rw [this]
    simp [quoted]; omega

theorem elems_last (x : RJ) (hx : ReadsBack x) : ElemsReadBack x [] := by
  intro L p f hAt hf
  obtain ⟨f', rfl⟩ : ∃ f', f = f' + 1 := ⟨f - 1, by omega⟩
  simp only [RJ.renderRest, RJ.needRest] at hAt hf
  have h93 : L.toArray[p + x.render.length]? = some 93 := at_head L _ 93 [] (at_right L p _ _ hAt)
  have ht := hx L p f' (at_left L p _ _ hAt) (by rw [h93]; exact Or.inr (Or.inr (Or.inl rfl))) (by omega)
  simp only [treeElems, ht]
  have hs : skipWs L.toArray (p + x.render.length) = p + x.render.length :=
    skipWs_stay _ _ (by intro c hc; rw [h93] at hc; simp at hc; subst hc; decide)
  simp [hs, h93, RJ.jsonRestAt, RJ.renderRest]

theorem elems_cons (x y : RJ) (r : List RJ) (hx : ReadsBack x) (hy : y.WF) (ih : ElemsReadBack y r) :
    ElemsReadBack x (y :: r) := by
  intro L p f hAt hf
  obtain ⟨f', rfl⟩ : ∃ f', f = f' + 1 := ⟨f - 1, by omega⟩
  simp only [RJ.renderRest, RJ.needRest] at hAt hf
  -- L at p: x.render ++ 44 :: (y.render ++ renderRest r)
  have hR := at_right L p _ _ hAt
  have h44 : L.toArray[p + x.render.length]? = some 44 := at_head L _ 44 _ hR
  have ht := hx L p f' (at_left L p _ _ hAt) (by rw [h44]; exact Or.inr (Or.inl rfl)) (by omega)
  simp only [treeElems, ht]
  have hs : skipWs L.toArray (p + x.render.length) = p + x.render.length :=
    skipWs_stay _ _ (by intro c hc; rw [h44] at hc; simp at hc; subst hc; decide)
  have hY := at_tail L _ 44 _ hR
  obtain ⟨c, rest, hc, hws, _⟩ := render_head y hy
  have hyhead : L.toArray[p + x.render.length + 1]? = some c := by
    have := at_left L _ _ _ hY
    rw [hc] at this
    exact at_head L _ c rest this
  have hs2 : skipWs L.toArray (p + x.render.length + 1) = p + x.render.length + 1 :=
    skipWs_stay _ _ (by intro d hd; rw [hyhead] at hd; simp at hd; subst hd; exact hws)
  have hrec := ih L (p + x.render.length + 1) f' hY (by omega)
  simp only [hs, h44, hs2, hrec]
  simp [RJ.jsonRestAt, RJ.renderRest]
  omega

/-- the common part of reading one member `"k":x` standing at `p`, followed by `tail` -/
theorem member_step (L : List UInt8) (p f' : Nat) (k : List UInt8) (x : RJ) (tail : List UInt8) (d : UInt8)
    (tl : List UInt8) (htail : tail = d :: tl) (hd : d = 44 ∨ d = 125)
    (hx : ReadsBack x) (hxw : x.WF) (hAt : At L p (quoted k ++ 58 :: (x.render ++ tail))) (hf : x.need ≤ f') :
    L.toArray[p]? = some 34 ∧
    stringS false L.toArray (p + 1) = some (k, p + (quoted k).length) ∧
    skipWs L.toArray (p + (quoted k).length) = p + (quoted k).length ∧
    L.toArray[p + (quoted k).length]? = some 58 ∧
    skipWs L.toArray (p + (quoted k).length + 1) = p + (quoted k).length + 1 ∧
    tree false f' L.toArray (p + (quoted k).length + 1) =
      some (x.jsonAt (p + (quoted k).length + 1), p + (quoted k).length + 1 + x.render.length) ∧
    skipWs L.toArray (p + (quoted k).length + 1 + x.render.length) = p + (quoted k).length + 1 + x.render.length ∧
    L.toArray[p + (quoted k).length + 1 + x.render.length]? = some d ∧
    At L (p + (quoted k).length + 1 + x.render.length) tail := by
  have hk := key_reads L p k _ hAt
  have hR := at_right L p _ _ hAt                      -- 58 :: (x.render ++ tail) at p + qlen
  have h58 : L.toArray[p + (quoted k).length]? = some 58 := at_head L _ 58 _ hR
  have hX := at_tail L _ 58 _ hR                       -- x.render ++ tail at p + qlen + 1
  have hT := at_right L _ _ _ hX                       -- tail at p + qlen + 1 + xlen
  have hdd : L.toArray[p + (quoted k).length + 1 + x.render.length]? = some d := by
    rw [htail] at hT; exact at_head L _ d tl hT
  have hdel : isDelim L.toArray[p + (quoted k).length + 1 + x.render.length]? := by
    rw [hdd]; rcases hd with rfl | rfl
    · exact Or.inr (Or.inl rfl)
    · exact Or.inr (Or.inr (Or.inr rfl))
  have ht := hx L (p + (quoted k).length + 1) f' (at_left L _ _ _ hX) hdel hf
  obtain ⟨c, rest, hc, hws, _⟩ := render_head x hxw
  have hxhead : L.toArray[p + (quoted k).length + 1]? = some c := by
    have := at_left L _ _ _ hX
    rw [hc] at this
    exact at_head L _ c rest this
  refine ⟨hk.1, hk.2, ?_, h58, ?_, ht, ?_, hdd, hT⟩
  · exact skipWs_stay _ _ (by intro e he; rw [h58] at he; simp at he; subst he; decide)
  · exact skipWs_stay _ _ (by intro e he; rw [hxhead] at he; simp at he; subst he; exact hws)
  · exact skipWs_stay _ _ (by
      intro e he; rw [hdd] at he; simp at he; subst he
      rcases hd with rfl | rfl <;> decide)

theorem members_last (k : List UInt8) (x : RJ) (hx : ReadsBack x) (hxw : x.WF) : MembersReadBack k x [] := by
  intro L p f hAt hf
  obtain ⟨f', rfl⟩ : ∃ f', f = f' + 1 := ⟨f - 1, by omega⟩
  simp only [RJ.renderRestM, RJ.needRestM] at hAt hf
  obtain ⟨h1, h2, h3, h4, h5, h6, h7, h8, _⟩ :=
    member_step L p f' k x [125] 125 [] rfl (Or.inr rfl) hx hxw hAt (by omega)
  simp only [treeMembers, h1, if_true, h2, h3, h4, h5, h6, h7, h8]
  simp [RJ.jsonRestMAt, RJ.renderRestM]

theorem members_cons (k k2 : List UInt8) (x y : RJ) (r : List (List UInt8 × RJ)) (hx : ReadsBack x) (hxw : x.WF)
    (ih : MembersReadBack k2 y r) : MembersReadBack k x ((k2, y) :: r) := by
  intro L p f hAt hf
  obtain ⟨f', rfl⟩ : ∃ f', f = f' + 1 := ⟨f - 1, by omega⟩
  simp only [RJ.renderRestM, RJ.needRestM] at hAt hf
  obtain ⟨h1, h2, h3, h4, h5, h6, h7, h8, hT⟩ :=
    member_step L p f' k x (44 :: (quoted k2 ++ 58 :: (y.render ++ RJ.renderRestM r))) 44 _ rfl (Or.inl rfl) hx hxw hAt (by omega)
  have hN := at_tail L _ 44 _ hT
  have hq : L.toArray[p + (quoted k).length + 1 + x.render.length + 1]? = some 34 := (key_reads L _ k2 _ hN).1
  have hs : skipWs L.toArray (p + (quoted k).length + 1 + x.render.length + 1) = p + (quoted k).length + 1 + x.render.length + 1 :=
    skipWs_stay _ _ (by intro e he; rw [hq] at he; simp at he; subst he; decide)
  have hrec := ih L (p + (quoted k).length + 1 + x.render.length + 1) f' hN (by omega)
  simp only [treeMembers, h1, if_true, h2, h3, h4, h5, h6, h7, h8, hs, hrec]
  simp [RJ.jsonRestMAt, RJ.renderRestM]
  omega

/-! ### single values -/

theorem reads_null : ReadsBack .null := by
  intro L p f hAt _ hf
  obtain ⟨f', rfl⟩ : ∃ f', f = f' + 1 := ⟨f - 1, by simp [RJ.need] at hf; omega⟩
  have h0 := at_head L p 110 _ hAt
  have hl := litAt_at L [117, 108, 108] (p + 1) (at_tail L p 110 _ hAt)
  simp [tree, h0, lit, hl, RJ.jsonAt, RJ.render, isDigit]

theorem reads_bool (b : Bool) : ReadsBack (.bool b) := by
  intro L p f hAt _ hf
  obtain ⟨f', rfl⟩ : ∃ f', f = f' + 1 := ⟨f - 1, by simp [RJ.need] at hf; omega⟩
  cases b
  · have h0 := at_head L p 102 _ hAt
    have hl := litAt_at L [97, 108, 115, 101] (p + 1) (at_tail L p 102 _ hAt)
    simp [tree, h0, lit, hl, RJ.jsonAt, RJ.render, isDigit]
  · have h0 := at_head L p 116 _ hAt
    have hl := litAt_at L [114, 117, 101] (p + 1) (at_tail L p 116 _ hAt)
    simp [tree, h0, lit, hl, RJ.jsonAt, RJ.render, isDigit]

theorem reads_str (s : List UInt8) : ReadsBack (.str s) := by
  intro L p f hAt _ hf
  obtain ⟨f', rfl⟩ : ∃ f', f = f' + 1 := ⟨f - 1, by simp [RJ.need] at hf; omega⟩
  have hAt' : At L p (quoted s ++ []) := by simpa [RJ.render] using hAt
  have hk := key_reads L p s [] hAt'
  simp [tree, hk.1, hk.2, RJ.jsonAt, RJ.render, isDigit]

theorem reads_num (lit : List UInt8) (h : NumOK lit) : ReadsBack (.num lit) := by
  intro L p f hAt hdel hf
  obtain ⟨f', rfl⟩ : ∃ f', f = f' + 1 := ⟨f - 1, by simp [RJ.need] at hf; omega⟩
  obtain ⟨hne, hhead, hnum⟩ := h
  obtain ⟨pre, suf, rfl, rfl⟩ := hAt
  cases lit with
  | nil => exact absurd rfl hne
  | cons c r =>
    have h0 : (pre ++ (c :: r) ++ suf).toArray[pre.length]? = some c := by
      have := get_mid pre (c :: r) suf 0 (by simp)
      simpa using this
    have hc := hhead c rfl
    have hsuf : isDelim suf.head? := by
      have e : (pre ++ (c :: r) ++ suf).toArray[pre.length + (c :: r).length]? = suf.head? := by
        simp only [List.getElem?_toArray]
        rw [List.getElem?_append_right (by simp), List.head?_eq_getElem?]
        simp
      simp only [RJ.render] at hdel
      rw [e] at hdel; exact hdel
    have hn := hnum pre suf hsuf
    simp only [tree, h0, hc, if_true, RJ.render, RJ.jsonAt]
    rw [hn]; rfl

theorem reads_arr_nil : ReadsBack (.arr []) := by
  intro L p f hAt _ hf
  obtain ⟨f', rfl⟩ : ∃ f', f = f' + 1 := ⟨f - 1, by simp [RJ.need] at hf; omega⟩
  have h0 := at_head L p 91 _ hAt
  have h1 := at_head L (p + 1) 93 _ (at_tail L p 91 _ hAt)
  have hs : skipWs L.toArray (p + 1) = p + 1 := skipWs_stay _ _ (by intro c hc; rw [h1] at hc; simp at hc; subst hc; decide)
  simp [tree, h0, hs, h1, RJ.jsonAt, RJ.render, isDigit]

theorem reads_obj_nil : ReadsBack (.obj []) := by
  intro L p f hAt _ hf
  obtain ⟨f', rfl⟩ : ∃ f', f = f' + 1 := ⟨f - 1, by simp [RJ.need] at hf; omega⟩
  have h0 := at_head L p 123 _ hAt
  have h1 := at_head L (p + 1) 125 _ (at_tail L p 123 _ hAt)
  have hs : skipWs L.toArray (p + 1) = p + 1 := skipWs_stay _ _ (by intro c hc; rw [h1] at hc; simp at hc; subst hc; decide)
  simp [tree, h0, hs, h1, RJ.jsonAt, RJ.render, isDigit]

theorem reads_arr (x : RJ) (xs : List RJ) (hxw : x.WF) (he : ElemsReadBack x xs) : ReadsBack (.arr (x :: xs)) := by
  intro L p f hAt _ hf
  obtain ⟨f', rfl⟩ : ∃ f', f = f' + 1 := ⟨f - 1, by simp [RJ.need] at hf; omega⟩
  simp only [RJ.render, RJ.need] at hAt hf
  have h0 := at_head L p 91 _ hAt
  have hE := at_tail L p 91 _ hAt
  obtain ⟨c, rest, hc, hws, h93⟩ := render_head x hxw
  have hxhead : L.toArray[p + 1]? = some c := by
    have := at_left L _ _ _ hE
    rw [hc] at this
    exact at_head L _ c rest this
  have hs : skipWs L.toArray (p + 1) = p + 1 := skipWs_stay _ _ (by intro d hd; rw [hxhead] at hd; simp at hd; subst hd; exact hws)
  have hrec := he L (p + 1) f' hE (by omega)
  have hne : ¬ (L.toArray[p + 1]? = some 93) := by rw [hxhead]; simp; exact h93
  simp only [tree, h0, hs, hne, if_false, hrec]
  simp [RJ.jsonAt, RJ.render, isDigit]
  omega

theorem reads_obj (k : List UInt8) (x : RJ) (ms : List (List UInt8 × RJ)) (hm : MembersReadBack k x ms) :
    ReadsBack (.obj ((k, x) :: ms)) := by
  intro L p f hAt _ hf
  obtain ⟨f', rfl⟩ : ∃ f', f = f' + 1 := ⟨f - 1, by simp [RJ.need] at hf; omega⟩
  simp only [RJ.render, RJ.need] at hAt hf
  have h0 := at_head L p 123 _ hAt
  have hE := at_tail L p 123 _ hAt
  have hq : L.toArray[p + 1]? = some 34 := (key_reads L _ k _ hE).1
  have hs : skipWs L.toArray (p + 1) = p + 1 := skipWs_stay _ _ (by intro d hd; rw [hq] at hd; simp at hd; subst hd; decide)
  have hrec := hm L (p + 1) f' hE (by omega)
  have hne : ¬ (L.toArray[p + 1]? = some 125) := by rw [hq]; simp
  simp only [tree, h0, hs, hne, if_false, hrec]
  simp [RJ.jsonAt, RJ.render, isDigit]
  omega

/-! ### every well-formed tree -/

mutual
theorem reads_back : ∀ t : RJ, t.WF → ReadsBack t
  | .null, _ => reads_null
  | .bool b, _ => reads_bool b
  | .num lit, h => reads_num lit h
  | .str s, _ => reads_str s
  | .arr [], _ => reads_arr_nil
  | .arr (x :: xs), h => by
    have hw : x.WF ∧ RJ.WFL xs := h
    exact reads_arr x xs hw.1 (elems_back xs hw.2 x (reads_back x hw.1))
  | .obj [], _ => reads_obj_nil
  | .obj ((k, x) :: ms), h => by
    have hw : x.WF ∧ RJ.WFM ms := h
    exact reads_obj k x ms (members_back ms hw.2 k x hw.1 (reads_back x hw.1))
theorem elems_back : ∀ (xs : List RJ), RJ.WFL xs → ∀ x, ReadsBack x → ElemsReadBack x xs
  | [], _, x, hx => elems_last x hx
  | y :: r, h, x, hx => by
    have hw : y.WF ∧ RJ.WFL r := h
    exact elems_cons x y r hx hw.1 (elems_back r hw.2 y (reads_back y hw.1))
theorem members_back : ∀ (ms : List (List UInt8 × RJ)), RJ.WFM ms → ∀ k x, x.WF → ReadsBack x → MembersReadBack k x ms
  | [], _, k, x, hxw, hx => members_last k x hx hxw
  | (k2, y) :: r, h, k, x, hxw, hx => by
    have hw : y.WF ∧ RJ.WFM r := h
    exact members_cons k k2 x y r hx hxw (members_back r hw.2 k2 y hw.1 (reads_back y hw.1))
end

/-! ### whole documents -/

mutual
theorem need_le : ∀ t : RJ, t.need ≤ t.render.length + 1
  | .null => by simp [RJ.need, RJ.render]
  | .bool b => by cases b <;> simp [RJ.need, RJ.render]
  | .num lit => by simp [RJ.need, RJ.render]
  | .str s => by simp [RJ.need, RJ.render, quoted]
  | .arr [] => by simp [RJ.need, RJ.render]
  | .arr (x :: xs) => by
    have h1 := need_le x
    have h2 := needRest_le xs
    simp only [RJ.need, RJ.render, List.length_cons, List.length_append]
    omega
  | .obj [] => by simp [RJ.need, RJ.render]
  | .obj ((k, x) :: ms) => by
    have h1 := need_le x
    have h2 := needRestM_le ms
    simp only [RJ.need, RJ.render, List.length_cons, List.length_append]
    omega
theorem needRest_le : ∀ xs : List RJ, RJ.needRest xs ≤ (RJ.renderRest xs).length ∧ 1 ≤ (RJ.renderRest xs).length
  | [] => by simp [RJ.needRest, RJ.renderRest]
  | y :: r => by
    have h1 := need_le y
    have h2 := needRest_le r
    simp only [RJ.needRest, RJ.renderRest, List.length_cons, List.length_append]
    omega
theorem needRestM_le : ∀ ms : List (List UInt8 × RJ), RJ.needRestM ms ≤ (RJ.renderRestM ms).length ∧ 1 ≤ (RJ.renderRestM ms).length
  | [] => by simp [RJ.needRestM, RJ.renderRestM]
  | (k, y) :: r => by
    have h1 := need_le y
    have h2 := needRestM_le r
    simp only [RJ.needRestM, RJ.renderRestM, List.length_cons, List.length_append]
    omega
end

/-- **parse ∘ print = id**: the strict specification reads the compact rendering of every
    well-formed tree back as exactly that tree -/
theorem doc_roundtrip (t : RJ) (h : t.WF) : docTree false t.render.toArray = some (t.jsonAt 0) := by
  obtain ⟨c, rest, hc, hws, _⟩ := render_head t h
  have hAt : At t.render 0 t.render := ⟨[], [], by simp, rfl⟩
  have h0 : t.render.toArray[0]? = some c := by rw [hc]; simp
  have hs0 : skipWs t.render.toArray 0 = 0 := skipWs_stay _ _ (by intro d hd; rw [h0] at hd; simp at hd; subst hd; exact hws)
  have hend : t.render.toArray[0 + t.render.length]? = none := by simp
  have hn := need_le t
  have ht := reads_back t h t.render 0 (fuelFor t.render.toArray) hAt (by rw [hend]; exact Or.inl rfl)
    (by simp only [fuelFor, List.size_toArray]; omega)
  have hse : skipWs t.render.toArray (0 + t.render.length) = t.render.toArray.size := by
    rw [skipWs]; simp
  simp only [docTree, hs0, ht, hse, if_true]

/-! ### literals that are numbers: a single non-zero digit (enough for non-vacuity) -/

theorem skipDigits_stop (buf : Buf) (i : Nat) (h : ∀ c, buf[i]? = some c → isDigit c = false) : skipDigits buf i = i := by
  rw [skipDigits]
  split
  · rename_i hlt
    have := h buf[i] (by simp [hlt])
    simp [this]
  · rfl

theorem delim_facts (o : Option UInt8) (h : isDelim o) :
    (∀ c, o = some c → isDigit c = false) ∧ o ≠ some 46 ∧ o ≠ some 101 ∧ o ≠ some 69 := by
  rcases h with h | h | h | h <;> subst h <;> simp <;> decide

/-- a single non-zero digit is read as one number before any delimiter -/
theorem numok_digit (d : UInt8) (hd0 : isDigit d = true) (hnz : d ≠ 48) : NumOK [d] := by
  refine ⟨by simp, by intro c hc; simp at hc; subst hc; simp [hd0], ?_⟩
  intro pre suf hsuf
  have hAt : At (pre ++ [d] ++ suf) pre.length [d] := ⟨pre, suf, rfl, rfl⟩
  have h0 : (pre ++ [d] ++ suf).toArray[pre.length]? = some d := at_head _ _ d [] hAt
  have hend : (pre ++ [d] ++ suf).toArray[pre.length + 1]? = suf.head? := by
    simp only [List.getElem?_toArray]
    rw [List.getElem?_append_right (by simp), List.head?_eq_getElem?]
    simp
  have hdf := delim_facts suf.head? hsuf
  have hsk : skipDigits (pre ++ [d] ++ suf).toArray (pre.length + 1) = pre.length + 1 :=
    skipDigits_stop _ _ (by intro c hc; rw [hend] at hc; exact hdf.1 c hc)
  have hne45 : ¬ ((pre ++ [d] ++ suf).toArray[pre.length]? = some 45) := by
    rw [h0]; intro e; simp at e; subst e; simp [isDigit] at hd0
  have hd48 : (d == 48) = false := by simpa using hnz
  have h46 : ¬ ((pre ++ [d] ++ suf).toArray[pre.length + 1]? = some 46) := by rw [hend]; exact hdf.2.1
  have h101 : ¬ ((pre ++ [d] ++ suf).toArray[pre.length + 1]? = some 101) := by rw [hend]; exact hdf.2.2.1
  have h69 : ¬ ((pre ++ [d] ++ suf).toArray[pre.length + 1]? = some 69) := by rw [hend]; exact hdf.2.2.2
  unfold number
  rw [if_neg hne45]
  simp only [h0, hd0, if_true]
  unfold afterFirst
  simp only [hd48, Bool.false_and, Bool.false_eq_true, if_false, hsk]
  unfold frac
  rw [if_neg h46]
  simp only [Option.bind_some]
  unfold expo
  simp only [h101, h69, Bool.or_self, decide_false, Bool.false_eq_true, if_false]
  simp

end Spec
end Sonic
