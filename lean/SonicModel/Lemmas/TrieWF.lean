import SonicModel.Lemmas.ManyProof
namespace Sonic
namespace Many
open Spec

/-! ### shape of the path trie: child steps are distinct, every child subtree holds a slot -/

/-- some path ends in this subtree -/
def hasSlot (t : Trie) : Prop := ∃ r j, j ∈ orderAt t r

mutual
def Trie.WF : Trie → Prop
  | .node _ kids => WFK kids ∧ (kids.map Prod.fst).Nodup
def WFK : List (Step × Trie) → Prop
  | [] => True
  | (_, c) :: r => hasSlot c ∧ c.WF ∧ WFK r
end

theorem wf_empty : Trie.empty.WF := by
  simp [Trie.empty, Trie.WF, WFK]

theorem orderAt_node_nil (o : List Nat) (kids : List (Step × Trie)) : orderAt (.node o kids) [] = o := by
  simp [orderAt, Trie.at, Trie.order]

theorem updKid_fst (f : Trie → Trie) (s : Step) : ∀ kids : List (Step × Trie),
    (updKid f s kids).map Prod.fst = if s ∈ kids.map Prod.fst then kids.map Prod.fst else kids.map Prod.fst ++ [s] := by
  intro kids
  induction kids with
  | nil => simp [updKid]
  | cons a rest ih =>
    obtain ⟨s', c⟩ := a
    by_cases h : s' = s
    · subst h; simp [updKid]
    · have hne : ¬ (s = s') := fun e => h e.symm
      simp only [updKid, h, if_false, List.map_cons, List.mem_cons, hne, false_or, ih]
      split <;> simp

theorem updKid_nodup (f : Trie → Trie) (s : Step) (kids : List (Step × Trie)) (h : (kids.map Prod.fst).Nodup) :
    ((updKid f s kids).map Prod.fst).Nodup := by
  rw [updKid_fst]
  split
  · exact h
  · rename_i hn
    rw [List.nodup_append]
    refine ⟨h, by simp, ?_⟩
    intro a ha b hb
    simp only [List.mem_singleton] at hb
    subst hb
    intro e; subst e; exact hn ha

theorem updKid_wfk (f : Trie → Trie) (s : Step) (hf : ∀ c, c.WF → (f c).WF ∧ hasSlot (f c)) :
    ∀ kids : List (Step × Trie), WFK kids → WFK (updKid f s kids) := by
  intro kids
  induction kids with
  | nil =>
    intro _
    have := hf Trie.empty wf_empty
    simp only [updKid, WFK, and_true]
    exact ⟨this.2, this.1⟩
  | cons a rest ih =>
    obtain ⟨s', c⟩ := a
    intro h
    simp only [WFK] at h
    by_cases hs : s' = s
    · simp only [updKid, hs, if_true, WFK]
      have := hf c h.2.1
      exact ⟨this.2, this.1, h.2.2⟩
    · simp only [updKid, hs, if_false, WFK]
      exact ⟨h.1, h.2.1, ih h.2.2⟩

/-- inserting a path keeps the shape and leaves a slot in the subtree -/
theorem insert_wf (idx : Nat) : ∀ (p : List Step) (t : Trie), t.WF → (t.insert idx p).WF ∧ hasSlot (t.insert idx p) := by
  intro p
  induction p with
  | nil =>
    intro t h
    obtain ⟨o, kids⟩ := t
    simp only [Trie.insert]
    refine ⟨by simpa [Trie.WF] using h, [], idx, ?_⟩
    rw [orderAt_node_nil]; simp
  | cons s rest ih =>
    intro t h
    obtain ⟨o, kids⟩ := t
    simp only [Trie.insert]
    simp only [Trie.WF] at h
    refine ⟨?_, ?_⟩
    · simp only [Trie.WF]
      exact ⟨updKid_wfk _ s ih kids h.1, updKid_nodup _ s kids h.2⟩
    · -- the slot is below the child under `s`
      have hfind := findKid_updKid_same (Trie.insert idx rest) s kids
      cases hk : findKid s kids with
      | none =>
        rw [hk] at hfind
        obtain ⟨_, r, j, hj⟩ := ih Trie.empty wf_empty
        refine ⟨s :: r, j, ?_⟩
        rw [orderAt_cons, hfind]; exact hj
      | some c =>
        rw [hk] at hfind
        -- the existing child is well-formed because the kids are
        have hcwf : c.WF := by
          clear hfind
          induction kids with
          | nil => simp [findKid] at hk
          | cons a r ihk =>
            obtain ⟨s', c'⟩ := a
            simp only [WFK] at h
            by_cases hs : s' = s
            · simp only [findKid, hs, if_true, Option.some.injEq] at hk
              subst hk; exact h.1.2.1
            · simp only [findKid, hs, if_false] at hk
              exact ihk ⟨h.1.2.2, (List.nodup_cons.mp (by simpa using h.2)).2⟩ hk
        obtain ⟨_, r, j, hj⟩ := ih c hcwf
        refine ⟨s :: r, j, ?_⟩
        rw [orderAt_cons, hfind]; exact hj

theorem buildFrom_wf : ∀ (paths : List (List Step)) (t : Trie) (n : Nat), t.WF → (buildFrom t n paths).WF := by
  intro paths
  induction paths with
  | nil => intro t n h; simpa [buildFrom] using h
  | cons p rest ih =>
    intro t n h
    simp only [buildFrom]
    exact ih _ _ (insert_wf n p t h).1

theorem build_wf (paths : List (List Step)) : (build paths).WF := buildFrom_wf paths _ _ wf_empty

end Many
end Sonic
