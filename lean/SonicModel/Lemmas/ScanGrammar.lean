import SonicModel.Lemmas.ScanRange
import SonicModel.Lemmas.SpecBound
import SonicModel.Lemmas.SpecFuel
namespace Sonic
namespace Spec

/-! ### on a well-formed text the scalar scan finds the matching bracket -/

/-- the two kinds of container the skipper is used for -/
def Kind (left right : UInt8) : Prop := (left = 123 ∧ right = 125) ∨ (left = 91 ∧ right = 93)

theorem scanB_step (left right : UInt8) (buf : Buf) (i e : Nat) (s : ScanSt) (h : i < e) (hb : i < buf.size) :
    scanB left right buf i e s =
      (if (scanStep left right s buf[i]).2 then (some 1, (scanStep left right s buf[i]).1)
       else ((scanB left right buf (i+1) e (scanStep left right s buf[i]).1).1.map (· + 1),
             (scanB left right buf (i+1) e (scanStep left right s buf[i]).1).2)) := by
  rw [scanB]
  simp [h, hb]

/-- inside a string, a byte that is neither a quote nor a backslash changes nothing -/
theorem scanStep_instr (left right : UInt8) (s : ScanSt) (b : UInt8) (hs : s.inStr = true) (he : s.esc = false)
    (h1 : b ≠ 34) (h2 : b ≠ 92) : scanStep left right s b = (s, false) := by
  have e1 : (b == 34) = false := by simpa using h1
  have e2 : (b == 92) = false := by simpa using h2
  cases s
  simp_all [scanStep]

/-- inside a string, an escaped byte only clears the escape -/
theorem scanStep_escaped (left right : UInt8) (s : ScanSt) (b : UInt8) (hs : s.inStr = true) (he : s.esc = true) :
    scanStep left right s b = ({ s with esc := false }, false) := by
  cases s
  simp_all [scanStep]

/-- inside a string, an unescaped backslash arms the escape -/
theorem scanStep_backslash (left right : UInt8) (s : ScanSt) (hs : s.inStr = true) (he : s.esc = false) :
    scanStep left right s 92 = ({ s with esc := true }, false) := by
  cases s
  simp_all [scanStep]

/-- the unescaped closing quote leaves the string; a quote is not a bracket -/
theorem scanStep_close (left right : UInt8) (hk : Kind left right) (s : ScanSt) (hs : s.inStr = true) (he : s.esc = false) :
    scanStep left right s 34 = ({ s with inStr := false }, false) := by
  have h1 : ((34 : UInt8) == right) = false := by rcases hk with ⟨_, rfl⟩ | ⟨_, rfl⟩ <;> decide
  have h2 : ((34 : UInt8) == left) = false := by rcases hk with ⟨rfl, _⟩ | ⟨rfl, _⟩ <;> decide
  cases s
  simp_all [scanStep]

theorem scanStep_open (left right : UInt8) (s : ScanSt) (hs : s.inStr = false) (he : s.esc = false) :
    scanStep left right s 34 = ({ s with inStr := true }, false) := by
  cases s
  simp_all [scanStep]

/-- the state in which the scan is inside a string -/
def InStrR (left right : UInt8) (buf : Buf) (i e : Nat) : Prop :=
  ∀ s : ScanSt, s.inStr = true → s.esc = false →
    scanB left right buf i e s = (none, { s with inStr := false })

theorem hex_plain : ∀ c : UInt8, isHex c = true → c ≠ 34 ∧ c ≠ 92 := by
  apply Sonic.UInt8.forall_of_fin; decide +kernel

/-- `n` bytes inside a string none of which is a quote or a backslash -/
theorem scanB_instr_run (left right : UInt8) (buf : Buf) : ∀ (n i e : Nat) (s : ScanSt), s.inStr = true → s.esc = false →
    i + n ≤ e → i + n ≤ buf.size →
    (∀ k (hk : k < buf.size), i ≤ k → k < i + n → buf[k] ≠ 34 ∧ buf[k] ≠ 92) →
    scanB left right buf i e s =
      ((scanB left right buf (i + n) e s).1.map (· + n), (scanB left right buf (i + n) e s).2) := by
  intro n
  induction n with
  | zero =>
    intro i e s _ _ _ _ _
    simp only [Nat.add_zero]
    cases hh : (scanB left right buf i e s).1 with
    | none => simp only [Option.map_none]; rw [← hh]
    | some x => simp only [Option.map_some, Nat.add_zero]; rw [← hh]
  | succ n ih =>
    intro i e s hs he h1 h2 hp
    have hb : i < buf.size := by omega
    have hc := hp i hb (Nat.le_refl _) (by omega)
    rw [scanB_step left right buf i e s (by omega) hb, scanStep_instr left right s buf[i] hs he hc.1 hc.2]
    simp only [Bool.false_eq_true, if_false]
    rw [ih (i+1) e s hs he (by omega) (by omega) (fun k hk a b => hp k hk (by omega) (by omega))]
    rw [show i + 1 + n = i + (n + 1) by omega]
    cases (scanB left right buf (i + (n + 1)) e s).1 <;> simp <;> omega


theorem stringG_ge (buf : Buf) (i e : Nat) (h : stringG buf i = some e) : i < e :=
  (stringG_progress buf i e h).1

theorem hex4ok_bytes (buf : Buf) (i : Nat) (h : hex4ok buf i = true) :
    i + 4 ≤ buf.size ∧ ∀ k (hk : k < buf.size), i ≤ k → k < i + 4 → buf[k] ≠ 34 ∧ buf[k] ≠ 92 := by
  unfold hex4ok at h
  cases h0 : buf[i]? with
  | none => simp [h0] at h
  | some a =>
    cases h1 : buf[i+1]? with
    | none => simp [h0, h1] at h
    | some b =>
      cases h2 : buf[i+2]? with
      | none => simp [h0, h1, h2] at h
      | some c =>
        cases h3 : buf[i+3]? with
        | none => simp [h0, h1, h2, h3] at h
        | some d =>
          simp only [h0, h1, h2, h3, Bool.and_eq_true] at h
          have hs3 := (Array.getElem?_eq_some_iff.mp h3).1
          refine ⟨by omega, ?_⟩
          intro k hk hik hk4
          have : k = i ∨ k = i + 1 ∨ k = i + 2 ∨ k = i + 3 := by omega
          rcases this with rfl | rfl | rfl | rfl
          · have := (Array.getElem?_eq_some_iff.mp h0).2; rw [this]; exact hex_plain a h.1.1.1
          · have := (Array.getElem?_eq_some_iff.mp h1).2; rw [this]; exact hex_plain b h.1.1.2
          · have := (Array.getElem?_eq_some_iff.mp h2).2; rw [this]; exact hex_plain c h.1.2
          · have := (Array.getElem?_eq_some_iff.mp h3).2; rw [this]; exact hex_plain d h.2

/-- the content of a string literal up to and including the closing quote brings the scan out of the string -/
theorem stringG_instr (left right : UInt8) (hk : Kind left right) (buf : Buf) : ∀ (n i e : Nat), buf.size - i = n →
    stringG buf i = some e → InStrR left right buf i e := by
  intro n
  induction n using Nat.strongRecOn with
  | _ n ih =>
    intro i e hn h s hs he
    obtain ⟨si, se, sl, sr⟩ := s
    simp only at hs he
    subst hs he
    have hs : ({ inStr := true, esc := false, l := sl, r := sr } : ScanSt).inStr = true := rfl
    have he : ({ inStr := true, esc := false, l := sl, r := sr } : ScanSt).esc = false := rfl
    rw [stringG] at h
    by_cases hlt : i < buf.size
    · simp only [hlt, dite_true] at h
      have hle := stringG_le buf
      by_cases hq : (buf[i] == 34) = true
      · -- the closing quote
        simp only [hq, if_true, Option.some.injEq] at h
        subst h
        have hb : buf[i] = 34 := by simpa using hq
        rw [scanB_step left right buf i (i+1) _ (by omega) hlt, hb, scanStep_close left right hk _ hs he]
        simp only [Bool.false_eq_true, if_false]
        rw [scanB_empty left right buf (i+1) (i+1) _ (Nat.le_refl _)]
        rfl
      · simp only [hq, Bool.false_eq_true, if_false] at h
        by_cases hbs : (buf[i] == 92) = true
        · simp only [hbs, if_true] at h
          have hb : buf[i] = 92 := by simpa using hbs
          cases h1 : buf[i+1]? with
          | none => simp [h1] at h
          | some c =>
            simp only [h1] at h
            have hs1 := Array.getElem?_eq_some_iff.mp h1
            have hlt1 : i + 1 < buf.size := hs1.1
            by_cases hse : isSimpleEsc c = true
            · simp only [hse, if_true] at h
              have hee : i + 2 ≤ e := by
                have := stringG_ge buf (i+2) e h; omega
              rw [scanB_step left right buf i e _ (by omega) hlt, hb, scanStep_backslash left right _ hs he]
              simp only [Bool.false_eq_true, if_false]
              rw [scanB_step left right buf (i+1) e _ (by omega) hlt1,
                scanStep_escaped left right ⟨true, true, sl, sr⟩ buf[i+1] rfl rfl]
              simp only [Bool.false_eq_true, if_false]
              have := ih (buf.size - (i+2)) (by omega) (i+2) e rfl h ⟨true, false, sl, sr⟩ rfl rfl
              simp only at this ⊢
              rw [this]; rfl
            · simp only [hse, Bool.false_eq_true, if_false] at h
              by_cases hu : (c == 117) = true
              · simp only [hu, if_true] at h
                by_cases hx : hex4ok buf (i+2) = true
                · simp only [hx, if_true] at h
                  obtain ⟨hx4, hxp⟩ := hex4ok_bytes buf (i+2) hx
                  have hee : i + 6 ≤ e := by
                    have := stringG_ge buf (i+6) e h; omega
                  rw [scanB_step left right buf i e _ (by omega) hlt, hb, scanStep_backslash left right _ hs he]
                  simp only [Bool.false_eq_true, if_false]
                  rw [scanB_step left right buf (i+1) e _ (by omega) hlt1,
                    scanStep_escaped left right ⟨true, true, sl, sr⟩ buf[i+1] rfl rfl]
                  simp only [Bool.false_eq_true, if_false]
                  rw [scanB_instr_run left right buf 4 (i+1+1) e ⟨true, false, sl, sr⟩ rfl rfl (by omega) (by omega)
                    (fun k hkk a b => hxp k hkk (by omega) (by omega))]
                  have := ih (buf.size - (i+6)) (by omega) (i+6) e rfl h ⟨true, false, sl, sr⟩ rfl rfl
                  rw [show i + 1 + 1 + 4 = i + 6 by omega, this]; rfl
                · simp [hx] at h
              · simp [hu] at h
        · simp only [hbs, Bool.false_eq_true, if_false] at h
          by_cases hctl : buf[i] < 32
          · simp [hctl] at h
          · simp only [hctl, if_false] at h
            have h34 : buf[i] ≠ 34 := by simpa using hq
            have h92 : buf[i] ≠ 92 := by simpa using hbs
            have hee : i + 1 ≤ e := by
              have := stringG_ge buf (i+1) e h; omega
            rw [scanB_step left right buf i e _ (by omega) hlt, scanStep_instr left right _ buf[i] hs he h34 h92]
            simp only [Bool.false_eq_true, if_false]
            have := ih (buf.size - (i+1)) (by omega) (i+1) e rfl h ⟨true, false, sl, sr⟩ rfl rfl
            rw [this]; rfl
    · simp [hlt] at h


/-! ### ranges of plain bytes: whitespace, digits, number tokens, literals -/

def PlainR (left right : UInt8) (buf : Buf) (i e : Nat) : Prop :=
  ∀ k (hk : k < buf.size), i ≤ k → k < e → plain left right buf[k] = true

theorem plainR_trans (left right : UInt8) (buf : Buf) (i m e : Nat)
    (h1 : PlainR left right buf i m) (h2 : PlainR left right buf m e) : PlainR left right buf i e := by
  intro k hk a b
  by_cases hkm : k < m
  · exact h1 k hk a hkm
  · exact h2 k hk (by omega) b

theorem plainR_one (left right : UInt8) (buf : Buf) (i : Nat) (c : UInt8) (h : buf[i]? = some c)
    (hp : plain left right c = true) : PlainR left right buf i (i + 1) := by
  intro k hk a b
  have : k = i := by omega
  subst this
  have := (Array.getElem?_eq_some_iff.mp h).2
  rw [this]; exact hp

theorem plainR_empty (left right : UInt8) (buf : Buf) (i e : Nat) (h : e ≤ i) : PlainR left right buf i e := by
  intro k _ a b; omega

theorem ws_plain (left right : UInt8) (hk : Kind left right) : ∀ b : UInt8, isWs b = true → plain left right b = true := by
  rcases hk with ⟨rfl, rfl⟩ | ⟨rfl, rfl⟩ <;> (apply Sonic.UInt8.forall_of_fin; decide +kernel)

theorem digit_plain (left right : UInt8) (hk : Kind left right) : ∀ b : UInt8, isDigit b = true → plain left right b = true := by
  rcases hk with ⟨rfl, rfl⟩ | ⟨rfl, rfl⟩ <;> (apply Sonic.UInt8.forall_of_fin; decide +kernel)

theorem skipWs_plainR (left right : UInt8) (hk : Kind left right) (buf : Buf) (i : Nat) :
    PlainR left right buf i (skipWs buf i) := by
  fun_induction skipWs buf i
  · rename_i i hlt hw ih
    intro k hkk a b
    by_cases hki : k = i
    · subst hki; exact ws_plain left right hk _ hw
    · exact ih k hkk (by omega) b
  · rename_i i hlt hw
    intro k _ a b; omega
  · rename_i i hlt
    intro k _ a b; omega

theorem skipDigits_plainR (left right : UInt8) (hk : Kind left right) (buf : Buf) (i : Nat) :
    PlainR left right buf i (skipDigits buf i) := by
  fun_induction skipDigits buf i
  · rename_i i hlt hw ih
    intro k hkk a b
    by_cases hki : k = i
    · subst hki; exact digit_plain left right hk _ hw
    · exact ih k hkk (by omega) b
  · rename_i i hlt hw
    intro k _ a b; omega
  · rename_i i hlt
    intro k _ a b; omega

theorem balR_of_plainR (left right : UInt8) (buf : Buf) (i e : Nat) (h : PlainR left right buf i e) :
    BalR left right buf i e := balR_plain left right buf (e - i) i e rfl h


theorem litAt_plainR (left right : UInt8) (buf : Buf) : ∀ (bs : List UInt8) (i e : Nat),
    (∀ b ∈ bs, plain left right b = true) → litAt buf i bs = some e → PlainR left right buf i e ∧ i ≤ e := by
  intro bs
  induction bs with
  | nil => intro i e _ h; simp [litAt] at h; subst h; exact ⟨plainR_empty _ _ _ _ _ (Nat.le_refl _), Nat.le_refl _⟩
  | cons b rest ih =>
    intro i e hp h
    simp only [litAt] at h
    by_cases hb : buf[i]? = some b
    · simp only [hb, if_true] at h
      obtain ⟨h1, h2⟩ := ih (i+1) e (fun x hx => hp x (by simp [hx])) h
      exact ⟨plainR_trans _ _ _ i (i+1) e (plainR_one _ _ _ i b hb (hp b (by simp))) h1, by omega⟩
    · simp [hb] at h

/-- a number token consists of plain bytes -/
theorem number_plainR (left right : UInt8) (hk : Kind left right) (buf : Buf) (i e : Nat)
    (h : number buf i = some e) : PlainR left right buf i e := by
  have hminus : plain left right 45 = true := by rcases hk with ⟨rfl, rfl⟩ | ⟨rfl, rfl⟩ <;> decide
  have hdot : plain left right 46 = true := by rcases hk with ⟨rfl, rfl⟩ | ⟨rfl, rfl⟩ <;> decide
  have hplus : plain left right 43 = true := by rcases hk with ⟨rfl, rfl⟩ | ⟨rfl, rfl⟩ <;> decide
  have he1 : plain left right 101 = true := by rcases hk with ⟨rfl, rfl⟩ | ⟨rfl, rfl⟩ <;> decide
  have he2 : plain left right 69 = true := by rcases hk with ⟨rfl, rfl⟩ | ⟨rfl, rfl⟩ <;> decide
  -- the exponent part
  have hexpo : ∀ a r, expo buf a = some r → PlainR left right buf a r := by
    intro a r hx
    unfold expo at hx
    by_cases hE : (buf[a]? = some 101 || buf[a]? = some 69) = true
    · simp only [hE, if_true] at hx
      have hEp : PlainR left right buf a (a + 1) := by
        simp only [Bool.or_eq_true, decide_eq_true_eq] at hE
        rcases hE with h1 | h1
        · exact plainR_one _ _ _ a 101 h1 he1
        · exact plainR_one _ _ _ a 69 h1 he2
      by_cases hS : (buf[a+1]? = some 45 || buf[a+1]? = some 43) = true
      · simp only [hS, if_true] at hx
        have hSp : PlainR left right buf (a+1) (a + 2) := by
          simp only [Bool.or_eq_true, decide_eq_true_eq] at hS
          rcases hS with h1 | h1
          · exact plainR_one _ _ _ (a+1) 45 h1 hminus
          · exact plainR_one _ _ _ (a+1) 43 h1 hplus
        by_cases hd : isDigitAt buf (a+2) = true
        · simp only [hd, if_true, Option.some.injEq] at hx
          subst hx
          have hdp : PlainR left right buf (a+2) (a+2+1) := by
            unfold isDigitAt at hd
            cases hc : buf[a+2]? with
            | none => simp [hc] at hd
            | some c => simp only [hc] at hd; exact plainR_one _ _ _ (a+2) c hc (digit_plain _ _ hk c hd)
          exact plainR_trans _ _ _ a (a+1) _ hEp (plainR_trans _ _ _ (a+1) (a+2) _ hSp
            (plainR_trans _ _ _ (a+2) (a+2+1) _ hdp (skipDigits_plainR _ _ hk buf (a+2+1))))
        · simp [hd] at hx
      · simp only [hS, Bool.false_eq_true, if_false] at hx
        by_cases hd : isDigitAt buf (a+1) = true
        · simp only [hd, if_true, Option.some.injEq] at hx
          subst hx
          have hdp : PlainR left right buf (a+1) (a+1+1) := by
            unfold isDigitAt at hd
            cases hc : buf[a+1]? with
            | none => simp [hc] at hd
            | some c => simp only [hc] at hd; exact plainR_one _ _ _ (a+1) c hc (digit_plain _ _ hk c hd)
          exact plainR_trans _ _ _ a (a+1) _ hEp (plainR_trans _ _ _ (a+1) (a+1+1) _ hdp (skipDigits_plainR _ _ hk buf (a+1+1)))
        · simp [hd] at hx
    · simp only [hE, Bool.false_eq_true, if_false, Option.some.injEq] at hx
      subst hx; exact plainR_empty _ _ _ _ _ (Nat.le_refl _)
  -- the fraction part
  have hfrac : ∀ a r, frac buf a = some r → PlainR left right buf a r := by
    intro a r hx
    unfold frac at hx
    by_cases hD : buf[a]? = some 46
    · simp only [hD, if_true] at hx
      by_cases hd : isDigitAt buf (a+1) = true
      · simp only [hd, if_true, Option.some.injEq] at hx
        subst hx
        have hdp : PlainR left right buf (a+1) (a+2) := by
          unfold isDigitAt at hd
          cases hc : buf[a+1]? with
          | none => simp [hc] at hd
          | some c => simp only [hc] at hd; exact plainR_one _ _ _ (a+1) c hc (digit_plain _ _ hk c hd)
        exact plainR_trans _ _ _ a (a+1) _ (plainR_one _ _ _ a 46 hD hdot)
          (plainR_trans _ _ _ (a+1) (a+2) _ hdp (skipDigits_plainR _ _ hk buf (a+2)))
      · simp [hd] at hx
    · simp only [hD, if_false, Option.some.injEq] at hx
      subst hx; exact plainR_empty _ _ _ _ _ (Nat.le_refl _)
  unfold number at h
  -- the sign
  have hsign : PlainR left right buf i (if buf[i]? = some 45 then i + 1 else i) := by
    by_cases hm : buf[i]? = some 45
    · simp only [hm, if_true]; exact plainR_one _ _ _ i 45 hm hminus
    · simp only [hm, if_false]; exact plainR_empty _ _ _ _ _ (Nat.le_refl _)
  generalize (if buf[i]? = some 45 then i + 1 else i) = i1 at h hsign
  simp only at h
  cases hc : buf[i1]? with
  | none => simp [hc] at h
  | some c =>
    simp only [hc] at h
    by_cases hd : isDigit c = true
    · simp only [hd, if_true] at h
      unfold afterFirst at h
      simp only at h
      have hfirst := plainR_one left right buf i1 c hc (digit_plain _ _ hk c hd)
      have hint : PlainR left right buf (i1+1) (if (c == 48) = true then i1 + 1 else skipDigits buf (i1 + 1)) := by
        by_cases hz : (c == 48) = true
        · simp only [hz, if_true]; exact plainR_empty _ _ _ _ _ (Nat.le_refl _)
        · simp only [hz, Bool.false_eq_true, if_false]; exact skipDigits_plainR _ _ hk buf (i1+1)
      generalize (if (c == 48) = true then i1 + 1 else skipDigits buf (i1 + 1)) = i2 at h hint
      by_cases hbad : (c == 48 && isDigitAt buf i2) = true
      · simp [hbad] at h
      · simp only [hbad, Bool.false_eq_true, if_false] at h
        cases hfr : frac buf i2 with
        | none => simp [hfr] at h
        | some i3 =>
          simp only [hfr, Option.bind_some] at h
          exact plainR_trans _ _ _ i i1 e hsign (plainR_trans _ _ _ i1 (i1+1) e hfirst
            (plainR_trans _ _ _ (i1+1) i2 e hint (plainR_trans _ _ _ i2 i3 e (hfrac i2 i3 hfr) (hexpo i3 e h))))
    · simp [hd] at h


/-! ### combinators: a value is balanced; a container tail closes one bracket -/

/-- the rest of a container — from an element / member through the closing bracket `close` -/
def TailR (left right close : UInt8) (buf : Buf) (i e : Nat) : Prop :=
  ∀ s : ScanSt, s.inStr = false → s.esc = false → s.r ≤ s.l → (close = right → s.r < s.l) →
    ∃ k, scanB left right buf i e s = (none, ⟨false, false, s.l + k, s.r + k + (if close = right then 1 else 0)⟩)

theorem tail_cons (left right close : UInt8) (buf : Buf) (i m e : Nat) (him : i ≤ m) (hme : m ≤ e) (hmb : m ≤ buf.size)
    (h1 : BalR left right buf i m) (h2 : TailR left right close buf m e) : TailR left right close buf i e := by
  intro s hs he hr hc
  obtain ⟨k1, hk1⟩ := h1 s hs he hr
  obtain ⟨k2, hk2⟩ := h2 ⟨false, false, s.l + k1, s.r + k1⟩ rfl rfl (by simp; omega) (by intro hh; have := hc hh; simp; omega)
  refine ⟨k1 + k2, ?_⟩
  rw [scanB_split left right buf (m - i) i m e s rfl him hme hmb, hk1]
  simp only [hk2, Option.map_none]
  have e1 : s.l + k1 + k2 = s.l + (k1 + k2) := by omega
  have e2 : s.r + k1 + k2 = s.r + (k1 + k2) := by omega
  rw [e1, e2]

/-- a closing bracket that does not close the scanned container -/
theorem tail_close (left right close : UInt8) (hk : Kind left right) (hcl : close = 93 ∨ close = 125) (buf : Buf) (j : Nat)
    (hj : buf[j]? = some close) : TailR left right close buf j (j + 1) := by
  intro s hs he hr hc
  have hjl := (Array.getElem?_eq_some_iff.mp hj).1
  have hjv := (Array.getElem?_eq_some_iff.mp hj).2
  refine ⟨0, ?_⟩
  rw [scanB_step left right buf j (j+1) s (by omega) hjl, hjv]
  have h34 : (close == 34) = false := by rcases hcl with rfl | rfl <;> decide
  have h92 : (close == 92) = false := by rcases hcl with rfl | rfl <;> decide
  have hleft : (close == left) = false := by
    rcases hk with ⟨rfl, _⟩ | ⟨rfl, _⟩ <;> rcases hcl with rfl | rfl <;> decide
  obtain ⟨si, se, sl, sr⟩ := s
  simp only at hs he hr hc
  subst hs he
  by_cases hcr : close = right
  · have hlt := hc hcr
    have hcr' : (close == right) = true := by simpa using hcr
    have hnl : ¬ (sl < sr + 1) := by omega
    simp only [scanStep, h34, h92, Bool.false_and, Bool.xor_false, Bool.not_false, Bool.true_and, hcr',
      if_true, hnl, decide_false, Bool.false_eq_true, if_false]
    rw [scanB_empty left right buf (j+1) (j+1) _ (Nat.le_refl _)]
    simp [hcr]
  · have hcr' : (close == right) = false := by simpa using hcr
    simp only [scanStep, h34, h92, Bool.false_and, Bool.xor_false, Bool.not_false, Bool.true_and, hcr', hleft,
      Bool.false_eq_true, if_false, Nat.add_zero]
    rw [scanB_empty left right buf (j+1) (j+1) _ (Nat.le_refl _)]
    simp [hcr]

/-- an opening bracket followed by the rest of its container -/
theorem bal_open (left right o close : UInt8) (hk : Kind left right) (hoc : (o = 91 ∧ close = 93) ∨ (o = 123 ∧ close = 125))
    (buf : Buf) (i e : Nat) (hi : buf[i]? = some o) (hie : i + 1 ≤ e)
    (ht : TailR left right close buf (i + 1) e) : BalR left right buf i e := by
  intro s hs he hr
  have hil := (Array.getElem?_eq_some_iff.mp hi).1
  have hiv := (Array.getElem?_eq_some_iff.mp hi).2
  have h34 : (o == 34) = false := by rcases hoc with ⟨rfl, _⟩ | ⟨rfl, _⟩ <;> decide
  have h92 : (o == 92) = false := by rcases hoc with ⟨rfl, _⟩ | ⟨rfl, _⟩ <;> decide
  have hright : (o == right) = false := by
    rcases hk with ⟨_, rfl⟩ | ⟨_, rfl⟩ <;> rcases hoc with ⟨rfl, _⟩ | ⟨rfl, _⟩ <;> decide
  have hmatch : (o = left) ↔ (close = right) := by
    rcases hk with ⟨rfl, rfl⟩ | ⟨rfl, rfl⟩ <;> rcases hoc with ⟨rfl, rfl⟩ | ⟨rfl, rfl⟩ <;> decide
  obtain ⟨si, se, sl, sr⟩ := s
  simp only at hs he hr
  subst hs he
  rw [scanB_step left right buf i e _ (by omega) hil, hiv]
  simp only [scanStep, h34, h92, Bool.false_and, Bool.xor_false, Bool.not_false, Bool.true_and, hright,
    Bool.false_eq_true, if_false]
  by_cases hol : o = left
  · have hcr := hmatch.mp hol
    have hol' : (o == left) = true := by simpa using hol
    simp only [hol', if_true]
    obtain ⟨k, hk2⟩ := ht ⟨false, false, sl + 1, sr⟩ rfl rfl (by simp; omega) (by intro _; simp; omega)
    refine ⟨k + 1, ?_⟩
    rw [hk2]
    simp only [hcr, if_true, Option.map_none]
    have e1 : sl + 1 + k = sl + (k + 1) := by omega
    have e2 : sr + k + 1 = sr + (k + 1) := by omega
    rw [e1, e2]
  · have hcr : ¬ (close = right) := fun h => hol (hmatch.mpr h)
    have hol' : (o == left) = false := by simpa using hol
    simp only [hol', Bool.false_eq_true, if_false, Nat.add_zero]
    obtain ⟨k, hk2⟩ := ht ⟨false, false, sl, sr⟩ rfl rfl hr (by intro h; exact absurd h hcr)
    refine ⟨k, ?_⟩
    rw [hk2]
    simp [hcr]

/-- a string literal from its opening quote -/
theorem string_balR (left right : UInt8) (hk : Kind left right) (buf : Buf) (i e : Nat) (hi : buf[i]? = some 34)
    (h : stringG buf (i + 1) = some e) : BalR left right buf i e := by
  intro s hs he _
  have hil := (Array.getElem?_eq_some_iff.mp hi).1
  have hiv := (Array.getElem?_eq_some_iff.mp hi).2
  have hge := stringG_ge buf (i+1) e h
  refine ⟨0, ?_⟩
  rw [scanB_step left right buf i e s (by omega) hil, hiv, scanStep_open left right s hs he]
  simp only [Bool.false_eq_true, if_false]
  have := stringG_instr left right hk buf (buf.size - (i+1)) (i+1) e rfl h { s with inStr := true } rfl he
  rw [this]
  obtain ⟨si, se, sl, sr⟩ := s
  simp only at hs he
  subst hs he
  rfl


/-! ### every well-formed value is balanced -/

theorem plain_sep (left right : UInt8) (hk : Kind left right) : plain left right 44 = true ∧ plain left right 58 = true := by
  rcases hk with ⟨rfl, rfl⟩ | ⟨rfl, rfl⟩ <;> decide

theorem lit_bytes_plain (left right : UInt8) (hk : Kind left right) :
    (∀ b ∈ [(114 : UInt8), 117, 101], plain left right b = true) ∧
    (∀ b ∈ [(97 : UInt8), 108, 115, 101], plain left right b = true) ∧
    (∀ b ∈ [(117 : UInt8), 108, 108], plain left right b = true) ∧
    plain left right 116 = true ∧ plain left right 102 = true ∧ plain left right 110 = true := by
  rcases hk with ⟨rfl, rfl⟩ | ⟨rfl, rfl⟩ <;> decide

theorem grammar_bal (left right : UInt8) (hk : Kind left right) (buf : Buf) : ∀ f,
    (∀ i e, value false f buf i = .ok e → BalR left right buf i e) ∧
    (∀ i e, elems false f buf i = .ok e → TailR left right 93 buf i e) ∧
    (∀ i e, members false f buf i = .ok e → TailR left right 125 buf i e) := by
  intro f
  induction f with
  | zero => simp [value, elems, members]
  | succ f ih =>
    obtain ⟨ihv, ihe, ihm⟩ := ih
    have hsep := plain_sep left right hk
    have hlit := lit_bytes_plain left right hk
    refine ⟨?_, ?_, ?_⟩
    · -- a value
      intro i e h
      have hbe := ((bound false buf (f+1) i e).1) h
      have hpr := ((progress false buf (f+1) i e).1) h
      unfold value at h
      cases hb : buf[i]? with
      | none => simp [hb] at h
      | some c =>
        simp only [hb] at h
        by_cases hnum : (c == 45 || isDigit c) = true
        · simp only [hnum, if_true, numberS_false] at h
          cases hn : number buf i with
          | none => simp [hn] at h
          | some e' =>
            simp only [hn, Res.ofOpt_some, Res.ok.injEq] at h
            subst h
            exact balR_of_plainR _ _ _ _ _ (number_plainR left right hk buf i e' hn)
        · simp only [hnum, Bool.false_eq_true, if_false] at h
          by_cases hq : (c == 34) = true
          · simp only [hq, if_true] at h
            have hc : c = 34 := by simpa using hq
            subst hc
            cases hs : string false buf (i+1) with
            | none => simp [hs] at h
            | some e' =>
              simp only [hs, Res.ofOpt_some, Res.ok.injEq] at h
              subst h
              have : stringG buf (i+1) = some e' := by simpa [string] using hs
              exact string_balR left right hk buf i e' hb this
          · simp only [hq, Bool.false_eq_true, if_false] at h
            by_cases ho : (c == 123) = true
            · simp only [ho, if_true] at h
              have hc : c = 123 := by simpa using ho
              subst hc
              have hwp := skipWs_plainR left right hk buf (i+1)
              have hwge := skipWs_ge buf (i+1)
              have hwle := skipWs_le buf (i+1) (by omega)
              apply bal_open left right 123 125 hk (Or.inr ⟨rfl, rfl⟩) buf i e hb (by omega)
              by_cases hcl : buf[skipWs buf (i+1)]? = some 125
              · simp only [hcl, if_true, Res.ok.injEq] at h
                subst h
                exact tail_cons _ _ _ _ (i+1) (skipWs buf (i+1)) _ hwge (by omega) hwle
                  (balR_of_plainR _ _ _ _ _ hwp) (tail_close left right 125 hk (Or.inr rfl) buf _ hcl)
              · simp only [hcl, if_false] at h
                have hme := ((progress false buf f (skipWs buf (i+1)) e).2.2) h
                exact tail_cons _ _ _ _ (i+1) (skipWs buf (i+1)) _ hwge (by omega) hwle
                  (balR_of_plainR _ _ _ _ _ hwp) (ihm _ _ h)
            · simp only [ho, Bool.false_eq_true, if_false] at h
              by_cases ha : (c == 91) = true
              · simp only [ha, if_true] at h
                have hc : c = 91 := by simpa using ha
                subst hc
                have hwp := skipWs_plainR left right hk buf (i+1)
                have hwge := skipWs_ge buf (i+1)
                have hwle := skipWs_le buf (i+1) (by omega)
                apply bal_open left right 91 93 hk (Or.inl ⟨rfl, rfl⟩) buf i e hb (by omega)
                by_cases hcl : buf[skipWs buf (i+1)]? = some 93
                · simp only [hcl, if_true, Res.ok.injEq] at h
                  subst h
                  exact tail_cons _ _ _ _ (i+1) (skipWs buf (i+1)) _ hwge (by omega) hwle
                    (balR_of_plainR _ _ _ _ _ hwp) (tail_close left right 93 hk (Or.inl rfl) buf _ hcl)
                · simp only [hcl, if_false] at h
                  have hme := ((progress false buf f (skipWs buf (i+1)) e).2.1) h
                  exact tail_cons _ _ _ _ (i+1) (skipWs buf (i+1)) _ hwge (by omega) hwle
                    (balR_of_plainR _ _ _ _ _ hwp) (ihe _ _ h)
              · simp only [ha, Bool.false_eq_true, if_false] at h
                -- literals
                have hone : ∀ (b : UInt8) (bs : List UInt8), c = b → plain left right b = true →
                    (∀ x ∈ bs, plain left right x = true) → Res.ofOpt (lit buf (i+1) bs) = .ok e → BalR left right buf i e := by
                  intro b bs hcb hpb hpbs hl
                  subst hcb
                  cases hll : lit buf (i+1) bs with
                  | none => simp [hll] at hl
                  | some e' =>
                    simp only [hll, Res.ofOpt_some, Res.ok.injEq] at hl
                    subst hl
                    obtain ⟨hp2, _⟩ := litAt_plainR left right buf bs (i+1) e' hpbs (by simpa [lit] using hll)
                    exact balR_of_plainR _ _ _ _ _ (plainR_trans _ _ _ i (i+1) e' (plainR_one _ _ _ i c hb hpb) hp2)
                by_cases ht : (c == 116) = true
                · simp only [ht, if_true] at h
                  exact hone 116 _ (by simpa using ht) hlit.2.2.2.1 hlit.1 h
                · simp only [ht, Bool.false_eq_true, if_false] at h
                  by_cases hf : (c == 102) = true
                  · simp only [hf, if_true] at h
                    exact hone 102 _ (by simpa using hf) hlit.2.2.2.2.1 hlit.2.1 h
                  · simp only [hf, Bool.false_eq_true, if_false] at h
                    by_cases hn : (c == 110) = true
                    · simp only [hn, if_true] at h
                      exact hone 110 _ (by simpa using hn) hlit.2.2.2.2.2 hlit.2.2.1 h
                    · simp [hn] at h
    · -- elements
      intro i e h
      unfold elems at h
      cases hv : value false f buf i with
      | err => simp [hv] at h
      | fuel => simp [hv] at h
      | ok e1 =>
        simp only [hv] at h
        have hb1 := ((bound false buf f i e1).1) hv
        have hp1 := ((progress false buf f i e1).1) hv
        have hwp := skipWs_plainR left right hk buf e1
        have hwge := skipWs_ge buf e1
        have hwle := skipWs_le buf e1 hb1
        have hval := ihv i e1 hv
        by_cases hcl : buf[skipWs buf e1]? = some 93
        · simp only [hcl, if_true, Res.ok.injEq] at h
          subst h
          exact tail_cons _ _ _ _ i e1 _ (by omega) (by omega) hb1 hval
            (tail_cons _ _ _ _ e1 (skipWs buf e1) _ hwge (by omega) hwle (balR_of_plainR _ _ _ _ _ hwp)
              (tail_close left right 93 hk (Or.inl rfl) buf _ hcl))
        · simp only [hcl, if_false] at h
          by_cases hcm : buf[skipWs buf e1]? = some 44
          · simp only [hcm, if_true] at h
            have hjl := (Array.getElem?_eq_some_iff.mp hcm).1
            have hw2p := skipWs_plainR left right hk buf (skipWs buf e1 + 1)
            have hw2ge := skipWs_ge buf (skipWs buf e1 + 1)
            have hw2le := skipWs_le buf (skipWs buf e1 + 1) (by omega)
            have hpe := ((progress false buf f _ e).2.1) h
            have hcomma := plainR_one left right buf (skipWs buf e1) 44 hcm hsep.1
            exact tail_cons _ _ _ _ i e1 _ (by omega) (by omega) hb1 hval
              (tail_cons _ _ _ _ e1 (skipWs buf (skipWs buf e1 + 1)) _ (by omega) (by omega) hw2le
                (balR_of_plainR _ _ _ _ _ (plainR_trans _ _ _ e1 (skipWs buf e1) _ hwp
                  (plainR_trans _ _ _ (skipWs buf e1) (skipWs buf e1 + 1) _ hcomma hw2p)))
                (ihe _ _ h))
          · simp [hcm] at h
    · -- members
      intro i e h
      unfold members at h
      by_cases hq : buf[i]? = some 34
      · simp only [hq, if_true] at h
        cases hs : string false buf (i+1) with
        | none => simp [hs] at h
        | some k =>
          simp only [hs] at h
          have hsg : stringG buf (i+1) = some k := by simpa [string] using hs
          have hkle := stringG_le buf (i+1) k hsg
          have hkge := stringG_ge buf (i+1) k hsg
          have hkey := string_balR left right hk buf i k hq hsg
          have hw1p := skipWs_plainR left right hk buf k
          have hw1ge := skipWs_ge buf k
          have hw1le := skipWs_le buf k hkle
          by_cases hcol : buf[skipWs buf k]? = some 58
          · simp only [hcol, if_true] at h
            have hcl := (Array.getElem?_eq_some_iff.mp hcol).1
            have hw2p := skipWs_plainR left right hk buf (skipWs buf k + 1)
            have hw2ge := skipWs_ge buf (skipWs buf k + 1)
            have hw2le := skipWs_le buf (skipWs buf k + 1) (by omega)
            have hcolon := plainR_one left right buf (skipWs buf k) 58 hcol hsep.2
            -- key, blanks, colon, blanks
            have hhead : BalR left right buf i (skipWs buf (skipWs buf k + 1)) :=
              balR_trans _ _ _ i k _ (by omega) (by omega) hkle hkey
                (balR_of_plainR _ _ _ _ _ (plainR_trans _ _ _ k (skipWs buf k) _ hw1p
                  (plainR_trans _ _ _ (skipWs buf k) (skipWs buf k + 1) _ hcolon hw2p)))
            cases hv : value false f buf (skipWs buf (skipWs buf k + 1)) with
            | err => simp [hv] at h
            | fuel => simp [hv] at h
            | ok e1 =>
              simp only [hv] at h
              have hb1 := ((bound false buf f _ e1).1) hv
              have hp1 := ((progress false buf f _ e1).1) hv
              have hval := ihv _ e1 hv
              have hw3p := skipWs_plainR left right hk buf e1
              have hw3ge := skipWs_ge buf e1
              have hw3le := skipWs_le buf e1 hb1
              by_cases hend : buf[skipWs buf e1]? = some 125
              · simp only [hend, if_true, Res.ok.injEq] at h
                subst h
                exact tail_cons _ _ _ _ i _ _ (by omega) (by omega) hw2le hhead
                  (tail_cons _ _ _ _ _ e1 _ (by omega) (by omega) hb1 hval
                    (tail_cons _ _ _ _ e1 (skipWs buf e1) _ hw3ge (by omega) hw3le (balR_of_plainR _ _ _ _ _ hw3p)
                      (tail_close left right 125 hk (Or.inr rfl) buf _ hend)))
              · simp only [hend, if_false] at h
                by_cases hcm : buf[skipWs buf e1]? = some 44
                · simp only [hcm, if_true] at h
                  have hjl := (Array.getElem?_eq_some_iff.mp hcm).1
                  have hw4p := skipWs_plainR left right hk buf (skipWs buf e1 + 1)
                  have hw4ge := skipWs_ge buf (skipWs buf e1 + 1)
                  have hw4le := skipWs_le buf (skipWs buf e1 + 1) (by omega)
                  have hpe := ((progress false buf f _ e).2.2) h
                  have hcomma := plainR_one left right buf (skipWs buf e1) 44 hcm hsep.1
                  exact tail_cons _ _ _ _ i _ _ (by omega) (by omega) hw2le hhead
                    (tail_cons _ _ _ _ _ e1 _ (by omega) (by omega) hb1 hval
                      (tail_cons _ _ _ _ e1 (skipWs buf (skipWs buf e1 + 1)) _ (by omega) (by omega) hw4le
                        (balR_of_plainR _ _ _ _ _ (plainR_trans _ _ _ e1 (skipWs buf e1) _ hw3p
                          (plainR_trans _ _ _ (skipWs buf e1) (skipWs buf e1 + 1) _ hcomma hw4p)))
                        (ihm _ _ h)))
                · simp [hcm] at h
          · simp [hcol] at h
      · simp [hq] at h


/-! ### the container being skipped: its tail closes the scan exactly at its last byte -/

/-- from `i`, with as many brackets opened as closed so far, the scan stops right after `e - 1` (however far it may look) -/
def TopR (left right : UInt8) (buf : Buf) (i e : Nat) : Prop :=
  ∀ (s : ScanSt) (e' : Nat), s.inStr = false → s.esc = false → s.l = s.r → e ≤ e' →
    (scanB left right buf i e' s).1 = some (e - i)

theorem top_close (left right : UInt8) (hk : Kind left right) (buf : Buf) (j : Nat) (hj : buf[j]? = some right) :
    TopR left right buf j (j + 1) := by
  intro s e' hs he hl hee
  have hjl := (Array.getElem?_eq_some_iff.mp hj).1
  have hjv := (Array.getElem?_eq_some_iff.mp hj).2
  have h34 : (right == 34) = false := by rcases hk with ⟨_, rfl⟩ | ⟨_, rfl⟩ <;> decide
  have h92 : (right == 92) = false := by rcases hk with ⟨_, rfl⟩ | ⟨_, rfl⟩ <;> decide
  obtain ⟨si, se, sl, sr⟩ := s
  simp only at hs he hl
  subst hs he hl
  rw [scanB_step left right buf j e' _ (by omega) hjl, hjv]
  simp [scanStep, h34, h92]

theorem top_cons (left right : UInt8) (buf : Buf) (i m e : Nat) (him : i ≤ m) (hme : m < e) (hmb : m ≤ buf.size)
    (h1 : BalR left right buf i m) (h2 : TopR left right buf m e) : TopR left right buf i e := by
  intro s e' hs he hl hee
  obtain ⟨k1, hk1⟩ := h1 s hs he (by omega)
  have := h2 ⟨false, false, s.l + k1, s.r + k1⟩ e' rfl rfl (by simp; omega) hee
  rw [scanB_split left right buf (m - i) i m e' s rfl him (by omega) hmb, hk1]
  simp only [this, Option.map_some]
  congr 1; omega

theorem elems_top (left right : UInt8) (hk : Kind left right) (hr : right = 93) (buf : Buf) : ∀ f i e,
    elems false f buf i = .ok e → TopR left right buf i e := by
  intro f
  induction f with
  | zero => intro i e h; simp [elems] at h
  | succ f ih =>
    intro i e h
    have hsep := plain_sep left right hk
    unfold elems at h
    cases hv : value false f buf i with
    | err => simp [hv] at h
    | fuel => simp [hv] at h
    | ok e1 =>
      simp only [hv] at h
      have hb1 := ((bound false buf f i e1).1) hv
      have hp1 := ((progress false buf f i e1).1) hv
      have hwp := skipWs_plainR left right hk buf e1
      have hwge := skipWs_ge buf e1
      have hwle := skipWs_le buf e1 hb1
      have hval := (grammar_bal left right hk buf f).1 i e1 hv
      by_cases hcl : buf[skipWs buf e1]? = some 93
      · simp only [hcl, if_true, Res.ok.injEq] at h
        subst h
        exact top_cons _ _ _ i e1 _ (by omega) (by omega) hb1 hval
          (top_cons _ _ _ e1 (skipWs buf e1) _ hwge (by omega) hwle (balR_of_plainR _ _ _ _ _ hwp)
            (top_close left right hk buf _ (by rw [hr]; exact hcl)))
      · simp only [hcl, if_false] at h
        by_cases hcm : buf[skipWs buf e1]? = some 44
        · simp only [hcm, if_true] at h
          have hjl := (Array.getElem?_eq_some_iff.mp hcm).1
          have hw2p := skipWs_plainR left right hk buf (skipWs buf e1 + 1)
          have hw2ge := skipWs_ge buf (skipWs buf e1 + 1)
          have hw2le := skipWs_le buf (skipWs buf e1 + 1) (by omega)
          have hpe := ((progress false buf f _ e).2.1) h
          have hcomma := plainR_one left right buf (skipWs buf e1) 44 hcm hsep.1
          exact top_cons _ _ _ i e1 _ (by omega) (by omega) hb1 hval
            (top_cons _ _ _ e1 (skipWs buf (skipWs buf e1 + 1)) _ (by omega) (by omega) hw2le
              (balR_of_plainR _ _ _ _ _ (plainR_trans _ _ _ e1 (skipWs buf e1) _ hwp
                (plainR_trans _ _ _ (skipWs buf e1) (skipWs buf e1 + 1) _ hcomma hw2p)))
              (ih _ _ h))
        · simp [hcm] at h

theorem members_top (left right : UInt8) (hk : Kind left right) (hr : right = 125) (buf : Buf) : ∀ f i e,
    members false f buf i = .ok e → TopR left right buf i e := by
  intro f
  induction f with
  | zero => intro i e h; simp [members] at h
  | succ f ih =>
    intro i e h
    have hsep := plain_sep left right hk
    unfold members at h
    by_cases hq : buf[i]? = some 34
    · simp only [hq, if_true] at h
      cases hs : string false buf (i+1) with
      | none => simp [hs] at h
      | some k =>
        simp only [hs] at h
        have hsg : stringG buf (i+1) = some k := by simpa [string] using hs
        have hkle := stringG_le buf (i+1) k hsg
        have hkge := stringG_ge buf (i+1) k hsg
        have hkey := string_balR left right hk buf i k hq hsg
        have hw1p := skipWs_plainR left right hk buf k
        have hw1ge := skipWs_ge buf k
        have hw1le := skipWs_le buf k hkle
        by_cases hcol : buf[skipWs buf k]? = some 58
        · simp only [hcol, if_true] at h
          have hcl := (Array.getElem?_eq_some_iff.mp hcol).1
          have hw2p := skipWs_plainR left right hk buf (skipWs buf k + 1)
          have hw2ge := skipWs_ge buf (skipWs buf k + 1)
          have hw2le := skipWs_le buf (skipWs buf k + 1) (by omega)
          have hcolon := plainR_one left right buf (skipWs buf k) 58 hcol hsep.2
          have hhead : BalR left right buf i (skipWs buf (skipWs buf k + 1)) :=
            balR_trans _ _ _ i k _ (by omega) (by omega) hkle hkey
              (balR_of_plainR _ _ _ _ _ (plainR_trans _ _ _ k (skipWs buf k) _ hw1p
                (plainR_trans _ _ _ (skipWs buf k) (skipWs buf k + 1) _ hcolon hw2p)))
          cases hv : value false f buf (skipWs buf (skipWs buf k + 1)) with
          | err => simp [hv] at h
          | fuel => simp [hv] at h
          | ok e1 =>
            simp only [hv] at h
            have hb1 := ((bound false buf f _ e1).1) hv
            have hp1 := ((progress false buf f _ e1).1) hv
            have hval := (grammar_bal left right hk buf f).1 _ e1 hv
            have hw3p := skipWs_plainR left right hk buf e1
            have hw3ge := skipWs_ge buf e1
            have hw3le := skipWs_le buf e1 hb1
            by_cases hend : buf[skipWs buf e1]? = some 125
            · simp only [hend, if_true, Res.ok.injEq] at h
              subst h
              exact top_cons _ _ _ i _ _ (by omega) (by omega) hw2le hhead
                (top_cons _ _ _ _ e1 _ (by omega) (by omega) hb1 hval
                  (top_cons _ _ _ e1 (skipWs buf e1) _ hw3ge (by omega) hw3le (balR_of_plainR _ _ _ _ _ hw3p)
                    (top_close left right hk buf _ (by rw [hr]; exact hend))))
            · simp only [hend, if_false] at h
              by_cases hcm : buf[skipWs buf e1]? = some 44
              · simp only [hcm, if_true] at h
                have hjl := (Array.getElem?_eq_some_iff.mp hcm).1
                have hw4p := skipWs_plainR left right hk buf (skipWs buf e1 + 1)
                have hw4ge := skipWs_ge buf (skipWs buf e1 + 1)
                have hw4le := skipWs_le buf (skipWs buf e1 + 1) (by omega)
                have hpe := ((progress false buf f _ e).2.2) h
                have hcomma := plainR_one left right buf (skipWs buf e1) 44 hcm hsep.1
                exact top_cons _ _ _ i _ _ (by omega) (by omega) hw2le hhead
                  (top_cons _ _ _ _ e1 _ (by omega) (by omega) hb1 hval
                    (top_cons _ _ _ e1 (skipWs buf (skipWs buf e1 + 1)) _ (by omega) (by omega) hw4le
                      (balR_of_plainR _ _ _ _ _ (plainR_trans _ _ _ e1 (skipWs buf e1) _ hw3p
                        (plainR_trans _ _ _ (skipWs buf e1) (skipWs buf e1 + 1) _ hcomma hw4p)))
                      (ih _ _ h)))
              · simp [hcm] at h
        · simp [hcol] at h
    · simp [hq] at h

/-- **on a well-formed container the scan started just after its opening bracket stops just after its closing bracket**,
    whatever follows in the buffer -/
theorem container_scan (left right : UInt8) (hk : Kind left right) (buf : Buf) (f i e : Nat)
    (hopen : buf[i]? = some left) (h : value false f buf i = .ok e) (e' : Nat) (hee : e ≤ e') :
    (scanB left right buf (i + 1) e' ScanSt.init).1 = some (e - (i + 1)) := by
  have hbe := ((bound false buf f i e).1) h
  have hpr := ((progress false buf f i e).1) h
  cases f with
  | zero => simp [value] at h
  | succ f =>
    unfold value at h
    simp only [hopen] at h
    have hwp := skipWs_plainR left right hk buf (i+1)
    have hwge := skipWs_ge buf (i+1)
    have hwle := skipWs_le buf (i+1) (by omega)
    have hinit : ScanSt.init.inStr = false ∧ ScanSt.init.esc = false ∧ ScanSt.init.l = ScanSt.init.r := ⟨rfl, rfl, rfl⟩
    rcases hk with ⟨hl, hr⟩ | ⟨hl, hr⟩
    · -- an object
      subst hl
      have hk' : Kind 123 right := Or.inl ⟨rfl, hr⟩
      simp only [show ((123 : UInt8) == 45 || isDigit 123) = false by decide, show ((123 : UInt8) == 34) = false by decide,
        Bool.false_eq_true, if_false, beq_self_eq_true, if_true] at h
      by_cases hcl : buf[skipWs buf (i+1)]? = some 125
      · simp only [hcl, if_true, Res.ok.injEq] at h
        subst h
        exact top_cons _ _ _ (i+1) (skipWs buf (i+1)) _ hwge (by omega) hwle (balR_of_plainR _ _ _ _ _ hwp)
          (top_close 123 right hk' buf _ (by rw [hr]; exact hcl)) ScanSt.init e' hinit.1 hinit.2.1 hinit.2.2 hee
      · simp only [hcl, if_false] at h
        have hme := ((progress false buf f (skipWs buf (i+1)) e).2.2) h
        exact top_cons _ _ _ (i+1) (skipWs buf (i+1)) _ hwge (by omega) hwle (balR_of_plainR _ _ _ _ _ hwp)
          (members_top 123 right hk' hr buf f _ _ h) ScanSt.init e' hinit.1 hinit.2.1 hinit.2.2 hee
    · -- an array
      subst hl
      have hk' : Kind 91 right := Or.inr ⟨rfl, hr⟩
      simp only [show ((91 : UInt8) == 45 || isDigit 91) = false by decide, show ((91 : UInt8) == 34) = false by decide,
        show ((91 : UInt8) == 123) = false by decide, Bool.false_eq_true, if_false, beq_self_eq_true, if_true] at h
      by_cases hcl : buf[skipWs buf (i+1)]? = some 93
      · simp only [hcl, if_true, Res.ok.injEq] at h
        subst h
        exact top_cons _ _ _ (i+1) (skipWs buf (i+1)) _ hwge (by omega) hwle (balR_of_plainR _ _ _ _ _ hwp)
          (top_close 91 right hk' buf _ (by rw [hr]; exact hcl)) ScanSt.init e' hinit.1 hinit.2.1 hinit.2.2 hee
      · simp only [hcl, if_false] at h
        have hme := ((progress false buf f (skipWs buf (i+1)) e).2.1) h
        exact top_cons _ _ _ (i+1) (skipWs buf (i+1)) _ hwge (by omega) hwle (balR_of_plainR _ _ _ _ _ hwp)
          (elems_top 91 right hk' hr buf f _ _ h) ScanSt.init e' hinit.1 hinit.2.1 hinit.2.2 hee


/-- the range scan is the list scan of the bytes of the range -/
theorem scanB_list (left right : UInt8) (buf : Buf) : ∀ (n i : Nat) (s : ScanSt), buf.size - i = n →
    scanB left right buf i buf.size s = scan left right (buf.toList.drop i) s := by
  intro n
  induction n with
  | zero =>
    intro i s hn
    rw [scanB_empty left right buf i buf.size s (by omega)]
    have : buf.toList.drop i = [] := by rw [List.drop_eq_nil_iff]; simp; omega
    rw [this]; rfl
  | succ n ih =>
    intro i s hn
    have hlt : i < buf.size := by omega
    have hd : buf.toList.drop i = buf[i] :: buf.toList.drop (i + 1) := by
      rw [List.drop_eq_getElem_cons (by simpa using hlt)]; simp
    rw [scanB_step left right buf i buf.size s hlt hlt, hd, scan, ih (i+1) _ (by omega)]

end Spec
end Sonic
