import SonicModel.Impl.Dom
import Std.Tactic.BVDecide
namespace Sonic
open Gen Impl

/-! `Meta` packing as 64-bit words (the constants are the regenerated ones) -/

def bvPack (k i l : BitVec 64) : BitVec 64 :=
  k ||| (i <<< (BitVec.ofNat 64 meta_KIND_BITS)) ||| (l <<< (BitVec.ofNat 64 meta_LEN_OFFSET))
def bvKind (v : BitVec 64) : BitVec 64 := v &&& BitVec.ofNat 64 meta_KIND_MASK
def bvIdx (v : BitVec 64) : BitVec 64 := (v &&& BitVec.ofNat 64 meta_IDX_MASK) >>> (BitVec.ofNat 64 meta_KIND_BITS)
def bvLen (v : BitVec 64) : BitVec 64 := v >>> (BitVec.ofNat 64 meta_LEN_OFFSET)

/-- unpack ∘ pack = id for kind < 8, idx < 2^29, len < 2^32 -/
theorem pack_unpack (k i l : BitVec 64) (hk : k < 8) (hi : i < 0x20000000) (hl : l < 0x100000000) :
    bvKind (bvPack k i l) = k ∧ bvIdx (bvPack k i l) = i ∧ bvLen (bvPack k i l) = l := by
  simp only [bvKind, bvIdx, bvLen, bvPack, meta_KIND_BITS, meta_LEN_OFFSET, meta_KIND_MASK, meta_IDX_MASK]
  bv_decide

/-- the bound on `idx` is tight: with `idx = 2^29` the distance to the header is lost and the length
    is corrupted (a container with more than 2^29 - 1 node slots before one of its members) -/
theorem pack_idx_overflow :
    bvIdx (bvPack 4 0x20000000 2) ≠ 0x20000000 ∧ bvLen (bvPack 4 0x20000000 2) ≠ 2 := by
  decide

end Sonic
