import SonicModel.Impl.Ser
namespace Sonic
open Impl

def Impl.WEvent.isWs : WEvent → Bool
  | .ws _ => true
  | _ => false

/-- drop the indentation events -/
def strip (evs : List WEvent) : List WEvent := evs.filter (fun e => !e.isWs)

theorem strip_append (a b : List WEvent) : strip (a ++ b) = strip a ++ strip b := by
  simp [strip]

theorem strip_indent (u : List UInt8) (d : Nat) : strip (indentOf (some u) d) = [] := by
  simp [strip, indentOf, WEvent.isWs]

theorem strip_key (k : SKey) (ke : List WEvent) (h : keyEvents k = some ke) : strip ke = ke := by
  cases k <;> simp [keyEvents] at h <;> subst h <;> simp [strip, WEvent.isWs, strEv]

mutual
/-- **pretty output = compact output + indentation**: removing the whitespace events from the
    pretty event stream gives exactly the compact event stream (same writes, same order) -/
theorem strip_events (u : List UInt8) (d d' : Nat) : ∀ v : SV,
    (events (some u) d v).map strip = events none d' v
  | .null => by simp [events, strip, WEvent.isWs]
  | .bool b => by simp [events, strip, WEvent.isWs]
  | .num t => by simp [events, strip, WEvent.isWs]
  | .str s => by simp [events, strip, WEvent.isWs, strEv]
  | .seq xs => by
    cases xs with
    | nil => simp [events, strip, WEvent.isWs]
    | cons x rest =>
      have h := strip_seq u (d+1) (d'+1) (x :: rest) true
      simp only [events]
      cases hp : seqEvents (some u) (d+1) (x :: rest) true with
      | none => rw [hp] at h; simp at h; simp [← h]
      | some es =>
        rw [hp] at h; simp at h
        simp only [Option.map_some, ← h, strip_append, strip_indent, indentOf]
        simp [strip, WEvent.isWs]
  | .map ms => by
    cases ms with
    | nil => simp [events, strip, WEvent.isWs]
    | cons m rest =>
      have h := strip_map u (d+1) (d'+1) (m :: rest) true
      simp only [events]
      cases hp : mapEvents (some u) (d+1) (m :: rest) true with
      | none => rw [hp] at h; simp at h; simp [← h]
      | some es =>
        rw [hp] at h; simp at h
        simp only [Option.map_some, ← h, strip_append, strip_indent, indentOf]
        simp [strip, WEvent.isWs]
  | .variant name v => by
    have h := strip_events u (d+1) (d'+1) v
    simp only [events]
    cases hp : events (some u) (d+1) v with
    | none => rw [hp] at h; simp at h; simp [← h]
    | some es =>
      rw [hp] at h; simp at h
      simp only [Option.map_some, ← h, strip_append, strip_indent, indentOf]
      simp [strip, WEvent.isWs, strEv]
theorem strip_seq (u : List UInt8) (d d' : Nat) : ∀ (xs : List SV) (first : Bool),
    (seqEvents (some u) d xs first).map strip = seqEvents none d' xs first
  | [], _ => by simp [seqEvents, strip]
  | x :: rest, first => by
    have h1 := strip_events u d d' x
    have h2 := strip_seq u d d' rest false
    simp only [seqEvents]
    cases hp : events (some u) d x with
    | none => rw [hp] at h1; simp at h1; simp [← h1]
    | some e =>
      rw [hp] at h1; simp at h1
      cases hq : seqEvents (some u) d rest false with
      | none => rw [hq] at h2; simp at h2; simp [← h1, ← h2]
      | some r =>
        rw [hq] at h2; simp at h2
        simp only [← h1, ← h2, Option.map_some, strip_append, strip_indent, indentOf]
        cases first <;> simp [strip, WEvent.isWs]
theorem strip_map (u : List UInt8) (d d' : Nat) : ∀ (ms : List (SKey × SV)) (first : Bool),
    (mapEvents (some u) d ms first).map strip = mapEvents none d' ms first
  | [], _ => by simp [mapEvents, strip]
  | (k, x) :: rest, first => by
    have h1 := strip_events u d d' x
    have h2 := strip_map u d d' rest false
    simp only [mapEvents]
    cases hk : keyEvents k with
    | none => simp
    | some ke =>
      have hks := strip_key k ke hk
      cases hp : events (some u) d x with
      | none => rw [hp] at h1; simp at h1; simp [← h1]
      | some e =>
        rw [hp] at h1; simp at h1
        cases hq : mapEvents (some u) d rest false with
        | none => rw [hq] at h2; simp at h2; simp [← h1, ← h2]
        | some r =>
          rw [hq] at h2; simp at h2
          simp only [← h1, ← h2, Option.map_some, strip_append, strip_indent, indentOf, hks]
          cases first <;> simp [strip, WEvent.isWs]
end

/-! ### writers -/

theorem runBuffered_eq (evs : List WEvent) : runBuffered evs = flatten evs := by
  unfold runBuffered flatten
  suffices ∀ acc, evs.foldl (fun inner e => inner ++ e.bytes) acc = acc ++ evs.flatMap WEvent.bytes by
    simpa using this []
  induction evs with
  | nil => intro acc; simp
  | cons e rest ih => intro acc; simp [ih, List.append_assoc]

/-- the repaired `io::BufWriter` protocol (flush the BufWriter's buffer before handing out the
    inner reserve) preserves the byte order for every capacity and every event sequence -/
theorem runIoBuf_fixed (cap : Nat) (evs : List WEvent) : runIoBuf cap true evs = flatten evs := by
  unfold runIoBuf flatten
  suffices ∀ (st : List UInt8 × List UInt8),
      (evs.foldl (stepIoBuf cap true) st).1 ++ (evs.foldl (stepIoBuf cap true) st).2 =
        st.1 ++ st.2 ++ evs.flatMap WEvent.bytes by
    simpa using this ([], [])
  induction evs with
  | nil => intro st; simp
  | cons e rest ih =>
    intro st
    obtain ⟨inner, pend⟩ := st
    simp only [List.foldl_cons, List.flatMap_cons]
    rw [ih]
    cases e with
    | reserveCommit b => simp [stepIoBuf, WEvent.bytes, List.append_assoc]
    | write b =>
      simp only [stepIoBuf, WEvent.bytes]
      by_cases h1 : pend.length + b.length > cap
      · by_cases h2 : b.length ≥ cap <;> simp [h1, h2, List.append_assoc]
      · simp [h1, List.append_assoc]
    | ws b =>
      simp only [stepIoBuf, WEvent.bytes]
      by_cases h1 : pend.length + b.length > cap
      · by_cases h2 : b.length ≥ cap <;> simp [h1, h2, List.append_assoc]
      · simp [h1, List.append_assoc]

/-- as coded (reserve forwarded to the inner writer while earlier writes still sit in the
    BufWriter's buffer) the order is NOT preserved: `{"a":"b"}` comes out as `"a""b"{:}` -/
theorem runIoBuf_as_coded_scrambles :
    runIoBuf 8192 false [.write [123], .reserveCommit [34, 97, 34], .write [58], .reserveCommit [34, 98, 34], .write [125]]
      = [34, 97, 34, 34, 98, 34, 123, 58, 125] := by decide

/-- a failing sink: what reached it is a prefix of the correct output and the error is reported
    exactly when the output did not fit -/
theorem failAfter_prefix (n : Nat) (evs : List WEvent) :
    (runFailAfter n evs).1 <+: flatten evs ∧ ((runFailAfter n evs).2 = true ↔ n < (flatten evs).length) := by
  unfold runFailAfter
  exact ⟨List.take_prefix _ _, by simp⟩

end Sonic
