import SonicModel.Lemmas.NumProof
import SonicModel.Lemmas.NumLit
import SonicModel.Lemmas.NumContract
/-
  The integer classification of the digit machine for a literal followed by ANYTHING that cannot continue a number
  (`EndsInt`: not a digit, not `.`, not `e` / `E` — a delimiter, whitespace, the end of the input).  Thm/C07 states these
  for delimiters; the typed deserializer (Lemmas/DeNum) needs them after whitespace as well.
-/
namespace Sonic
namespace NumClass
open Sonic Impl Spec

theorem pow19_lt : (10:Nat) ^ 19 < 2 ^ 64 := by decide
theorem pow63_lt : (2:Nat) ^ 63 < 10 ^ 19 := by decide
theorem pow64_lt : (2:Nat) ^ 64 < 10 ^ 20 := by decide

/-- digits without a leading zero: at least `10^(n-1)` -/
theorem int_lower (l : Lit) (hw : l.WF) (hnz : l.int ≠ [48]) : 10 ^ (l.int.length - 1) ≤ digitsOf l.int 0 := by
  obtain ⟨hne, hI, hzero, _, _⟩ := hw
  cases hint : l.int with
  | nil => exact absurd hint hne
  | cons c I' =>
    have hc : isDigit c = true := hI c (by simp [hint])
    have h48 : c ≠ 48 := by
      intro h
      have : l.int.length = 1 := hzero (by simp [hint, h])
      rw [hint] at this
      have : I' = [] := by simpa using this
      apply hnz; rw [hint, h, this]
    simpa using digitsOf_ge c I' hc h48

/-- **every integer literal within u64 is returned as that exact integer, classified `Unsigned`, with the
    whole literal consumed** — any number of digits (the 20-digit rescue included), any surrounding text -/
theorem integer_u64_exact (l : Lit) (hw : l.WF) (hf : l.frac = none) (he : l.exp = none) (hpos : l.neg = false)
    (hfit : l.mant < 2 ^ 64) (pre suf : List UInt8) (hs : EndsInt suf) (bound : Nat) :
    parseNumber (pre ++ l.render ++ suf).toArray bound (pre.length + l.signPart.length) l.neg =
      (.unsigned l.mant, pre.length + l.render.length) := by
  rw [int_literal l hw hf he pre suf hs bound, int_mant l hf]
  rw [int_mant l hf] at hfit
  by_cases hz : l.int = [48]
  · simp [hz, hpos, digitsOf]
  · have hlow := int_lower l hw hz
    simp only [hz, if_false, hpos, intResult]
    by_cases h19 : l.int.length ≤ 19
    · simp [h19]
    · by_cases h20 : l.int.length = 20
      · simp [h19, h20, hfit]
      · exfalso
        have : 20 ≤ l.int.length - 1 := by omega
        have := Nat.pow_le_pow_right (show 0 < 10 by decide) this
        have := pow64_lt
        omega

/-- **every negative integer literal within i64 is returned as that exact integer, classified `Signed`** -/
theorem integer_i64_exact (l : Lit) (hw : l.WF) (hf : l.frac = none) (he : l.exp = none) (hneg : l.neg = true)
    (hnz : 0 < l.mant) (hfit : l.mant ≤ 2 ^ 63) (pre suf : List UInt8) (hs : EndsInt suf) (bound : Nat) :
    parseNumber (pre ++ l.render ++ suf).toArray bound (pre.length + l.signPart.length) l.neg =
      (.signed (-(l.mant : Int)), pre.length + l.render.length) := by
  rw [int_literal l hw hf he pre suf hs bound, int_mant l hf]
  rw [int_mant l hf] at hfit hnz
  have hz : l.int ≠ [48] := by
    intro h; rw [h] at hnz; simp [digitsOf] at hnz
  have hlow := int_lower l hw hz
  simp only [hz, if_false, hneg, intResult]
  by_cases h19 : l.int.length ≤ 19
  · have : ¬ (digitsOf l.int 0 > 2 ^ 63) := by omega
    simp [h19, this]
  · exfalso
    have : 19 ≤ l.int.length - 1 := by omega
    have := Nat.pow_le_pow_right (show 0 < 10 by decide) this
    have := pow63_lt
    omega

/-- the float request `sig · 10^k` brackets the exact value `m` from below -/
def Brackets (sig : Nat) (k : Nat) (m : Nat) : Prop := sig * 10 ^ k ≤ m ∧ m < (sig + 1) * 10 ^ k

/-- **every other integer literal goes to the float back end with its sign and a significand that is
    exact or brackets the exact value**: `-0` as negative zero, a negative integer beyond i64 that still
    fits 64 bits exactly, and longer literals as the first 19 digits times a power of ten, marked
    truncated — never as a wrapped or truncated integer -/
theorem integer_out_of_range_is_float (l : Lit) (hw : l.WF) (hf : l.frac = none) (he : l.exp = none)
    (hout : ¬ (l.neg = false ∧ l.mant < 2 ^ 64) ∧ ¬ (l.neg = true ∧ 0 < l.mant ∧ l.mant ≤ 2 ^ 63))
    (pre suf : List UInt8) (hs : EndsInt suf) (bound : Nat) :
    ∃ r, parseNumber (pre ++ l.render ++ suf).toArray bound (pre.length + l.signPart.length) l.neg =
        (r, pre.length + l.render.length) ∧
      ((r = .zero true ∧ l.neg = true ∧ l.mant = 0) ∨ (r = .negIntAsFloat l.mant ∧ l.neg = true) ∨
       (∃ (sig k : Nat), r = .toFloat l.neg sig (k : Int) true ∧ Brackets sig k l.mant)) := by
  rw [int_literal l hw hf he pre suf hs bound]
  rw [int_mant l hf] at hout ⊢
  refine ⟨_, rfl, ?_⟩
  by_cases hz : l.int = [48]
  · have hm : digitsOf l.int 0 = 0 := by rw [hz]; simp [digitsOf]
    cases hn : l.neg
    · exfalso; apply hout.1; rw [hm]; exact ⟨hn, by decide⟩
    · left; simp [hz, digitsOf]
  · have hlow := int_lower l hw hz
    simp only [hz, if_false, intResult]
    by_cases h19 : l.int.length ≤ 19
    · have hv := digitsOf_lt l.int hw.2.1
      have hp := Nat.pow_le_pow_right (show 0 < 10 by decide) h19
      have := pow19_lt
      cases hn : l.neg
      · exfalso; apply hout.1; exact ⟨hn, by omega⟩
      · right; left
        have hpos : 0 < digitsOf l.int 0 := by
          have : 0 < 10 ^ (l.int.length - 1) := Nat.pow_pos (by decide)
          omega
        have hbig : digitsOf l.int 0 > 2 ^ 63 := by
          apply Classical.byContradiction; intro hc
          exact hout.2 ⟨hn, hpos, by omega⟩
        simp [h19, hbig]
    · simp only [h19, if_false]
      by_cases h20 : l.int.length = 20 ∧ digitsOf l.int 0 < 2 ^ 64
      · cases hn : l.neg
        · exfalso; exact hout.1 ⟨hn, h20.2⟩
        · right; left; simp [h20]
      · right; right
        simp only [h20, if_false]
        refine ⟨_, l.int.length - 19, rfl, ?_⟩
        -- the first 19 digits times 10^(n-19) bracket the value
        have hsplit : l.int = l.int.take 19 ++ l.int.drop 19 := (List.take_append_drop 19 _).symm
        have hdl : (l.int.drop 19).length = l.int.length - 19 := by simp
        have hval : digitsOf l.int 0 = digitsOf (l.int.take 19) 0 * 10 ^ (l.int.length - 19) + digitsOf (l.int.drop 19) 0 := by
          conv => lhs; rw [hsplit, digitsOf_append, digitsOf_acc, hdl]
        have hrest := digitsOf_lt (l.int.drop 19) (fun x hx => hw.2.1 x (List.mem_of_mem_drop hx))
        rw [hdl] at hrest
        unfold Brackets
        rw [hval, Nat.add_mul]
        constructor <;> omega


end NumClass
end Sonic
