import SonicModel.Lemmas.GetURefine
import SonicModel.Impl.IterU
import SonicModel.Lemmas.IterRefine
namespace Sonic
namespace GetU
open Gen Spec Impl

/-! ### the unchecked skip of one value, and the unchecked iterators, on well-formed input -/

/-- after the value: whitespace, then the end of the input or one of `,` `]` `}` (what follows every member of a well-formed
    container and every top-level document) -/
def FollowOK (buf : Buf) (e : Nat) : Prop :=
  buf[skipWs buf e]? = none ∨ buf[skipWs buf e]? = some 44 ∨ buf[skipWs buf e]? = some 93 ∨ buf[skipWs buf e]? = some 125

theorem tailTok_none (buf : Buf) (toks : List UInt8) (adv : Nat) : ∀ (n i : Nat), buf.size - i = n →
    FreeR toks buf i buf.size → tailTok toks adv (buf.toList.drop i) i = none := by
  intro n
  induction n with
  | zero =>
    intro i hn _
    have : buf.toList.drop i = [] := by rw [List.drop_eq_nil_iff]; simp; omega
    rw [this]; rfl
  | succ n ih =>
    intro i hn hfree
    have hi : i < buf.size := by omega
    rw [StrSkip.drop_step buf i hi]
    simp only [tailTok, hfree i hi (Nat.le_refl _) hi, Bool.false_eq_true, if_false]
    exact ih (i + 1) (by omega) (fun k hk a b => hfree k hk (by omega) b)

theorem nextTok_none (buf : Buf) (toks : List UInt8) (adv i : Nat) (hfree : FreeR toks buf i buf.size) :
    nextTok buf toks adv i = none := by
  rw [nextTok_eq]; exact tailTok_none buf toks adv _ i rfl hfree

/-- stepping back over whitespace ends just after the last byte that is not whitespace -/
theorem backWs_spec (buf : Buf) (e : Nat) (he : 0 < e) (hlast : ∀ h : e - 1 < buf.size, isWs buf[e - 1] = false) (hle : e ≤ buf.size) :
    ∀ (n j : Nat), j - e = n → e ≤ j → j ≤ buf.size → (∀ k (hk : k < buf.size), e ≤ k → k < j → isWs buf[k] = true) →
    backWs buf j = e := by
  intro n
  induction n with
  | zero =>
    intro j hn hej hj _
    have : j = e := by omega
    subst this
    cases j with
    | zero => omega
    | succ p =>
      unfold backWs
      have hp : p < buf.size := by omega
      have := hlast (by simpa using hp)
      simp only [Nat.add_sub_cancel] at this
      simp [hp, this]
  | succ n ih =>
    intro j hn hej hj hws
    cases j with
    | zero => omega
    | succ p =>
      unfold backWs
      have hp : p < buf.size := by omega
      have := hws p hp (by omega) (by omega)
      simp only [hp, getElem?_pos, Option.getD_some, this, if_true]
      exact ih p (by omega) (by omega) (by omega) (fun k hk a b => hws k hk a (by omega))

theorem nonWs_noTok3 : ∀ b : UInt8, noTok b = true → [(93 : UInt8), 125, 44].contains b = false := by
  apply Sonic.UInt8.forall_of_fin; decide +kernel

theorem free3 (buf : Buf) (i j : Nat) (h : AllR noTok buf i j) : FreeR [93, 125, 44] buf i j :=
  fun k hk a b => nonWs_noTok3 _ (h k hk a b)

def nonWs (b : UInt8) : Bool := !isWs b
theorem digit_nonWs : ∀ b : UInt8, isDigit b = true → nonWs b = true := by
  apply Sonic.UInt8.forall_of_fin; decide +kernel

theorem number_nonWs (buf : Buf) (i e : Nat) (h : number buf i = some e) : AllR nonWs buf i e :=
  number_allR nonWs digit_nonWs (by decide) (by decide) (by decide) (by decide) (by decide) buf i e h

theorem skipWs_isWs (buf : Buf) (e : Nat) : ∀ k (hk : k < buf.size), e ≤ k → k < skipWs buf e → isWs buf[k] = true := by
  have := skipWs_allR (fun b => isWs b) (fun b h => h) buf e
  intro k hk a b
  exact this k hk a b

theorem erase_ok (r : IRes) (e : Nat) (h : r.erase = .ok e) : r = .ok e := by
  cases r <;> simp [IRes.erase] at h; rw [h]

/-- **`skip_one_unchecked` on a well-formed value that is followed as values in documents are** ends exactly at the end of the
    value: containers and strings by the block skippers, literals by comparison, and a number by the search for the next
    `]` `}` `,` (or the end of the input) and the step back over the whitespace in front of it -/
theorem skipOneU_of_value (buf : Buf) (f i e : Nat) (hv : value false f buf (skipWs buf i) = .ok e) (hfo : FollowOK buf e) :
    skipOneU buf i = .ok e := by
  have hprog := ((Spec.progress false buf f _ e).1 hv)
  have hbound := ((Spec.bound false buf f _ e).1 hv)
  cases f with
  | zero => simp [Spec.value] at hv
  | succ f =>
    generalize hvv : skipWs buf i = v at hv hprog
    have hlt : v < buf.size := hprog.2
    have hc : buf[v]? = some buf[v] := by simp [hlt]
    have hss : skipSpace buf i = some (buf[v], v + 1) := by
      unfold skipSpace; simp only [hvv, hlt, dite_true]
    have hvalue := hv
    simp only [Spec.value, hc] at hv
    unfold skipOneU
    simp only [hss]
    by_cases h1 : (buf[v] == 45 || isDigit buf[v]) = true
    · -- a number
      simp only [h1, if_true, numberS_false] at hv ⊢
      have hn := res_ofOpt_ok _ _ hv
      have hfree : FreeR [93, 125, 44] buf (v + 1) (skipWs buf e) :=
        free_trans _ buf (v+1) e _ (free3 buf (v+1) e (allR_sub _ _ v (v+1) e (number_noTok buf v e hn) (by omega)))
          (free3 buf e _ (skipWs_noTok buf e))
      have hback : backWs buf (skipWs buf e) = e := by
        refine backWs_spec buf e (by omega) ?_ hbound _ (skipWs buf e) rfl (skipWs_ge buf e) (skipWs_le buf e hbound) (skipWs_isWs buf e)
        intro h
        have := number_nonWs buf v e hn (e - 1) h (by omega) (by omega)
        simpa [nonWs] using this
      unfold skipNumberUnsafe
      rcases hfo with hnone | h44 | h93 | h125
      · have hsz : skipWs buf e = buf.size := by
          have := skipWs_le buf e hbound
          have h2 : ¬ skipWs buf e < buf.size := by
            intro hl; simp [hl] at hnone
          omega
        rw [hsz] at hfree hback
        simp only [nextTok_none buf _ 0 (v+1) hfree, hback]
      · simp only [nextTok_at buf _ 0 (v+1) _ 44 (by have := skipWs_ge buf e; omega) hfree h44 (by decide), Nat.add_zero, hback]
      · simp only [nextTok_at buf _ 0 (v+1) _ 93 (by have := skipWs_ge buf e; omega) hfree h93 (by decide), Nat.add_zero, hback]
      · simp only [nextTok_at buf _ 0 (v+1) _ 125 (by have := skipWs_ge buf e; omega) hfree h125 (by decide), Nat.add_zero, hback]
    · simp only [h1, Bool.false_eq_true, if_false] at hv ⊢
      by_cases h2 : (buf[v] == 34) = true
      · simp only [h2, if_true] at hv ⊢
        have hs : stringG buf (v + 1) = some e := by
          have := res_ofOpt_ok _ _ hv
          simpa [Spec.string] using this
        simp only [string_skip buf v e hs]
      · simp only [h2, Bool.false_eq_true, if_false] at hv ⊢
        by_cases h3 : (buf[v] == 123) = true
        · have hb : buf[v] = 123 := by simpa using h3
          have hopen : buf[v]? = some 123 := by rw [hc, hb]
          simp only [h3, if_true]
          simp only [container_skip 123 125 (Or.inl ⟨rfl, rfl⟩) buf (f + 1) v e hopen hvalue]
        · simp only [h3, Bool.false_eq_true, if_false] at hv ⊢
          by_cases h4 : (buf[v] == 91) = true
          · have hb : buf[v] = 91 := by simpa using h4
            have hopen : buf[v]? = some 91 := by rw [hc, hb]
            simp only [h4, if_true]
            simp only [container_skip 91 93 (Or.inr ⟨rfl, rfl⟩) buf (f + 1) v e hopen hvalue]
          · simp only [h4, Bool.false_eq_true, if_false] at hv ⊢
            have hlit : ∀ (bs : List UInt8), bs ≠ [] → Res.ofOpt (lit buf (v + 1) bs) = .ok e → parseLiteral buf (v + 1) bs = .ok e := by
              intro bs hne h
              exact erase_ok _ _ (by rw [parseLiteral_refines buf (v+1) bs hne]; exact h)
            by_cases h5 : (buf[v] == 116) = true
            · simp only [h5, if_true] at hv ⊢; exact hlit _ (by simp) hv
            · simp only [h5, Bool.false_eq_true, if_false] at hv ⊢
              by_cases h6 : (buf[v] == 102) = true
              · simp only [h6, if_true] at hv ⊢; exact hlit _ (by simp) hv
              · simp only [h6, Bool.false_eq_true, if_false] at hv ⊢
                by_cases h7 : (buf[v] == 110) = true
                · simp only [h7, if_true] at hv ⊢; exact hlit _ (by simp) hv
                · simp [h7] at hv

theorem skipOne_ok_value (buf : Buf) (v e : Nat) (h : skipOne buf.size (Impl.fuelFor buf) buf v = .ok e) :
    value false (Spec.fuelFor buf) buf (skipWs buf v) = .ok e := by
  have := skipOne_eq_value buf v
  rw [h] at this; simpa using this.symm

/-- a step of the unchecked array iterator is the step of the checked one, when that is no error and the element it
    yields is followed as elements are -/
theorem arrayElemLazyU_eq (buf : Buf) (i : Nat) (first : Bool)
    (hfo : ∀ s e nx, arrayElemLazy buf.size buf i first = .ok (some (s, e, nx)) → FollowOK buf e)
    (hne : ∀ err, arrayElemLazy buf.size buf i first ≠ .error err) :
    arrayElemLazyU buf i first = arrayElemLazy buf.size buf i first := by
  unfold arrayElemLazyU
  unfold arrayElemLazy at hfo hne ⊢
  -- the two differ only in the skip of the element
  have key : ∀ from_ : Nat,
      (∀ s e nx, (match skipOne buf.size (Impl.fuelFor buf) buf from_ with
        | .ok e => (Except.ok (some (skipWs buf from_, e, e)) : Except (Code × Nat) (Option (Nat × Nat × Nat)))
        | .err c p => .error (c, p)
        | .fuel => .error (.Message, 0)) = .ok (some (s, e, nx)) → FollowOK buf e) →
      (∀ err, (match skipOne buf.size (Impl.fuelFor buf) buf from_ with
        | .ok e => (Except.ok (some (skipWs buf from_, e, e)) : Except (Code × Nat) (Option (Nat × Nat × Nat)))
        | .err c p => .error (c, p)
        | .fuel => .error (.Message, 0)) ≠ .error err) →
      (match skipOneU buf from_ with
        | .ok e => (Except.ok (some (skipWs buf from_, e, e)) : Except (Code × Nat) (Option (Nat × Nat × Nat)))
        | .err c p => .error (c, p)
        | .fuel => .error (.Message, 0)) =
      (match skipOne buf.size (Impl.fuelFor buf) buf from_ with
        | .ok e => (Except.ok (some (skipWs buf from_, e, e)) : Except (Code × Nat) (Option (Nat × Nat × Nat)))
        | .err c p => .error (c, p)
        | .fuel => .error (.Message, 0)) := by
    intro from_ h1 h2
    cases hs : skipOne buf.size (Impl.fuelFor buf) buf from_ with
    | ok e =>
      rw [hs] at h1
      have hf := h1 _ e _ rfl
      rw [skipOneU_of_value buf _ from_ e (skipOne_ok_value buf from_ e hs) hf]
    | err c p => rw [hs] at h2; exact absurd rfl (h2 (c, p))
    | fuel => rw [hs] at h2; exact absurd rfl (h2 (.Message, 0))
  cases first with
  | true =>
    simp only [if_true] at hfo hne ⊢
    cases hsp : skipSpace buf i with
    | none => simp only [hsp] at hne ⊢
    | some r =>
      obtain ⟨c, j⟩ := r
      simp only [hsp] at hfo hne ⊢
      by_cases h91 : (c == 91) = true
      · simp only [h91, if_true] at hfo hne ⊢
        cases hsp2 : skipSpace buf j with
        | none => simp only [hsp2] at hne ⊢
        | some r2 =>
          obtain ⟨c2, j2⟩ := r2
          simp only [hsp2] at hfo hne ⊢
          by_cases h93 : (c2 == 93) = true
          · simp only [h93, if_true]
          · simp only [h93, Bool.false_eq_true, if_false, Bool.not_true, Bool.and_false, if_true] at hfo hne ⊢
            exact key (j2 - 1) hfo hne
      · simp only [h91, Bool.false_eq_true, if_false] at hne ⊢
  | false =>
    simp only [Bool.false_eq_true, if_false] at hfo hne ⊢
    cases hsp2 : skipSpace buf i with
    | none => simp only [hsp2] at hne ⊢
    | some r2 =>
      obtain ⟨c2, j2⟩ := r2
      simp only [hsp2] at hfo hne ⊢
      by_cases h93 : (c2 == 93) = true
      · simp only [h93, if_true]
      · simp only [h93, Bool.false_eq_true, if_false, Bool.not_false, Bool.and_true] at hfo hne ⊢
        by_cases h44 : (c2 == 44) = true
        · simp only [h44, if_true] at hfo hne ⊢
          exact key j2 hfo hne
        · simp only [h44, Bool.false_eq_true, if_false] at hne ⊢

/-- when the checked array iterator goes on after an element (no error), the element is followed by `,` or `]` -/
theorem arr_step_follow (buf : Buf) (e : Nat) (h : ∀ err, arrayElemLazy buf.size buf e false ≠ .error err) : FollowOK buf e := by
  unfold arrayElemLazy at h
  simp only [Bool.false_eq_true, if_false] at h
  rw [skipSpace_spec] at h
  cases hb : buf[skipWs buf e]? with
  | none => exact Or.inl hb
  | some c =>
    simp only [hb, Option.map_some, Bool.not_false, Bool.and_true] at h
    by_cases h93 : c = 93
    · subst h93; exact Or.inr (Or.inr (Or.inl hb))
    · by_cases h44 : c = 44
      · subst h44; exact Or.inr (Or.inl hb)
      · simp only [u8_beq_false h93, u8_beq_false h44, Bool.false_eq_true, if_false] at h
        exact absurd rfl (h _)

/-- **the unchecked array iterator yields what the checked one yields, on every input on which the checked one ends
    cleanly** (i.e. whose first value is a well-formed array) -/
theorem drainArrU_eq (buf : Buf) : ∀ (n i : Nat) (first : Bool) (items : List (Nat × Nat)), buf.size - i = n →
    drainArr buf i first = (items, true) → drainArrU buf i first = (items, true) := by
  intro n
  induction n using Nat.strongRecOn with
  | _ n ih =>
    intro i first items hn h
    rw [drainArr] at h
    rw [drainArrU]
    cases hstep : arrayElemLazy buf.size buf i first with
    | error err => simp [hstep] at h
    | ok r =>
      cases r with
      | none =>
        simp only [hstep] at h
        have := arrayElemLazyU_eq buf i first (by intro s e nx hh; rw [hstep] at hh; simp at hh)
          (by intro err hh; rw [hstep] at hh; simp at hh)
        rw [this, hstep]; exact h
      | some t =>
        obtain ⟨s, e, nx⟩ := t
        simp only [hstep] at h
        by_cases hg : i < nx ∧ i < buf.size
        · simp only [hg, and_self, dite_true] at h
          -- the element list ends cleanly: so does the rest, hence the next step is no error
          have hrest : (drainArr buf nx false).2 = true := by
            have := congrArg Prod.snd h; simpa using this
          have hnx : nx = e := by
            -- the step reports the end of the element as the next reader position
            unfold arrayElemLazy at hstep
            grind
          subst hnx
          have hnoerr : ∀ err, arrayElemLazy buf.size buf nx false ≠ .error err := by
            intro err herr
            rw [drainArr, herr] at hrest
            simp at hrest
          have hfo := arr_step_follow buf nx hnoerr
          have := arrayElemLazyU_eq buf i first
            (by intro s' e' nx' hh; rw [hstep] at hh; simp at hh; rw [← hh.2.1]; exact hfo)
            (by intro err hh; rw [hstep] at hh; simp at hh)
          rw [this, hstep]
          simp only [hg, and_self, dite_true]
          have hrec : drainArrU buf nx false = drainArr buf nx false := by
            have := ih (buf.size - nx) (by omega) nx false (drainArr buf nx false).1 rfl (by rw [← hrest])
            rw [this]; exact Prod.ext rfl hrest.symm
          rw [hrec]
          exact h
        · simp only [hg, dite_false] at h
          simp at h

/-- the part of an object iterator step after the opening quote of the member name, with the skip of the value as a parameter -/
def entryTail (sk : Nat → IRes) (buf : Buf) (q : Nat) : Except (Code × Nat) (Option (List UInt8 × Nat × Nat × Nat)) :=
  match decodeFrom false buf q with
  | .err c p => .error (c, p)
  | .ok name e _ =>
    match parseObjectClo buf e with
    | .ok v =>
      match sk v with
      | .ok e2 => .ok (some (name, skipWs buf v, e2, e2))
      | .err c p => .error (c, p)
      | .fuel => .error (.Message, 0)
    | .err c p => .error (c, p)
    | .fuel => .error (.Message, 0)

theorem entryTail_congr (buf : Buf) (q : Nat)
    (hfo : ∀ k s e nx, entryTail (skipOne buf.size (Impl.fuelFor buf) buf) buf q = .ok (some (k, s, e, nx)) → FollowOK buf e)
    (hne : ∀ err, entryTail (skipOne buf.size (Impl.fuelFor buf) buf) buf q ≠ .error err) :
    entryTail (skipOneU buf) buf q = entryTail (skipOne buf.size (Impl.fuelFor buf) buf) buf q := by
  unfold entryTail at hfo hne ⊢
  cases hd : decodeFrom false buf q with
  | err c p => rfl
  | ok name e esc =>
    simp only [hd] at hfo hne ⊢
    cases hclo : parseObjectClo buf e with
    | err c p => rfl
    | fuel => rfl
    | ok v =>
      simp only [hclo] at hfo hne ⊢
      cases hs : skipOne buf.size (Impl.fuelFor buf) buf v with
      | ok e2 =>
        simp only [hs] at hfo
        have hf := hfo _ _ e2 _ rfl
        rw [skipOneU_of_value buf _ v e2 (skipOne_ok_value buf v e2 hs) hf]
      | err c p => simp only [hs] at hne; exact absurd rfl (hne (c, p))
      | fuel => simp only [hs] at hne; exact absurd rfl (hne (.Message, 0))

theorem entryTail_nx (sk : Nat → IRes) (buf : Buf) (q : Nat) (k : List UInt8) (s e nx : Nat)
    (h : entryTail sk buf q = .ok (some (k, s, e, nx))) : nx = e := by
  unfold entryTail at h
  cases hd : decodeFrom false buf q with
  | err c p => simp [hd] at h
  | ok name e1 esc =>
    simp only [hd] at h
    cases hclo : parseObjectClo buf e1 with
    | err c p => simp [hclo] at h
    | fuel => simp [hclo] at h
    | ok v =>
      simp only [hclo] at h
      cases hs : sk v with
      | ok e2 => simp [hs] at h; omega
      | err c p => simp [hs] at h
      | fuel => simp [hs] at h

/-- both object iterator steps, written with `entryTail` -/
def entryG (sk : Nat → IRes) (buf : Buf) (i : Nat) (first : Bool) : Except (Code × Nat) (Option (List UInt8 × Nat × Nat × Nat)) :=
  let start : Except (Code × Nat) Nat :=
    if first then
      match skipSpace buf i with
      | some (c, j) => if c == 123 then .ok j else .error (.ExpectedObjectStart, j)
      | none => .error (.ExpectedObjectStart, eofIdx buf i)
    else .ok i
  match start with
  | .error e => .error e
  | .ok i =>
    let afterQuote : Except (Code × Nat) (Option Nat) :=
      match skipSpace buf i with
      | none => .error (.ExpectedObjectCommaOrEnd, eofIdx buf i)
      | some (c, j) =>
        if c == 125 then .ok none
        else if c == 34 && first then .ok (some j)
        else if c == 44 && !first then
          match skipSpace buf j with
          | some (c2, j2) => if c2 == 34 then .ok (some j2) else .error (.ExpectObjectKeyOrEnd, j2)
          | none => .error (.ExpectObjectKeyOrEnd, eofIdx buf j)
        else .error (.ExpectedObjectCommaOrEnd, j)
    match afterQuote with
    | .error e => .error e
    | .ok none => .ok none
    | .ok (some q) => entryTail sk buf q

theorem entryLazy_G (buf : Buf) (i : Nat) (first : Bool) :
    entryLazy buf.size buf i first = entryG (skipOne buf.size (Impl.fuelFor buf) buf) buf i first := rfl
theorem entryLazyU_G (buf : Buf) (i : Nat) (first : Bool) :
    entryLazyU buf i first = entryG (skipOneU buf) buf i first := rfl

/-- what an object iterator step does before the skip of the value does not depend on the skip -/
theorem entryG_cases (sk : Nat → IRes) (buf : Buf) (i : Nat) (first : Bool) :
    (∃ err, ∀ sk', entryG sk' buf i first = .error err) ∨ (∀ sk', entryG sk' buf i first = .ok none) ∨
    (∃ q, ∀ sk', entryG sk' buf i first = entryTail sk' buf q) := by
  unfold entryG
  cases first with
  | true =>
    simp only [if_true, Bool.and_true, Bool.not_true, Bool.and_false]
    cases hsp : skipSpace buf i with
    | none => exact Or.inl ⟨_, fun _ => rfl⟩
    | some r =>
      obtain ⟨c, j⟩ := r
      simp only
      by_cases h123 : (c == 123) = true
      · simp only [h123, if_true]
        cases hsp2 : skipSpace buf j with
        | none => exact Or.inl ⟨_, fun _ => rfl⟩
        | some r2 =>
          obtain ⟨c2, j2⟩ := r2
          simp only
          by_cases h125 : (c2 == 125) = true
          · simp only [h125, if_true]; exact Or.inr (Or.inl (fun _ => trivial))
          · simp only [h125, Bool.false_eq_true, if_false]
            by_cases h34 : (c2 == 34) = true
            · simp only [h34, if_true]; exact Or.inr (Or.inr ⟨j2, fun _ => rfl⟩)
            · simp only [h34, Bool.false_eq_true, if_false]; exact Or.inl ⟨_, fun _ => rfl⟩
      · simp only [h123, Bool.false_eq_true, if_false]; exact Or.inl ⟨_, fun _ => rfl⟩
  | false =>
    simp only [Bool.false_eq_true, if_false, Bool.and_false, Bool.not_false, Bool.and_true]
    cases hsp2 : skipSpace buf i with
    | none => exact Or.inl ⟨_, fun _ => rfl⟩
    | some r2 =>
      obtain ⟨c2, j2⟩ := r2
      simp only
      by_cases h125 : (c2 == 125) = true
      · simp only [h125, if_true]; exact Or.inr (Or.inl (fun _ => trivial))
      · simp only [h125, Bool.false_eq_true, if_false]
        by_cases h44 : (c2 == 44) = true
        · simp only [h44, if_true]
          cases hsp3 : skipSpace buf j2 with
          | none => exact Or.inl ⟨_, fun _ => rfl⟩
          | some r3 =>
            obtain ⟨c3, j3⟩ := r3
            simp only
            by_cases h34 : (c3 == 34) = true
            · simp only [h34, if_true]; exact Or.inr (Or.inr ⟨j3, fun _ => rfl⟩)
            · simp only [h34, Bool.false_eq_true, if_false]; exact Or.inl ⟨_, fun _ => rfl⟩
        · simp only [h44, Bool.false_eq_true, if_false]; exact Or.inl ⟨_, fun _ => rfl⟩

/-- a step of the unchecked object iterator is the step of the checked one, when that is no error and the member it
    yields is followed as members are -/
theorem entryLazyU_eq (buf : Buf) (i : Nat) (first : Bool)
    (hfo : ∀ k s e nx, entryLazy buf.size buf i first = .ok (some (k, s, e, nx)) → FollowOK buf e)
    (hne : ∀ err, entryLazy buf.size buf i first ≠ .error err) :
    entryLazyU buf i first = entryLazy buf.size buf i first := by
  rw [entryLazy_G] at hfo hne ⊢
  rw [entryLazyU_G]
  rcases entryG_cases (skipOneU buf) buf i first with ⟨err, h⟩ | h | ⟨q, h⟩
  · rw [h, h]
  · rw [h, h]
  · rw [h] at hfo hne ⊢
    rw [h]
    exact entryTail_congr buf q hfo hne

/-- the step reports the end of the member's value as the next reader position -/
theorem entryLazy_nx (buf : Buf) (i : Nat) (first : Bool) (k : List UInt8) (s e nx : Nat)
    (h : entryLazy buf.size buf i first = .ok (some (k, s, e, nx))) : nx = e := by
  rw [entryLazy_G] at h
  rcases entryG_cases (skipOneU buf) buf i first with ⟨err, h'⟩ | h' | ⟨q, h'⟩
  · rw [h'] at h; simp at h
  · rw [h'] at h; simp at h
  · rw [h'] at h; exact entryTail_nx _ buf q k s e nx h

/-- when the checked object iterator goes on after a member (no error), the member is followed by `,` or `}` -/
theorem obj_step_follow (buf : Buf) (e : Nat) (h : ∀ err, entryLazy buf.size buf e false ≠ .error err) : FollowOK buf e := by
  unfold entryLazy at h
  simp only [Bool.false_eq_true, if_false] at h
  rw [skipSpace_spec] at h
  cases hb : buf[skipWs buf e]? with
  | none => exact Or.inl hb
  | some c =>
    simp only [hb, Option.map_some, Bool.not_false, Bool.and_true, Bool.and_false] at h
    by_cases h125 : c = 125
    · subst h125; exact Or.inr (Or.inr (Or.inr hb))
    · by_cases h44 : c = 44
      · subst h44; exact Or.inr (Or.inl hb)
      · simp only [u8_beq_false h125, u8_beq_false h44, Bool.false_eq_true, if_false] at h
        exact absurd rfl (h _)

/-- **the unchecked object iterator yields what the checked one yields, on every input on which the checked one ends
    cleanly** (i.e. whose first value is a well-formed object with decodable member names) -/
theorem drainObjU_eq (buf : Buf) : ∀ (n i : Nat) (first : Bool) (items : List (List UInt8 × Nat × Nat)), buf.size - i = n →
    drainObj buf i first = (items, true) → drainObjU buf i first = (items, true) := by
  intro n
  induction n using Nat.strongRecOn with
  | _ n ih =>
    intro i first items hn h
    rw [drainObj] at h
    rw [drainObjU]
    cases hstep : entryLazy buf.size buf i first with
    | error err => simp [hstep] at h
    | ok r =>
      cases r with
      | none =>
        simp only [hstep] at h
        have := entryLazyU_eq buf i first (by intro k s e nx hh; rw [hstep] at hh; simp at hh)
          (by intro err hh; rw [hstep] at hh; simp at hh)
        rw [this, hstep]; exact h
      | some t =>
        obtain ⟨k, s, e, nx⟩ := t
        simp only [hstep] at h
        by_cases hg : i < nx ∧ i < buf.size
        · simp only [hg, and_self, dite_true] at h
          have hrest : (drainObj buf nx false).2 = true := by
            have := congrArg Prod.snd h; simpa using this
          have hnx : nx = e := entryLazy_nx buf i first k s e nx hstep
          subst hnx
          have hnoerr : ∀ err, entryLazy buf.size buf nx false ≠ .error err := by
            intro err herr
            rw [drainObj, herr] at hrest
            simp at hrest
          have hfo := obj_step_follow buf nx hnoerr
          have := entryLazyU_eq buf i first
            (by intro k' s' e' nx' hh; rw [hstep] at hh; simp at hh; rw [← hh.2.2.1]; exact hfo)
            (by intro err hh; rw [hstep] at hh; simp at hh)
          rw [this, hstep]
          simp only [hg, and_self, dite_true]
          have hrec : drainObjU buf nx false = drainObj buf nx false := by
            have := ih (buf.size - nx) (by omega) nx false (drainObj buf nx false).1 rfl (by rw [← hrest])
            rw [this]; exact Prod.ext rfl hrest.symm
          rw [hrec]
          exact h
        · simp only [hg, dite_false] at h
          simp at h

end GetU
end Sonic
