import SonicModel.Spec.Grammar
import SonicModel.Spec.Render
namespace Sonic
namespace Spec

/-! ### one unfolding of `stringS` -/

theorem stringS_quote (lossy : Bool) (buf : Buf) (i : Nat) (h : buf[i]? = some 34) :
    stringS lossy buf i = some ([], i + 1) := by
  have hlt : i < buf.size := by
    by_cases hh : i < buf.size
    · exact hh
    · simp [hh] at h
  have hb : buf[i] = 34 := by simpa [hlt] using h
  rw [stringS]; simp [hlt, hb]

theorem stringS_plain (lossy : Bool) (buf : Buf) (i : Nat) (c : UInt8) (h : buf[i]? = some c)
    (h1 : c ≠ 34) (h2 : c ≠ 92) (h3 : ¬ c < 32) :
    stringS lossy buf i = (stringS lossy buf (i+1)).map fun (s, j) => (c :: s, j) := by
  have hlt : i < buf.size := by
    by_cases hh : i < buf.size
    · exact hh
    · simp [hh] at h
  have hb : buf[i] = c := by simpa [hlt] using h
  rw [stringS]; simp [hlt, hb, h1, h2, h3]

theorem stringS_simple (lossy : Bool) (buf : Buf) (i : Nat) (e : UInt8) (h : buf[i]? = some 92)
    (he : buf[i+1]? = some e) (hs : isSimpleEsc e = true) :
    stringS lossy buf i = (stringS lossy buf (i+2)).map fun (s, j) => (unescape e :: s, j) := by
  have hlt : i < buf.size := by
    by_cases hh : i < buf.size
    · exact hh
    · simp [hh] at h
  have hb : buf[i] = 92 := by simpa [hlt] using h
  rw [stringS]; simp [hlt, hb, he, hs]

theorem stringS_u (lossy : Bool) (buf : Buf) (i : Nat) (cp : Nat) (h : buf[i]? = some 92)
    (he : buf[i+1]? = some 117) (hu : uEscape lossy buf (i+2) = some (cp, i+6)) :
    stringS lossy buf i = (stringS lossy buf (i+6)).map fun (s, j) => (utf8 cp ++ s, j) := by
  have hlt : i < buf.size := by
    by_cases hh : i < buf.size
    · exact hh
    · simp [hh] at h
  have hb : buf[i] = 92 := by simpa [hlt] using h
  rw [stringS]; simp [hlt, hb, he, hu, isSimpleEsc]

/-! ### bytes of a buffer built from pieces -/

theorem get_mid (pre l rest : List UInt8) (k : Nat) (hk : k < l.length) :
    (pre ++ l ++ rest).toArray[pre.length + k]? = l[k]? := by
  simp only [List.getElem?_toArray]
  rw [List.append_assoc, List.getElem?_append_right (by omega)]
  simp only [Nat.add_sub_cancel_left]
  rw [List.getElem?_append_left hk]

theorem ctl_hex : ∀ b : UInt8, b < 32 →
    isHex (hexLower (b.toNat / 16)) = true ∧ isHex (hexLower (b.toNat % 16)) = true ∧
    hexVal (hexLower (b.toNat / 16)) * 16 + hexVal (hexLower (b.toNat % 16)) = b.toNat := by
  apply UInt8.forall_of_fin
  decide +kernel

theorem hex_sum (x y n : Nat) (h : x * 16 + y = n) : 0 * 4096 + 0 * 256 + x * 16 + y = n := by
  simpa using h

theorem utf8_ascii (b : UInt8) (h : b < 128) : utf8 b.toNat = [b] := by
  have : b.toNat < 128 := by simpa using UInt8.lt_iff_toNat_lt.mp h
  simp [utf8, this]

/-- decoding one escaped byte: whatever follows -/
theorem esc_step (b : UInt8) (pre tail : List UInt8) :
    stringS false (pre ++ escByte b ++ tail).toArray pre.length =
      (stringS false (pre ++ escByte b ++ tail).toArray (pre.length + (escByte b).length)).map
        fun (s, j) => (b :: s, j) := by
  have g := fun (l : List UInt8) (k : Nat) (hk : k < l.length) => get_mid pre l tail k hk
  unfold escByte
  split
  · rename_i h; have hb : b = 34 := by simpa using h
    subst hb
    have h0 := g [92, 34] 0 (by simp); have h1 := g [92, 34] 1 (by simp)
    simp only [Nat.add_zero] at h0
    rw [stringS_simple false _ _ 34 (by simpa using h0) (by simpa using h1) (by decide)]
    simp [unescape]
  · split
    · rename_i _ h; have hb : b = 92 := by simpa using h
      subst hb
      have h0 := g [92, 92] 0 (by simp); have h1 := g [92, 92] 1 (by simp)
      simp only [Nat.add_zero] at h0
      rw [stringS_simple false _ _ 92 (by simpa using h0) (by simpa using h1) (by decide)]
      simp [unescape]
    · split
      · rename_i _ _ h; have hb : b = 8 := by simpa using h
        subst hb
        have h0 := g [92, 98] 0 (by simp); have h1 := g [92, 98] 1 (by simp)
        simp only [Nat.add_zero] at h0
        rw [stringS_simple false _ _ 98 (by simpa using h0) (by simpa using h1) (by decide)]
        simp [unescape]
      · split
        · rename_i _ _ _ h; have hb : b = 9 := by simpa using h
          subst hb
          have h0 := g [92, 116] 0 (by simp); have h1 := g [92, 116] 1 (by simp)
          simp only [Nat.add_zero] at h0
          rw [stringS_simple false _ _ 116 (by simpa using h0) (by simpa using h1) (by decide)]
          simp [unescape]
        · split
          · rename_i _ _ _ _ h; have hb : b = 10 := by simpa using h
            subst hb
            have h0 := g [92, 110] 0 (by simp); have h1 := g [92, 110] 1 (by simp)
            simp only [Nat.add_zero] at h0
            rw [stringS_simple false _ _ 110 (by simpa using h0) (by simpa using h1) (by decide)]
            simp [unescape]
          · split
            · rename_i _ _ _ _ _ h; have hb : b = 12 := by simpa using h
              subst hb
              have h0 := g [92, 102] 0 (by simp); have h1 := g [92, 102] 1 (by simp)
              simp only [Nat.add_zero] at h0
              rw [stringS_simple false _ _ 102 (by simpa using h0) (by simpa using h1) (by decide)]
              simp [unescape]
            · split
              · rename_i _ _ _ _ _ _ h; have hb : b = 13 := by simpa using h
                subst hb
                have h0 := g [92, 114] 0 (by simp); have h1 := g [92, 114] 1 (by simp)
                simp only [Nat.add_zero] at h0
                rw [stringS_simple false _ _ 114 (by simpa using h0) (by simpa using h1) (by decide)]
                simp [unescape]
              · split
                · rename_i _ _ _ _ _ _ _ hlt
                  -- \u00XY
                  obtain ⟨hx1, hx2, hv⟩ := ctl_hex b hlt
                  let L : List UInt8 := [92, 117, 48, 48, hexLower (b.toNat / 16), hexLower (b.toNat % 16)]
                  have h0 := g L 0 (by simp [L]); have h1 := g L 1 (by simp [L])
                  have h2 := g L 2 (by simp [L]); have h3 := g L 3 (by simp [L])
                  have h4 := g L 4 (by simp [L]); have h5 := g L 5 (by simp [L])
                  simp only [Nat.add_zero, L] at h0 h1 h2 h3 h4 h5
                  have hbn : b.toNat < 32 := by simpa using UInt8.lt_iff_toNat_lt.mp hlt
                  have hu : uEscape false (pre ++ [92, 117, 48, 48, hexLower (b.toNat / 16), hexLower (b.toNat % 16)] ++ tail).toArray
                      (pre.length + 2) = some (b.toNat, pre.length + 6) := by
                    have e3 : pre.length + 2 + 1 = pre.length + 3 := by omega
                    have e4 : pre.length + 2 + 2 = pre.length + 4 := by omega
                    have e5 : pre.length + 2 + 3 = pre.length + 5 := by omega
                    have i48 : isHex 48 = true := by decide
                    have v48 : hexVal 48 = 0 := by decide
                    have h2' : (pre ++ [92, 117, 48, 48, hexLower (b.toNat / 16), hexLower (b.toNat % 16)] ++ tail).toArray[pre.length + 2]? = some 48 := by
                      rw [h2]; rfl
                    have h3' : (pre ++ [92, 117, 48, 48, hexLower (b.toNat / 16), hexLower (b.toNat % 16)] ++ tail).toArray[pre.length + 3]? = some 48 := by
                      rw [h3]; rfl
                    have h4' : (pre ++ [92, 117, 48, 48, hexLower (b.toNat / 16), hexLower (b.toNat % 16)] ++ tail).toArray[pre.length + 4]? = some (hexLower (b.toNat / 16)) := by
                      rw [h4]; rfl
                    have h5' : (pre ++ [92, 117, 48, 48, hexLower (b.toNat / 16), hexLower (b.toNat % 16)] ++ tail).toArray[pre.length + 5]? = some (hexLower (b.toNat % 16)) := by
                      rw [h5]; rfl
                    have hok : hex4ok (pre ++ [92, 117, 48, 48, hexLower (b.toNat / 16), hexLower (b.toNat % 16)] ++ tail).toArray (pre.length + 2) = true := by
                      unfold hex4ok
                      rw [e3, e4, e5, h2', h3', h4', h5']
                      simp only [i48, hx1, hx2, Bool.and_self]
                    have hval : hex4val (pre ++ [92, 117, 48, 48, hexLower (b.toNat / 16), hexLower (b.toNat % 16)] ++ tail).toArray (pre.length + 2) = b.toNat := by
                      unfold hex4val
                      rw [e3, e4, e5, h2', h3', h4', h5']
                      show hexVal 48 * 4096 + hexVal 48 * 256 + hexVal (hexLower (b.toNat / 16)) * 16 + hexVal (hexLower (b.toNat % 16)) = b.toNat
                      rw [v48]
                      exact hex_sum _ _ _ hv
                    unfold uEscape
                    rw [hok, hval]
                    have n1 : ¬ (0xD800 ≤ b.toNat) := by omega
                    have n2 : ¬ (0xDC00 ≤ b.toNat) := by omega
                    simp [n1, n2]
                  rw [stringS_u false _ _ b.toNat (by simpa using h0) (by simpa using h1) hu]
                  have hb128 : b < 128 := by
                    apply UInt8.lt_iff_toNat_lt.mpr; simp; omega
                  rw [utf8_ascii b hb128]
                  simp
                · rename_i n34 n92 _ _ _ _ _ n32
                  have h0 := g [b] 0 (by simp)
                  simp only [Nat.add_zero] at h0
                  rw [stringS_plain false _ _ b (by simpa using h0) (by simpa using n34) (by simpa using n92) n32]
                  simp

/-- **what the serializer writes for a string decodes back to the string**: for any bytes `s`, the
    strict specification reads the quoted literal `"escape s"` (wherever it stands in a text) as
    exactly `s`, ending just after the closing quote -/
theorem string_roundtrip (s : List UInt8) : ∀ (pre suf : List UInt8),
    stringS false (pre ++ escape s ++ 34 :: suf).toArray pre.length =
      some (s, pre.length + (escape s).length + 1) := by
  induction s with
  | nil =>
    intro pre suf
    have : (pre ++ escape [] ++ 34 :: suf).toArray[pre.length]? = some 34 := by simp [escape]
    rw [stringS_quote false _ _ this]; simp [escape]
  | cons b s ih =>
    intro pre suf
    have e : pre ++ escape (b :: s) ++ 34 :: suf = pre ++ escByte b ++ (escape s ++ 34 :: suf) := by
      simp [escape, List.append_assoc]
    rw [e, esc_step b pre (escape s ++ 34 :: suf)]
    have ih' := ih (pre ++ escByte b) suf
    have e2 : pre ++ escByte b ++ escape s ++ 34 :: suf = pre ++ escByte b ++ (escape s ++ 34 :: suf) := by
      simp [List.append_assoc]
    rw [e2] at ih'
    simp only [List.length_append] at ih'
    rw [ih']
    simp [escape, List.length_append]; omega

end Spec
end Sonic
