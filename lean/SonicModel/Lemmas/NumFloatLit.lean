import SonicModel.Lemmas.NumLit
namespace Sonic
open Impl Spec

/-! ### the pieces of the digit machine on digit runs standing in a buffer -/

theorem digitsOf_ge_acc : ∀ (ds : List UInt8) (acc : Nat), acc ≤ digitsOf ds acc := by
  intro ds
  induction ds with
  | nil => intro acc; simp [digitsOf]
  | cons d ds ih =>
    intro acc
    have := ih (acc * 10 + (d.toNat - 48))
    simp only [digitsOf, List.foldl_cons] at this ⊢
    omega

theorem getElem_at0 (A : List UInt8) (d : UInt8) (Bs : List UInt8) (h : A.length < (A ++ (d :: Bs)).toArray.size) :
    (A ++ (d :: Bs)).toArray[A.length] = d := by
  have := get_at0 A (d :: Bs)
  simp only [List.head?_cons] at this
  have h2 : (A ++ (d :: Bs)).toArray[A.length]? = some (A ++ (d :: Bs)).toArray[A.length] := by simp
  rw [h2] at this
  simpa using this

/-- the exponent digits are accumulated exactly as long as the value stays below the bound -/
theorem expDigits_run : ∀ (ds A R : List UInt8) (bound acc : Nat), allDigits ds →
    (∀ c, R.head? = some c → isDigit c = false) → digitsOf ds acc < bound →
    expDigits (A ++ (ds ++ R)).toArray bound A.length acc = (digitsOf ds acc, A.length + ds.length) := by
  intro ds
  induction ds with
  | nil =>
    intro A R bound acc _ hR _
    simp only [List.nil_append, digitsOf, List.foldl_nil, List.length_nil, Nat.add_zero]
    rw [expDigits]
    by_cases hlt : A.length < (A ++ R).toArray.size
    · have hget : (A ++ R).toArray[A.length]? = some (A ++ R).toArray[A.length] := by
        simp only [Array.getElem?_eq_getElem hlt]
      rw [get_at0] at hget
      have hnd := hR _ hget
      simp only [hlt, dite_true, hnd, Bool.false_eq_true, if_false]
    · simp only [hlt, dite_false]
  | cons d ds ih =>
    intro A R bound acc hds hR hb
    have hd : isDigit d = true := hds d (by simp)
    have hds' : allDigits ds := fun x hx => hds x (by simp [hx])
    have hlt : A.length < (A ++ (d :: ds ++ R)).toArray.size := by simp
    have hget : (A ++ (d :: ds ++ R)).toArray[A.length] = d := getElem_at0 A d (ds ++ R) (by simpa using hlt)
    have hacc : acc < bound := Nat.lt_of_le_of_lt (digitsOf_ge_acc (d :: ds) acc) hb
    rw [expDigits]
    simp only [hlt, dite_true, hget, hd, ite_true, hacc]
    have hb' : digitsOf ds (d.toNat - 48 + acc * 10) < bound := by
      have : digitsOf (d :: ds) acc = digitsOf ds (d.toNat - 48 + acc * 10) := by
        simp only [digitsOf, List.foldl_cons]; rw [Nat.add_comm]
      rw [← this]; exact hb
    have := ih (A ++ [d]) R bound (d.toNat - 48 + acc * 10) hds' hR hb'
    simp only [List.append_assoc, List.singleton_append, List.length_append, List.length_singleton] at this
    simp only [List.cons_append, List.length_cons]
    rw [this]
    simp only [digitsOf, List.foldl_cons]
    rw [Nat.add_comm (d.toNat - 48)]
    congr 1; omega

/-- up to `need` digits of a run are appended to the significand -/
theorem takeDigits_run : ∀ (need : Nat) (ds A R : List UInt8) (sig : Nat), allDigits ds →
    (∀ c, R.head? = some c → isDigit c = false) →
    takeDigits (A ++ (ds ++ R)).toArray need A.length sig =
      (digitsOf (ds.take need) sig, A.length + min need ds.length) := by
  intro need
  induction need with
  | zero => intro ds A R sig _ _; simp [takeDigits, digitsOf]
  | succ need ih =>
    intro ds A R sig hds hR
    cases ds with
    | nil =>
      simp only [List.nil_append, List.take_nil, List.length_nil, Nat.min_zero, Nat.add_zero]
      have hnd : isDigitAt (A ++ R).toArray A.length = false := by
        unfold isDigitAt
        rw [get_at0]
        cases hh : R.head? with
        | none => rfl
        | some x => exact hR x hh
      rw [takeDigits]
      simp only [hnd, Bool.false_eq_true, if_false, digitsOf, List.foldl_nil]
    | cons d ds =>
      have hd : isDigit d = true := hds d (by simp)
      have hds' : allDigits ds := fun x hx => hds x (by simp [hx])
      have h0 : (A ++ (d :: ds ++ R)).toArray[A.length]? = some d := by rw [get_at0]; rfl
      have hda := isDigitAt_of _ _ d h0 hd
      have hdig : dig (A ++ (d :: ds ++ R)).toArray A.length = d.toNat - 48 := by
        unfold dig; rw [h0]; rfl
      have := ih ds (A ++ [d]) R (sig * 10 + (d.toNat - 48)) hds' hR
      simp only [List.append_assoc, List.singleton_append, List.length_append, List.length_singleton] at this
      rw [takeDigits]
      simp only [hda, ite_true, hdig]
      simp only [List.cons_append] at this ⊢
      rw [this]
      simp only [List.take_succ_cons, digitsOf, List.foldl_cons, List.length_cons]
      congr 1; omega


/-- the exponent part of a literal through `parse_exponent` (reader just after the `e`) -/
theorem parseExponent_lit (l : Lit) (hw : l.WF) (e : UInt8) (sg : Option UInt8) (ds : List UInt8)
    (he : l.exp = some (e, sg, ds)) (A R : List UInt8) (hRd : ∀ c, R.head? = some c → isDigit c = false)
    (bound : Nat) (hb : digitsOf ds 0 < bound) :
    parseExponent (A ++ (l.expPart ++ R)).toArray bound (A.length + 1) =
      some (l.expVal, A.length + l.expPart.length) := by
  obtain ⟨_, hS, hne, hds⟩ := hw.2.2.2.2 e sg ds he
  cases hdd : ds with
  | nil => exact absurd hdd hne
  | cons d ds' =>
    subst hdd
    have hd : isDigit d = true := hds d (by simp)
    have hd43 : d ≠ 43 := by intro h; subst h; simp [isDigit] at hd
    have hd45 : d ≠ 45 := by intro h; subst h; simp [isDigit] at hd
    unfold Lit.expPart Lit.expVal
    rw [he]
    rcases hS with rfl | rfl | rfl
    · simp only
      have hsz : ¬ (A.length + 1 ≥ (A ++ (e :: d :: ds' ++ R)).toArray.size) := by simp
      have h1 : (A ++ (e :: d :: ds' ++ R)).toArray[A.length + 1]? = some d := by rw [get_at]; rfl
      have hda := isDigitAt_of _ _ d h1 hd
      have hrun := expDigits_run (d :: ds') (A ++ [e]) R bound 0 hds hRd hb
      have hre : A ++ [e] ++ (d :: ds' ++ R) = A ++ (e :: d :: ds' ++ R) := by simp
      have hlen : (A ++ [e]).length = A.length + 1 := by simp
      rw [hre, hlen] at hrun
      unfold parseExponent
      rw [if_neg hsz]
      have hn45 : ¬ (some d = some (45 : UInt8)) := by simpa using hd45
      have hn43 : ¬ (some d = some (43 : UInt8)) := by simpa using hd43
      simp only [h1, hn45, hn43, decide_false, Bool.or_self, Bool.false_eq_true, if_false, hda, Bool.not_true, hrun]
      simp only [List.length_cons]
      congr 2; omega
    · simp only
      have hsz : ¬ (A.length + 1 ≥ (A ++ (e :: 43 :: d :: ds' ++ R)).toArray.size) := by simp
      have h1 : (A ++ (e :: 43 :: d :: ds' ++ R)).toArray[A.length + 1]? = some 43 := by rw [get_at]; rfl
      have h2 : (A ++ (e :: 43 :: d :: ds' ++ R)).toArray[A.length + 1 + 1]? = some d := by
        rw [show A.length + 1 + 1 = A.length + 2 by omega, get_at]; rfl
      have hda := isDigitAt_of _ _ d h2 hd
      have hrun := expDigits_run (d :: ds') (A ++ [e, 43]) R bound 0 hds hRd hb
      have hre : A ++ [e, 43] ++ (d :: ds' ++ R) = A ++ (e :: 43 :: d :: ds' ++ R) := by simp
      have hlen : (A ++ [e, 43]).length = A.length + 1 + 1 := by simp
      rw [hre, hlen] at hrun
      unfold parseExponent
      rw [if_neg hsz]
      simp only [h1, decide_true, Bool.true_or, if_true, hda, Bool.not_true, Bool.false_eq_true, if_false, hrun]
      have hn : ¬ (some (43 : UInt8) = some 45) := by decide
      simp only [hn, if_false, List.length_cons]
      congr 2; omega
    · simp only
      have hsz : ¬ (A.length + 1 ≥ (A ++ (e :: 45 :: d :: ds' ++ R)).toArray.size) := by simp
      have h1 : (A ++ (e :: 45 :: d :: ds' ++ R)).toArray[A.length + 1]? = some 45 := by rw [get_at]; rfl
      have h2 : (A ++ (e :: 45 :: d :: ds' ++ R)).toArray[A.length + 1 + 1]? = some d := by
        rw [show A.length + 1 + 1 = A.length + 2 by omega, get_at]; rfl
      have hda := isDigitAt_of _ _ d h2 hd
      have hrun := expDigits_run (d :: ds') (A ++ [e, 45]) R bound 0 hds hRd hb
      have hre : A ++ [e, 45] ++ (d :: ds' ++ R) = A ++ (e :: 45 :: d :: ds' ++ R) := by simp
      have hlen : (A ++ [e, 45]).length = A.length + 1 + 1 := by simp
      rw [hre, hlen] at hrun
      unfold parseExponent
      rw [if_neg hsz]
      simp only [h1, decide_true, Bool.or_true, if_true, hda, Bool.not_true, Bool.false_eq_true, if_false, hrun]
      simp only [List.length_cons]
      congr 2; omega


/-- what may follow a whole literal: not a digit, not `e`/`E` (in particular any delimiter) -/
def EndsNum (R : List UInt8) : Prop :=
  (∀ c, R.head? = some c → isDigit c = false) ∧ R.head? ≠ some 101 ∧ R.head? ≠ some 69

/-- the head of `expPart ++ R` is never a digit -/
theorem expPart_head' (l : Lit) (hw : l.WF) (R : List UInt8) (hR : ∀ c, R.head? = some c → isDigit c = false) :
    ∀ c, (l.expPart ++ R).head? = some c → isDigit c = false := by
  unfold Lit.expPart
  cases he : l.exp with
  | none => simpa using hR
  | some t =>
    obtain ⟨e, sg, ds⟩ := t
    obtain ⟨hE, _, _, _⟩ := hw.2.2.2.2 e sg ds he
    cases sg <;> (rcases hE with rfl | rfl <;> simp [isDigit])

/-- `parse_number_fraction` on the remaining fraction digits `g` of a literal (reader at their start):
    `min need |g|` digits go into the significand, the rest only set the truncation flag -/
theorem parseFraction_lit (l : Lit) (hw : l.WF) (g A R : List UInt8) (hg : allDigits g) (hR : EndsNum R)
    (bound : Nat) (hb : ∀ e sg ds, l.exp = some (e, sg, ds) → digitsOf ds 0 < bound)
    (sig : Nat) (exp need : Int) (dotPos : Nat) :
    parseFraction (A ++ (g ++ (l.expPart ++ R))).toArray bound A.length sig exp need dotPos =
      some (digitsOf (g.take (min need.toNat g.length)) sig,
            exp - (((A.length + min need.toNat g.length : Nat) : Int) - (dotPos : Int)) + l.expVal,
            decide (min need.toNat g.length < g.length),
            A.length + g.length + l.expPart.length) := by
  obtain ⟨hRd, hR101, hR69⟩ := hR
  have hEh := expPart_head' l hw R hRd
  -- the digits taken
  have htake : (if need > 0 then takeDigits (A ++ (g ++ (l.expPart ++ R))).toArray need.toNat A.length sig
      else (sig, A.length)) = (digitsOf (g.take (min need.toNat g.length)) sig, A.length + min need.toNat g.length) := by
    by_cases hn : need > 0
    · rw [if_pos hn, takeDigits_run need.toNat g A (l.expPart ++ R) sig hg hEh]
      congr 1
      rw [List.take_eq_take_min]
    · rw [if_neg hn]
      have : need.toNat = 0 := by omega
      simp [this, digitsOf]
  -- the remaining digits are skipped
  have hsplit : g = g.take (min need.toNat g.length) ++ g.drop (min need.toNat g.length) := (List.take_append_drop _ _).symm
  have htl : (g.take (min need.toNat g.length)).length = min need.toNat g.length := by
    rw [List.length_take]; omega
  have hbuf : A ++ (g ++ (l.expPart ++ R)) =
      (A ++ g.take (min need.toNat g.length)) ++ (g.drop (min need.toNat g.length) ++ (l.expPart ++ R)) := by
    rw [List.append_assoc A, ← List.append_assoc (g.take _) (g.drop _), List.take_append_drop]
  have hskip : skipDigits (A ++ (g ++ (l.expPart ++ R))).toArray (A.length + min need.toNat g.length) = A.length + g.length := by
    have := skipDigits_run (g.drop (min need.toNat g.length)) (A ++ g.take (min need.toNat g.length)) (l.expPart ++ R)
      (fun x hx => hg x (List.mem_of_mem_drop hx)) hEh
    rw [← hbuf, List.length_append, htl, List.length_drop] at this
    rw [this]; omega
  have hbuf2 : A ++ (g ++ (l.expPart ++ R)) = (A ++ g) ++ (l.expPart ++ R) := by simp
  have hlen2 : (A ++ g).length = A.length + g.length := by simp
  unfold parseFraction
  simp only [htake, hskip]
  have htr : decide (A.length + min need.toNat g.length < A.length + g.length) = decide (min need.toNat g.length < g.length) := by
    congr 1; apply propext; omega
  rw [htr]
  cases he : l.exp with
  | none =>
    have hE : l.expPart = [] := by simp [Lit.expPart, he]
    have hV : l.expVal = 0 := by simp [Lit.expVal, he]
    have hnext : (A ++ (g ++ (l.expPart ++ R))).toArray[A.length + g.length]? = R.head? := by
      rw [hbuf2, ← hlen2, get_at0, hE]; rfl
    have hc : ((A ++ (g ++ (l.expPart ++ R))).toArray[A.length + g.length]? = some 101 ||
        (A ++ (g ++ (l.expPart ++ R))).toArray[A.length + g.length]? = some 69) = false := by
      rw [hnext]; simp [hR101, hR69]
    simp only [hc, Bool.false_eq_true, if_false]
    simp only [hE, hV, List.length_nil, Nat.add_zero, Int.add_zero]
  | some t =>
    obtain ⟨e, sg, ds⟩ := t
    obtain ⟨hE, _, _, _⟩ := hw.2.2.2.2 e sg ds he
    have hnext : (A ++ (g ++ (l.expPart ++ R))).toArray[A.length + g.length]? = some e := by
      rw [hbuf2, ← hlen2, get_at0]
      unfold Lit.expPart; rw [he]; cases sg <;> rfl
    have hc : ((A ++ (g ++ (l.expPart ++ R))).toArray[A.length + g.length]? = some 101 ||
        (A ++ (g ++ (l.expPart ++ R))).toArray[A.length + g.length]? = some 69) = true := by
      rw [hnext]; rcases hE with rfl | rfl <;> simp
    have hpe := parseExponent_lit l hw e sg ds he (A ++ g) R hRd bound (hb e sg ds he)
    rw [← hbuf2, hlen2] at hpe
    simp only [hc, if_true, hpe]


/-! ### literals with a fraction and/or an exponent: integer part without a leading zero -/

/-- what the digit machine hands to the float back end for integer digits `I` (no leading zero),
    fraction digits `f` (`[]` if there is no fraction) and exponent value `ev` -/
def floatResultNZ (neg : Bool) (I f : List UInt8) (ev : Int) : PNum :=
  let sig0 := if I.length > 19 then digitsOf (I.take 19) 0 else digitsOf I 0
  let exp0 : Int := if I.length > 19 then ((I.length - 19 : Nat) : Int) else 0
  let cnt : Nat := if I.length > 19 then 19 else I.length
  let t := min (17 - (cnt : Int)).toNat f.length
  .toFloat neg (digitsOf (f.take t) sig0) (exp0 - (t : Int) + ev) (decide (t < f.length) || decide (I.length > 19))

theorem float_nonzero (l : Lit) (hw : l.WF) (c : UInt8) (I' : List UInt8) (hint : l.int = c :: I') (h48 : c ≠ 48)
    (hfe : l.frac ≠ none ∨ l.exp ≠ none) (A R : List UInt8) (hR : EndsNum R) (bound : Nat)
    (hb : ∀ e sg ds, l.exp = some (e, sg, ds) → digitsOf ds 0 < bound) (neg : Bool) :
    parseNumber (A ++ (c :: I' ++ (l.fracPart ++ (l.expPart ++ R)))).toArray bound A.length neg =
      (floatResultNZ neg (c :: I') (l.frac.getD []) l.expVal,
       A.length + (I'.length + 1) + l.fracPart.length + l.expPart.length) := by
  obtain ⟨_, hIall, _, hfrac, hexp⟩ := id hw
  have hI : allDigits (c :: I') := by rw [← hint]; exact hIall
  have hc : isDigit c = true := hI c (by simp)
  obtain ⟨hRd, hR101, hR69⟩ := id hR
  have hEh := expPart_head' l hw R hRd
  -- what follows the integer digits is not a digit
  have hFh : ∀ x, (l.fracPart ++ (l.expPart ++ R)).head? = some x → isDigit x = false := by
    unfold Lit.fracPart
    cases hf : l.frac with
    | none => simpa using hEh
    | some f => intro x hx; simp at hx; subst hx; simp [isDigit]
  have h0 : (A ++ (c :: I' ++ (l.fracPart ++ (l.expPart ++ R)))).toArray[A.length]? = some c := by rw [get_at0]; rfl
  have hb0 : ¬ ((A ++ (c :: I' ++ (l.fracPart ++ (l.expPart ++ R)))).toArray[A.length]? = some 48) := by
    rw [h0]; simpa using h48
  have hsk : skipDigits (A ++ (c :: I' ++ (l.fracPart ++ (l.expPart ++ R)))).toArray A.length = A.length + (I'.length + 1) :=
    skipDigits_run (c :: I') A _ hI hFh
  have hre : A ++ (c :: I' ++ (l.fracPart ++ (l.expPart ++ R))) = (A ++ c :: I') ++ (l.fracPart ++ (l.expPart ++ R)) := by simp
  have hlen : (A ++ c :: I').length = A.length + (I'.length + 1) := by simp
  have hcnt : A.length + (I'.length + 1) - A.length = I'.length + 1 := by omega
  have hc0 : ((I'.length + 1 == 0) = true) = False := by simp
  -- the significand of the integer digits
  have hsig : (if I'.length + 1 > 19 then
        (wrapDigits (A ++ (c :: I' ++ (l.fracPart ++ (l.expPart ++ R)))).toArray A.length (A.length + 19) 0,
          (((I'.length + 1 - 19 : Nat)) : Int), true, 19)
      else (wrapDigits (A ++ (c :: I' ++ (l.fracPart ++ (l.expPart ++ R)))).toArray A.length (A.length + (I'.length + 1)) 0,
          (0 : Int), false, I'.length + 1)) =
      ((if (c :: I').length > 19 then digitsOf ((c :: I').take 19) 0 else digitsOf (c :: I') 0),
       (if (c :: I').length > 19 then (((c :: I').length - 19 : Nat) : Int) else 0),
       decide ((c :: I').length > 19),
       (if (c :: I').length > 19 then 19 else (c :: I').length)) := by
    simp only [List.length_cons]
    by_cases h19 : I'.length + 1 > 19
    · have hsplit : c :: I' = (c :: I').take 19 ++ (c :: I').drop 19 := (List.take_append_drop 19 _).symm
      have htl : ((c :: I').take 19).length = 19 := by simp; omega
      have hP : digitsOf ((c :: I').take 19) 0 < 2 ^ 64 := by
        have := digitsOf_lt ((c :: I').take 19) (fun x hx => hI x (List.mem_of_mem_take hx))
        rw [htl] at this
        have : (10:Nat)^19 < 2^64 := by decide
        omega
      have hbuf : A ++ (c :: I' ++ (l.fracPart ++ (l.expPart ++ R))) =
          A ++ ((c :: I').take 19 ++ ((c :: I').drop 19 ++ (l.fracPart ++ (l.expPart ++ R)))) := by
        rw [← List.append_assoc ((c :: I').take 19), ← hsplit]
      have hw2 := wrapDigits_run ((c :: I').take 19) A ((c :: I').drop 19 ++ (l.fracPart ++ (l.expPart ++ R))) hP
      rw [← hbuf, htl] at hw2
      simp only [h19, if_true, hw2, decide_true]
    · have hv : digitsOf (c :: I') 0 < 2 ^ 64 := by
        have := digitsOf_lt (c :: I') hI
        have hp : (10:Nat) ^ (c :: I').length ≤ 10 ^ 19 := Nat.pow_le_pow_right (by decide) (by simp; omega)
        have : (10:Nat)^19 < 2^64 := by decide
        omega
      have hw2 := wrapDigits_run (c :: I') A (l.fracPart ++ (l.expPart ++ R)) hv
      simp only [List.length_cons] at hw2
      simp only [h19, if_false, hw2, decide_false]
  unfold parseNumber
  rw [if_neg hb0]
  simp only [hsk, hcnt, hc0, if_false, hsig]
  cases hf : l.frac with
  | none =>
    -- exponent directly after the integer digits
    have hF : l.fracPart = [] := by simp [Lit.fracPart, hf]
    cases he : l.exp with
    | none => rcases hfe with h | h <;> contradiction
    | some t =>
      obtain ⟨e, sg, ds⟩ := t
      obtain ⟨hE, _, _, _⟩ := hexp e sg ds he
      have hnext : (A ++ (c :: I' ++ (l.fracPart ++ (l.expPart ++ R)))).toArray[A.length + (I'.length + 1)]? = some e := by
        rw [hre, ← hlen, get_at0, hF]
        unfold Lit.expPart; rw [he]; cases sg <;> rfl
      have hcE : ((A ++ (c :: I' ++ (l.fracPart ++ (l.expPart ++ R)))).toArray[A.length + (I'.length + 1)]? = some 101 ||
          (A ++ (c :: I' ++ (l.fracPart ++ (l.expPart ++ R)))).toArray[A.length + (I'.length + 1)]? = some 69) = true := by
        rw [hnext]; rcases hE with rfl | rfl <;> simp
      have hpe := parseExponent_lit l hw e sg ds he (A ++ c :: I') R hRd bound (hb e sg ds he)
      have hre2 : A ++ c :: I' ++ (l.expPart ++ R) = A ++ (c :: I' ++ (l.fracPart ++ (l.expPart ++ R))) := by
        rw [hF]; simp
      rw [hre2, hlen] at hpe
      simp only [hcE, if_true, hpe]
      simp only [floatResultNZ, hF, List.length_nil, Option.getD_none, List.take_nil,
        Nat.min_zero, Nat.add_zero]
      simp [digitsOf]
  | some f =>
    obtain ⟨hfne, hfd⟩ := hfrac f hf
    have hF : l.fracPart = 46 :: f := by simp [Lit.fracPart, hf]
    have hnext : (A ++ (c :: I' ++ (l.fracPart ++ (l.expPart ++ R)))).toArray[A.length + (I'.length + 1)]? = some 46 := by
      rw [hre, ← hlen, get_at0, hF]; rfl
    have hn1 : ((A ++ (c :: I' ++ (l.fracPart ++ (l.expPart ++ R)))).toArray[A.length + (I'.length + 1)]? = some 101 ||
        (A ++ (c :: I' ++ (l.fracPart ++ (l.expPart ++ R)))).toArray[A.length + (I'.length + 1)]? = some 69) = false := by
      rw [hnext]; decide
    cases f with
    | nil => exact absurd rfl hfne
    | cons d f' =>
      have hd : isDigit d = true := hfd d (by simp)
      have hre3 : A ++ (c :: I' ++ (l.fracPart ++ (l.expPart ++ R))) = (A ++ c :: I' ++ [46]) ++ (d :: f' ++ (l.expPart ++ R)) := by
        rw [hF]; simp
      have hlen3 : (A ++ c :: I' ++ [46]).length = A.length + (I'.length + 1) + 1 := by simp; omega
      have hdig : (A ++ (c :: I' ++ (l.fracPart ++ (l.expPart ++ R)))).toArray[A.length + (I'.length + 1) + 1]? = some d := by
        rw [hre3, ← hlen3, get_at0]; rfl
      have hda := isDigitAt_of _ _ d hdig hd
      have hpf := parseFraction_lit l hw (d :: f') (A ++ c :: I' ++ [46]) R hfd hR bound hb
      rw [← hre3, hlen3] at hpf
      simp only [hn1, Bool.false_eq_true, if_false, hnext, if_true, hda, Bool.not_true, hpf]
      simp only [floatResultNZ, hF, Option.getD_some, List.length_cons]
      simp only [show (decide (some (46 : UInt8) = some 101) || decide (some (46 : UInt8) = some 69)) = false by decide,
        Bool.false_eq_true, if_false]
      by_cases h19 : I'.length + 1 > 19
      · have ht : (17 - ((19 : Nat) : Int)).toNat = 0 := by decide
        simp only [h19, if_true, ht, Nat.zero_min, decide_true, Bool.or_true, List.take_zero]
        have : (0 : Nat) < f'.length + 1 := by omega
        simp only [this, decide_true]
        congr 1
        · congr 1; omega
        · omega
      · simp only [h19, if_false, decide_false, Bool.or_false]
        generalize (min (17 - ((I'.length + 1 : Nat) : Int)).toNat (f'.length + 1)) = t
        congr 1
        · congr 1; omega
        · omega


/-! ### literals `0.…` and `0e…` -/

theorem skipZeros_run : ∀ (zs A R : List UInt8) (fuel : Nat), (∀ z ∈ zs, z = 48) → R.head? ≠ some 48 →
    zs.length ≤ fuel →
    parseNumber.skipZeros (A ++ (zs ++ R)).toArray A.length fuel = A.length + zs.length := by
  intro zs
  induction zs with
  | nil =>
    intro A R fuel _ hR _
    cases fuel with
    | zero => simp [parseNumber.skipZeros]
    | succ fuel =>
      have : ¬ ((A ++ ([] ++ R)).toArray[A.length]? = some 48) := by
        rw [List.nil_append, get_at0]; exact hR
      simp only [parseNumber.skipZeros, this, if_false, List.length_nil, Nat.add_zero]
  | cons z zs ih =>
    intro A R fuel hz hR hf
    have hz0 : z = 48 := hz z (by simp)
    subst hz0
    cases fuel with
    | zero => simp at hf
    | succ fuel =>
      have h0 : (A ++ (48 :: zs ++ R)).toArray[A.length]? = some 48 := by rw [get_at0]; rfl
      have := ih (A ++ [48]) R fuel (fun x hx => hz x (by simp [hx])) hR (by simpa using hf)
      simp only [List.append_assoc, List.singleton_append, List.length_append, List.length_singleton] at this
      simp only [List.cons_append] at h0 this ⊢
      simp only [parseNumber.skipZeros, h0, if_true, List.length_cons]
      rw [this]; omega

/-- the float request for `0.` + `zs` zeros + first non-zero digit `d` + further digits `g'` -/
def floatResultZ (neg : Bool) (zs : Nat) (d : UInt8) (g' : List UInt8) (ev : Int) : PNum :=
  let t := min 16 g'.length
  .toFloat neg (digitsOf (g'.take t) (d.toNat - 48)) (-(((zs + 1 + t : Nat)) : Int) + ev) (decide (t < g'.length))

theorem float_zero_frac (l : Lit) (hw : l.WF) (hint : l.int = [48]) (zs g : List UInt8)
    (hf : l.frac = some (zs ++ g)) (hzs : ∀ z ∈ zs, z = 48) (hg : g.head? ≠ some 48)
    (A R : List UInt8) (hR : EndsNum R) (bound : Nat)
    (hb : ∀ e sg ds, l.exp = some (e, sg, ds) → digitsOf ds 0 < bound) (neg : Bool) :
    parseNumber (A ++ ([48] ++ (l.fracPart ++ (l.expPart ++ R)))).toArray bound A.length neg =
      ((match g with
        | [] => .zero neg
        | d :: g' => floatResultZ neg zs.length d g' l.expVal),
       A.length + 1 + l.fracPart.length + l.expPart.length) := by
  obtain ⟨_, _, _, hfrac, hexp⟩ := id hw
  obtain ⟨hfne, hfd⟩ := hfrac _ hf
  obtain ⟨hRd, hR101, hR69⟩ := id hR
  have hEh := expPart_head' l hw R hRd
  have hF : l.fracPart = 46 :: (zs ++ g) := by simp [Lit.fracPart, hf]
  have hgd : allDigits g := fun x hx => hfd x (by simp [hx])
  rw [hF]
  have h0 : (A ++ ([48] ++ (46 :: (zs ++ g) ++ (l.expPart ++ R)))).toArray[A.length]? = some 48 := by rw [get_at0]; rfl
  have h1 : (A ++ ([48] ++ (46 :: (zs ++ g) ++ (l.expPart ++ R)))).toArray[A.length + 1]? = some 46 := by rw [get_at]; rfl
  -- the first fraction digit
  have hfirst : isDigitAt (A ++ ([48] ++ (46 :: (zs ++ g) ++ (l.expPart ++ R)))).toArray (A.length + 1 + 1) = true := by
    cases hzg : zs ++ g with
    | nil => exact absurd hzg hfne
    | cons x rest =>
      have hx : isDigit x = true := hfd x (by rw [hzg]; simp)
      apply isDigitAt_of _ _ x _ hx
      rw [show A.length + 1 + 1 = A.length + 2 by omega, get_at]; rfl
  -- the zeros
  have hre : A ++ ([48] ++ (46 :: (zs ++ g) ++ (l.expPart ++ R))) = (A ++ [48, 46]) ++ (zs ++ (g ++ (l.expPart ++ R))) := by simp
  have hlen : (A ++ [48, 46]).length = A.length + 1 + 1 := by simp
  have hgh : (g ++ (l.expPart ++ R)).head? ≠ some 48 := by
    cases g with
    | nil =>
      intro h
      have := hEh 48 (by simpa using h)
      simp [isDigit] at this
    | cons d g' => simpa using hg
  have hsz : (A ++ ([48] ++ (46 :: (zs ++ g) ++ (l.expPart ++ R)))).toArray.size - (A.length + 1 + 1) =
      zs.length + (g.length + (l.expPart.length + R.length)) := by simp; omega
  have hskz := skipZeros_run zs (A ++ [48, 46]) (g ++ (l.expPart ++ R))
    (zs.length + (g.length + (l.expPart.length + R.length))) hzs hgh (by omega)
  rw [← hre, hlen] at hskz
  have hre2 : A ++ ([48] ++ (46 :: (zs ++ g) ++ (l.expPart ++ R))) = (A ++ [48, 46] ++ zs) ++ (g ++ (l.expPart ++ R)) := by simp
  have hlen2 : (A ++ [48, 46] ++ zs).length = A.length + 1 + 1 + zs.length := by simp; omega
  unfold parseNumber
  rw [if_pos h0]
  simp only [h1, hfirst, Bool.not_true, Bool.false_eq_true, if_false, hsz, hskz]
  cases g with
  | nil =>
    -- all fraction digits are zeros: the value is zero, only the syntax of the exponent matters
    simp only [List.append_nil, List.nil_append] at hre2 hlen2 ⊢
    cases he : l.exp with
    | none =>
      have hE : l.expPart = [] := by simp [Lit.expPart, he]
      have hnext : (A ++ ([48] ++ (46 :: zs ++ (l.expPart ++ R)))).toArray[A.length + 1 + 1 + zs.length]? = R.head? := by
        rw [hre2, ← hlen2, get_at0, hE]; rfl
      have hc : ((A ++ ([48] ++ (46 :: zs ++ (l.expPart ++ R)))).toArray[A.length + 1 + 1 + zs.length]? = some 101 ||
          (A ++ ([48] ++ (46 :: zs ++ (l.expPart ++ R)))).toArray[A.length + 1 + 1 + zs.length]? = some 69) = false := by
        rw [hnext]; simp [hR101, hR69]
      have hnd : isDigitAt (A ++ ([48] ++ (46 :: zs ++ (l.expPart ++ R)))).toArray (A.length + 1 + 1 + zs.length) = false := by
        unfold isDigitAt
        rw [hnext]
        cases hh : R.head? with
        | none => rfl
        | some x => exact hRd x hh
      simp only [hc, Bool.false_eq_true, if_false, hnd, Bool.not_false, if_true]
      simp only [hE, List.length_nil, List.length_cons, Nat.add_zero]
      congr 1; omega
    | some t =>
      obtain ⟨e, sg, ds⟩ := t
      obtain ⟨hE, _, _, _⟩ := hexp e sg ds he
      have hnext : (A ++ ([48] ++ (46 :: zs ++ (l.expPart ++ R)))).toArray[A.length + 1 + 1 + zs.length]? = some e := by
        rw [hre2, ← hlen2, get_at0]
        unfold Lit.expPart; rw [he]; cases sg <;> rfl
      have hc : ((A ++ ([48] ++ (46 :: zs ++ (l.expPart ++ R)))).toArray[A.length + 1 + 1 + zs.length]? = some 101 ||
          (A ++ ([48] ++ (46 :: zs ++ (l.expPart ++ R)))).toArray[A.length + 1 + 1 + zs.length]? = some 69) = true := by
        rw [hnext]; rcases hE with rfl | rfl <;> simp
      have hpe := parseExponent_lit l hw e sg ds he (A ++ [48, 46] ++ zs) R hRd bound (hb e sg ds he)
      rw [← hre2, hlen2] at hpe
      simp only [hc, if_true, hpe]
      simp only [List.length_cons]
      congr 1; omega
  | cons d g' =>
    have hd : isDigit d = true := hgd d (by simp)
    have hg'd : allDigits g' := fun x hx => hgd x (by simp [hx])
    have hpd : (A ++ ([48] ++ (46 :: (zs ++ d :: g') ++ (l.expPart ++ R)))).toArray[A.length + 1 + 1 + zs.length]? = some d := by
      rw [hre2, ← hlen2, get_at0]; rfl
    have hnE : ((A ++ ([48] ++ (46 :: (zs ++ d :: g') ++ (l.expPart ++ R)))).toArray[A.length + 1 + 1 + zs.length]? = some 101 ||
        (A ++ ([48] ++ (46 :: (zs ++ d :: g') ++ (l.expPart ++ R)))).toArray[A.length + 1 + 1 + zs.length]? = some 69) = false := by
      rw [hpd]
      have a : d ≠ 101 := by intro h; subst h; simp [isDigit] at hd
      have b : d ≠ 69 := by intro h; subst h; simp [isDigit] at hd
      simp [a, b]
    have hda := isDigitAt_of _ _ d hpd hd
    have hdig : dig (A ++ ([48] ++ (46 :: (zs ++ d :: g') ++ (l.expPart ++ R)))).toArray (A.length + 1 + 1 + zs.length) = d.toNat - 48 := by
      unfold dig; rw [hpd]; rfl
    have hre3 : A ++ ([48] ++ (46 :: (zs ++ d :: g') ++ (l.expPart ++ R))) = (A ++ [48, 46] ++ zs ++ [d]) ++ (g' ++ (l.expPart ++ R)) := by simp
    have hlen3 : (A ++ [48, 46] ++ zs ++ [d]).length = A.length + 1 + 1 + zs.length + 1 := by simp; omega
    simp only [hnE, Bool.false_eq_true, if_false, hda, Bool.not_true, hdig]
    cases g' with
    | nil =>
      -- a single significant digit
      have hnd : isDigitAt (A ++ ([48] ++ (46 :: (zs ++ [d]) ++ (l.expPart ++ R)))).toArray (A.length + 1 + 1 + zs.length + 1) = false := by
        unfold isDigitAt
        rw [hre3, ← hlen3, get_at0]
        cases hh : ([] ++ (l.expPart ++ R)).head? with
        | none => rfl
        | some x => exact hEh x (by simpa using hh)
      simp only [hnd, Bool.false_eq_true, if_false]
      cases he : l.exp with
      | none =>
        have hE : l.expPart = [] := by simp [Lit.expPart, he]
        have hV : l.expVal = 0 := by simp [Lit.expVal, he]
        have hnext : (A ++ ([48] ++ (46 :: (zs ++ [d]) ++ (l.expPart ++ R)))).toArray[A.length + 1 + 1 + zs.length + 1]? = R.head? := by
          rw [hre3, ← hlen3, get_at0, hE]; rfl
        have hc : ((A ++ ([48] ++ (46 :: (zs ++ [d]) ++ (l.expPart ++ R)))).toArray[A.length + 1 + 1 + zs.length + 1]? = some 101 ||
            (A ++ ([48] ++ (46 :: (zs ++ [d]) ++ (l.expPart ++ R)))).toArray[A.length + 1 + 1 + zs.length + 1]? = some 69) = false := by
          rw [hnext]; simp [hR101, hR69]
        simp only [hc, Bool.false_eq_true, if_false]
        simp only [floatResultZ, hE, hV, List.length_nil, List.length_cons, List.length_append, Nat.min_zero, List.take_nil,
          digitsOf, List.foldl_nil, Nat.add_zero, Int.add_zero, Nat.lt_irrefl, decide_false]
        congr 1
        · congr 1; omega
        · omega
      | some t =>
        obtain ⟨e, sg, ds⟩ := t
        obtain ⟨hE, _, _, _⟩ := hexp e sg ds he
        have hnext : (A ++ ([48] ++ (46 :: (zs ++ [d]) ++ (l.expPart ++ R)))).toArray[A.length + 1 + 1 + zs.length + 1]? = some e := by
          rw [hre3, ← hlen3, get_at0]
          unfold Lit.expPart; rw [he]; cases sg <;> rfl
        have hc : ((A ++ ([48] ++ (46 :: (zs ++ [d]) ++ (l.expPart ++ R)))).toArray[A.length + 1 + 1 + zs.length + 1]? = some 101 ||
            (A ++ ([48] ++ (46 :: (zs ++ [d]) ++ (l.expPart ++ R)))).toArray[A.length + 1 + 1 + zs.length + 1]? = some 69) = true := by
          rw [hnext]; rcases hE with rfl | rfl <;> simp
        have hpe := parseExponent_lit l hw e sg ds he (A ++ [48, 46] ++ zs ++ [d]) R hRd bound (hb e sg ds he)
        have hre4 : A ++ [48, 46] ++ zs ++ [d] ++ (l.expPart ++ R) = A ++ ([48] ++ (46 :: (zs ++ [d]) ++ (l.expPart ++ R))) := by simp
        rw [hre4, hlen3] at hpe
        simp only [hc, if_true, hpe]
        simp only [floatResultZ, List.length_nil, List.length_cons, List.length_append, Nat.min_zero, List.take_nil,
          digitsOf, List.foldl_nil, Nat.add_zero, Nat.lt_irrefl, decide_false]
        congr 1
        · congr 1; omega
        · omega
    | cons d2 g'' =>
      have hd2 : isDigit d2 = true := hg'd d2 (by simp)
      have hp2 : (A ++ ([48] ++ (46 :: (zs ++ d :: d2 :: g'') ++ (l.expPart ++ R)))).toArray[A.length + 1 + 1 + zs.length + 1]? = some d2 := by
        rw [hre3, ← hlen3, get_at0]; rfl
      have hda2 := isDigitAt_of _ _ d2 hp2 hd2
      have hpf := parseFraction_lit l hw (d2 :: g'') (A ++ [48, 46] ++ zs ++ [d]) R hg'd hR bound hb
      rw [← hre3, hlen3] at hpf
      simp only [hda2, if_true, hpf]
      simp only [floatResultZ, List.length_cons, List.length_append]
      have h16 : (16 : Int).toNat = 16 := rfl
      rw [h16]
      generalize (min 16 (g''.length + 1)) = t
      congr 1
      · congr 1; omega
      · omega


theorem float_zero_exp (l : Lit) (hw : l.WF) (e : UInt8) (sg : Option UInt8) (ds : List UInt8)
    (he : l.exp = some (e, sg, ds)) (A R : List UInt8) (hR : EndsNum R) (bound : Nat)
    (hb : digitsOf ds 0 < bound) (neg : Bool) :
    parseNumber (A ++ ([48] ++ (l.expPart ++ R))).toArray bound A.length neg =
      (.zero neg, A.length + 1 + l.expPart.length) := by
  obtain ⟨hE, _, _, _⟩ := hw.2.2.2.2 e sg ds he
  have h0 : (A ++ ([48] ++ (l.expPart ++ R))).toArray[A.length]? = some 48 := by rw [get_at0]; rfl
  have h1 : (A ++ ([48] ++ (l.expPart ++ R))).toArray[A.length + 1]? = some e := by
    rw [get_at]
    unfold Lit.expPart; rw [he]; cases sg <;> rfl
  have hpe := parseExponent_lit l hw e sg ds he (A ++ [48]) R hR.1 bound hb
  have hre : A ++ [48] ++ (l.expPart ++ R) = A ++ ([48] ++ (l.expPart ++ R)) := by simp
  have hlen : (A ++ [48]).length = A.length + 1 := by simp
  rw [hre, hlen] at hpe
  unfold parseNumber
  rw [if_pos h0]
  simp only [h1]
  rcases hE with rfl | rfl
  · simp only [hpe]
  · simp only [hpe]

end Sonic
