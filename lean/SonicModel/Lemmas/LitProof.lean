import SonicModel.Spec.Lit
import SonicModel.Spec.RenderTree
import SonicModel.Lemmas.TreeRoundTrip
namespace Sonic
open Spec

/-! ### digit runs inside a buffer built from pieces -/

theorem get_at (A Bs : List UInt8) (k : Nat) : (A ++ Bs).toArray[A.length + k]? = Bs[k]? := by
  simp only [List.getElem?_toArray]
  rw [List.getElem?_append_right (by omega)]
  simp

theorem get_at0 (A Bs : List UInt8) : (A ++ Bs).toArray[A.length]? = Bs.head? := by
  have := get_at A Bs 0
  simpa [List.head?_eq_getElem?] using this

theorem size_at (A Bs : List UInt8) : (A ++ Bs).toArray.size = A.length + Bs.length := by simp

/-- a maximal digit run is skipped entirely -/
theorem skipDigits_run : ∀ (ds A R : List UInt8), allDigits ds →
    (∀ c, R.head? = some c → isDigit c = false) →
    skipDigits (A ++ (ds ++ R)).toArray A.length = A.length + ds.length := by
  intro ds
  induction ds with
  | nil =>
    intro A R _ hR
    simp only [List.nil_append, List.length_nil, Nat.add_zero]
    exact skipDigits_stop _ _ (by intro c hc; rw [get_at0] at hc; exact hR c hc)
  | cons d ds ih =>
    intro A R hds hR
    have hd : isDigit d = true := hds d (by simp)
    have hds' : allDigits ds := fun x hx => hds x (by simp [hx])
    have hlt : A.length < (A ++ (d :: ds ++ R)).toArray.size := by simp
    have hget : (A ++ (d :: ds ++ R)).toArray[A.length] = d := by
      have := get_at0 A (d :: ds ++ R)
      simp only [List.cons_append, List.head?_cons] at this
      have h2 : (A ++ (d :: ds ++ R)).toArray[A.length]? = some (A ++ (d :: ds ++ R)).toArray[A.length] := by
        simp
      simp only [List.cons_append] at h2
      rw [h2] at this
      simpa using this
    rw [skipDigits]
    simp only [hlt, dite_true, hget, hd, ite_true]
    have := ih (A ++ [d]) R hds' hR
    simp only [List.append_assoc, List.singleton_append, List.length_append, List.length_singleton] at this
    simp only [List.cons_append, List.length_cons]
    rw [this]; omega

/-- the value of a digit run read from the buffer is the value of the digit string -/
theorem digitsVal_run : ∀ (ds A R : List UInt8) (acc : Nat),
    digitsVal (A ++ (ds ++ R)).toArray A.length (A.length + ds.length) acc = digitsOf ds acc := by
  intro ds
  induction ds with
  | nil =>
    intro A R acc
    rw [digitsVal]
    simp [digitsOf]
  | cons d ds ih =>
    intro A R acc
    have hlt : A.length < (A ++ (d :: ds ++ R)).toArray.size := by simp
    have hget : (A ++ (d :: ds ++ R)).toArray[A.length] = d := by
      have := get_at0 A (d :: ds ++ R)
      simp only [List.cons_append, List.head?_cons] at this
      have h2 : (A ++ (d :: ds ++ R)).toArray[A.length]? = some (A ++ (d :: ds ++ R)).toArray[A.length] := by
        simp
      simp only [List.cons_append] at h2
      rw [h2] at this
      simpa using this
    rw [digitsVal]
    have hcond : A.length < A.length + (d :: ds).length ∧ A.length < (A ++ (d :: ds ++ R)).toArray.size := by
      constructor
      · simp
      · exact hlt
    simp only [hcond, and_self, dite_true, hget]
    have := ih (A ++ [d]) R (acc * 10 + (d.toNat - 48))
    simp only [List.append_assoc, List.singleton_append, List.length_append, List.length_singleton] at this
    simp only [List.cons_append, List.length_cons, digitsOf, List.foldl_cons]
    rw [show A.length + (ds.length + 1) = A.length + 1 + ds.length by omega, this]
    rfl


/-! ### the three phases of the number grammar on the pieces of a literal -/

theorem isDigitAt_of (buf : Buf) (i : Nat) (d : UInt8) (h : buf[i]? = some d) (hd : isDigit d = true) :
    isDigitAt buf i = true := by
  unfold isDigitAt; rw [h]; exact hd

theorem frac_phase (l : Lit) (hw : l.WF) (A R : List UInt8)
    (hRd : ∀ c, R.head? = some c → isDigit c = false) (hR46 : R.head? ≠ some 46) :
    frac (A ++ (l.fracPart ++ R)).toArray A.length = some (A.length + l.fracPart.length) := by
  unfold Lit.fracPart
  cases hf : l.frac with
  | none =>
    simp only [List.nil_append, List.length_nil, Nat.add_zero]
    unfold frac
    rw [get_at0, if_neg hR46]
  | some f =>
    obtain ⟨hne, hds⟩ := hw.2.2.2.1 f hf
    cases f with
    | nil => exact absurd rfl hne
    | cons d f' =>
      have hd : isDigit d = true := hds d (by simp)
      have hds' : allDigits f' := fun x hx => hds x (by simp [hx])
      simp only
      have h0 : (A ++ (46 :: d :: f' ++ R)).toArray[A.length]? = some 46 := by rw [get_at0]; rfl
      have h1 : (A ++ (46 :: d :: f' ++ R)).toArray[A.length + 1]? = some d := by rw [get_at]; rfl
      have hda := isDigitAt_of _ _ d h1 hd
      have hsk := skipDigits_run f' (A ++ [46, d]) R hds' hRd
      have hre : A ++ [46, d] ++ (f' ++ R) = A ++ (46 :: d :: f' ++ R) := by simp
      rw [hre] at hsk
      have hlen : (A ++ [46, d]).length = A.length + 2 := by simp
      rw [hlen] at hsk
      unfold frac
      rw [if_pos h0, if_pos hda, hsk]
      simp only [List.length_cons]
      congr 1; omega

theorem expo_phase (l : Lit) (hw : l.WF) (A R : List UInt8)
    (hRd : ∀ c, R.head? = some c → isDigit c = false) (hR101 : R.head? ≠ some 101) (hR69 : R.head? ≠ some 69) :
    expo (A ++ (l.expPart ++ R)).toArray A.length = some (A.length + l.expPart.length) := by
  unfold Lit.expPart
  cases he : l.exp with
  | none =>
    simp only [List.nil_append, List.length_nil, Nat.add_zero]
    unfold expo
    rw [get_at0]
    simp [hR101, hR69]
  | some t =>
    obtain ⟨e, sg, ds⟩ := t
    obtain ⟨hE, hS, hne, hds⟩ := hw.2.2.2.2 e sg ds he
    cases ds with
    | nil => exact absurd rfl hne
    | cons d ds' =>
      have hd : isDigit d = true := hds d (by simp)
      have hds' : allDigits ds' := fun x hx => hds x (by simp [hx])
      have hd43 : d ≠ 43 := by intro h; subst h; simp [isDigit] at hd
      have hd45 : d ≠ 45 := by intro h; subst h; simp [isDigit] at hd
      rcases hS with rfl | rfl | rfl
      · simp only
        have h0 : (A ++ (e :: d :: ds' ++ R)).toArray[A.length]? = some e := by rw [get_at0]; rfl
        have h1 : (A ++ (e :: d :: ds' ++ R)).toArray[A.length + 1]? = some d := by rw [get_at]; rfl
        have hda := isDigitAt_of _ _ d h1 hd
        have hsk := skipDigits_run ds' (A ++ [e, d]) R hds' hRd
        have hre : A ++ [e, d] ++ (ds' ++ R) = A ++ (e :: d :: ds' ++ R) := by simp
        rw [hre] at hsk
        have hlen : (A ++ [e, d]).length = A.length + 1 + 1 := by simp
        rw [hlen] at hsk
        have hc0 : ((A ++ (e :: d :: ds' ++ R)).toArray[A.length]? = some 101 ||
            (A ++ (e :: d :: ds' ++ R)).toArray[A.length]? = some 69) = true := by
          rw [h0]; rcases hE with rfl | rfl <;> simp
        have hc1 : ((A ++ (e :: d :: ds' ++ R)).toArray[A.length + 1]? = some 45 ||
            (A ++ (e :: d :: ds' ++ R)).toArray[A.length + 1]? = some 43) = false := by
          rw [h1]; simp [hd45, hd43]
        unfold expo
        rw [if_pos hc0]
        simp only [hc1, Bool.false_eq_true, if_false]
        rw [if_pos hda, hsk]
        simp only [List.length_cons]
        congr 1; omega
      · simp only
        have h0 : (A ++ (e :: 43 :: d :: ds' ++ R)).toArray[A.length]? = some e := by rw [get_at0]; rfl
        have h1 : (A ++ (e :: 43 :: d :: ds' ++ R)).toArray[A.length + 1]? = some 43 := by rw [get_at]; rfl
        have h2 : (A ++ (e :: 43 :: d :: ds' ++ R)).toArray[A.length + 2]? = some d := by rw [get_at]; rfl
        have hda := isDigitAt_of _ _ d h2 hd
        have hsk := skipDigits_run ds' (A ++ [e, 43, d]) R hds' hRd
        have hre : A ++ [e, 43, d] ++ (ds' ++ R) = A ++ (e :: 43 :: d :: ds' ++ R) := by simp
        rw [hre] at hsk
        have hlen : (A ++ [e, 43, d]).length = A.length + 2 + 1 := by simp
        rw [hlen] at hsk
        have hc0 : ((A ++ (e :: 43 :: d :: ds' ++ R)).toArray[A.length]? = some 101 ||
            (A ++ (e :: 43 :: d :: ds' ++ R)).toArray[A.length]? = some 69) = true := by
          rw [h0]; rcases hE with rfl | rfl <;> simp
        have hc1 : ((A ++ (e :: 43 :: d :: ds' ++ R)).toArray[A.length + 1]? = some 45 ||
            (A ++ (e :: 43 :: d :: ds' ++ R)).toArray[A.length + 1]? = some 43) = true := by
          rw [h1]; simp
        unfold expo
        rw [if_pos hc0]
        simp only [hc1, if_true]
        rw [if_pos hda, hsk]
        simp only [List.length_cons]
        congr 1; omega
      · simp only
        have h0 : (A ++ (e :: 45 :: d :: ds' ++ R)).toArray[A.length]? = some e := by rw [get_at0]; rfl
        have h1 : (A ++ (e :: 45 :: d :: ds' ++ R)).toArray[A.length + 1]? = some 45 := by rw [get_at]; rfl
        have h2 : (A ++ (e :: 45 :: d :: ds' ++ R)).toArray[A.length + 2]? = some d := by rw [get_at]; rfl
        have hda := isDigitAt_of _ _ d h2 hd
        have hsk := skipDigits_run ds' (A ++ [e, 45, d]) R hds' hRd
        have hre : A ++ [e, 45, d] ++ (ds' ++ R) = A ++ (e :: 45 :: d :: ds' ++ R) := by simp
        rw [hre] at hsk
        have hlen : (A ++ [e, 45, d]).length = A.length + 2 + 1 := by simp
        rw [hlen] at hsk
        have hc0 : ((A ++ (e :: 45 :: d :: ds' ++ R)).toArray[A.length]? = some 101 ||
            (A ++ (e :: 45 :: d :: ds' ++ R)).toArray[A.length]? = some 69) = true := by
          rw [h0]; rcases hE with rfl | rfl <;> simp
        have hc1 : ((A ++ (e :: 45 :: d :: ds' ++ R)).toArray[A.length + 1]? = some 45 ||
            (A ++ (e :: 45 :: d :: ds' ++ R)).toArray[A.length + 1]? = some 43) = true := by
          rw [h1]; simp
        unfold expo
        rw [if_pos hc0]
        simp only [hc1, if_true]
        rw [if_pos hda, hsk]
        simp only [List.length_cons]
        congr 1; omega


theorem expPart_head (l : Lit) (hw : l.WF) (suf : List UInt8) (hs : isDelim suf.head?) :
    (∀ c, (l.expPart ++ suf).head? = some c → isDigit c = false) ∧ (l.expPart ++ suf).head? ≠ some 46 := by
  have hdf := delim_facts suf.head? hs
  unfold Lit.expPart
  cases he : l.exp with
  | none => simpa using ⟨hdf.1, hdf.2.1⟩
  | some t =>
    obtain ⟨e, sg, ds⟩ := t
    obtain ⟨hE, _, _, _⟩ := hw.2.2.2.2 e sg ds he
    cases sg <;> (rcases hE with rfl | rfl <;> simp [isDigit])

theorem fracPart_head (l : Lit) (hw : l.WF) (suf : List UInt8) (hs : isDelim suf.head?) :
    ∀ c, (l.fracPart ++ (l.expPart ++ suf)).head? = some c → isDigit c = false := by
  unfold Lit.fracPart
  cases hf : l.frac with
  | none => simpa using (expPart_head l hw suf hs).1
  | some f => intro c hc; simp at hc; subst hc; simp [isDigit]

/-- **every well-formed literal is one JSON number wherever it stands before a delimiter** -/
theorem lit_numok (l : Lit) (hw : l.WF) : NumOK l.render := by
  obtain ⟨hne, hI, hzero, _, _⟩ := id hw
  cases hint : l.int with
  | nil => exact absurd hint hne
  | cons c I' =>
    have hc : isDigit c = true := hI c (by simp [hint])
    have hI' : allDigits I' := fun x hx => hI x (by simp [hint, hx])
    have hc45 : c ≠ 45 := by intro h; subst h; simp [isDigit] at hc
    refine ⟨?_, ?_, ?_⟩
    · simp [Lit.render, hint]
    · intro x hx
      unfold Lit.render Lit.signPart at hx
      rw [hint] at hx
      cases hn : l.neg <;> simp [hn] at hx <;> subst hx <;> simp [hc]
    · intro pre suf hs
      have hdf := delim_facts suf.head? hs
      have hEh := expPart_head l hw suf hs
      have hFh := fracPart_head l hw suf hs
      -- the buffer, re-bracketed
      have hL : pre ++ l.render ++ suf = (pre ++ l.signPart) ++ (c :: (I' ++ (l.fracPart ++ (l.expPart ++ suf)))) := by
        simp [Lit.render, hint]
      have hlen : pre.length + l.render.length =
          (pre ++ l.signPart).length + 1 + I'.length + l.fracPart.length + l.expPart.length := by
        simp [Lit.render, hint]; omega
      rw [hL, hlen]
      generalize hA : pre ++ l.signPart = A
      -- the first character
      have hfirst : (if (A ++ (c :: (I' ++ (l.fracPart ++ (l.expPart ++ suf))))).toArray[pre.length]? = some 45
          then pre.length + 1 else pre.length) = A.length := by
        rw [← hA]
        unfold Lit.signPart
        cases hn : l.neg
        · simp only [Bool.false_eq_true, if_false, List.append_nil]
          rw [get_at0]; simp [hc45]
        · simp only [if_true]
          have := get_at0 pre ([45] ++ (c :: (I' ++ (l.fracPart ++ (l.expPart ++ suf)))))
          simp only [List.append_assoc] at this ⊢
          rw [this]; simp
      unfold number
      rw [hfirst]
      have h0 : (A ++ (c :: (I' ++ (l.fracPart ++ (l.expPart ++ suf))))).toArray[A.length]? = some c := by
        rw [get_at0]; rfl
      simp only [h0, hc, if_true]
      -- integer digits
      have hre : A ++ (c :: (I' ++ (l.fracPart ++ (l.expPart ++ suf)))) =
          (A ++ [c]) ++ (I' ++ (l.fracPart ++ (l.expPart ++ suf))) := by simp
      have hsk := skipDigits_run I' (A ++ [c]) (l.fracPart ++ (l.expPart ++ suf)) hI' hFh
      have hlen1 : (A ++ [c]).length = A.length + 1 := by simp
      rw [← hre, hlen1] at hsk
      have hi2 : (if (c == 48) = true then A.length + 1
          else skipDigits (A ++ (c :: (I' ++ (l.fracPart ++ (l.expPart ++ suf))))).toArray (A.length + 1)) =
          A.length + 1 + I'.length := by
        by_cases h48 : c = 48
        · have : l.int.length = 1 := hzero (by simp [hint, h48])
          have : I' = [] := by
            rw [hint] at this; simpa using this
          simp [h48, this]
        · have : (c == 48) = false := by simpa using h48
          rw [this]; simp only [Bool.false_eq_true, if_false]; exact hsk
      unfold afterFirst
      simp only [hi2]
      -- the character after the integer digits is not a digit
      have hre2 : A ++ (c :: (I' ++ (l.fracPart ++ (l.expPart ++ suf)))) =
          (A ++ c :: I') ++ (l.fracPart ++ (l.expPart ++ suf)) := by simp
      have hlen2 : (A ++ c :: I').length = A.length + 1 + I'.length := by simp; omega
      have hnd : isDigitAt (A ++ (c :: (I' ++ (l.fracPart ++ (l.expPart ++ suf))))).toArray (A.length + 1 + I'.length) = false := by
        unfold isDigitAt
        rw [hre2, ← hlen2, get_at0]
        cases hh : (l.fracPart ++ (l.expPart ++ suf)).head? with
        | none => rfl
        | some x => exact hFh x hh
      simp only [hnd, Bool.and_false, Bool.false_eq_true, if_false]
      -- fraction, exponent
      have hfr := frac_phase l hw (A ++ c :: I') (l.expPart ++ suf) hEh.1 hEh.2
      rw [← hre2, hlen2] at hfr
      rw [hfr]
      simp only [Option.bind_some]
      have hre3 : A ++ (c :: (I' ++ (l.fracPart ++ (l.expPart ++ suf)))) =
          (A ++ c :: I' ++ l.fracPart) ++ (l.expPart ++ suf) := by simp
      have hlen3 : (A ++ c :: I' ++ l.fracPart).length = A.length + 1 + I'.length + l.fracPart.length := by
        simp; omega
      have hex := expo_phase l hw (A ++ c :: I' ++ l.fracPart) suf hdf.1 hdf.2.2.1 hdf.2.2.2
      rw [← hre3, hlen3] at hex
      rw [hex]

end Sonic
