import SonicModel.Impl.StrSkip
import SonicModel.Lemmas.StringBits
import Std.Tactic.BVDecide
namespace Sonic
namespace StrSkip
open Simd
open Block (escBit)

/-! ### bit identities of the 32-bit escape mask -/

theorem esc_rec (prev bs : BitVec 32) (hp : prev = 0#32 ∨ prev = 1#32) :
    (getEscaped prev bs).1 = ((bs &&& ~~~(getEscaped prev bs).1) <<< 1) ||| prev := by
  unfold getEscaped EVEN
  rcases hp with rfl | rfl <;> simp only <;> bv_decide

theorem esc_carry (prev bs : BitVec 32) (hp : prev = 0#32 ∨ prev = 1#32) :
    (getEscaped prev bs).2 = (bs &&& ~~~(getEscaped prev bs).1) >>> 31 := by
  unfold getEscaped EVEN
  rcases hp with rfl | rfl <;> simp only <;> bv_decide

theorem carry_bit0 (prev : BitVec 32) (hp : prev = 0#32 ∨ prev = 1#32) (i : Nat) :
    prev.getLsbD i = (decide (i = 0) && decide (prev = 1#32)) := by
  rcases hp with rfl | rfl
  · simp
  · by_cases h : i = 0
    · subst h; simp
    · simp [h, BitVec.getLsbD_one]

/-- **the 32-bit escape mask is the scalar escape relation** -/
theorem escaped_bits (prev bs : BitVec 32) (hp : prev = 0#32 ∨ prev = 1#32) :
    ∀ i, i < 32 → (getEscaped prev bs).1.getLsbD i = escBit (decide (prev = 1#32)) bs.getLsbD i := by
  intro i
  induction i with
  | zero =>
    intro _
    have h := congrArg (fun v => v.getLsbD 0) (esc_rec prev bs hp)
    simp only [BitVec.getLsbD_or, BitVec.getLsbD_shiftLeft] at h
    rw [h, carry_bit0 prev hp 0]
    simp [escBit]
  | succ i ih =>
    intro hi
    have h := congrArg (fun v => v.getLsbD (i + 1)) (esc_rec prev bs hp)
    simp only [BitVec.getLsbD_or, BitVec.getLsbD_shiftLeft, BitVec.getLsbD_and, BitVec.getLsbD_not] at h
    rw [h, carry_bit0 prev hp (i + 1), escBit, ← ih (by omega)]
    have h1 : i < 32 := by omega
    simp [hi, h1]

theorem escaped_carry (prev bs : BitVec 32) (hp : prev = 0#32 ∨ prev = 1#32) :
    ((getEscaped prev bs).2 = 0#32 ∨ (getEscaped prev bs).2 = 1#32) ∧
    decide ((getEscaped prev bs).2 = 1#32) = escBit (decide (prev = 1#32)) bs.getLsbD 32 := by
  have hc := esc_carry prev bs hp
  have hb := escaped_bits prev bs hp 31 (by omega)
  have hbit : ((bs &&& ~~~(getEscaped prev bs).1) >>> 31) =
      if (bs.getLsbD 31 && !(getEscaped prev bs).1.getLsbD 31) then 1#32 else 0#32 := by
    generalize (getEscaped prev bs).1 = E
    cases h1 : bs.getLsbD 31 <;> cases h2 : E.getLsbD 31 <;> simp <;> bv_decide
  rw [hc, hbit]
  rw [show escBit (decide (prev = 1#32)) bs.getLsbD 32 = (bs.getLsbD 31 && !escBit (decide (prev = 1#32)) bs.getLsbD 31) from rfl, ← hb]
  cases (bs.getLsbD 31 && !(getEscaped prev bs).1.getLsbD 31) <;> simp

/-! ### facts about `x - 1` used by the short cut "no backslash before the first quote" -/

theorem low_step (x y : BitVec 32) (h0 : x.getLsbD 0 = false) (h : (x - 1#32) &&& y = 0#32) :
    y.getLsbD 0 = false ∧ ((x >>> 1) - 1#32) &&& (y >>> 1) = 0#32 := by
  constructor <;> bv_decide

theorem low_step_ne (x y : BitVec 32) (h0 : x.getLsbD 0 = false) (hy : y.getLsbD 0 = false)
    (h : (x - 1#32) &&& y ≠ 0#32) : ((x >>> 1) - 1#32) &&& (y >>> 1) ≠ 0#32 := by
  bv_decide

theorem low_odd (x y : BitVec 32) (h0 : x.getLsbD 0 = true) (hd : x &&& y = 0#32) : (x - 1#32) &&& y = 0#32 := by
  bv_decide

theorem shift_ne (x : BitVec 32) (h0 : x.getLsbD 0 = false) (h : x ≠ 0#32) : x >>> 1 ≠ 0#32 := by
  bv_decide

theorem lsb_ne (x : BitVec 32) (h0 : x.getLsbD 0 = true) : x ≠ 0#32 := by
  bv_decide

end StrSkip
end Sonic
