import SonicModel.Impl.Escape
import SonicModel.Spec.Render
namespace Sonic
open Gen Impl

/-- `QUOTE_TAB` / `NEED_ESCAPED` against the specification, all 256 rows (re-checked against the
    regenerated tables on every run) -/
theorem quoteTab_spec : ∀ b : UInt8,
    needEsc b = Spec.needsEscape b ∧
    (b ≤ 0x1f || b == 92 || b == 34) = Spec.needsEscape b ∧
    (Spec.needsEscape b = true → quoteRow b = Spec.escByte b ∧ quoteLen b = (Spec.escByte b).length ∧
        1 ≤ quoteLen b ∧ quoteLen b ≤ 6) ∧
    (Spec.needsEscape b = false → Spec.escByte b = [b]) := by
  apply Sonic.UInt8.forall_of_fin
  decide +kernel
end Sonic
