import SonicModel.Impl.Str
namespace Sonic
open Gen Impl
theorem d2v_row3 : ∀ b : UInt8, d2v b.toNat = if isHex b then hexVal b else 0xFFFFFFFF := by
  apply Sonic.UInt8.forall_of_fin; decide +kernel
theorem hexVal_lt : ∀ b : UInt8, hexVal b < 16 := by
  apply Sonic.UInt8.forall_of_fin; decide +kernel
end Sonic
