namespace Sonic
theorem or_nibbles : ∀ x y z w : Fin 16,
    (x.val * 4096 ||| y.val * 256 ||| z.val * 16 ||| w.val) = x.val * 4096 + y.val * 256 + z.val * 16 + w.val := by
  decide +kernel
end Sonic
