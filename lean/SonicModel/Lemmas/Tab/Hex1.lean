import SonicModel.Impl.Str
namespace Sonic
open Gen Impl
theorem d2v_row1 : ∀ b : UInt8, d2v (hexOff1 + b.toNat) = if isHex b then hexVal b * 256 else 0xFFFFFFFF := by
  apply Sonic.UInt8.forall_of_fin; decide +kernel
end Sonic
