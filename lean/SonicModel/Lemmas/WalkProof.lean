import SonicModel.Lemmas.ManyProof
namespace Sonic
namespace Many
open Spec

/-! ### the walker of `get_many` refines the single-path lookup (duplicate-free documents) -/

mutual
/-- no object of the document has two members with the same key -/
def DupFree : Json → Prop
  | .arr xs => DupFreeL xs
  | .obj ms => (ms.map Prod.fst).Nodup ∧ DupFreeM ms
  | _ => True
def DupFreeL : List Json → Prop
  | [] => True
  | x :: r => DupFree x ∧ DupFreeL r
def DupFreeM : List (List UInt8 × Json) → Prop
  | [] => True
  | (_, x) :: r => DupFree x ∧ DupFreeM r
end

def Inv (st : WSt) : Prop := st.2 = unfilled st.1

/-- the sub-trie `t` reached by the prefix `q` holds exactly the slots of the paths that extend `q` -/
def Holds (paths : List (List Step)) (t : Trie) (q : List Step) : Prop :=
  ∀ r j, j ∈ orderAt t r ↔ paths[j]? = some (q ++ r)

def InSub (paths : List (List Step)) (q : List Step) (j : Nat) : Prop := ∃ r, paths[j]? = some (q ++ r)

theorem holds_child (paths : List (List Step)) (o : List Nat) (kids : List (Step × Trie)) (q : List Step)
    (h : Holds paths (.node o kids) q) (s : Step) (c : Trie) (hc : findKid s kids = some c) :
    Holds paths c (q ++ [s]) := by
  intro r j
  have := h (s :: r) j
  rw [orderAt_cons, hc] at this
  simpa [List.append_assoc] using this

theorem holds_nochild (paths : List (List Step)) (o : List Nat) (kids : List (Step × Trie)) (q : List Step)
    (h : Holds paths (.node o kids) q) (s : Step) (hc : findKid s kids = none) (j : Nat) (r : List Step) :
    paths[j]? ≠ some (q ++ s :: r) := by
  intro hp
  have := (h (s :: r) j).mpr hp
  rw [orderAt_cons, hc] at this
  simp at this

theorem unfilled_zero {α} : ∀ (out : List (Option α)), unfilled out = 0 → ∀ j : Nat, out[j]? ≠ some none := by
  intro out
  induction out with
  | nil => intro _ j; simp
  | cons a l ih =>
    intro h j
    cases a with
    | none => simp [unfilled, List.filter_cons] at h
    | some x =>
      have hl : unfilled l = 0 := by simpa [unfilled, List.filter_cons] using h
      cases j with
      | zero => simp
      | succ j => simpa using ih hl j

theorem fillSlots_len {α} (v : α) (order : List Nat) : ∀ (out : List (Option α)) (remain : Nat),
    (fillSlots v order (out, remain)).1.length = out.length := by
  induction order with
  | nil => intro out remain; simp [fillSlots]
  | cons p rest ih =>
    intro out remain
    simp only [fillSlots]
    split
    · rw [ih]; simp
    · exact ih out remain

/-- what `fillSlots` leaves in a slot -/
theorem fillSlots_get {α} (v : α) (order : List Nat) : ∀ (out : List (Option α)) (remain p : Nat),
    (p ∈ order → out[p]? = some none → (fillSlots v order (out, remain)).1[p]? = some (some v)) ∧
    ((p ∉ order ∨ out[p]? ≠ some none) → (fillSlots v order (out, remain)).1[p]? = out[p]?) := by
  induction order with
  | nil => intro out remain p; simp [fillSlots]
  | cons p0 rest ih =>
    intro out remain p
    simp only [fillSlots]
    split
    · rename_i hp0
      have hlt : p0 < out.length := by
        cases hh : out[p0]? with
        | none => rw [hh] at hp0; cases hp0
        | some _ => exact (List.getElem?_eq_some_iff.mp hh).1
      obtain ⟨ih1, ih2⟩ := ih (out.set p0 (some v)) (remain - 1) p
      by_cases hpp : p = p0
      · subst hpp
        have hset : (out.set p (some v))[p]? = some (some v) := List.getElem?_set_self hlt
        constructor
        · intro _ _
          rw [ih2 (Or.inr (by rw [hset]; simp)), hset]
        · intro h
          rcases h with h | h
          · exact absurd (List.mem_cons_self) h
          · exact absurd hp0 h
      · have hne : p0 ≠ p := fun e => hpp e.symm
        have hset : (out.set p0 (some v))[p]? = out[p]? := List.getElem?_set_ne hne
        constructor
        · intro hm hn
          have hm' : p ∈ rest := by
            simp only [List.mem_cons] at hm; rcases hm with h | h; exact absurd h hpp; exact h
          exact ih1 hm' (by rw [hset]; exact hn)
        · intro h
          rw [← hset]
          apply ih2
          rcases h with h | h
          · left; intro hm; exact h (List.mem_cons_of_mem _ hm)
          · right; rw [hset]; exact h
    · rename_i hp0
      obtain ⟨ih1, ih2⟩ := ih out remain p
      by_cases hpp : p = p0
      · subst hpp
        constructor
        · intro _ hn; exact absurd hn hp0
        · intro _; exact ih2 (Or.inr hp0)
      · constructor
        · intro hm hn
          have hm' : p ∈ rest := by
            simp only [List.mem_cons] at hm; rcases hm with h | h; exact absurd h hpp; exact h
          exact ih1 hm' hn
        · intro h
          apply ih2
          rcases h with h | h
          · left; intro hm; exact h (List.mem_cons_of_mem _ hm)
          · right; exact h


/-- the state after a visit: counter still exact, no slot added, the slots of the paths through the
    visited node hold what the single lookup finds there, all other slots untouched -/
def Post (paths : List (List Step)) (q : List Step) (look : List Step → Option Json) (st st' : WSt) : Prop :=
  Inv st' ∧ st'.1.length = st.1.length ∧
  (∀ (j : Nat) r, paths[j]? = some (q ++ r) → st'.1[j]? = some (look r)) ∧
  (∀ j : Nat, ¬ InSub paths q j → st'.1[j]? = st.1[j]?)

theorem not_insub_of_ne (paths : List (List Step)) (q : List Step) (s s' : Step) (r : List Step) (j : Nat)
    (hp : paths[j]? = some (q ++ s' :: r)) (hne : s' ≠ s) : ¬ InSub paths (q ++ [s]) j := by
  rintro ⟨r', hr'⟩
  rw [hp] at hr'
  have := Option.some.inj hr'
  rw [List.append_assoc] at this
  have := List.append_cancel_left this
  simp only [List.singleton_append, List.cons.injEq] at this
  exact hne this.1

theorem lookupJ_none_of_not_mem (k : List UInt8) : ∀ (ms : List (List UInt8 × Json)), k ∉ ms.map Prod.fst → lookupJ k ms = none := by
  intro ms
  induction ms with
  | nil => intro _; rfl
  | cons m rest ih =>
    intro h
    obtain ⟨k', x⟩ := m
    simp only [List.map_cons, List.mem_cons, not_or] at h
    have hne : ¬ (k' = k) := fun e => h.1 e.symm
    simp only [lookupJ, hne, if_false]
    exact ih h.2


/-- statement for the elements of an array from absolute index `i` on -/
def ElemsOk (paths : List (List Step)) (xs : List Json) : Prop :=
  ∀ (kids : List (Step × Trie)) (o : List Nat) (q : List Step) (i vis : Nat) (st st' : WSt) (vis' : Nat),
    Holds paths (.node o kids) q → Inv st →
    (∀ (j m : Nat) r, i ≤ m → m < i + xs.length → paths[j]? = some (q ++ .idx m :: r) → st.1[j]? = some none) →
    walkElems kids xs i vis st = some (st', vis') →
    Inv st' ∧ st'.1.length = st.1.length ∧
    (∀ (j m : Nat) r, i ≤ m → m < i + xs.length → paths[j]? = some (q ++ .idx m :: r) →
      st'.1[j]? = some ((xs[m - i]?).bind fun x => lookJ x r)) ∧
    (∀ j : Nat, (¬ ∃ (m : Nat) (r : List Step), i ≤ m ∧ m < i + xs.length ∧ paths[j]? = some (q ++ .idx m :: r)) →
      st'.1[j]? = st.1[j]?)

/-- statement for the members of an object -/
def MembersOk (paths : List (List Step)) (ms : List (List UInt8 × Json)) : Prop :=
  ∀ (kids : List (Step × Trie)) (o : List Nat) (q : List Step) (st st' : WSt),
    Holds paths (.node o kids) q → Inv st → (ms.map Prod.fst).Nodup →
    (∀ (j : Nat) k r, k ∈ ms.map Prod.fst → paths[j]? = some (q ++ .key k :: r) → st.1[j]? = some none) →
    walkMembers kids ms st = some st' →
    Inv st' ∧ st'.1.length = st.1.length ∧
    (∀ (j : Nat) k r, k ∈ ms.map Prod.fst → paths[j]? = some (q ++ .key k :: r) →
      st'.1[j]? = some ((lookupJ k ms).bind fun x => lookJ x r)) ∧
    (∀ j : Nat, (¬ ∃ (k : List UInt8) (r : List Step), k ∈ ms.map Prod.fst ∧ paths[j]? = some (q ++ .key k :: r)) →
      st'.1[j]? = st.1[j]?)

/-- statement for one value -/
def WalkOk (paths : List (List Step)) (v : Json) : Prop :=
  ∀ (t : Trie) (q : List Step) (st st' : WSt), Holds paths t q → Inv st →
    (∀ j : Nat, InSub paths q j → st.1[j]? = some none) →
    walk t v st = some st' → Post paths q (lookJ v) st st'


/-- statement for the `match &node.children` part of one visit -/
def KidsOk (paths : List (List Step)) (v : Json) : Prop :=
  ∀ (kids : List (Step × Trie)) (o : List Nat) (q : List Step) (st st1 : WSt),
    Holds paths (.node o kids) q → Inv st →
    (∀ j : Nat, InSub paths q j → st.1[j]? = some none) →
    walkKids kids v st = some st1 →
    Inv st1 ∧ st1.1.length = st.1.length ∧
    (∀ (j : Nat) s r, paths[j]? = some (q ++ s :: r) → st1.1[j]? = some (lookJ v (s :: r))) ∧
    (∀ j : Nat, (¬ ∃ (s : Step) (r : List Step), paths[j]? = some (q ++ s :: r)) → st1.1[j]? = st.1[j]?)

theorem orderAt_nil (o : List Nat) (kids : List (Step × Trie)) : orderAt (.node o kids) [] = o := by
  simp [orderAt, Trie.at, Trie.order]

/-- one visit: early return, children, then the node's own slots -/
theorem walk_of_kids (paths : List (List Step)) (v : Json) (hK : KidsOk paths v) : WalkOk paths v := by
  intro t q st st' hH hInv hPre hw
  obtain ⟨o, kids⟩ := t
  rw [walk] at hw
  by_cases h0 : st.2 = 0
  · rw [if_pos h0] at hw
    have hst : st' = st := (Option.some.inj hw).symm
    subst hst
    refine ⟨hInv, rfl, ?_, fun _ _ => rfl⟩
    intro j r hp
    have hnone := hPre j ⟨r, hp⟩
    have hz : unfilled st'.1 = 0 := by rw [← hInv]; exact h0
    exact absurd hnone (unfilled_zero st'.1 hz j)
  · rw [if_neg h0] at hw
    simp only [Trie.kids, Trie.order] at hw
    cases hk : walkKids kids v st with
    | none => rw [hk] at hw; simp at hw
    | some st1 =>
      rw [hk] at hw
      simp only [Option.map_some, Option.some.injEq] at hw
      obtain ⟨hI1, hL1, hIn1, hOut1⟩ := hK kids o q st st1 hH hInv hPre hk
      obtain ⟨out1, rem1⟩ := st1
      subst hw
      have hOrd : ∀ j : Nat, j ∈ o ↔ paths[j]? = some q := by
        intro j
        have := hH [] j
        rw [orderAt_nil] at this
        simpa using this
      refine ⟨fillSlots_remain v o out1 rem1 hI1, ?_, ?_, ?_⟩
      · rw [fillSlots_len]; exact hL1
      · intro j r hp
        cases r with
        | nil =>
          have hjo : j ∈ o := (hOrd j).mpr (by simpa using hp)
          have hnot : ¬ ∃ (s : Step) (r : List Step), paths[j]? = some (q ++ s :: r) := by
            rintro ⟨s, r, hsr⟩
            rw [hp] at hsr
            have := congrArg List.length (Option.some.inj hsr)
            simp at this
          have h1 : out1[j]? = some none := by
            have := hOut1 j hnot
            simp only at this
            rw [this]; exact hPre j ⟨[], hp⟩
          rw [(fillSlots_get v o out1 rem1 j).1 hjo h1]
          simp [lookJ]
        | cons s r =>
          have hjo : j ∉ o := by
            intro hj
            have := (hOrd j).mp hj
            rw [hp] at this
            have := congrArg List.length (Option.some.inj this)
            simp at this
          rw [(fillSlots_get v o out1 rem1 j).2 (Or.inl hjo)]
          exact hIn1 j s r hp
      · intro j hns
        have hjo : j ∉ o := by
          intro hj
          exact hns ⟨[], by simpa using (hOrd j).mp hj⟩
        rw [(fillSlots_get v o out1 rem1 j).2 (Or.inl hjo)]
        apply hOut1
        rintro ⟨s, r, hsr⟩
        exact hns ⟨s :: r, hsr⟩


theorem elems_nil (paths : List (List Step)) : ElemsOk paths [] := by
  intro kids o q i vis st st' vis' _ hInv _ hw
  simp only [walkElems, Option.some.injEq, Prod.mk.injEq] at hw
  obtain ⟨rfl, _⟩ := hw
  refine ⟨hInv, rfl, ?_, fun _ _ => rfl⟩
  intro j m r h1 h2; simp at h2; omega

theorem elems_cons (paths : List (List Step)) (x : Json) (rest : List Json)
    (hx : WalkOk paths x) (hrest : ElemsOk paths rest) : ElemsOk paths (x :: rest) := by
  intro kids o q i vis st st' vis' hH hInv hPre hw
  rw [walkElems] at hw
  have hlen : (x :: rest).length = rest.length + 1 := rfl
  cases hk : findKid (.idx i) kids with
  | none =>
    rw [hk] at hw
    simp only at hw
    have hPre' : ∀ (j m : Nat) r, i + 1 ≤ m → m < i + 1 + rest.length → paths[j]? = some (q ++ .idx m :: r) → st.1[j]? = some none :=
      fun j m r h1 h2 hp => hPre j m r (by omega) (by rw [hlen]; omega) hp
    obtain ⟨hI, hL, hIn, hOut⟩ := hrest kids o q (i + 1) vis st st' vis' hH hInv hPre' hw
    refine ⟨hI, hL, ?_, ?_⟩
    · intro j m r h1 h2 hp
      by_cases hm : m = i
      · subst hm; exact absurd hp (holds_nochild paths o kids q hH (.idx m) hk j r)
      · have := hIn j m r (by omega) (by rw [hlen] at h2; omega) hp
        rw [this]
        have e : m - i = (m - (i + 1)) + 1 := by omega
        rw [e, List.getElem?_cons_succ]
    · intro j hn
      apply hOut
      rintro ⟨m, r, h1, h2, hp⟩
      exact hn ⟨m, r, by omega, by rw [hlen]; omega, hp⟩
  | some c =>
    rw [hk] at hw
    simp only at hw
    cases hwx : walk c x st with
    | none => rw [hwx] at hw; simp at hw
    | some st1 =>
      rw [hwx] at hw
      simp only at hw
      have hHc := holds_child paths o kids q hH (.idx i) c hk
      have hPrec : ∀ j : Nat, InSub paths (q ++ [.idx i]) j → st.1[j]? = some none := by
        rintro j ⟨r, hp⟩
        exact hPre j i r (Nat.le_refl _) (by rw [hlen]; omega) (by simpa [List.append_assoc] using hp)
      obtain ⟨hI1, hL1, hIn1, hOut1⟩ := hx c (q ++ [.idx i]) st st1 hHc hInv hPrec hwx
      -- a slot of another element is outside the visited child
      have hother : ∀ (j m : Nat) r, m ≠ i → paths[j]? = some (q ++ .idx m :: r) → st1.1[j]? = st.1[j]? := by
        intro j m r hne hp
        apply hOut1
        exact not_insub_of_ne paths q (.idx i) (.idx m) r j hp (by intro e; injection e with e; exact hne e)
      by_cases h0 : st1.2 = 0
      · rw [if_pos h0] at hw
        simp only [Option.some.injEq, Prod.mk.injEq] at hw
        obtain ⟨rfl, _⟩ := hw
        refine ⟨hI1, hL1, ?_, ?_⟩
        · intro j m r h1 h2 hp
          by_cases hm : m = i
          · subst hm
            have := hIn1 j r (by simpa [List.append_assoc] using hp)
            rw [this]; simp
          · -- every slot is filled: there is no further unfilled slot
            have hnone : st1.1[j]? = some none := by
              rw [hother j m r hm hp]; exact hPre j m r h1 h2 hp
            have hz : unfilled st1.1 = 0 := by rw [← hI1]; exact h0
            exact absurd hnone (unfilled_zero st1.1 hz j)
        · intro j hn
          apply hOut1
          rintro ⟨r, hp⟩
          exact hn ⟨i, r, Nat.le_refl _, by rw [hlen]; omega, by simpa [List.append_assoc] using hp⟩
      · rw [if_neg h0] at hw
        have hPre' : ∀ (j m : Nat) r, i + 1 ≤ m → m < i + 1 + rest.length → paths[j]? = some (q ++ .idx m :: r) → st1.1[j]? = some none := by
          intro j m r h1 h2 hp
          rw [hother j m r (by omega) hp]
          exact hPre j m r (by omega) (by rw [hlen]; omega) hp
        obtain ⟨hI, hL, hIn, hOut⟩ := hrest kids o q (i + 1) (vis + 1) st1 st' vis' hH hI1 hPre' hw
        refine ⟨hI, by rw [hL, hL1], ?_, ?_⟩
        · intro j m r h1 h2 hp
          by_cases hm : m = i
          · subst hm
            have hout : st'.1[j]? = st1.1[j]? := by
              apply hOut
              rintro ⟨m', r', h1', _, hp'⟩
              rw [hp] at hp'
              have := List.append_cancel_left (Option.some.inj hp')
              simp only [List.cons.injEq, Step.idx.injEq] at this
              omega
            rw [hout, hIn1 j r (by simpa [List.append_assoc] using hp)]
            simp
          · have := hIn j m r (by omega) (by rw [hlen] at h2; omega) hp
            rw [this]
            have e : m - i = (m - (i + 1)) + 1 := by omega
            rw [e, List.getElem?_cons_succ]
        · intro j hn
          have h1 : st'.1[j]? = st1.1[j]? := by
            apply hOut
            rintro ⟨m, r, h1, h2, hp⟩
            exact hn ⟨m, r, by omega, by rw [hlen]; omega, hp⟩
          rw [h1]
          apply hOut1
          rintro ⟨r, hp⟩
          exact hn ⟨i, r, Nat.le_refl _, by rw [hlen]; omega, by simpa [List.append_assoc] using hp⟩


theorem members_nil (paths : List (List Step)) : MembersOk paths [] := by
  intro kids o q st st' _ hInv _ _ hw
  simp only [walkMembers, Option.some.injEq] at hw
  subst hw
  refine ⟨hInv, rfl, ?_, fun _ _ => rfl⟩
  intro j k r hk; simp at hk

theorem members_cons (paths : List (List Step)) (k : List UInt8) (x : Json) (rest : List (List UInt8 × Json))
    (hx : WalkOk paths x) (hrest : MembersOk paths rest) : MembersOk paths ((k, x) :: rest) := by
  intro kids o q st st' hH hInv hnd hPre hw
  rw [walkMembers] at hw
  simp only [List.map_cons, List.nodup_cons] at hnd
  obtain ⟨hknot, hndr⟩ := hnd
  have hlook_k : ∀ r : List Step, ((lookupJ k ((k, x) :: rest)).bind fun y => lookJ y r) = lookJ x r := by
    intro r; simp [lookupJ]
  have hlook_other : ∀ (k' : List UInt8) (r : List Step), k' ≠ k →
      ((lookupJ k' ((k, x) :: rest)).bind fun y => lookJ y r) = ((lookupJ k' rest).bind fun y => lookJ y r) := by
    intro k' r hne
    have : ¬ (k = k') := fun e => hne e.symm
    simp [lookupJ, this]
  cases hk : findKid (.key k) kids with
  | none =>
    rw [hk] at hw
    simp only at hw
    have hPre' : ∀ (j : Nat) k' r, k' ∈ rest.map Prod.fst → paths[j]? = some (q ++ .key k' :: r) → st.1[j]? = some none :=
      fun j k' r hm hp => hPre j k' r (by simp [hm]) hp
    obtain ⟨hI, hL, hIn, hOut⟩ := hrest kids o q st st' hH hInv hndr hPre' hw
    refine ⟨hI, hL, ?_, ?_⟩
    · intro j k' r hm hp
      by_cases hkk : k' = k
      · subst hkk; exact absurd hp (holds_nochild paths o kids q hH (.key k') hk j r)
      · have hm' : k' ∈ rest.map Prod.fst := by
          simp only [List.map_cons, List.mem_cons] at hm
          rcases hm with h | h; exact absurd h hkk; exact h
        rw [hIn j k' r hm' hp, hlook_other k' r hkk]
    · intro j hn
      apply hOut
      rintro ⟨k', r, hm, hp⟩
      exact hn ⟨k', r, by simp [hm], hp⟩
  | some c =>
    rw [hk] at hw
    simp only at hw
    cases hwx : walk c x st with
    | none => rw [hwx] at hw; simp at hw
    | some st1 =>
      rw [hwx] at hw
      simp only at hw
      have hHc := holds_child paths o kids q hH (.key k) c hk
      have hPrec : ∀ j : Nat, InSub paths (q ++ [.key k]) j → st.1[j]? = some none := by
        rintro j ⟨r, hp⟩
        exact hPre j k r (by simp) (by simpa [List.append_assoc] using hp)
      obtain ⟨hI1, hL1, hIn1, hOut1⟩ := hx c (q ++ [.key k]) st st1 hHc hInv hPrec hwx
      have hother : ∀ (j : Nat) k' r, k' ≠ k → paths[j]? = some (q ++ .key k' :: r) → st1.1[j]? = st.1[j]? := by
        intro j k' r hne hp
        apply hOut1
        exact not_insub_of_ne paths q (.key k) (.key k') r j hp (by intro e; injection e with e; exact hne e)
      by_cases h0 : st1.2 = 0
      · rw [if_pos h0] at hw
        simp only [Option.some.injEq] at hw
        subst hw
        refine ⟨hI1, hL1, ?_, ?_⟩
        · intro j k' r hm hp
          by_cases hkk : k' = k
          · subst hkk
            rw [hIn1 j r (by simpa [List.append_assoc] using hp), hlook_k]
          · have hnone : st1.1[j]? = some none := by
              rw [hother j k' r hkk hp]; exact hPre j k' r hm hp
            have hz : unfilled st1.1 = 0 := by rw [← hI1]; exact h0
            exact absurd hnone (unfilled_zero st1.1 hz j)
        · intro j hn
          apply hOut1
          rintro ⟨r, hp⟩
          exact hn ⟨k, r, by simp, by simpa [List.append_assoc] using hp⟩
      · rw [if_neg h0] at hw
        have hPre' : ∀ (j : Nat) k' r, k' ∈ rest.map Prod.fst → paths[j]? = some (q ++ .key k' :: r) → st1.1[j]? = some none := by
          intro j k' r hm hp
          have hne : k' ≠ k := fun e => hknot (e ▸ hm)
          rw [hother j k' r hne hp]
          exact hPre j k' r (by simp [hm]) hp
        obtain ⟨hI, hL, hIn, hOut⟩ := hrest kids o q st1 st' hH hI1 hndr hPre' hw
        refine ⟨hI, by rw [hL, hL1], ?_, ?_⟩
        · intro j k' r hm hp
          by_cases hkk : k' = k
          · subst hkk
            have hout : st'.1[j]? = st1.1[j]? := by
              apply hOut
              rintro ⟨k2, r2, hm2, hp2⟩
              rw [hp] at hp2
              have := List.append_cancel_left (Option.some.inj hp2)
              simp only [List.cons.injEq, Step.key.injEq] at this
              exact hknot (this.1 ▸ hm2)
            rw [hout, hIn1 j r (by simpa [List.append_assoc] using hp), hlook_k]
          · have hm' : k' ∈ rest.map Prod.fst := by
              simp only [List.map_cons, List.mem_cons] at hm
              rcases hm with h | h; exact absurd h hkk; exact h
            rw [hIn j k' r hm' hp, hlook_other k' r hkk]
        · intro j hn
          have h1 : st'.1[j]? = st1.1[j]? := by
            apply hOut
            rintro ⟨k', r, hm, hp⟩
            exact hn ⟨k', r, by simp [hm], hp⟩
          rw [h1]
          apply hOut1
          rintro ⟨r, hp⟩
          exact hn ⟨k, r, by simp, by simpa [List.append_assoc] using hp⟩


theorem kindOf_empty (kids : List (Step × Trie)) : kindOf kids = .empty ↔ kids = [] := by
  cases kids with
  | nil => simp [kindOf]
  | cons a r => obtain ⟨s, c⟩ := a; cases s <;> simp [kindOf]

/-- a node without children: nothing below it is asked for -/
theorem kids_none (paths : List (List Step)) (o : List Nat) (q : List Step) (st : WSt) (look : List Step → Option Json)
    (hH : Holds paths (.node o []) q) :
    Inv st → Inv st ∧ st.1.length = st.1.length ∧
    (∀ (j : Nat) s r, paths[j]? = some (q ++ s :: r) → st.1[j]? = some (look (s :: r))) ∧
    (∀ j : Nat, (¬ ∃ (s : Step) (r : List Step), paths[j]? = some (q ++ s :: r)) → st.1[j]? = st.1[j]?) := by
  intro hInv
  refine ⟨hInv, rfl, ?_, fun _ _ => rfl⟩
  intro j s r hp
  exact absurd hp (holds_nochild paths o [] q hH s (by simp [findKid]) j r)

theorem kids_scalar (paths : List (List Step)) (v : Json)
    (hv : ∀ kids st, walkKids kids v st = match kindOf kids with | .empty => some st | _ => none) :
    KidsOk paths v := by
  intro kids o q st st1 hH hInv _ hw
  rw [hv] at hw
  cases hk : kindOf kids with
  | empty =>
    rw [hk] at hw
    simp only [Option.some.injEq] at hw
    subst hw
    have hnil := (kindOf_empty kids).mp hk
    subst hnil
    exact kids_none paths o q st (lookJ v) hH hInv
  | index => rw [hk] at hw; simp at hw
  | key => rw [hk] at hw; simp at hw

theorem kids_arr (paths : List (List Step)) (x : Json) (xs : List Json) (hE : ElemsOk paths (x :: xs)) :
    KidsOk paths (.arr (x :: xs)) := by
  intro kids o q st st1 hH hInv hPre hw
  rw [walkKids] at hw
  cases hk : kindOf kids with
  | empty =>
    rw [hk] at hw
    simp only [Option.some.injEq] at hw
    subst hw
    have hnil := (kindOf_empty kids).mp hk
    subst hnil
    exact kids_none paths o q st (lookJ (.arr (x :: xs))) hH hInv
  | key => rw [hk] at hw; simp at hw
  | index =>
    rw [hk] at hw
    simp only at hw
    cases hwe : walkElems kids (x :: xs) 0 0 st with
    | none => rw [hwe] at hw; simp at hw
    | some r =>
      obtain ⟨st2, vis2⟩ := r
      rw [hwe] at hw
      simp only [Option.bind_some] at hw
      have hst : st1 = st2 := by
        by_cases hc : vis2 < kids.length
        · rw [if_pos hc] at hw; cases hw
        · rw [if_neg hc] at hw; exact (Option.some.inj hw).symm
      subst hst
      have hPre' : ∀ (j m : Nat) r, 0 ≤ m → m < 0 + (x :: xs).length → paths[j]? = some (q ++ .idx m :: r) → st.1[j]? = some none :=
        fun j m r _ _ hp => hPre j ⟨.idx m :: r, hp⟩
      obtain ⟨hI, hL, hIn, hOut⟩ := hE kids o q 0 0 st st1 vis2 hH hInv hPre' hwe
      refine ⟨hI, hL, ?_, ?_⟩
      · intro j s r hp
        cases s with
        | idx m =>
          by_cases hm : m < (x :: xs).length
          · have := hIn j m r (Nat.zero_le _) (by omega) hp
            rw [this]; simp [lookJ]
          · have hout : st1.1[j]? = st.1[j]? := by
              apply hOut
              rintro ⟨m', r', _, h2, hp'⟩
              rw [hp] at hp'
              have := List.append_cancel_left (Option.some.inj hp')
              simp only [List.cons.injEq, Step.idx.injEq] at this
              omega
            rw [hout, hPre j ⟨.idx m :: r, hp⟩]
            have : (x :: xs)[m]? = none := List.getElem?_eq_none (by omega)
            simp [lookJ, this]
        | key k =>
          have hout : st1.1[j]? = st.1[j]? := by
            apply hOut
            rintro ⟨m', r', _, _, hp'⟩
            rw [hp] at hp'
            have := List.append_cancel_left (Option.some.inj hp')
            simp at this
          rw [hout, hPre j ⟨.key k :: r, hp⟩]
          simp [lookJ]
      · intro j hn
        apply hOut
        rintro ⟨m, r, _, _, hp⟩
        exact hn ⟨.idx m, r, hp⟩

theorem kids_obj (paths : List (List Step)) (m : List UInt8 × Json) (ms : List (List UInt8 × Json))
    (hnd : ((m :: ms).map Prod.fst).Nodup) (hM : MembersOk paths (m :: ms)) : KidsOk paths (.obj (m :: ms)) := by
  intro kids o q st st1 hH hInv hPre hw
  rw [walkKids] at hw
  cases hk : kindOf kids with
  | empty =>
    rw [hk] at hw
    simp only [Option.some.injEq] at hw
    subst hw
    have hnil := (kindOf_empty kids).mp hk
    subst hnil
    exact kids_none paths o q st (lookJ (.obj (m :: ms))) hH hInv
  | index => rw [hk] at hw; simp at hw
  | key =>
    rw [hk] at hw
    simp only at hw
    have hPre' : ∀ (j : Nat) k r, k ∈ (m :: ms).map Prod.fst → paths[j]? = some (q ++ .key k :: r) → st.1[j]? = some none :=
      fun j k r _ hp => hPre j ⟨.key k :: r, hp⟩
    obtain ⟨hI, hL, hIn, hOut⟩ := hM kids o q st st1 hH hInv hnd hPre' hw
    refine ⟨hI, hL, ?_, ?_⟩
    · intro j s r hp
      cases s with
      | key k =>
        by_cases hm : k ∈ (m :: ms).map Prod.fst
        · rw [hIn j k r hm hp]; simp [lookJ]
        · have hout : st1.1[j]? = st.1[j]? := by
            apply hOut
            rintro ⟨k', r', hm', hp'⟩
            rw [hp] at hp'
            have := List.append_cancel_left (Option.some.inj hp')
            simp only [List.cons.injEq, Step.key.injEq] at this
            exact hm (this.1 ▸ hm')
          rw [hout, hPre j ⟨.key k :: r, hp⟩]
          simp [lookJ, lookupJ_none_of_not_mem k (m :: ms) hm]
      | idx n =>
        have hout : st1.1[j]? = st.1[j]? := by
          apply hOut
          rintro ⟨k', r', _, hp'⟩
          rw [hp] at hp'
          have := List.append_cancel_left (Option.some.inj hp')
          simp at this
        rw [hout, hPre j ⟨.idx n :: r, hp⟩]
        simp [lookJ]
    · intro j hn
      apply hOut
      rintro ⟨k, r, _, hp⟩
      exact hn ⟨.key k, r, hp⟩


mutual
theorem walk_ok (paths : List (List Step)) : ∀ v : Json, DupFree v → WalkOk paths v
  | .null, _ => walk_of_kids paths _ (kids_scalar paths _ (by intro kids st; rw [walkKids] <;> (first | rfl | (intro _ _ h; cases h))))
  | .bool _, _ => walk_of_kids paths _ (kids_scalar paths _ (by intro kids st; rw [walkKids] <;> (first | rfl | (intro _ _ h; cases h))))
  | .num _ _, _ => walk_of_kids paths _ (kids_scalar paths _ (by intro kids st; rw [walkKids] <;> (first | rfl | (intro _ _ h; cases h))))
  | .str _, _ => walk_of_kids paths _ (kids_scalar paths _ (by intro kids st; rw [walkKids] <;> (first | rfl | (intro _ _ h; cases h))))
  | .arr [], _ => walk_of_kids paths _ (kids_scalar paths _ (by intro kids st; rw [walkKids] <;> (first | rfl | (intro _ _ h; cases h))))
  | .obj [], _ => walk_of_kids paths _ (kids_scalar paths _ (by intro kids st; rw [walkKids] <;> (first | rfl | (intro _ _ h; cases h))))
  | .arr (x :: xs), h => walk_of_kids paths _ (kids_arr paths x xs (elems_ok paths (x :: xs) h))
  | .obj (m :: ms), h => walk_of_kids paths _ (kids_obj paths m ms h.1 (members_ok paths (m :: ms) h.2))
theorem elems_ok (paths : List (List Step)) : ∀ xs : List Json, DupFreeL xs → ElemsOk paths xs
  | [], _ => elems_nil paths
  | x :: r, h => elems_cons paths x r (walk_ok paths x h.1) (elems_ok paths r h.2)
theorem members_ok (paths : List (List Step)) : ∀ ms : List (List UInt8 × Json), DupFreeM ms → MembersOk paths ms
  | [], _ => members_nil paths
  | (k, x) :: r, h => members_cons paths k x r (walk_ok paths x h.1) (members_ok paths r h.2)
end

/-- **`get_many` refines the single-path lookup**: on a duplicate-free document, whenever the walker
    succeeds, slot `j` holds exactly what looking the `j`-th path up by itself finds (`none` = the path
    does not resolve: a missing key) — for every set of paths: shared prefixes, a prefix that is itself a
    target, repeated paths, the root path, keys and indexes -/
theorem getMany_refines_lookup (paths : List (List Step)) (doc : Json) (hdf : DupFree doc)
    (out : List (Option Json)) (h : getMany paths doc = some out) :
    out.length = paths.length ∧ ∀ j : Nat, j < paths.length → out[j]? = some (lookJ doc (paths[j]?.getD [])) := by
  unfold getMany at h
  cases hw : walk (build paths) doc (List.replicate paths.length none, paths.length) with
  | none => rw [hw] at h; simp at h
  | some st' =>
    rw [hw] at h
    simp only [Option.map_some, Option.some.injEq] at h
    have hH : Holds paths (build paths) [] := by
      intro r j; simpa using build_slots paths r j
    have hInv : Inv (List.replicate paths.length (none : Option Json), paths.length) := by
      unfold Inv unfilled
      simp
    have hPre : ∀ j : Nat, InSub paths [] j → (List.replicate paths.length (none : Option Json), paths.length).1[j]? = some none := by
      rintro j ⟨r, hp⟩
      have hlt : j < paths.length := by
        cases hh : paths[j]? with
        | none => rw [hh] at hp; cases hp
        | some _ => exact (List.getElem?_eq_some_iff.mp hh).1
      simp [hlt]
    obtain ⟨_, hL, hIn, _⟩ := walk_ok paths doc hdf (build paths) [] _ st' hH hInv hPre hw
    subst h
    refine ⟨by simpa using hL, ?_⟩
    intro j hj
    have hp : paths[j]? = some ([] ++ paths[j]) := by simp [hj]
    rw [hIn j paths[j] hp]
    simp [hj]

end Many
end Sonic
