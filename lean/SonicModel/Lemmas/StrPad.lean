import SonicModel.Lemmas.SpecFuel
import SonicModel.Lemmas.SpecBound
/-
  A string literal and the bytes behind the text: what the specification reads at `i` in `buf1 ++ suf` and in `buf1` alone.
  A literal that is closed inside `buf1` is read the same in both (`stringS_extend`, `stringS_prefix`), whatever `suf` is —
  the look-ahead for a low surrogate never decides differently, because a literal that continues with `\u` must bring its
  four hex digits along.  This is what lets the theorems about the PADDED copy of a text speak about the text.
-/
namespace Sonic
namespace StrPad
open Spec

theorem get_pre (buf1 suf : Buf) (k : Nat) (h : k < buf1.size) : (buf1 ++ suf)[k]? = buf1[k]? :=
  Array.getElem?_append_left h

theorem hex4ok_pre (buf1 suf : Buf) (i : Nat) (h : i + 3 < buf1.size) : hex4ok (buf1 ++ suf) i = hex4ok buf1 i := by
  unfold hex4ok
  rw [get_pre buf1 suf i (by omega), get_pre buf1 suf (i + 1) (by omega), get_pre buf1 suf (i + 2) (by omega), get_pre buf1 suf (i + 3) h]

theorem hex4val_pre (buf1 suf : Buf) (i : Nat) (h : i + 3 < buf1.size) : hex4val (buf1 ++ suf) i = hex4val buf1 i := by
  unfold hex4val
  rw [get_pre buf1 suf i (by omega), get_pre buf1 suf (i + 1) (by omega), get_pre buf1 suf (i + 2) (by omega), get_pre buf1 suf (i + 3) h]

theorem hex4ok_in (buf : Buf) (i : Nat) (h : hex4ok buf i = true) : i + 3 < buf.size := by
  unfold hex4ok at h
  split at h
  · rename_i h3
    have := (Array.getElem?_eq_some_iff.mp h3).1
    omega
  · simp at h

/-- what a literal that continues with a backslash at `j` must bring along -/
theorem bs_cont (l : Bool) (buf : Buf) (j : Nat) (r : List UInt8 × Nat) (h : stringS l buf j = some r) (hb : buf[j]? = some 92) :
    j + 1 < buf.size ∧ j + 2 < r.2 ∧ (buf[j + 1]? = some 117 → hex4ok buf (j + 2) = true) := by
  have hj : j < buf.size := (Array.getElem?_eq_some_iff.mp hb).1
  have hbj : buf[j] = 92 := (Array.getElem?_eq_some_iff.mp hb).2
  rw [stringS] at h
  simp only [hj, dite_true, hbj] at h
  have e1 : ((92 : UInt8) == 34) = false := by decide
  simp only [e1, Bool.false_eq_true, if_false, beq_self_eq_true, if_true] at h
  cases hb1 : buf[j + 1]? with
  | none => rw [hb1] at h; simp at h
  | some c =>
    have hj1 : j + 1 < buf.size := (Array.getElem?_eq_some_iff.mp hb1).1
    rw [hb1] at h
    simp only at h
    by_cases hs : isSimpleEsc c = true
    · simp only [hs, if_true] at h
      obtain ⟨p, hp, hr⟩ := Option.map_eq_some_iff.mp h
      have := (stringS_progress l buf (j + 2) p hp).1
      refine ⟨hj1, by subst hr; simp; omega, ?_⟩
      intro hc
      have : c = 117 := by simpa using hc
      subst this
      simp [isSimpleEsc] at hs
    · simp only [hs, Bool.false_eq_true, if_false] at h
      by_cases hu : (c == 117) = true
      · simp only [hu, if_true] at h
        cases hue : uEscape l buf (j + 2) with
        | none => rw [hue] at h; simp at h
        | some q =>
          obtain ⟨cp, k⟩ := q
          rw [hue] at h
          simp only at h
          by_cases hk : j + 2 < k
          · simp only [hk, dite_true] at h
            obtain ⟨p, hp, hr⟩ := Option.map_eq_some_iff.mp h
            have := (stringS_progress l buf k p hp).1
            refine ⟨hj1, by subst hr; simp; omega, ?_⟩
            intro _
            unfold uEscape at hue
            cases hx : hex4ok buf (j + 2) with
            | true => rfl
            | false => simp [hx] at hue
          · simp [hk] at h
      · simp [hu] at h

/-- the `\\u` escape (or pair) read in `buf1 ++ suf` is read the same in `buf1`, when it ends inside `buf1` and a backslash
    directly behind it brings its escape character along -/
theorem uEscape_prefix (l : Bool) (buf1 suf : Buf) (h cp j : Nat) (hu : uEscape l (buf1 ++ suf) h = some (cp, j))
    (hj : j < buf1.size) (hbs : (buf1 ++ suf)[j]? = some 92 → j + 1 < buf1.size) : uEscape l buf1 h = some (cp, j) := by
  unfold uEscape at hu ⊢
  cases hx : hex4ok (buf1 ++ suf) h with
  | false => simp [hx] at hu
  | true =>
    simp only [hx, Bool.not_true, Bool.false_eq_true, if_false] at hu
    -- every outcome ends at `h + 4` or `h + 10`
    have hj4 : h + 4 ≤ j := by
      revert hu
      repeat' split
      all_goals (intro hu; first | (simp only [Option.some.injEq, Prod.mk.injEq] at hu; omega) | (cases hu))
    have h3 : h + 3 < buf1.size := by omega
    rw [hex4ok_pre buf1 suf h h3] at hx
    rw [hex4val_pre buf1 suf h h3] at hu
    simp only [hx, Bool.not_true, Bool.false_eq_true, if_false]
    by_cases hhi : (0xD800 ≤ hex4val buf1 h && hex4val buf1 h < 0xDC00) = true
    · simp only [hhi, if_true] at hu ⊢
      by_cases hpair : ((buf1 ++ suf)[h + 4]? = some 92 && (buf1 ++ suf)[h + 5]? = some 117 && hex4ok (buf1 ++ suf) (h + 6)
          && 0xDC00 ≤ hex4val (buf1 ++ suf) (h + 6) && hex4val (buf1 ++ suf) (h + 6) < 0xE000) = true
      · simp only [hpair, if_true, Option.some.injEq, Prod.mk.injEq] at hu
        have hj10 : j = h + 10 := hu.2.symm
        have h9 : h + 6 + 3 < buf1.size := by omega
        rw [get_pre buf1 suf (h + 4) (by omega), get_pre buf1 suf (h + 5) (by omega), hex4ok_pre buf1 suf (h + 6) h9,
          hex4val_pre buf1 suf (h + 6) h9] at hpair
        rw [hex4val_pre buf1 suf (h + 6) h9] at hu
        simp only [hpair, if_true, Option.some.injEq, Prod.mk.injEq]
        exact hu
      · simp only [hpair, Bool.false_eq_true, if_false] at hu
        cases l with
        | false => simp at hu
        | true =>
          simp only [if_true, Option.some.injEq, Prod.mk.injEq] at hu
          have hj' : j = h + 4 := hu.2.symm
          -- the same conjunction is false in `buf1`
          have hpair1 : (buf1[h + 4]? = some 92 && buf1[h + 5]? = some 117 && hex4ok buf1 (h + 6)
              && 0xDC00 ≤ hex4val buf1 (h + 6) && hex4val buf1 (h + 6) < 0xE000) = false := by
            rw [get_pre buf1 suf (h + 4) (by omega)] at hpair
            by_cases h92 : buf1[h + 4]? = some 92
            · have h5 : h + 5 < buf1.size := by
                have := hbs (by rw [hj', get_pre buf1 suf (h + 4) (by omega)]; exact h92); omega
              rw [get_pre buf1 suf (h + 5) h5] at hpair
              by_cases h9 : h + 6 + 3 < buf1.size
              · rw [hex4ok_pre buf1 suf (h + 6) h9, hex4val_pre buf1 suf (h + 6) h9] at hpair
                simpa using hpair
              · have : hex4ok buf1 (h + 6) = false := by
                  cases hx6 : hex4ok buf1 (h + 6) with
                  | false => rfl
                  | true => have := hex4ok_in buf1 (h + 6) hx6; omega
                simp [this]
            · simp [h92]
          simp only [hpair1, Bool.false_eq_true, if_false, if_true, Option.some.injEq, Prod.mk.injEq]
          exact hu
    · simp only [hhi, Bool.false_eq_true, if_false] at hu ⊢
      exact hu

/-- … and the other way round: what is read in `buf1` is read in `buf1 ++ suf`, when the escape ends inside `buf1` and a
    `\u` directly behind it brings its four hex digits along -/
theorem uEscape_extend (l : Bool) (buf1 suf : Buf) (h cp j : Nat) (hu : uEscape l buf1 h = some (cp, j))
    (hj : j < buf1.size) (hbs : buf1[j]? = some 92 → j + 1 < buf1.size ∧ (buf1[j + 1]? = some 117 → hex4ok buf1 (j + 2) = true)) :
    uEscape l (buf1 ++ suf) h = some (cp, j) := by
  unfold uEscape at hu ⊢
  cases hx : hex4ok buf1 h with
  | false => simp [hx] at hu
  | true =>
    simp only [hx, Bool.not_true, Bool.false_eq_true, if_false] at hu
    have h3 : h + 3 < buf1.size := hex4ok_in buf1 h hx
    rw [hex4ok_pre buf1 suf h h3, hex4val_pre buf1 suf h h3]
    simp only [hx, Bool.not_true, Bool.false_eq_true, if_false]
    by_cases hhi : (0xD800 ≤ hex4val buf1 h && hex4val buf1 h < 0xDC00) = true
    · simp only [hhi, if_true] at hu ⊢
      by_cases hpair : (buf1[h + 4]? = some 92 && buf1[h + 5]? = some 117 && hex4ok buf1 (h + 6)
          && 0xDC00 ≤ hex4val buf1 (h + 6) && hex4val buf1 (h + 6) < 0xE000) = true
      · simp only [hpair, if_true, Option.some.injEq, Prod.mk.injEq] at hu
        have hx6 : hex4ok buf1 (h + 6) = true := by
          simp only [Bool.and_eq_true] at hpair; exact hpair.1.1.2
        have h9 : h + 6 + 3 < buf1.size := hex4ok_in buf1 (h + 6) hx6
        rw [get_pre buf1 suf (h + 4) (by omega), get_pre buf1 suf (h + 5) (by omega), hex4ok_pre buf1 suf (h + 6) h9,
          hex4val_pre buf1 suf (h + 6) h9]
        simp only [hpair, if_true, Option.some.injEq, Prod.mk.injEq]
        exact hu
      · simp only [hpair, Bool.false_eq_true, if_false] at hu
        cases l with
        | false => simp at hu
        | true =>
          simp only [if_true, Option.some.injEq, Prod.mk.injEq] at hu
          have hj' : j = h + 4 := hu.2.symm
          have hpair2 : ((buf1 ++ suf)[h + 4]? = some 92 && (buf1 ++ suf)[h + 5]? = some 117 && hex4ok (buf1 ++ suf) (h + 6)
              && 0xDC00 ≤ hex4val (buf1 ++ suf) (h + 6) && hex4val (buf1 ++ suf) (h + 6) < 0xE000) = false := by
            rw [get_pre buf1 suf (h + 4) (by omega)]
            by_cases h92 : buf1[h + 4]? = some 92
            · obtain ⟨h5, hcont⟩ := hbs (by rw [hj']; exact h92)
              rw [get_pre buf1 suf (h + 5) (by omega)]
              by_cases h117 : buf1[h + 5]? = some 117
              · have hx6 : hex4ok buf1 (h + 6) = true := by
                  have := hcont (by rw [hj']; exact h117)
                  rw [hj'] at this; exact this
                have h9 : h + 6 + 3 < buf1.size := hex4ok_in buf1 (h + 6) hx6
                rw [hex4ok_pre buf1 suf (h + 6) h9, hex4val_pre buf1 suf (h + 6) h9]
                simpa using hpair
              · simp [h117]
            · simp [h92]
          simp only [hpair2, Bool.false_eq_true, if_false, if_true, Option.some.injEq, Prod.mk.injEq]
          exact hu
    · simp only [hhi, Bool.false_eq_true, if_false] at hu ⊢
      exact hu

/-- **a literal closed inside `buf1` is read the same when bytes follow `buf1`** -/
theorem stringS_extend (l : Bool) (buf1 suf : Buf) : ∀ (n i : Nat) (r : List UInt8 × Nat), buf1.size - i = n →
    stringS l buf1 i = some r → stringS l (buf1 ++ suf) i = some r := by
  intro n
  induction n using Nat.strongRecOn with
  | _ n ih =>
    intro i r hn h
    have hi : i < buf1.size := (stringS_progress l buf1 i r h).2
    have hi2 : i < (buf1 ++ suf).size := by simp; omega
    have hget : (buf1 ++ suf)[i] = buf1[i] := by
      have := get_pre buf1 suf i hi
      rw [getElem?_pos (buf1 ++ suf) i hi2, getElem?_pos buf1 i hi] at this
      exact Option.some.inj this
    rw [stringS] at h ⊢
    simp only [hi, hi2, dite_true, hget] at h ⊢
    by_cases hq : (buf1[i] == 34) = true
    · simp only [hq, if_true] at h ⊢; exact h
    · simp only [hq, Bool.false_eq_true, if_false] at h ⊢
      by_cases hb : (buf1[i] == 92) = true
      · simp only [hb, if_true] at h ⊢
        cases hb1 : buf1[i + 1]? with
        | none => rw [hb1] at h; simp at h
        | some c =>
          have hi1 : i + 1 < buf1.size := (Array.getElem?_eq_some_iff.mp hb1).1
          rw [get_pre buf1 suf (i + 1) hi1, hb1]
          rw [hb1] at h
          simp only at h ⊢
          by_cases hs : isSimpleEsc c = true
          · simp only [hs, if_true] at h ⊢
            obtain ⟨p, hp, hr⟩ := Option.map_eq_some_iff.mp h
            rw [ih (buf1.size - (i + 2)) (by omega) (i + 2) p rfl hp]
            simp only [Option.map_some]; rw [hr]
          · simp only [hs, Bool.false_eq_true, if_false] at h ⊢
            by_cases hu : (c == 117) = true
            · simp only [hu, if_true] at h ⊢
              cases hue : uEscape l buf1 (i + 2) with
              | none => rw [hue] at h; simp at h
              | some q =>
                obtain ⟨cp, k⟩ := q
                rw [hue] at h
                simp only at h
                by_cases hk : i + 2 < k
                · simp only [hk, dite_true] at h
                  obtain ⟨p, hp, hr⟩ := Option.map_eq_some_iff.mp h
                  have hkl : k < buf1.size := (stringS_progress l buf1 k p hp).2
                  have hue2 := uEscape_extend l buf1 suf (i + 2) cp k hue hkl (fun h92 => by
                    obtain ⟨a, _, c'⟩ := bs_cont l buf1 k p hp h92
                    exact ⟨a, c'⟩)
                  rw [hue2]
                  simp only [hk, dite_true]
                  rw [ih (buf1.size - k) (by omega) k p rfl hp]
                  simp only [Option.map_some]; rw [hr]
                · simp [hk] at h
            · simp [hu] at h
      · simp only [hb, Bool.false_eq_true, if_false] at h ⊢
        by_cases hc : buf1[i] < 32
        · simp [hc] at h
        · simp only [hc, if_false] at h ⊢
          obtain ⟨p, hp, hr⟩ := Option.map_eq_some_iff.mp h
          rw [ih (buf1.size - (i + 1)) (by omega) (i + 1) p rfl hp]
          simp only [Option.map_some]; rw [hr]

/-- **a literal of `buf1 ++ suf` that ends inside `buf1` is a literal of `buf1`, with the same decoding** -/
theorem stringS_prefix (l : Bool) (buf1 suf : Buf) : ∀ (n i : Nat) (r : List UInt8 × Nat), buf1.size - i = n →
    stringS l (buf1 ++ suf) i = some r → r.2 ≤ buf1.size → stringS l buf1 i = some r := by
  intro n
  induction n using Nat.strongRecOn with
  | _ n ih =>
    intro i r hn h hle
    have hie : i < r.2 := (stringS_progress l (buf1 ++ suf) i r h).1
    have hi : i < buf1.size := by omega
    have hi2 : i < (buf1 ++ suf).size := by simp; omega
    have hget : (buf1 ++ suf)[i] = buf1[i] := by
      have := get_pre buf1 suf i hi
      rw [getElem?_pos (buf1 ++ suf) i hi2, getElem?_pos buf1 i hi] at this
      exact Option.some.inj this
    rw [stringS] at h ⊢
    simp only [hi, hi2, dite_true, hget] at h ⊢
    by_cases hq : (buf1[i] == 34) = true
    · simp only [hq, if_true] at h ⊢; exact h
    · simp only [hq, Bool.false_eq_true, if_false] at h ⊢
      by_cases hb : (buf1[i] == 92) = true
      · simp only [hb, if_true] at h ⊢
        cases hb1 : (buf1 ++ suf)[i + 1]? with
        | none => rw [hb1] at h; simp at h
        | some c =>
          rw [hb1] at h
          simp only at h
          by_cases hs : isSimpleEsc c = true
          · simp only [hs, if_true] at h
            obtain ⟨p, hp, hr⟩ := Option.map_eq_some_iff.mp h
            have hpe := (stringS_progress l (buf1 ++ suf) (i + 2) p hp).1
            have hr2 : r.2 = p.2 := by rw [← hr]
            have hi1 : i + 1 < buf1.size := by omega
            rw [get_pre buf1 suf (i + 1) hi1] at hb1
            rw [hb1]
            simp only [hs, if_true]
            rw [ih (buf1.size - (i + 2)) (by omega) (i + 2) p rfl hp (by omega)]
            simp only [Option.map_some]; rw [hr]
          · simp only [hs, Bool.false_eq_true, if_false] at h
            by_cases hu : (c == 117) = true
            · simp only [hu, if_true] at h
              cases hue : uEscape l (buf1 ++ suf) (i + 2) with
              | none => rw [hue] at h; simp at h
              | some q =>
                obtain ⟨cp, k⟩ := q
                rw [hue] at h
                simp only at h
                by_cases hk : i + 2 < k
                · simp only [hk, dite_true] at h
                  obtain ⟨p, hp, hr⟩ := Option.map_eq_some_iff.mp h
                  have hpe := (stringS_progress l (buf1 ++ suf) k p hp).1
                  have hr2 : r.2 = p.2 := by rw [← hr]
                  have hkl : k < buf1.size := by omega
                  have hi1 : i + 1 < buf1.size := by omega
                  rw [get_pre buf1 suf (i + 1) hi1] at hb1
                  rw [hb1]
                  simp only [hs, Bool.false_eq_true, if_false, hu, if_true]
                  have hue1 := uEscape_prefix l buf1 suf (i + 2) cp k hue hkl (fun h92 => by
                    have := (bs_cont l (buf1 ++ suf) k p hp h92).2.1
                    omega)
                  rw [hue1]
                  simp only [hk, dite_true]
                  rw [ih (buf1.size - k) (by omega) k p rfl hp (by omega)]
                  simp only [Option.map_some]; rw [hr]
                · simp [hk] at h
            · simp [hu] at h
      · simp only [hb, Bool.false_eq_true, if_false] at h ⊢
        by_cases hc : buf1[i] < 32
        · simp [hc] at h
        · simp only [hc, if_false] at h ⊢
          obtain ⟨p, hp, hr⟩ := Option.map_eq_some_iff.mp h
          have hr2 : r.2 = p.2 := by rw [← hr]
          rw [ih (buf1.size - (i + 1)) (by omega) (i + 1) p rfl hp (by omega)]
          simp only [Option.map_some]; rw [hr]

end StrPad
end Sonic
