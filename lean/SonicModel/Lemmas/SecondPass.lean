import SonicModel.Lemmas.TreeRoundTrip
namespace Sonic
namespace Spec

mutual
/-- the tree to be written for a parsed tree (numbers by the bytes of their span) -/
def Json.toRJ (buf : Buf) : Json → RJ
  | .null => .null
  | .bool b => .bool b
  | .num s e => .num (buf.extract s e).toList
  | .str s => .str s
  | .arr xs => .arr (Json.toRJL buf xs)
  | .obj ms => .obj (Json.toRJM buf ms)
def Json.toRJL (buf : Buf) : List Json → List RJ
  | [] => []
  | x :: r => Json.toRJ buf x :: Json.toRJL buf r
def Json.toRJM (buf : Buf) : List (List UInt8 × Json) → List (List UInt8 × RJ)
  | [] => []
  | (k, x) :: r => (k, Json.toRJ buf x) :: Json.toRJM buf r
end

theorem extract_at (L : List UInt8) (p : Nat) (X : List UInt8) (h : At L p X) :
    (L.toArray.extract p (p + X.length)).toList = X := by
  obtain ⟨pre, suf, rfl, rfl⟩ := h
  simp [List.extract_eq_drop_take, List.drop_append, List.take_append]

mutual
theorem toRJ_jsonAt : ∀ (t : RJ) (L : List UInt8) (p : Nat), At L p t.render → Json.toRJ L.toArray (t.jsonAt p) = t
  | .null, _, _, _ => by simp [RJ.jsonAt, Json.toRJ]
  | .bool b, _, _, _ => by simp [RJ.jsonAt, Json.toRJ]
  | .num lit, L, p, h => by
    simp only [RJ.jsonAt, Json.toRJ]
    rw [extract_at L p lit (by simpa [RJ.render] using h)]
  | .str s, _, _, _ => by simp [RJ.jsonAt, Json.toRJ]
  | .arr [], _, _, _ => by simp [RJ.jsonAt, Json.toRJ, Json.toRJL]
  | .arr (x :: xs), L, p, h => by
    simp only [RJ.render] at h
    have hE := at_tail L p 91 _ h
    have h1 := toRJ_jsonAt x L (p + 1) (at_left L _ _ _ hE)
    have h2 := toRJL_rest xs L (p + 1 + x.render.length) (at_right L _ _ _ hE)
    simp only [RJ.jsonAt, Json.toRJ, Json.toRJL, h1, h2]
  | .obj [], _, _, _ => by simp [RJ.jsonAt, Json.toRJ, Json.toRJM]
  | .obj ((k, x) :: ms), L, p, h => by
    simp only [RJ.render] at h
    have hE := at_tail L p 123 _ h                              -- quoted k ++ 58 :: (x.render ++ rest)
    have hR := at_right L _ _ _ hE                               -- 58 :: ...
    have hX := at_tail L _ 58 _ hR                               -- x.render ++ rest
    have h1 := toRJ_jsonAt x L (p + 1 + (quoted k).length + 1) (at_left L _ _ _ hX)
    have h2 := toRJM_rest ms L (p + 1 + (quoted k).length + 1 + x.render.length) (at_right L _ _ _ hX)
    simp only [RJ.jsonAt, Json.toRJ, Json.toRJM, h1, h2]
theorem toRJL_rest : ∀ (xs : List RJ) (L : List UInt8) (p : Nat), At L p (RJ.renderRest xs) →
    Json.toRJL L.toArray (RJ.jsonRestAt xs p) = xs
  | [], _, _, _ => by simp [RJ.jsonRestAt, Json.toRJL]
  | y :: r, L, p, h => by
    simp only [RJ.renderRest] at h
    have hY := at_tail L p 44 _ h
    have h1 := toRJ_jsonAt y L (p + 1) (at_left L _ _ _ hY)
    have h2 := toRJL_rest r L (p + 1 + y.render.length) (at_right L _ _ _ hY)
    simp only [RJ.jsonRestAt, Json.toRJL, h1, h2]
theorem toRJM_rest : ∀ (ms : List (List UInt8 × RJ)) (L : List UInt8) (p : Nat), At L p (RJ.renderRestM ms) →
    Json.toRJM L.toArray (RJ.jsonRestMAt ms p) = ms
  | [], _, _, _ => by simp [RJ.jsonRestMAt, Json.toRJM]
  | (k, y) :: r, L, p, h => by
    simp only [RJ.renderRestM] at h
    have hK := at_tail L p 44 _ h
    have hR := at_right L _ _ _ hK
    have hX := at_tail L _ 58 _ hR
    have h1 := toRJ_jsonAt y L (p + 1 + (quoted k).length + 1) (at_left L _ _ _ hX)
    have h2 := toRJM_rest r L (p + 1 + (quoted k).length + 1 + y.render.length) (at_right L _ _ _ hX)
    simp only [RJ.jsonRestMAt, Json.toRJM, h1, h2]
end

/-- **the second pass is byte-identical**: writing what the specification reads back from a
    rendering gives the same bytes -/
theorem second_pass (t : RJ) (h : t.WF) :
    (docTree false t.render.toArray).map (fun j => (Json.toRJ t.render.toArray j).render) = some t.render := by
  rw [doc_roundtrip t h]
  simp only [Option.map_some]
  rw [toRJ_jsonAt t t.render 0 ⟨[], [], by simp, rfl⟩]

end Spec
end Sonic
