import SonicModel.Spec.Sort
namespace Sonic
namespace Spec

theorem insertStable_perm {α} (p : List UInt8 × α) (l : List (List UInt8 × α)) : (insertStable p l).Perm (p :: l) := by
  induction l with
  | nil => exact List.Perm.refl _
  | cons q r ih =>
    unfold insertStable
    split
    · exact List.Perm.refl _
    · exact (List.Perm.cons q ih).trans (List.Perm.swap p q r)

theorem sortStable_perm {α} (l : List (List UInt8 × α)) : (sortStable l).Perm l := by
  induction l with
  | nil => exact List.Perm.refl _
  | cons p r ih =>
    simp only [sortStable, List.foldr_cons]
    exact (insertStable_perm p _).trans (List.Perm.cons p ih)

/-- ascending: no later member has a smaller key -/
def Ascending {α} (l : List (List UInt8 × α)) : Prop := l.Pairwise (fun a b => a.1 ≤ b.1)

theorem insertStable_mem {α} (p x : List UInt8 × α) (l : List (List UInt8 × α)) (h : x ∈ insertStable p l) : x = p ∨ x ∈ l := by
  have := (insertStable_perm p l).mem_iff.mp h
  simpa using this

theorem insertStable_asc {α} (p : List UInt8 × α) (l : List (List UInt8 × α)) (h : Ascending l) : Ascending (insertStable p l) := by
  induction l with
  | nil => simp [insertStable, Ascending]
  | cons q r ih =>
    unfold insertStable
    have hq := List.pairwise_cons.mp h
    split
    · rename_i hle
      apply List.pairwise_cons.mpr
      refine ⟨?_, h⟩
      intro x hx
      rcases List.mem_cons.mp hx with rfl | hx
      · exact hle
      · exact List.le_trans hle (hq.1 x hx)
    · rename_i hnle
      apply List.pairwise_cons.mpr
      refine ⟨?_, ih hq.2⟩
      intro x hx
      rcases insertStable_mem p x r hx with rfl | hx
      · exact List.le_of_lt (List.not_le.mp hnle)
      · exact hq.1 x hx

theorem sortStable_asc {α} (l : List (List UInt8 × α)) : Ascending (sortStable l) := by
  induction l with
  | nil => simp [sortStable, Ascending]
  | cons p r ih =>
    simp only [sortStable, List.foldr_cons]
    exact insertStable_asc p _ ih

/-- stability: members with the same key keep their source order -/
theorem insertStable_filter {α} (p : List UInt8 × α) (l : List (List UInt8 × α)) (k : List UInt8) :
    (insertStable p l).filter (fun x => x.1 = k) = (p :: l).filter (fun x => x.1 = k) := by
  induction l with
  | nil => rfl
  | cons q r ih =>
    unfold insertStable
    split
    · rfl
    · rename_i hnle
      have hne : p.1 ≠ q.1 := by
        intro e; apply hnle; rw [e]; exact List.le_refl _
      by_cases hp : p.1 = k
      · have hq : ¬ q.1 = k := fun e => hne (hp.trans e.symm)
        simp [List.filter_cons, hp, hq] at ih ⊢
        exact ih
      · simp [List.filter_cons, hp] at ih ⊢
        by_cases hq : q.1 = k <;> simp [hq, ih]

theorem sortStable_filter {α} (l : List (List UInt8 × α)) (k : List UInt8) :
    (sortStable l).filter (fun x => x.1 = k) = l.filter (fun x => x.1 = k) := by
  induction l with
  | nil => rfl
  | cons p r ih =>
    have e : sortStable (p :: r) = insertStable p (sortStable r) := rfl
    rw [e, insertStable_filter, List.filter_cons, List.filter_cons, ih]

end Spec
end Sonic
