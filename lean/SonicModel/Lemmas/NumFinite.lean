import SonicModel.Lemmas.DeNum
import SonicModel.Lemmas.NumSound
/-
  Which results of the digit machine are finite as f64 without asking the float back end: everything that is not handed
  to it (`Unsigned`, `Signed`, the early `±0.0` returns, `-(sig as f64)`), in the specification's terms
  (`Spec.finite` = exact big-integer IEEE rounding of the literal does not overflow).
-/
namespace Sonic
namespace NumFinite
open Sonic Impl Spec

theorem roundF64_zero (x : Int) : roundF64 0 x = some 0 := by
  unfold roundF64; rfl

theorem e2Of_le (num den : Nat) : e2Of num den ≤ (Nat.log2 num : Int) - (Nat.log2 den : Int) + 1 := by
  unfold e2Of
  simp only
  split
  · omega
  · split <;> omega

theorem packF64_some (num den : Nat) (e2 : Int) (h : e2 ≤ 1022) : (packF64 num den e2).isSome = true := by
  unfold packF64
  split
  · rfl
  · simp only
    generalize (if e2 - 52 ≥ 0 then divRne num (den * 2 ^ (e2 - 52).toNat) else divRne (num * 2 ^ (-(e2 - 52)).toNat) den) = m
    by_cases hm : (m == 2 ^ 53) = true
    · have : ¬ (e2 + 1 > 1023) := by omega
      simp [hm, this]
    · have : ¬ (e2 > 1023) := by omega
      simp [hm, this]

/-- an integer below `2^64` rounds to a finite double -/
theorem roundF64_small (m : Nat) (h : m < 2 ^ 64) : (roundF64 m 0).isSome = true := by
  by_cases h0 : m = 0
  · subst h0; rw [roundF64_zero]; rfl
  · have hl : Nat.log2 m < 64 := (Nat.log2_lt h0).mpr h
    unfold roundF64
    have hm : (m == 0) = false := by simpa using h0
    simp only [hm, Bool.false_eq_true, if_false]
    have c1 : ¬ ((0 : Int) > 400) := by omega
    have c2 : ¬ (((decDigits m : Nat) : Int) + 0 < -400) := by omega
    simp only [c1, c2, if_false]
    apply packF64_some
    have := e2Of_le (if (0:Int) ≥ 0 then m * 10 ^ (0:Int).toNat else m) (if (0:Int) ≥ 0 then 1 else 10 ^ (-(0:Int)).toNat)
    have h2 : (if (0:Int) ≥ 0 then m * 10 ^ (0:Int).toNat else m) = m := by simp
    rw [h2] at this ⊢
    omega

/-- a run of `0` bytes reads as zero -/
theorem digitsVal_zeros (buf : Buf) : ∀ n a z, z - a = n → (∀ x, a ≤ x → x < z → buf[x]? = some 48) →
    digitsVal buf a z 0 = 0 := by
  intro n
  induction n with
  | zero =>
    intro a z hn _
    rw [digitsVal]
    have : ¬ (a < z ∧ a < buf.size) := by omega
    simp [this]
  | succ n ih =>
    intro a z hn hz
    rw [digitsVal]
    by_cases hc : a < z ∧ a < buf.size
    · have hb := hz a (Nat.le_refl _) hc.1
      have hb' : buf[a] = 48 := by
        have := Array.getElem?_eq_some_iff.mp hb
        exact this.2
      simp only [hc, and_self, dite_true, hb']
      have : (0 * 10 + ((48 : UInt8).toNat - 48)) = 0 := by decide
      rw [this]
      exact ih (a + 1) z (by omega) (fun x h1 h2 => hz x (by omega) h2)
    · simp [hc]

/-- what the digit machine answers without the float back end for a token with a fraction or an exponent has the exact
    value zero (`0.000`, `0e5`, `0.0E-7`: the early `±0.0` returns) -/
theorem nonint_zero_mant (buf : Buf) (bound i1 : Nat) (neg : Bool) (e : Nat)
    (h0 : buf[i1]? = some 48 → skipDigits buf i1 = i1 + 1)
    (hA : buf[skipDigits buf i1]? = some 46 ∨ buf[skipDigits buf i1]? = some 101 ∨ buf[skipDigits buf i1]? = some 69)
    (hnf : ∀ a b x d, (parseNumber buf bound i1 neg).1 ≠ .toFloat a b x d)
    (hni : (parseNumber buf bound i1 neg).1 ≠ .invalid) :
    (fracOf buf (skipDigits buf i1) e (digitsVal buf i1 (skipDigits buf i1) 0)).2.2.1 = 0 := by
  by_cases hz : buf[i1]? = some 48
  · have hi2 := h0 hz
    rw [hi2] at hA ⊢
    have hintv : digitsVal buf i1 (i1 + 1) 0 = 0 :=
      digitsVal_zeros buf 1 i1 (i1 + 1) (by omega) (fun x h1 h2 => by
        have : x = i1 := by omega
        rw [this]; exact hz)
    rw [hintv]
    unfold fracOf
    by_cases hfr : (buf[i1 + 1]? = some 46 && decide (i1 + 1 < e)) = true
    · simp only [hfr, if_true]
      have h46 : buf[i1 + 1]? = some 46 := by
        simp only [Bool.and_eq_true, decide_eq_true_eq] at hfr; exact hfr.1
      unfold parseNumber at hnf hni
      rw [if_pos hz] at hnf hni
      simp only [h46] at hnf hni
      by_cases hd2 : isDigitAt buf (i1 + 1 + 1) = true
      · simp only [hd2, Bool.not_true, Bool.false_eq_true, if_false] at hnf hni
        have hz' := DomP.skipZeros_spec buf (buf.size - (i1 + 1 + 1)) (i1 + 1 + 1) (Nat.le_refl _)
        generalize parseNumber.skipZeros buf (i1 + 1 + 1) (buf.size - (i1 + 1 + 1)) = z at hz' hnf hni
        obtain ⟨hk1, hk2, hk3⟩ := hz'
        have hD : skipDigits buf (i1 + 1 + 1) = skipDigits buf z := DomP.zeros_digits buf _ z hk2 hk1
        have hndz : isDigitAt buf z = false := by
          by_cases hE : (buf[z]? = some 101 || buf[z]? = some 69) = true
          · have hEo : buf[z]? = some 101 ∨ buf[z]? = some 69 := by simpa using hE
            unfold isDigitAt; rcases hEo with h1 | h1 <;> (simp only [h1]; decide)
          · simp only [hE, Bool.false_eq_true, if_false] at hnf hni
            cases hdz : isDigitAt buf z with
            | false => rfl
            | true =>
              exfalso
              simp only [hdz, Bool.not_true, Bool.false_eq_true, if_false] at hnf hni
              by_cases hdz1 : isDigitAt buf (z + 1) = true
              · simp only [hdz1, if_true] at hnf hni
                cases hpf : parseFraction buf bound (z + 1) (dig buf z) 0 16 (i1 + 1 + 1) with
                | none => rw [hpf] at hni; exact hni rfl
                | some r => obtain ⟨s, x, t, k'⟩ := r; rw [hpf] at hnf; exact hnf _ _ _ _ rfl
              · simp only [hdz1, Bool.false_eq_true, if_false] at hnf hni
                by_cases hE1 : (buf[z + 1]? = some 101 || buf[z + 1]? = some 69) = true
                · simp only [hE1, if_true] at hnf hni
                  cases hpe : parseExponent buf bound (z + 1 + 1) with
                  | none => rw [hpe] at hni; exact hni rfl
                  | some r => obtain ⟨v, k'⟩ := r; rw [hpe] at hnf; exact hnf _ _ _ _ rfl
                · simp only [hE1, Bool.false_eq_true, if_false] at hnf
                  exact hnf _ _ _ _ rfl
        rw [hD, DomP.skipDigits_nondigit buf z hndz]
        exact digitsVal_zeros buf _ _ z rfl hk2
      · exfalso
        simp only [hd2, Bool.not_false, if_true] at hni
        exact hni rfl
    · simp [hfr]
  · exfalso
    unfold parseNumber at hnf hni
    rw [if_neg hz] at hnf hni
    simp only at hnf hni
    generalize hj : skipDigits buf i1 = j at hA hnf hni
    by_cases hcnt : (j - i1 == 0) = true
    · simp only [hcnt, if_true] at hni; exact hni rfl
    · simp only [hcnt, Bool.false_eq_true, if_false] at hnf hni
      by_cases hE : (buf[j]? = some 101 || buf[j]? = some 69) = true
      · simp only [hE, if_true] at hnf hni
        cases hpe : parseExponent buf bound (j + 1) with
        | none => rw [hpe] at hni; exact hni rfl
        | some r => obtain ⟨v, k'⟩ := r; rw [hpe] at hnf; exact hnf _ _ _ _ rfl
      · simp only [hE, Bool.false_eq_true, if_false] at hnf hni
        have h46 : buf[j]? = some 46 := by
          rcases hA with hA | hA | hA
          · exact hA
          · simp [hA] at hE
          · simp [hA] at hE
        simp only [h46, if_true] at hnf hni
        by_cases hd1 : isDigitAt buf (j + 1) = true
        · simp only [hd1, Bool.not_true, Bool.false_eq_true, if_false] at hnf hni
          split at hnf
          · exact hnf _ _ _ _ rfl
          · rename_i heq; rw [heq] at hni; exact hni rfl
        · simp only [hd1, Bool.not_false, if_true] at hni
          exact hni rfl

theorem intResult_small (neg : Bool) (D : List UInt8) (hd : allDigits D)
    (hnf : ∀ a b x d, intResult neg D ≠ .toFloat a b x d) : digitsOf D 0 < 2 ^ 64 := by
  unfold intResult at hnf
  simp only at hnf
  by_cases h19 : D.length ≤ 19
  · have := digitsOf_lt D hd
    have hp : (10:Nat) ^ D.length ≤ 10 ^ 19 := Nat.pow_le_pow_right (by decide) h19
    have : (10:Nat)^19 < 2^64 := by decide
    omega
  · simp only [h19, if_false] at hnf
    by_cases h20 : D.length = 20 ∧ digitsOf D 0 < 2 ^ 64
    · exact h20.2
    · simp only [h20, if_false] at hnf
      exact absurd rfl (hnf _ _ _ _)

/-- **whatever the digit machine answers without the float back end is finite**: a number token for which `parse_number`
    does not make a float request (`Unsigned`, `Signed`, the early `±0.0`, `-(sig as f64)` of a 64-bit magnitude) has an
    exact value whose IEEE rounding does not overflow -/
theorem finite_of_nonfloat (buf : Buf) (s e : Nat) (neg : Bool) (h : number buf s = some e)
    (hnf : ∀ a b x d, (parseNumber buf Gen.expAccBound (if buf[s]? = some 45 then s + 1 else s) neg).1 ≠ .toFloat a b x d) :
    Spec.finite buf s e = true := by
  generalize hi1d : (if buf[s]? = some 45 then s + 1 else s) = i1 at hnf
  have hpn := DomP.parseNumber_of_number buf Gen.expAccBound s e neg h
  rw [hi1d] at hpn
  unfold Spec.finite
  simp only
  by_cases hint : (decOf buf s e).isInt = true
  · obtain ⟨c1, hb1, hdc, he, hlt, h48, hnd, h46, h101, h69⟩ := De.int_token_shape buf s e i1 hi1d.symm h hint
    obtain ⟨D, hDne, hDd, hD48, hval, hparse⟩ := De.int_token_parse buf s e i1 hi1d.symm h hint
    rw [De.decOf_int buf s e i1 hi1d.symm he h46 h101 h69]
    simp only [hval]
    apply roundF64_small
    by_cases hz : D = [48]
    · subst hz; decide
    · rw [hparse] at hnf
      simp only [hz, if_false] at hnf
      exact intResult_small _ D hDd hnf
  · have hint' : (decOf buf s e).isInt = false := by simpa using hint
    obtain ⟨h0, hA⟩ := De.nonint_token_shape buf s e i1 hi1d.symm h hint'
    have hm := nonint_zero_mant buf Gen.expAccBound i1 neg e h0 hA hnf hpn.2
    have : (decOf buf s e).mant = 0 := by
      unfold decOf
      simp only [hi1d]
      exact hm
    rw [this, roundF64_zero]
    rfl

end NumFinite
end Sonic
