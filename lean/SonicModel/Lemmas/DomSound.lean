import SonicModel.Lemmas.DomParseProof
import SonicModel.Lemmas.NumFinite
/-
  The converse of `DomParseProof`: the decoding parser accepts ONLY strictly well-formed text.  Whenever the model of
  `parse_value` / `parse_array` / `parse_object` returns a tree for a value that is not directly followed by a digit (inside
  a container a value is followed by `,` `]` `}` or whitespace; at top level by whitespace or the end of the input), the
  strict grammar accepts exactly that extent.  Numbers: `number_of_parseNumber` + `finite_of_nonfloat`; strings and member
  names: `decode_correct`; literals: `parseLiteral_refines`.
-/
namespace Sonic
namespace DomP
open Gen Spec Impl

theorem digit_not_ws : ∀ d : UInt8, isDigit d = true → isWs d = false :=
  UInt8.forall_of_fin _ (by decide +kernel)

theorem skipWs_digit (buf : Buf) (e : Nat) (h : isDigitAt buf e = true) : skipWs buf e = e := by
  unfold isDigitAt at h
  cases hb : buf[e]? with
  | none => rw [hb] at h; cases h
  | some d =>
    rw [hb] at h
    obtain ⟨hlt, hd⟩ := Array.getElem?_eq_some_iff.mp hb
    apply skipWs_fix buf e hlt
    rw [hd]
    exact digit_not_ws d h

/-- a value followed (after blanks) by a byte that is not a digit is not directly followed by a digit -/
theorem not_digit_after (buf : Buf) (e : Nat) (c : UInt8) (h : buf[skipWs buf e]? = some c) (hc : isDigit c = false) :
    isDigitAt buf e = false := by
  cases hd : isDigitAt buf e with
  | false => rfl
  | true =>
    have := skipWs_digit buf e hd
    rw [this] at h
    unfold isDigitAt at hd
    rw [h] at hd
    simp only at hd
    rw [hd] at hc; cases hc

theorem numberS_of_numAt (buf : Buf) (w : Nat) (c : UInt8) (t : Json) (e : Nat) (hb : buf[w]? = some c)
    (h : numAt buf c (w + 1) = .ok t e) (hnd : isDigitAt buf e = false) : numberS true buf w = some e := by
  unfold numAt at h
  have hnow : (if (c == 45) = true then w + 1 else w + 1 - 1) = (if buf[w]? = some 45 then w + 1 else w) := by
    rw [hb]
    by_cases h45 : c = 45
    · subst h45; simp
    · have : (c == 45) = false := by simpa using h45
      have h2 : ¬ (some c = some (45 : UInt8)) := by simpa using h45
      simp [this, h2]
  simp only [Nat.add_sub_cancel] at h hnow
  rw [hnow] at h
  cases hp : parseNumber buf Gen.expAccBound (if buf[w]? = some 45 then w + 1 else w) (c == 45) with
  | mk p k =>
    rw [hp] at h
    have hke : p ≠ .invalid → k = e := by
      intro hne
      cases p <;> simp only at h
      all_goals first
        | (split at h <;> simp only [DRes.ok.injEq, reduceCtorEq] at h; exact h.2)
        | (simp only [DRes.ok.injEq] at h; exact h.2)
        | exact absurd rfl hne
    have hpi : p ≠ .invalid := by
      intro hh; rw [hh] at h; simp at h
    have hk := hke hpi
    subst hk
    have hnum := number_of_parseNumber buf Gen.expAccBound w (c == 45) p k hp hpi hnd
    unfold numberS
    rw [hnum]
    have hfin : Spec.finite buf w k = true := by
      by_cases hfl : ∃ a b x d, p = .toFloat a b x d
      · obtain ⟨a, b, x, d, hfl⟩ := hfl
        rw [hfl] at h
        simp only at h
        cases hf : Spec.finite buf w k with
        | true => rfl
        | false => rw [hf] at h; simp at h
      · apply NumFinite.finite_of_nonfloat buf w k (c == 45) hnum
        intro a b x d hh
        rw [hp] at hh
        exact hfl ⟨a, b, x, d, hh⟩
    simp [hfin]

theorem string_of_decode (buf : Buf) (i : Nat) (bs : List UInt8) (e : Nat) (esc : Bool)
    (h : decodeFrom false buf i = .ok bs e esc) : Spec.string true buf i = some e := by
  unfold Spec.string
  simp only [if_true]
  cases hss : stringS false buf i with
  | none =>
    obtain ⟨c, p, hd, _⟩ := decodeFrom_of_stringS_none buf i hss
    rw [hd] at h; cases h
  | some r =>
    obtain ⟨nm, e'⟩ := r
    obtain ⟨esc', hd⟩ := decodeFrom_of_stringS_some buf i nm e' hss
    rw [hd] at h
    simp only [DecRes.ok.injEq] at h
    simp [h.2.1]

theorem dispatch_none (f : Nat) (buf : Buf) (t : Json) (e : Nat) : dispatch f buf none ≠ .ok t e := by
  cases f <;> simp [dispatch]

theorem arrLoop_none (f : Nat) (buf : Buf) (acc : List Json) (t : Json) (e : Nat) : arrLoop f buf none acc ≠ .ok t e := by
  cases f with
  | zero => simp [arrLoop]
  | succ f =>
    unfold arrLoop
    cases hd : dispatch f buf none with
    | ok t' e' => exact absurd hd (dispatch_none f buf t' e')
    | err c p => simp
    | fuel => simp

theorem lit_of_parseLiteral (buf : Buf) (j : Nat) (bs : List UInt8) (hne : bs ≠ []) (e : Nat)
    (h : parseLiteral buf j bs = .ok e) : Res.ofOpt (lit buf j bs) = .ok e := by
  rw [← parseLiteral_refines buf j bs hne, h]; rfl

theorem ne_of_beq_false {a b : UInt8} (h : (a == b) = false) : ¬ (some a = some b) := by
  intro hh; simp only [Option.some.injEq] at hh; subst hh; simp at h

/-- **the decoding parser accepts only strictly well-formed text**: values, element lists, member lists -/
theorem strict_of_parse (buf : Buf) : ∀ f,
    (∀ w c t e, buf[w]? = some c → dispatch f buf (some (c, w + 1)) = .ok t e → isDigitAt buf e = false →
        Spec.value true f buf w = .ok e) ∧
    (∀ p c acc r e, buf[p]? = some c → arrLoop f buf (some (c, p + 1)) acc = .ok r e → elems true f buf p = .ok e) ∧
    (∀ q acc r e, buf[q]? = some 34 → objLoop f buf (q + 1) acc = .ok r e → members true f buf q = .ok e) := by
  intro f
  induction f with
  | zero =>
    refine ⟨?_, ?_, ?_⟩
    · intro w c t e _ h; simp [dispatch] at h
    · intro p c acc r e _ h; simp [arrLoop] at h
    · intro q acc r e _ h; simp [objLoop] at h
  | succ f ih =>
    obtain ⟨ih1, ih2, ih3⟩ := ih
    refine ⟨?_, ?_, ?_⟩
    · -- a value
      intro w c t e hb h hnd
      unfold dispatch at h
      unfold Spec.value
      simp only [hb]
      by_cases h1 : (c == 45 || isDigit c) = true
      · simp only [h1, if_true] at h ⊢
        rw [numberS_of_numAt buf w c t e hb h hnd]; rfl
      · simp only [h1, Bool.false_eq_true, if_false] at h ⊢
        by_cases h2 : (c == 34) = true
        · simp only [h2, if_true] at h ⊢
          unfold strAt at h
          cases hd : decodeFrom false buf (w + 1) with
          | err c' p' => rw [hd] at h; cases h
          | ok bs e' esc =>
            rw [hd] at h
            simp only [DRes.ok.injEq] at h
            rw [string_of_decode buf (w + 1) bs e' esc hd, h.2]; rfl
        · simp only [h2, Bool.false_eq_true, if_false] at h ⊢
          by_cases h3 : (c == 123) = true
          · simp only [h3, if_true] at h ⊢
            rw [skipSpace_spec] at h
            cases hb2 : buf[skipWs buf (w + 1)]? with
            | none => rw [hb2] at h; simp at h
            | some c2 =>
              rw [hb2] at h
              simp only [Option.map_some] at h
              by_cases hc : (c2 == 125) = true
              · simp only [hc, if_true, DRes.ok.injEq] at h
                have : c2 = 125 := by simpa using hc
                subst this
                simp only [if_true, h.2]
              · simp only [hc, Bool.false_eq_true, if_false] at h
                have hc' : (c2 == 125) = false := by simpa using hc
                simp only [ne_of_beq_false hc', if_false]
                by_cases hq : (c2 == 34) = true
                · simp only [hq, if_true] at h
                  have : c2 = 34 := by simpa using hq
                  subst this
                  exact ih3 _ [] t e hb2 h
                · simp only [hq, Bool.false_eq_true, if_false] at h; cases h
          · simp only [h3, Bool.false_eq_true, if_false] at h ⊢
            by_cases h4 : (c == 91) = true
            · simp only [h4, if_true] at h ⊢
              rw [skipSpace_spec] at h
              cases hb2 : buf[skipWs buf (w + 1)]? with
              | none =>
                rw [hb2] at h
                simp only [Option.map_none] at h
                exact absurd h (arrLoop_none f buf [] t e)
              | some c2 =>
                rw [hb2] at h
                simp only [Option.map_some] at h
                by_cases hc : (c2 == 93) = true
                · simp only [hc, if_true, DRes.ok.injEq] at h
                  have : c2 = 93 := by simpa using hc
                  subst this
                  simp only [if_true, h.2]
                · simp only [hc, Bool.false_eq_true, if_false] at h
                  have hc' : (c2 == 93) = false := by simpa using hc
                  simp only [ne_of_beq_false hc', if_false]
                  exact ih2 _ c2 [] t e hb2 h
            · simp only [h4, Bool.false_eq_true, if_false] at h ⊢
              unfold litAtP at h
              by_cases h5 : (c == 116) = true
              · simp only [h5, if_true] at h ⊢
                cases hp : parseLiteral buf (w + 1) [114, 117, 101] with
                | ok e' =>
                  rw [hp] at h; simp only [DRes.ok.injEq] at h
                  rw [lit_of_parseLiteral buf _ _ (by simp) e' hp, h.2]
                | err c' p' => rw [hp] at h; cases h
                | fuel => rw [hp] at h; cases h
              · simp only [h5, Bool.false_eq_true, if_false] at h ⊢
                by_cases h6 : (c == 102) = true
                · simp only [h6, if_true] at h ⊢
                  cases hp : parseLiteral buf (w + 1) [97, 108, 115, 101] with
                  | ok e' =>
                    rw [hp] at h; simp only [DRes.ok.injEq] at h
                    rw [lit_of_parseLiteral buf _ _ (by simp) e' hp, h.2]
                  | err c' p' => rw [hp] at h; cases h
                  | fuel => rw [hp] at h; cases h
                · simp only [h6, Bool.false_eq_true, if_false] at h ⊢
                  by_cases h7 : (c == 110) = true
                  · simp only [h7, if_true] at h ⊢
                    cases hp : parseLiteral buf (w + 1) [117, 108, 108] with
                    | ok e' =>
                      rw [hp] at h; simp only [DRes.ok.injEq] at h
                      rw [lit_of_parseLiteral buf _ _ (by simp) e' hp, h.2]
                    | err c' p' => rw [hp] at h; cases h
                    | fuel => rw [hp] at h; cases h
                  · simp only [h7, Bool.false_eq_true, if_false] at h; cases h
    · -- elements
      intro p c acc r e hb h
      unfold arrLoop at h
      unfold elems
      cases hd : dispatch f buf (some (c, p + 1)) with
      | err c' p' => rw [hd] at h; cases h
      | fuel => rw [hd] at h; cases h
      | ok t e1 =>
        rw [hd] at h
        simp only at h
        rw [skipSpace_spec] at h
        cases hb2 : buf[skipWs buf e1]? with
        | none => rw [hb2] at h; simp at h
        | some c2 =>
          rw [hb2] at h
          simp only [Option.map_some] at h
          by_cases hc : (c2 == 93) = true
          · have : c2 = 93 := by simpa using hc
            subst this
            simp only [beq_self_eq_true, if_true, DRes.ok.injEq] at h
            have hnd := not_digit_after buf e1 93 hb2 (by decide)
            rw [ih1 p c t e1 hb hd hnd]
            simp only [hb2, if_true, h.2]
          · simp only [hc, Bool.false_eq_true, if_false] at h
            have hc' : (c2 == 93) = false := by simpa using hc
            by_cases hco : (c2 == 44) = true
            · have : c2 = 44 := by simpa using hco
              subst this
              simp only [beq_self_eq_true, if_true] at h
              have hnd := not_digit_after buf e1 44 hb2 (by decide)
              rw [ih1 p c t e1 hb hd hnd]
              simp only [hb2, ne_of_beq_false hc', if_false, if_true]
              rw [skipSpace_spec] at h
              cases hb3 : buf[skipWs buf (skipWs buf e1 + 1)]? with
              | none =>
                rw [hb3] at h
                simp only [Option.map_none] at h
                exact absurd h (arrLoop_none f buf _ r e)
              | some c3 =>
                rw [hb3] at h
                simp only [Option.map_some] at h
                exact ih2 _ c3 _ r e hb3 h
            · simp only [hco, Bool.false_eq_true, if_false] at h; cases h
    · -- members
      intro q acc r e hq h
      unfold objLoop at h
      unfold members
      simp only [hq, if_true]
      cases hd : decodeFrom false buf (q + 1) with
      | err c' p' => rw [hd] at h; cases h
      | ok name e1 esc =>
        rw [hd] at h
        simp only at h
        rw [string_of_decode buf (q + 1) name e1 esc hd]
        simp only
        have hclo := parseObjectClo_spec buf e1
        cases hpc : parseObjectClo buf e1 with
        | err c' p' => rw [hpc] at h; cases h
        | fuel => rw [hpc] at h; cases h
        | ok v =>
          rw [hpc] at h hclo
          simp only at h
          by_cases hcol : buf[skipWs buf e1]? = some 58
          · simp only [hcol, if_true, IRes.erase_ok, Res.ok.injEq] at hclo
            subst hclo
            simp only [hcol, if_true]
            rw [skipSpace_spec] at h
            cases hbv : buf[skipWs buf (skipWs buf e1 + 1)]? with
            | none =>
              rw [hbv] at h
              simp only [Option.map_none] at h
              cases hdn : dispatch f buf none with
              | ok t' e' => exact absurd hdn (dispatch_none f buf t' e')
              | err c' p' => rw [hdn] at h; cases h
              | fuel => rw [hdn] at h; cases h
            | some cv =>
              rw [hbv] at h
              simp only [Option.map_some] at h
              cases hdv : dispatch f buf (some (cv, skipWs buf (skipWs buf e1 + 1) + 1)) with
              | err c' p' => rw [hdv] at h; cases h
              | fuel => rw [hdv] at h; cases h
              | ok t e2 =>
                rw [hdv] at h
                simp only at h
                rw [skipSpace_spec] at h
                cases hb2 : buf[skipWs buf e2]? with
                | none => rw [hb2] at h; simp at h
                | some c2 =>
                  rw [hb2] at h
                  simp only [Option.map_some] at h
                  by_cases hc : (c2 == 125) = true
                  · have : c2 = 125 := by simpa using hc
                    subst this
                    simp only [beq_self_eq_true, if_true, DRes.ok.injEq] at h
                    have hnd := not_digit_after buf e2 125 hb2 (by decide)
                    rw [ih1 _ cv t e2 hbv hdv hnd]
                    simp only [hb2, if_true, h.2]
                  · simp only [hc, Bool.false_eq_true, if_false] at h
                    have hc' : (c2 == 125) = false := by simpa using hc
                    by_cases hco : (c2 == 44) = true
                    · have : c2 = 44 := by simpa using hco
                      subst this
                      simp only [beq_self_eq_true, if_true] at h
                      have hnd := not_digit_after buf e2 44 hb2 (by decide)
                      rw [ih1 _ cv t e2 hbv hdv hnd]
                      simp only [hb2, ne_of_beq_false hc', if_false, if_true]
                      rw [skipSpace_spec] at h
                      cases hb3 : buf[skipWs buf (skipWs buf e2 + 1)]? with
                      | none => rw [hb3] at h; simp at h
                      | some c3 =>
                        rw [hb3] at h
                        simp only [Option.map_some] at h
                        by_cases hq3 : (c3 == 34) = true
                        · have : c3 = 34 := by simpa using hq3
                          subst this
                          simp only [beq_self_eq_true, if_true] at h
                          exact ih3 _ _ r e hb3 h
                        · simp only [hq3, Bool.false_eq_true, if_false] at h; cases h
                    · simp only [hco, Bool.false_eq_true, if_false] at h; cases h
          · simp only [hcol, if_false, IRes.erase_ok] at hclo
            cases hclo

/-- **whatever the decoding parser accepts is a strictly well-formed document, and the tree it returns is the tree the text
    denotes** -/
theorem strict_of_document (buf : Buf) (t : Json) (h : DomP.document buf = some t) :
    ∃ s e, Spec.document true buf = some (s, e) ∧ docTree false buf = some t := by
  have h0 := h
  unfold DomP.document DomP.value at h
  rw [skipSpace_spec] at h
  cases hb : buf[skipWs buf 0]? with
  | none =>
    rw [hb] at h
    simp only [Option.map_none] at h
    cases hd : dispatch (Spec.fuelFor buf) buf none with
    | ok t' e' => exact absurd hd (dispatch_none _ buf t' e')
    | err c p => rw [hd] at h; cases h
    | fuel => rw [hd] at h; cases h
  | some c =>
    rw [hb] at h
    simp only [Option.map_some] at h
    cases hd : dispatch (Spec.fuelFor buf) buf (some (c, skipWs buf 0 + 1)) with
    | err c' p' => rw [hd] at h; cases h
    | fuel => rw [hd] at h; cases h
    | ok t' e =>
      rw [hd] at h
      simp only at h
      split at h
      · rename_i hend
        have hnd : isDigitAt buf e = false := by
          cases hx : isDigitAt buf e with
          | false => rfl
          | true =>
            have h1 := skipWs_digit buf e hx
            unfold isDigitAt at hx
            cases hbe : buf[e]? with
            | none => rw [hbe] at hx; cases hx
            | some d =>
              have := (Array.getElem?_eq_some_iff.mp hbe).1
              omega
        have hv := (strict_of_parse buf (Spec.fuelFor buf)).1 _ c t' e hb hd hnd
        have hdoc : Spec.document true buf = some (skipWs buf 0, e) := by
          unfold Spec.document
          simp only [hv, hend, if_true]
        refine ⟨_, _, hdoc, ?_⟩
        obtain ⟨t2, ht2, hd2⟩ := document_of_strict buf _ _ hdoc
        rw [h0] at hd2
        rw [ht2, hd2]
      · cases h

/-- **the decoding parser accepts exactly the strictly well-formed documents** -/
theorem document_accept_iff (buf : Buf) : (DomP.document buf).isSome = true ↔ (Spec.document true buf).isSome = true := by
  constructor
  · intro h
    cases hd : DomP.document buf with
    | none => rw [hd] at h; cases h
    | some t =>
      obtain ⟨s, e, hs, _⟩ := strict_of_document buf t hd
      rw [hs]; rfl
  · intro h
    cases hs : Spec.document true buf with
    | none => rw [hs] at h; cases h
    | some r =>
      obtain ⟨s, e⟩ := r
      obtain ⟨t, _, ht⟩ := document_of_strict buf s e hs
      rw [ht]; rfl

end DomP
end Sonic
