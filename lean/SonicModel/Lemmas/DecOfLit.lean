import SonicModel.Lemmas.NumFloatLit
namespace Sonic
open Impl Spec

/-! ### the specification's reading of a literal (`Spec.decOf`, what the oracle uses) is the literal's value -/

theorem expOf_lit (l : Lit) (hw : l.WF) (A R : List UInt8) (hRd : ∀ c, R.head? = some c → isDigit c = false)
    (hR101 : R.head? ≠ some 101) (hR69 : R.head? ≠ some 69) :
    expOf (A ++ (l.expPart ++ R)).toArray A.length (A.length + l.expPart.length) = (l.exp.isSome, l.expVal) := by
  cases he : l.exp with
  | none =>
    have hE : l.expPart = [] := by simp [Lit.expPart, he]
    have hV : l.expVal = 0 := by simp [Lit.expVal, he]
    rw [hE, hV]
    unfold expOf
    simp
  | some t =>
    obtain ⟨e, sg, ds⟩ := t
    obtain ⟨hE, hS, hne, hds⟩ := hw.2.2.2.2 e sg ds he
    cases hdd : ds with
    | nil => exact absurd hdd hne
    | cons d ds' =>
      subst hdd
      have hd : isDigit d = true := hds d (by simp)
      have hd43 : d ≠ 43 := by intro h; subst h; simp [isDigit] at hd
      have hd45 : d ≠ 45 := by intro h; subst h; simp [isDigit] at hd
      unfold Lit.expPart Lit.expVal
      rw [he]
      rcases hS with rfl | rfl | rfl
      · simp only
        have h0 : (A ++ (e :: d :: ds' ++ R)).toArray[A.length]? = some e := by rw [get_at0]; rfl
        have h1 : (A ++ (e :: d :: ds' ++ R)).toArray[A.length + 1]? = some d := by rw [get_at]; rfl
        have hE2 : (decide (some e = some (101 : UInt8)) || decide (some e = some (69 : UInt8))) = true := by
          rcases hE with rfl | rfl <;> simp
        have hrun := digitsVal_run (d :: ds') (A ++ [e]) R 0
        have hre : A ++ [e] ++ (d :: ds' ++ R) = A ++ (e :: d :: ds' ++ R) := by simp
        have hlen : (A ++ [e]).length + (d :: ds').length = A.length + (e :: d :: ds').length := by simp; omega
        have hlen1 : (A ++ [e]).length = A.length + 1 := by simp
        rw [hre, hlen, hlen1] at hrun
        unfold expOf
        have hn45 : ¬ (some d = some (45 : UInt8)) := by simpa using hd45
        have hn43 : ¬ (some d = some (43 : UInt8)) := by simpa using hd43
        have hlt : A.length < A.length + (e :: d :: ds').length := by simp
        simp only [h0, hE2, h1, hlt, decide_true, Bool.and_true, hn45, hn43, decide_false, Bool.or_self,
          Bool.and_false, Bool.false_eq_true, if_false, if_true, hrun, Option.isSome_some]
      · simp only
        have h0 : (A ++ (e :: 43 :: d :: ds' ++ R)).toArray[A.length]? = some e := by rw [get_at0]; rfl
        have h1 : (A ++ (e :: 43 :: d :: ds' ++ R)).toArray[A.length + 1]? = some 43 := by rw [get_at]; rfl
        have hE2 : (decide (some e = some (101 : UInt8)) || decide (some e = some (69 : UInt8))) = true := by
          rcases hE with rfl | rfl <;> simp
        have hrun := digitsVal_run (d :: ds') (A ++ [e, 43]) R 0
        have hre : A ++ [e, 43] ++ (d :: ds' ++ R) = A ++ (e :: 43 :: d :: ds' ++ R) := by simp
        have hlen : (A ++ [e, 43]).length + (d :: ds').length = A.length + (e :: 43 :: d :: ds').length := by simp; omega
        have hlen1 : (A ++ [e, 43]).length = A.length + 2 := by simp
        rw [hre, hlen, hlen1] at hrun
        unfold expOf
        have hlt : A.length < A.length + (e :: 43 :: d :: ds').length := by simp
        have hn : ¬ (some (43 : UInt8) = some 45) := by decide
        simp only [h0, hE2, h1, hlt, decide_true, Bool.and_true, hn, decide_false, Bool.or_true, Bool.false_or,
          Bool.and_false, Bool.false_eq_true, if_false, if_true, hrun, Option.isSome_some]
      · simp only
        have h0 : (A ++ (e :: 45 :: d :: ds' ++ R)).toArray[A.length]? = some e := by rw [get_at0]; rfl
        have h1 : (A ++ (e :: 45 :: d :: ds' ++ R)).toArray[A.length + 1]? = some 45 := by rw [get_at]; rfl
        have hE2 : (decide (some e = some (101 : UInt8)) || decide (some e = some (69 : UInt8))) = true := by
          rcases hE with rfl | rfl <;> simp
        have hrun := digitsVal_run (d :: ds') (A ++ [e, 45]) R 0
        have hre : A ++ [e, 45] ++ (d :: ds' ++ R) = A ++ (e :: 45 :: d :: ds' ++ R) := by simp
        have hlen : (A ++ [e, 45]).length + (d :: ds').length = A.length + (e :: 45 :: d :: ds').length := by simp; omega
        have hlen1 : (A ++ [e, 45]).length = A.length + 2 := by simp
        rw [hre, hlen, hlen1] at hrun
        unfold expOf
        have hlt : A.length < A.length + (e :: 45 :: d :: ds').length := by simp
        simp only [h0, hE2, h1, hlt, decide_true, Bool.and_true, Bool.true_or, Bool.and_self,
          if_true, hrun, Option.isSome_some]

theorem fracOf_lit (l : Lit) (hw : l.WF) (A R : List UInt8) (hRd : ∀ c, R.head? = some c → isDigit c = false)
    (hR46 : R.head? ≠ some 46) (intv tailLen : Nat) :
    fracOf (A ++ (l.fracPart ++ R)).toArray A.length (A.length + l.fracPart.length + tailLen) intv =
      (l.frac.isSome, A.length + l.fracPart.length, digitsOf (l.frac.getD []) intv, (l.frac.getD []).length) := by
  cases hf : l.frac with
  | none =>
    have hF : l.fracPart = [] := by simp [Lit.fracPart, hf]
    rw [hF]
    have h0 : ¬ ((A ++ ([] ++ R)).toArray[A.length]? = some 46) := by
      rw [List.nil_append, get_at0]; exact hR46
    unfold fracOf
    simp only [h0, decide_false, Bool.false_and, Bool.false_eq_true, if_false, List.length_nil, Nat.add_zero,
      Option.isSome_none, Option.getD_none, digitsOf, List.foldl_nil]
  | some f =>
    obtain ⟨hne, hds⟩ := hw.2.2.2.1 f hf
    have hF : l.fracPart = 46 :: f := by simp [Lit.fracPart, hf]
    rw [hF]
    have h0 : (A ++ (46 :: f ++ R)).toArray[A.length]? = some 46 := by rw [get_at0]; rfl
    have hsk := skipDigits_run f (A ++ [46]) R hds hRd
    have hre : A ++ [46] ++ (f ++ R) = A ++ (46 :: f ++ R) := by simp
    have hlen1 : (A ++ [46]).length = A.length + 1 := by simp
    rw [hre, hlen1] at hsk
    have hrun := digitsVal_run f (A ++ [46]) R intv
    rw [hre, hlen1] at hrun
    have hlt : A.length < A.length + (f.length + 1) + tailLen := by omega
    unfold fracOf
    simp only [List.length_cons, h0, hlt, decide_true, Bool.and_self, if_true, hsk, hrun, Option.isSome_some, Option.getD_some]
    congr 2
    · omega
    · congr 1; omega

theorem decOf_lit (l : Lit) (hw : l.WF) (pre suf : List UInt8) (hs : isDelim suf.head?) :
    decOf (pre ++ l.render ++ suf).toArray pre.length (pre.length + l.render.length) =
      { neg := l.neg, mant := l.mant, exp := l.exp10, isInt := l.isInt } := by
  obtain ⟨hne, hI, hzero, hfrac, hexp⟩ := id hw
  have hdf := delim_facts suf.head? hs
  have hEh := expPart_head l hw suf hs
  cases hint : l.int with
  | nil => exact absurd hint hne
  | cons c I' =>
    have hc : isDigit c = true := hI c (by simp [hint])
    have hc45 : c ≠ 45 := by intro h; subst h; simp [isDigit] at hc
    have hIc : allDigits (c :: I') := by rw [← hint]; exact hI
    have hFh := fracPart_head l hw suf hs
    have hL : pre ++ l.render ++ suf = (pre ++ l.signPart) ++ (c :: I' ++ (l.fracPart ++ (l.expPart ++ suf))) := by
      simp [Lit.render, hint]
    have hlen : pre.length + l.render.length =
        (pre ++ l.signPart).length + (I'.length + 1) + l.fracPart.length + l.expPart.length := by
      simp [Lit.render, hint]; omega
    rw [hL, hlen]
    generalize hA : pre ++ l.signPart = A
    have hsign : (A ++ (c :: I' ++ (l.fracPart ++ (l.expPart ++ suf)))).toArray[pre.length]? = some 45 ↔ l.neg = true := by
      rw [← hA]
      unfold Lit.signPart
      cases hn : l.neg
      · simp only [Bool.false_eq_true, if_false, List.append_nil]
        rw [get_at0]; simp [hc45]
      · simp only [if_true]
        have := get_at0 pre ([45] ++ (c :: I' ++ (l.fracPart ++ (l.expPart ++ suf))))
        simp only [List.append_assoc] at this ⊢
        rw [this]; simp
    have hi1 : (if l.neg = true then pre.length + 1 else pre.length) = A.length := by
      rw [← hA]
      unfold Lit.signPart
      cases l.neg <;> simp
    have hsk : skipDigits (A ++ (c :: I' ++ (l.fracPart ++ (l.expPart ++ suf)))).toArray A.length = A.length + (I'.length + 1) :=
      skipDigits_run (c :: I') A _ hIc hFh
    have hiv : digitsVal (A ++ (c :: I' ++ (l.fracPart ++ (l.expPart ++ suf)))).toArray A.length (A.length + (I'.length + 1)) 0 =
        digitsOf (c :: I') 0 := digitsVal_run (c :: I') A _ 0
    have hre : A ++ (c :: I' ++ (l.fracPart ++ (l.expPart ++ suf))) = (A ++ c :: I') ++ (l.fracPart ++ (l.expPart ++ suf)) := by simp
    have hlen2 : (A ++ c :: I').length = A.length + (I'.length + 1) := by simp
    have hfr := fracOf_lit l hw (A ++ c :: I') (l.expPart ++ suf) hEh.1 hEh.2 (digitsOf (c :: I') 0) l.expPart.length
    rw [← hre, hlen2] at hfr
    have hre3 : A ++ (c :: I' ++ (l.fracPart ++ (l.expPart ++ suf))) = (A ++ c :: I' ++ l.fracPart) ++ (l.expPart ++ suf) := by simp
    have hlen3 : (A ++ c :: I' ++ l.fracPart).length = A.length + (I'.length + 1) + l.fracPart.length := by simp; omega
    have hex := expOf_lit l hw (A ++ c :: I' ++ l.fracPart) suf hdf.1 hdf.2.2.1 hdf.2.2.2
    rw [← hre3, hlen3] at hex
    unfold decOf
    simp only [hsign, hi1, hsk, hiv, Bool.decide_eq_true, hfr, hex]
    simp only [Lit.mant, Lit.exp10, Lit.isInt, hint]
    congr 1
    cases l.frac <;> cases l.exp <;> rfl

end Sonic
