import SonicModel.Impl.Simd
namespace Sonic.Simd

/-! the digit-run parser: the SSE lanes compute what the scalar loop computes -/

def isEnd (b : UInt8) : Bool := decide (toI8 0 > toI8 b) || decide (toI8 b > toI8 9)
def isDig (b : UInt8) : Bool := decide (b.toNat ≤ 9)

theorem end_iff : ∀ b : UInt8, (!isEnd b) = isDig b := by
  apply UInt8.forall_of_fin; decide +kernel

theorem digit_iff : ∀ b : UInt8, (48 ≤ b ∧ b ≤ 57) ↔ isDig (b - 48) = true := by
  apply UInt8.forall_of_fin; decide +kernel

theorem mask_zero (p : UInt8 → Bool) : ∀ v, maskOf p v = 0 ↔ ∀ b ∈ v, p b = false := by
  intro v
  induction v with
  | nil => simp [maskOf]
  | cons b rest ih =>
    simp only [maskOf, List.mem_cons, forall_eq_or_imp]
    cases h : p b
    · simp only [Bool.false_eq_true, ite_false, true_and, ← ih]; omega
    · simp

theorem takeWhile_all (p : UInt8 → Bool) : ∀ l : List UInt8, (∀ b ∈ l, p b = true) → l.takeWhile p = l := by
  intro l
  induction l with
  | nil => simp
  | cons b rest ih =>
    intro h
    simp only [List.mem_cons, forall_eq_or_imp] at h
    simp [h.1, ih h.2]

theorem tz_mask (p : UInt8 → Bool) : ∀ (v : List UInt8) (fuel : Nat), v.length ≤ fuel →
    (∃ b ∈ v, p b = true) → tzF fuel (maskOf p v) = (v.takeWhile fun b => !p b).length := by
  intro v
  induction v with
  | nil => intro fuel _ h; simp at h
  | cons b rest ih =>
    intro fuel hf hex
    cases fuel with
    | zero => simp at hf
    | succ fuel =>
      simp only [List.length_cons, Nat.add_le_add_iff_right] at hf
      cases hb : p b with
      | true =>
        simp only [maskOf, hb, ite_true, tzF, List.takeWhile_cons, Bool.not_true]
        have : (1 + 2 * maskOf p rest) % 2 = 1 := by omega
        simp [this]
      | false =>
        have hex' : ∃ b ∈ rest, p b = true := by
          obtain ⟨x, hx, hpx⟩ := hex
          simp only [List.mem_cons] at hx
          rcases hx with rfl | hx
          · rw [hb] at hpx; cases hpx
          · exact ⟨x, hx, hpx⟩
        have h0 : (0 + 2 * maskOf p rest) % 2 ≠ 1 := by omega
        have h1 : (0 + 2 * maskOf p rest) / 2 = maskOf p rest := by omega
        simp only [maskOf, hb, tzF, List.takeWhile_cons, Bool.not_false, ite_true,
          Bool.false_eq_true, ite_false, h0, h1, ih fuel hf hex', List.length_cons]
        omega

/-- the number of digits the SSE version reports: the leading digit run, capped by `need` -/
theorem count_spec (d : List UInt8) (need : Nat) (hl : d.length = 16) (hn : need ≤ 16) :
    countOf d need = min need (d.takeWhile isDig).length := by
  have hfun : (fun b => !isEnd b) = isDig := funext end_iff
  unfold countOf endMask
  change (let m := maskOf isEnd d; if m ≠ 0 then (let t := tzF 32 m; if t < need then t else need) else need) = _
  simp only
  by_cases hm : maskOf isEnd d = 0
  · have hall := (mask_zero isEnd d).mp hm
    have : d.takeWhile isDig = d := by
      apply takeWhile_all
      intro b hb
      rw [← end_iff, hall b hb]; rfl
    simp [hm, this, hl, Nat.min_eq_left hn]
  · have hex : ∃ b ∈ d, isEnd b = true := by
      apply Classical.byContradiction
      intro hne
      apply hm
      rw [mask_zero]
      intro b hb
      cases h : isEnd b
      · rfl
      · exact absurd ⟨b, hb, h⟩ hne
    have := tz_mask isEnd d 32 (by omega) hex
    rw [hfun] at this
    simp only [ne_eq, hm, not_false_eq_true, ite_true, this]
    split <;> omega

/-- the value of a digit run, accumulated in `u64` -/
def valW (l : List UInt8) (sum : Nat) : Nat :=
  l.foldl (fun s x => (x.toNat + s * 10) % 18446744073709551616) sum

/-- the scalar loop: the same count, and the digits accumulated left to right -/
theorem loop_spec : ∀ (c : List UInt8) (need sum i : Nat),
    str2intLoop c need sum i =
      (valW ((subZero c).take (min need ((subZero c).takeWhile isDig).length)) sum,
       i + min need ((subZero c).takeWhile isDig).length) := by
  intro c
  induction c with
  | nil => intro need sum i; cases need <;> simp [str2intLoop, subZero, valW]
  | cons b rest ih =>
    intro need sum i
    cases need with
    | zero => simp [str2intLoop, valW]
    | succ need =>
      by_cases hd : 48 ≤ b ∧ b ≤ 57
      · have hd' := (digit_iff b).mp hd
        simp only [str2intLoop, hd, and_self, ite_true, ih]
        simp only [subZero, List.map_cons, List.takeWhile_cons, hd', ite_true, List.length_cons,
          Nat.add_min_add_right, List.take_succ_cons, valW, List.foldl_cons]
        simp; omega
      · have hd' : isDig (b - 48) = false := by
          cases h : isDig (b - 48)
          · rfl
          · exact absurd ((digit_iff b).mpr h) hd
        simp [str2intLoop, hd, subZero, hd', valW]
