import SonicModel.Lemmas.StrDecode
namespace Sonic
open Gen Impl

theorem u8_lt32_iff (c : UInt8) : (c ≤ 0x1f) ↔ (c < 32) := by
  rw [UInt8.le_iff_toNat_le, UInt8.lt_iff_toNat_lt]
  simp; omega

theorem view_map (r : DecRes) (f : List UInt8 → List UInt8) :
    (match r with
      | .ok rest k _ => DecRes.ok (f rest) k true
      | r => r).view = r.view.map (fun (p : List UInt8 × Nat) => (f p.1, p.2)) := by
  cases r <;> simp [DecRes.view]

theorem view_map' (r : DecRes) (f : List UInt8 → List UInt8) :
    (match r with
      | .ok rest k esc => DecRes.ok (f rest) k esc
      | r => r).view = r.view.map (fun (p : List UInt8 × Nat) => (f p.1, p.2)) := by
  cases r <;> simp [DecRes.view]

/-- **the copying decoder decodes exactly the literal the specification denotes** — every
    buffer, every start index, strict and lossy -/
theorem decode_correct (lossy : Bool) (buf : Buf) (i : Nat) :
    (decodeFrom lossy buf i).view = Spec.stringS lossy buf i := by
  fun_induction Spec.stringS lossy buf i
  case case1 x hx c hq =>
    rw [decodeFrom]; simp_all +zetaDelta [DecRes.view]
  case case2 x hx c hnq hbs hnone =>
    rw [decodeFrom]; simp_all +zetaDelta [DecRes.view]
  case case3 x hx c hnq hbs e he hs ih =>
    have h1 := simple_ne_u e hs
    have h2 := escTab_unescape e hs
    rw [decodeFrom]
    simp only [hx, dite_true]
    have hq : (buf[x] == 34) = false := by simpa +zetaDelta using hnq
    have hb : (buf[x] == 92) = true := by simpa +zetaDelta using hbs
    simp only [hq, hb, Bool.false_eq_true, ite_false, ite_true, he, h1, h2.1]
    rw [← ih, h2.2]
    cases decodeFrom lossy buf (x+2) <;> simp [DecRes.view]
  case case4 x hx c hnq hbs e he hns hu hue =>
    have hq : (buf[x] == 34) = false := by simpa +zetaDelta using hnq
    have hb : (buf[x] == 92) = true := by simpa +zetaDelta using hbs
    have hrel := uEscape_rel lossy buf (x+2)
    rw [hue] at hrel
    rw [decodeFrom]
    simp only [hx, dite_true, hq, hb, Bool.false_eq_true, ite_false, ite_true, he, hu]
    rcases hrel with ⟨c', p', h⟩ | ⟨cp, j, h, hbig⟩
    · simp [h, DecRes.view]
    · have : codepointToUtf8 cp = [] := by
        rw [codepointToUtf8_spec]; simp; omega
      simp [h, this, DecRes.view]
  case case5 x hx c hnq hbs e he hns hu cp j hue hlt ih =>
    have hq : (buf[x] == 34) = false := by simpa +zetaDelta using hnq
    have hb : (buf[x] == 92) = true := by simpa +zetaDelta using hbs
    have hrel := uEscape_rel lossy buf (x+2)
    rw [hue] at hrel
    obtain ⟨h, hle, _⟩ := hrel
    have hne : codepointToUtf8 cp = Spec.utf8 cp := by
      rw [codepointToUtf8_spec]; simp [hle]
    have hne2 : (Spec.utf8 cp).isEmpty = false := by
      unfold Spec.utf8; split <;> (try split) <;> (try split) <;> simp
    rw [decodeFrom]
    simp only [hx, dite_true, hq, hb, Bool.false_eq_true, ite_false, ite_true, he, hu, h, hne, hne2, hlt]
    rw [← ih]
    cases decodeFrom lossy buf j <;> simp [DecRes.view]
  case case6 x hx c hnq hbs e he hns hu cp j hue hlt =>
    have hrel := uEscape_rel lossy buf (x+2)
    rw [hue] at hrel
    omega
  case case7 x hx c hnq hbs e he hns hu =>
    have hq : (buf[x] == 34) = false := by simpa +zetaDelta using hnq
    have hb : (buf[x] == 92) = true := by simpa +zetaDelta using hbs
    have hu' : (e == 117) = false := by simpa using hu
    have hz := escTab_zero e (by simpa using hns)
    rw [decodeFrom]
    simp [hx, hq, hb, he, hu', hz, DecRes.view]
  case case8 x hx c hnq hbs hlt =>
    have hq : (buf[x] == 34) = false := by simpa +zetaDelta using hnq
    have hb : (buf[x] == 92) = false := by simpa +zetaDelta using hbs
    have hc : buf[x] ≤ 0x1f := (u8_lt32_iff _).mpr hlt
    rw [decodeFrom]
    simp [hx, hq, hb, hc, DecRes.view]
  case case9 x hx c hnq hbs hlt ih =>
    have hq : (buf[x] == 34) = false := by simpa +zetaDelta using hnq
    have hb : (buf[x] == 92) = false := by simpa +zetaDelta using hbs
    have hc : ¬ buf[x] ≤ 0x1f := fun h => hlt ((u8_lt32_iff _).mp h)
    rw [decodeFrom]
    simp only [hx, dite_true, hq, hb, Bool.false_eq_true, ite_false, hc]
    rw [← ih]
    cases decodeFrom lossy buf (x+1) <;> simp +zetaDelta [DecRes.view]
  case case10 x hx =>
    rw [decodeFrom]; simp [hx, DecRes.view]

end Sonic
