import SonicModel.Impl.Cache
namespace Sonic
namespace Cache

/-- status of an allocated object: published in the cell / owned by the thread that built it /
    lost the race and freed -/
def ObjSt (s : St) (o : Nat) : Prop :=
  (s.cell = some o ∧ s.refs o = 1 + (s.holders o).length ∧ s.frees o = 0) ∨
  ((∃ t, s.pc t = .built o) ∧ s.cell ≠ some o ∧ s.refs o = 1 ∧ s.frees o = 0 ∧ s.holders o = []) ∨
  (s.cell ≠ some o ∧ (∀ t, s.pc t ≠ .built o) ∧ s.refs o = 0 ∧ s.frees o = 1 ∧ s.holders o = [])

structure CInv (s : St) : Prop where
  cell_lt    : ∀ p, s.cell = some p → p < s.next
  done_eq    : ∀ t r, s.pc t = .done r → s.cell = some r
  built_lt   : ∀ t o, s.pc t = .built o → o < s.next
  built_uniq : ∀ t t' o, s.pc t = .built o → s.pc t' = .built o → t = t'
  built_own  : ∀ t o, s.pc t = .built o → s.cell ≠ some o ∧ s.refs o = 1 ∧ s.frees o = 0 ∧ s.holders o = []
  clone_ok   : ∀ t p, s.clone t = some p → t ∈ s.holders p ∧ s.cell = some p
  holders_ok : ∀ t p, t ∈ s.holders p → s.clone t = some p
  nodup      : ∀ p, (s.holders p).Nodup
  objs       : ∀ o, o < s.next → ObjSt s o
  fresh      : ∀ o, s.next ≤ o → s.refs o = 0 ∧ s.frees o = 0 ∧ s.holders o = []
  no_crash   : ∀ t, s.pc t ≠ .crashed

@[simp, grind =] theorem release_cell (s : St) (o : Nat) : (release s o).cell = s.cell := rfl
@[simp, grind =] theorem release_pc (s : St) (o : Nat) : (release s o).pc = s.pc := rfl
@[simp, grind =] theorem release_clone (s : St) (o : Nat) : (release s o).clone = s.clone := rfl
@[simp, grind =] theorem release_holders (s : St) (o : Nat) : (release s o).holders = s.holders := rfl
@[simp, grind =] theorem release_next (s : St) (o : Nat) : (release s o).next = s.next := rfl
@[grind =] theorem release_refs (s : St) (o x : Nat) : (release s o).refs x = if x = o then s.refs o - 1 else s.refs x := rfl
@[grind =] theorem release_frees (s : St) (o x : Nat) :
    (release s o).frees x = if s.refs o = 1 then (if x = o then s.frees o + 1 else s.frees x) else s.frees x := by
  unfold release; simp only; split <;> rfl

theorem inv_init : CInv init := by
  constructor <;> simp [init]

theorem inv_read (s : St) (t : Nat) (spur : Bool) (h : CInv s) : CInv (step true s t (.read spur)) := by
  obtain ⟨h1, h2, h3, h4, hb, h5, h6, h7, h8, h9, h10⟩ := h
  unfold step
  simp only
  cases hp : s.pc t with
  | idle =>
    cases hc : s.cell with
    | none => constructor <;> grind [ObjSt]
    | some p => constructor <;> grind [ObjSt]
  | loaded => constructor <;> grind [ObjSt]
  | built o =>
    cases hc : s.cell with
    | none => simp only [Bool.not_true, Bool.and_false, Bool.false_eq_true, ite_false]; constructor <;> grind [ObjSt]
    | some p =>
      simp only [release_cell, release_pc, release_clone, release_holders, release_next]
      constructor <;> (simp only [release_cell, release_pc, release_clone, release_holders, release_next]; grind [ObjSt])
  | done r => simp only [hp]; exact ⟨h1, h2, h3, h4, hb, h5, h6, h7, h8, h9, h10⟩
  | crashed => simp only [hp]; exact ⟨h1, h2, h3, h4, hb, h5, h6, h7, h8, h9, h10⟩

end Cache
end Sonic

namespace Sonic
namespace Cache

theorem inv_clone (s : St) (t : Nat) (h : CInv s) : CInv (step true s t .clone) := by
  obtain ⟨h1, h2, h3, h4, hb, h5, h6, h7, h8, h9, h10⟩ := h
  unfold step
  simp only
  cases hcl : s.clone t with
  | some q => exact ⟨h1, h2, h3, h4, hb, h5, h6, h7, h8, h9, h10⟩
  | none =>
    cases hc : s.cell with
    | none => exact ⟨h1, h2, h3, h4, hb, h5, h6, h7, h8, h9, h10⟩
    | some p =>
      have hnot : t ∉ s.holders p := by
        intro hm; have := h6 t p hm; rw [hcl] at this; cases this
      constructor <;> grind [ObjSt, List.mem_cons, List.nodup_cons, List.length_cons]

theorem inv_drop (s : St) (t : Nat) (h : CInv s) : CInv (step true s t .dropClone) := by
  obtain ⟨h1, h2, h3, h4, hb, h5, h6, h7, h8, h9, h10⟩ := h
  unfold step
  simp only
  cases hcl : s.clone t with
  | none => exact ⟨h1, h2, h3, h4, hb, h5, h6, h7, h8, h9, h10⟩
  | some p =>
    have hm := (h5 t p hcl).1
    have hcell := (h5 t p hcl).2
    have hlt := h1 p hcell
    have hlen : ((s.holders p).erase t).length + 1 = (s.holders p).length := by
      rw [List.length_erase_of_mem hm]
      have : 0 < (s.holders p).length := List.length_pos_of_mem hm
      omega
    have hnd := (h7 p).erase t
    have hmem : ∀ x, x ∈ (s.holders p).erase t ↔ x ≠ t ∧ x ∈ s.holders p := fun x => (h7 p).mem_erase_iff
    simp only [release_cell, release_pc, release_clone, release_holders, release_next]
    constructor <;> (simp only [release_cell, release_pc, release_clone, release_holders, release_next]; grind [ObjSt])

theorem inv_reset (s : St) (t : Nat) (h : CInv s) : CInv (step true s t .reset) := by
  obtain ⟨h1, h2, h3, h4, hb, h5, h6, h7, h8, h9, h10⟩ := h
  unfold step
  simp only
  cases hp : s.pc t with
  | done r => constructor <;> grind [ObjSt]
  | idle => exact ⟨h1, h2, h3, h4, hb, h5, h6, h7, h8, h9, h10⟩
  | loaded => exact ⟨h1, h2, h3, h4, hb, h5, h6, h7, h8, h9, h10⟩
  | built o => exact ⟨h1, h2, h3, h4, hb, h5, h6, h7, h8, h9, h10⟩
  | crashed => exact ⟨h1, h2, h3, h4, hb, h5, h6, h7, h8, h9, h10⟩

theorem inv_step (s : St) (t : Nat) (a : Act) (h : CInv s) : CInv (step true s t a) := by
  cases a with
  | read spur => exact inv_read s t spur h
  | clone => exact inv_clone s t h
  | dropClone => exact inv_drop s t h
  | reset => exact inv_reset s t h

/-- the invariant holds in every reachable state of the repaired protocol: any number of
    threads, any schedule, any sequence of reads / clones / drops of clones -/
theorem inv_reachable (sched : List (Nat × Act)) : CInv (run true init sched) := by
  unfold run
  suffices ∀ s, CInv s → CInv (sched.foldl (fun s a => step true s a.1 a.2) s) from this _ inv_init
  induction sched with
  | nil => intro s h; exact h
  | cons a as ih => intro s h; exact ih _ (inv_step s a.1 a.2 h)

end Cache
end Sonic
