import SonicModel.Lemmas.DomValProof
namespace Sonic
namespace Spec

theorem getFirst_of_mem_nodup (ms : List (List UInt8 × DJ)) (hn : (ms.map Prod.fst).Nodup) (k : List UInt8) (v : DJ)
    (h : (k, v) ∈ ms) : getFirst k ms = some v := by
  induction ms with
  | nil => simp at h
  | cons m r ih =>
    obtain ⟨k', v'⟩ := m
    simp only [List.map_cons, List.nodup_cons] at hn
    simp only [getFirst]
    split
    · rename_i e
      subst e
      rcases List.mem_cons.mp h with h | h
      · simp at h; rw [h]
      · exfalso; exact hn.1 (List.mem_map_of_mem (f := Prod.fst) h)
    · rename_i e
      rcases List.mem_cons.mp h with h | h
      · simp at h; exact absurd h.1.symm e
      · exact ih hn.2 h

theorem depthM_le_of_mem (ms : List (List UInt8 × DJ)) (p : List UInt8 × DJ) (h : p ∈ ms) : p.2.depth ≤ DJ.depthM ms := by
  induction ms with
  | nil => simp at h
  | cons m r ih =>
    obtain ⟨k', v'⟩ := m
    rcases List.mem_cons.mp h with rfl | h
    · simp [DJ.depthM]; omega
    · have := ih h; simp [DJ.depthM]; omega

/-- **DOM equality does not depend on the member order**: two objects with the same members in any
    order (keys not duplicated) are equal -/
theorem obj_eq_of_perm (ms ns : List (List UInt8 × DJ)) (hp : ms.Perm ns) (hn : (ms.map Prod.fst).Nodup) :
    (DJ.obj ms).eq (DJ.obj ns) = true := by
  have hn2 : (ns.map Prod.fst).Nodup := (hp.map Prod.fst).nodup_iff.mp hn
  unfold DJ.eq
  -- the fuel is at least depthM ms + 1
  have hfuel : ∃ f, max (DJ.obj ms).depth (DJ.obj ns).depth = f + 1 ∧ DJ.depthM ms ≤ f := by
    refine ⟨max (DJ.obj ms).depth (DJ.obj ns).depth - 1, ?_, ?_⟩ <;> simp [DJ.depth] <;> omega
  obtain ⟨f, hf, hd⟩ := hfuel
  rw [hf]
  simp only [eqv, Bool.and_eq_true, beq_iff_eq]
  refine ⟨⟨hp.length_eq, ?_⟩, ?_⟩
  · rw [eqvKeys_iff]
    intro p hpm
    have h1 := getFirst_of_mem_nodup ms hn p.1 p.2 hpm
    have h2 := getFirst_of_mem_nodup ns hn2 p.1 p.2 (hp.mem_iff.mp hpm)
    rw [h1, h2]
    simp only [cmpKey]
    exact eqv_refl f p.2 (Nat.le_trans (depthM_le_of_mem ms p hpm) hd)
  · simp only [keysIn, List.all_eq_true]
    intro p hpn
    have := getFirst_of_mem_nodup ms hn p.1 p.2 (hp.mem_iff.mpr hpn)
    simp [this]

end Spec
end Sonic
