import SonicModel.Lemmas.StrSkipLoop
import SonicModel.Lemmas.ScanGrammar
namespace Sonic
namespace StrSkip
open Simd Spec

/-! ### on a well-formed string literal the scalar string scan stops just after the closing quote -/

theorem drop_step (buf : Buf) (i : Nat) (h : i < buf.size) :
    buf.toList.drop i = buf[i] :: buf.toList.drop (i + 1) := by
  rw [List.drop_eq_getElem_cons (by simpa using h)]
  simp

theorem strScan_plain (b : UInt8) (rest : List UInt8) (h1 : b ≠ 34) (h2 : b ≠ 92) :
    strScan (b :: rest) false = (strScan rest false).map (· + 1) := by
  have e1 : (b == 34) = false := by simpa using h1
  have e2 : (b == 92) = false := by simpa using h2
  simp [strScan, e1, e2]

theorem strScan_run (buf : Buf) : ∀ (n i : Nat), i + n ≤ buf.size →
    (∀ k (hk : k < buf.size), i ≤ k → k < i + n → buf[k] ≠ 34 ∧ buf[k] ≠ 92) →
    strScan (buf.toList.drop i) false = (strScan (buf.toList.drop (i + n)) false).map (· + n) := by
  intro n
  induction n with
  | zero => intro i _ _; simp
  | succ n ih =>
    intro i h1 hp
    have hb : i < buf.size := by omega
    have hc := hp i hb (Nat.le_refl _) (by omega)
    rw [drop_step buf i hb, strScan_plain _ _ hc.1 hc.2,
      ih (i + 1) (by omega) (fun k hk a b => hp k hk (by omega) (by omega)),
      show i + 1 + n = i + (n + 1) by omega]
    cases strScan (buf.toList.drop (i + (n + 1))) false <;> simp <;> omega

theorem stringG_strScan (buf : Buf) : ∀ (n i e : Nat), buf.size - i = n → stringG buf i = some e →
    strScan (buf.toList.drop i) false = some (e - i) := by
  intro n
  induction n using Nat.strongRecOn with
  | _ n ih =>
    intro i e hn h
    rw [stringG] at h
    by_cases hlt : i < buf.size
    · simp only [hlt, dite_true] at h
      rw [drop_step buf i hlt]
      by_cases hq : (buf[i] == 34) = true
      · simp only [hq, if_true, Option.some.injEq] at h
        subst h
        simp [strScan, hq]
      · simp only [hq, Bool.false_eq_true, if_false] at h
        have h34 : buf[i] ≠ 34 := by simpa using hq
        by_cases hbs : (buf[i] == 92) = true
        · simp only [hbs, if_true] at h
          cases h1 : buf[i+1]? with
          | none => simp [h1] at h
          | some c =>
            simp only [h1] at h
            have hs1 := Array.getElem?_eq_some_iff.mp h1
            have hlt1 : i + 1 < buf.size := hs1.1
            rw [drop_step buf (i + 1) hlt1]
            have hstep : ∀ rest : List UInt8,
                strScan (buf[i] :: buf[i+1] :: rest) false = ((strScan rest false).map (· + 1)).map (· + 1) := by
              intro rest
              simp [strScan, hq, hbs]
            rw [hstep]
            by_cases hse : isSimpleEsc c = true
            · simp only [hse, if_true] at h
              have hee : i + 2 ≤ e := by
                have := stringG_ge buf (i+2) e h; omega
              rw [ih (buf.size - (i+2)) (by omega) (i+2) e rfl h]
              simp only [Option.map_some, Option.some.injEq]; omega
            · simp only [hse, Bool.false_eq_true, if_false] at h
              by_cases hu : (c == 117) = true
              · simp only [hu, if_true] at h
                by_cases hx : hex4ok buf (i+2) = true
                · simp only [hx, if_true] at h
                  obtain ⟨hx4, hxp⟩ := hex4ok_bytes buf (i+2) hx
                  have hee : i + 6 ≤ e := by
                    have := stringG_ge buf (i+6) e h; omega
                  rw [strScan_run buf 4 (i + 1 + 1) (by omega) (fun k hkk a b => hxp k hkk (by omega) (by omega)),
                    show i + 1 + 1 + 4 = i + 6 by omega,
                    ih (buf.size - (i+6)) (by omega) (i+6) e rfl h]
                  simp only [Option.map_some, Option.some.injEq]; omega
                · simp [hx] at h
              · simp [hu] at h
        · simp only [hbs, Bool.false_eq_true, if_false] at h
          by_cases hctl : buf[i] < 32
          · simp [hctl] at h
          · simp only [hctl, if_false] at h
            have h92 : buf[i] ≠ 92 := by simpa using hbs
            have hee : i + 1 ≤ e := by
              have := stringG_ge buf (i+1) e h; omega
            rw [strScan_plain _ _ h34 h92, ih (buf.size - (i+1)) (by omega) (i+1) e rfl h]
            simp only [Option.map_some, Option.some.injEq]; omega
    · simp [hlt] at h

end StrSkip
end Sonic
