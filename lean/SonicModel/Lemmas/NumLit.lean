import SonicModel.Lemmas.NumProof
import SonicModel.Lemmas.LitProof
namespace Sonic
open Impl Spec

/-! ### values of digit strings -/

theorem digitsOf_append (a b : List UInt8) (acc : Nat) : digitsOf (a ++ b) acc = digitsOf b (digitsOf a acc) := by
  simp [digitsOf, List.foldl_append]

theorem digitsOf_acc : ∀ (b : List UInt8) (acc : Nat), digitsOf b acc = acc * 10 ^ b.length + digitsOf b 0 := by
  intro b
  induction b with
  | nil => intro acc; simp [digitsOf]
  | cons d b ih =>
    intro acc
    have h1 := ih (acc * 10 + (d.toNat - 48))
    have h2 := ih (0 * 10 + (d.toNat - 48))
    simp only [digitsOf, List.foldl_cons, List.length_cons] at h1 h2 ⊢
    rw [h1, h2, Nat.pow_succ]
    simp only [Nat.zero_mul, Nat.zero_add, Nat.add_mul]
    rw [Nat.mul_assoc, Nat.mul_comm 10]
    omega

theorem digit_le9 (d : UInt8) (h : isDigit d = true) : d.toNat - 48 ≤ 9 := by
  unfold isDigit at h
  simp only [Bool.and_eq_true, decide_eq_true_eq] at h
  have h1 := UInt8.le_iff_toNat_le.mp h.2
  simp at h1; omega

theorem digitsOf_lt : ∀ (b : List UInt8), allDigits b → digitsOf b 0 < 10 ^ b.length := by
  intro b
  induction b with
  | nil => intro _; simp [digitsOf]
  | cons d b ih =>
    intro h
    have hd := digit_le9 d (h d (by simp))
    have hb := ih (fun x hx => h x (by simp [hx]))
    have := digitsOf_acc b (0 * 10 + (d.toNat - 48))
    simp only [digitsOf, List.foldl_cons, List.length_cons] at this ⊢
    rw [this, Nat.pow_succ]
    simp only [Nat.zero_mul, Nat.zero_add]
    have hpos : 0 < 10 ^ b.length := Nat.pow_pos (by decide)
    calc (d.toNat - 48) * 10 ^ b.length + List.foldl (fun a d => a * 10 + (d.toNat - 48)) 0 b
        < (d.toNat - 48) * 10 ^ b.length + 10 ^ b.length := by
          have : List.foldl (fun a d => a * 10 + (d.toNat - 48)) 0 b < 10 ^ b.length := hb
          omega
      _ = (d.toNat - 48 + 1) * 10 ^ b.length := by rw [Nat.add_mul]; simp
      _ ≤ 10 * 10 ^ b.length := Nat.mul_le_mul_right _ (by omega)
      _ = 10 ^ b.length * 10 := Nat.mul_comm _ _

theorem digitsOf_ge (c : UInt8) (b : List UInt8) (hc : isDigit c = true) (h48 : c ≠ 48) :
    10 ^ b.length ≤ digitsOf (c :: b) 0 := by
  have := digitsOf_acc b (0 * 10 + (c.toNat - 48))
  simp only [digitsOf, List.foldl_cons] at this ⊢
  rw [this]
  have h1 : 1 ≤ c.toNat - 48 := by
    unfold isDigit at hc
    simp only [Bool.and_eq_true, decide_eq_true_eq] at hc
    have h1 := UInt8.le_iff_toNat_le.mp hc.1
    have h2 : c.toNat ≠ 48 := by
      intro h; apply h48; exact UInt8.toNat_inj.mp (by simpa using h)
    simp at h1; omega
  simp only [Nat.zero_mul, Nat.zero_add]
  calc 10 ^ b.length = 1 * 10 ^ b.length := by simp
    _ ≤ (c.toNat - 48) * 10 ^ b.length := Nat.mul_le_mul_right _ h1
    _ ≤ _ := Nat.le_add_right _ _

/-- the wrapping 64-bit accumulation over a digit run that stands in the buffer -/
theorem wrapDigits_run (ds A R : List UInt8) (h : digitsOf ds 0 < 2 ^ 64) :
    wrapDigits (A ++ (ds ++ R)).toArray A.length (A.length + ds.length) 0 = digitsOf ds 0 := by
  have hv := digitsVal_run ds A R 0
  rw [wrapDigits_eq _ _ _ _ (by rw [hv]; exact h), hv]


/-! ### integer literals through the digit machine -/

/-- what may follow a literal without fraction and exponent: not a digit, `.`, `e`, `E` -/
def EndsInt (R : List UInt8) : Prop :=
  (∀ c, R.head? = some c → isDigit c = false) ∧ R.head? ≠ some 46 ∧ R.head? ≠ some 101 ∧ R.head? ≠ some 69

theorem endsInt_of_delim (R : List UInt8) (h : isDelim R.head?) : EndsInt R := delim_facts _ h

/-- `0` / `-0` -/
theorem int_zero (A R : List UInt8) (hR : EndsInt R) (bound : Nat) (neg : Bool) :
    parseNumber (A ++ ([48] ++ R)).toArray bound A.length neg =
      (if neg then .zero true else .unsigned 0, A.length + 1) := by
  have h0 : (A ++ ([48] ++ R)).toArray[A.length]? = some 48 := by rw [get_at0]; rfl
  have h1 : (A ++ ([48] ++ R)).toArray[A.length + 1]? = R.head? := by
    rw [get_at]; simp [List.head?_eq_getElem?]
  unfold parseNumber
  rw [if_pos h0]
  simp only [h1]
  obtain ⟨_, h46, h101, h69⟩ := hR
  cases hh : R.head? with
  | none => rfl
  | some x =>
    rw [hh] at h46 h101 h69
    have a : x ≠ 46 := fun e => h46 (by rw [e])
    have b : x ≠ 101 := fun e => h101 (by rw [e])
    have c : x ≠ 69 := fun e => h69 (by rw [e])
    split
    · rename_i heq; simp at heq; exact absurd heq a
    · rename_i heq; simp at heq; exact absurd heq b
    · rename_i heq; simp at heq; exact absurd heq c
    · rfl


/-- the classification the digit machine gives to an integer literal with digits `I` (no leading zero) -/
def intResult (neg : Bool) (I : List UInt8) : PNum :=
  let v := digitsOf I 0
  if I.length ≤ 19 then
    (if neg then (if v > 2^63 then .negIntAsFloat v else .signed (-(v : Int))) else .unsigned v)
  else if I.length = 20 ∧ v < 2^64 then (if neg then .negIntAsFloat v else .unsigned v)
  else .toFloat neg (digitsOf (I.take 19) 0) ((I.length - 19 : Nat) : Int) true

theorem int_nonzero (A R : List UInt8) (c : UInt8) (I' : List UInt8) (hc : isDigit c = true) (h48 : c ≠ 48)
    (hI' : allDigits I') (hR : EndsInt R) (bound : Nat) (neg : Bool) :
    parseNumber (A ++ (c :: I' ++ R)).toArray bound A.length neg =
      (intResult neg (c :: I'), A.length + (I'.length + 1)) := by
  have hI : allDigits (c :: I') := by
    intro x hx; simp only [List.mem_cons] at hx; rcases hx with rfl | hx; exact hc; exact hI' x hx
  obtain ⟨hRd, h46, h101, h69⟩ := hR
  have h0 : (A ++ (c :: I' ++ R)).toArray[A.length]? = some c := by rw [get_at0]; rfl
  have hb0 : ¬ ((A ++ (c :: I' ++ R)).toArray[A.length]? = some 48) := by
    rw [h0]; simpa using h48
  have hsk : skipDigits (A ++ (c :: I' ++ R)).toArray A.length = A.length + (I'.length + 1) :=
    skipDigits_run (c :: I') A R hI hRd
  have hre : A ++ (c :: I' ++ R) = (A ++ c :: I') ++ R := by simp
  have hlen : (A ++ c :: I').length = A.length + (I'.length + 1) := by simp
  have hnext : (A ++ (c :: I' ++ R)).toArray[A.length + (I'.length + 1)]? = R.head? := by
    rw [hre, ← hlen, get_at0]
  have hn101 : ¬ ((A ++ (c :: I' ++ R)).toArray[A.length + (I'.length + 1)]? = some 101) := by rw [hnext]; exact h101
  have hn69 : ¬ ((A ++ (c :: I' ++ R)).toArray[A.length + (I'.length + 1)]? = some 69) := by rw [hnext]; exact h69
  have hn46 : ¬ ((A ++ (c :: I' ++ R)).toArray[A.length + (I'.length + 1)]? = some 46) := by rw [hnext]; exact h46
  have hcnt : A.length + (I'.length + 1) - A.length = I'.length + 1 := by omega
  unfold parseNumber
  rw [if_neg hb0]
  simp only [hsk, hcnt, hn101, hn69, hn46, decide_false, Bool.or_self, Bool.false_eq_true, if_false]
  have hc0 : ((I'.length + 1 == 0) = true) = False := by simp
  simp only [hc0, if_false]
  by_cases h19 : I'.length + 1 ≤ 19
  · -- up to 19 digits: the accumulation is exact
    have hng : ¬ (I'.length + 1 > 19) := by omega
    have hv : digitsOf (c :: I') 0 < 2 ^ 64 := by
      have := digitsOf_lt (c :: I') hI
      have hp : (10:Nat) ^ (c :: I').length ≤ 10 ^ 19 := Nat.pow_le_pow_right (by decide) (by simpa using h19)
      have : (10:Nat)^19 < 2^64 := by decide
      omega
    have hw := wrapDigits_run (c :: I') A R hv
    simp only [List.length_cons] at hw
    simp only [hng, if_false, hw, intResult, List.length_cons, h19, if_true]
    cases neg <;> simp
  · -- more than 19 digits: the first 19 exactly, one power of ten per further digit
    have hg : I'.length + 1 > 19 := by omega
    have hsplit : c :: I' = (c :: I').take 19 ++ (c :: I').drop 19 := (List.take_append_drop 19 _).symm
    have htl : ((c :: I').take 19).length = 19 := by simp; omega
    have hP : digitsOf ((c :: I').take 19) 0 < 2 ^ 64 := by
      have := digitsOf_lt ((c :: I').take 19) (fun x hx => hI x (List.mem_of_mem_take hx))
      rw [htl] at this
      have : (10:Nat)^19 < 2^64 := by decide
      omega
    have hbuf : A ++ (c :: I' ++ R) = A ++ ((c :: I').take 19 ++ ((c :: I').drop 19 ++ R)) := by
      rw [← List.append_assoc ((c :: I').take 19), ← hsplit]
    have hw := wrapDigits_run ((c :: I').take 19) A ((c :: I').drop 19 ++ R) hP
    rw [← hbuf, htl] at hw
    simp only [hg, if_true, hw]
    have hz : ((((I'.length + 1 - 19 : Nat) : Int) == 0) = true) = False := by
      simp only [beq_iff_eq, eq_iff_iff, iff_false]; omega
    simp only [hz, if_false]
    by_cases h20 : I'.length + 1 = 20
    · -- twenty digits: the last digit is added back when the result still fits
      have hone : ((((I'.length + 1 - 19 : Nat) : Int) == 1) = true) = True := by
        simp only [beq_iff_eq, eq_iff_iff, iff_true]; omega
      simp only [hone, if_true]
      have hdl : ((c :: I').drop 19).length = 1 := by simp; omega
      obtain ⟨x, hx⟩ : ∃ x, (c :: I').drop 19 = [x] := by
        match h : (c :: I').drop 19, hdl with
        | [x], _ => exact ⟨x, rfl⟩
      have hlast : dig (A ++ (c :: I' ++ R)).toArray (A.length + (I'.length + 1) - 1) = x.toNat - 48 := by
        have hre2 : A ++ (c :: I' ++ R) = (A ++ (c :: I').take 19) ++ ([x] ++ R) := by
          rw [hbuf, hx]; simp
        have hl2 : (A ++ (c :: I').take 19).length = A.length + (I'.length + 1) - 1 := by
          rw [List.length_append, htl]; omega
        unfold dig
        rw [hre2, ← hl2, get_at0]
        simp
      have hval : digitsOf (c :: I') 0 = digitsOf ((c :: I').take 19) 0 * 10 + (x.toNat - 48) := by
        conv => lhs; rw [hsplit, hx, digitsOf_append]
        simp [digitsOf]
      rw [hlast, ← hval]
      have hlen20 : (c :: I').length = 20 := by simpa using h20
      simp only [intResult, hlen20]
      by_cases hfit : digitsOf (c :: I') 0 < 2 ^ 64
      · simp [hfit]
      · simp [hfit]; omega
    · have hone : ((((I'.length + 1 - 19 : Nat) : Int) == 1) = true) = False := by
        simp only [beq_iff_eq, eq_iff_iff, iff_false]; omega
      simp only [hone, if_false, intResult, List.length_cons]
      have : ¬ (I'.length + 1 ≤ 19) := h19
      simp [this, h20]


/-- the digit machine on an integer literal standing in a text -/
theorem int_literal (l : Lit) (hw : l.WF) (hf : l.frac = none) (he : l.exp = none) (pre suf : List UInt8)
    (hs : EndsInt suf) (bound : Nat) :
    parseNumber (pre ++ l.render ++ suf).toArray bound (pre.length + l.signPart.length) l.neg =
      (if l.int = [48] then (if l.neg then .zero true else .unsigned 0) else intResult l.neg l.int,
       pre.length + l.render.length) := by
  obtain ⟨hne, hI, hzero, _, _⟩ := id hw
  have hr : pre ++ l.render ++ suf = (pre ++ l.signPart) ++ (l.int ++ suf) := by
    simp [Lit.render, Lit.fracPart, Lit.expPart, hf, he]
  have hl : pre.length + l.render.length = (pre ++ l.signPart).length + l.int.length := by
    simp [Lit.render, Lit.fracPart, Lit.expPart, hf, he]; omega
  have hl0 : pre.length + l.signPart.length = (pre ++ l.signPart).length := by simp
  rw [hr, hl, hl0]
  cases hint : l.int with
  | nil => exact absurd hint hne
  | cons c I' =>
    have hc : isDigit c = true := hI c (by simp [hint])
    have hI' : allDigits I' := fun x hx => hI x (by simp [hint, hx])
    by_cases h48 : c = 48
    · have : l.int.length = 1 := hzero (by simp [hint, h48])
      have hnil : I' = [] := by rw [hint] at this; simpa using this
      subst h48; subst hnil
      simp only [if_true, List.length_cons, List.length_nil]
      exact int_zero (pre ++ l.signPart) suf hs bound l.neg
    · have hne1 : ¬ (c :: I' = [48]) := by
        intro h; injection h with h1 _; exact h48 h1
      simp only [hne1, if_false, List.length_cons]
      exact int_nonzero (pre ++ l.signPart) suf c I' hc h48 hI' hs bound l.neg

/-- the value of an integer literal -/
theorem int_mant (l : Lit) (hf : l.frac = none) : l.mant = digitsOf l.int 0 := by
  simp [Lit.mant, hf, digitsOf]

end Sonic
