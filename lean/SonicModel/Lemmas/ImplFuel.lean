import SonicModel.Lemmas.SkipMain
import SonicModel.Lemmas.SpecFuel
namespace Sonic
open Gen Impl

theorem erase_ne_fuel_of_ofOpt {r : IRes} {o : Option Nat} (h : r.erase = Res.ofOpt o) : r ≠ .fuel := by
  intro hf; subst hf; cases o <;> simp at h

theorem skipString_ne_fuel (buf : Buf) (i : Nat) : skipString buf buf.size i ≠ .fuel :=
  erase_ne_fuel_of_ofOpt (skipString_refines buf i)

theorem parseLiteral_ne_fuel (buf : Buf) (i : Nat) (l : List UInt8) : parseLiteral buf i l ≠ .fuel := by
  unfold parseLiteral; split <;> (try split) <;> simp

theorem parseObjectClo_ne_fuel (buf : Buf) (i : Nat) : parseObjectClo buf i ≠ .fuel := by
  intro h
  have := parseObjectClo_spec buf i
  rw [h] at this
  split at this <;> simp at this

theorem skipSingleDigit_ne_fuel (buf : Buf) (i : Nat) : skipSingleDigit buf i ≠ .fuel := by
  unfold skipSingleDigit; split <;> (try split) <;> simp

theorem skipExponent_ne_fuel (buf : Buf) (i : Nat) : skipExponent buf i ≠ .fuel := by
  unfold skipExponent
  have := skipSingleDigit_ne_fuel buf
  grind

theorem numTail_ne_fuel (buf : Buf) (i : Nat) (b : Bool) : numTail buf i b ≠ .fuel := by
  unfold numTail
  have := skipSingleDigit_ne_fuel buf
  have := skipExponent_ne_fuel buf
  grind

theorem numAfterFirst_ne_fuel (buf : Buf) (c : UInt8) (i : Nat) : numAfterFirst buf c i ≠ .fuel := by
  unfold numAfterFirst
  have := skipSingleDigit_ne_fuel buf
  have := skipExponent_ne_fuel buf
  have := numTail_ne_fuel buf
  grind

theorem doSkipNumber_ne_fuel (buf : Buf) (c : UInt8) (i : Nat) : doSkipNumber buf c i ≠ .fuel := by
  unfold doSkipNumber
  have := skipSingleDigit_ne_fuel buf
  have := numAfterFirst_ne_fuel buf
  grind

/-- progress of the implementation model, through the refinement -/
theorem skipOne_progress (buf : Buf) (f i e : Nat) (h : skipOne buf.size f buf i = .ok e) :
    skipWs buf i < e ∧ skipWs buf i < buf.size := by
  obtain ⟨g, hg⟩ := (skip_refine buf f i).1 (by simp [h])
  rw [h] at hg
  exact (Spec.progress false buf g _ e).1 hg

theorem skipString_progress (buf : Buf) (i k : Nat) (h : skipString buf buf.size i = .ok k) :
    i < k ∧ i < buf.size := by
  have := skipString_refines buf i
  rw [h] at this
  cases hs : Spec.stringG buf i with
  | none => simp [hs] at this
  | some k' => simp [hs] at this; subst this; exact Spec.stringG_progress buf i k hs

theorem parseObjectClo_progress (buf : Buf) (k v : Nat) (h : parseObjectClo buf k = .ok v) : k < v := by
  have := parseObjectClo_spec buf k
  rw [h] at this
  have hws := skipWs_ge buf k
  split at this
  · simp at this; omega
  · simp at this

theorem skipSpace_some (buf : Buf) (i : Nat) (c : UInt8) (j : Nat) (h : skipSpace buf i = some (c, j)) :
    j = skipWs buf i + 1 ∧ skipWs buf i < buf.size := by
  unfold skipSpace at h
  simp only at h
  split at h
  · simp at h; omega
  · simp at h

/-- `3·(remaining bytes) + c` fuel always suffices for the skip machinery -/
theorem skip_enough (buf : Buf) : ∀ f i,
    (3 * (buf.size - i) + 1 ≤ f → skipOne buf.size f buf i ≠ .fuel) ∧
    (3 * (buf.size - i) + 3 ≤ f → skipArray buf.size f buf i ≠ .fuel) ∧
    (3 * (buf.size - i) + 2 ≤ f → skipArrayLoop buf.size f buf i ≠ .fuel) ∧
    (3 * (buf.size - i) + 3 ≤ f → skipObject buf.size f buf i ≠ .fuel) ∧
    (3 * (buf.size - i) + 2 ≤ f → skipObjectLoop buf.size f buf i ≠ .fuel) := by
  intro f
  induction f with
  | zero => intro i; refine ⟨?_, ?_, ?_, ?_, ?_⟩ <;> (intro h; omega)
  | succ f ih =>
    intro i
    have ih1 := fun j => (ih j).1
    have ih2 := fun j => (ih j).2.1
    have ih3 := fun j => (ih j).2.2.1
    have ih4 := fun j => (ih j).2.2.2.1
    have ih5 := fun j => (ih j).2.2.2.2
    clear ih
    have hws := skipWs_ge buf i
    refine ⟨?_, ?_, ?_, ?_, ?_⟩
    · intro hf h
      unfold skipOne at h
      cases hs : skipSpace buf i with
      | none => simp [hs] at h
      | some cj =>
        obtain ⟨c, j⟩ := cj
        obtain ⟨hj, hp⟩ := skipSpace_some buf i c j hs
        simp only [hs] at h
        split at h
        · exact doSkipNumber_ne_fuel _ _ _ h
        · split at h
          · exact skipString_ne_fuel _ _ h
          · split at h
            · exact ih4 j (by omega) h
            · split at h
              · exact ih2 j (by omega) h
              · split at h
                · exact parseLiteral_ne_fuel _ _ _ h
                · split at h
                  · exact parseLiteral_ne_fuel _ _ _ h
                  · split at h
                    · exact parseLiteral_ne_fuel _ _ _ h
                    · simp at h
    · intro hf h
      unfold skipArray at h
      cases hs : skipSpace buf i with
      | none => simp [hs] at h
      | some cj =>
        obtain ⟨c, j⟩ := cj
        obtain ⟨hj, hp⟩ := skipSpace_some buf i c j hs
        simp only [hs] at h
        split at h
        · simp at h
        · exact ih3 (j-1) (by omega) h
    · intro hf h
      unfold skipArrayLoop at h
      cases ho : skipOne buf.size f buf i with
      | fuel => exact ih1 i (by omega) ho
      | err c p => simp [ho] at h
      | ok e =>
        simp only [ho] at h
        have pe := skipOne_progress buf f i e ho
        cases hs : skipSpace buf e with
        | none => simp [hs] at h
        | some cj =>
          obtain ⟨c, j⟩ := cj
          obtain ⟨hj, hp⟩ := skipSpace_some buf e c j hs
          have := skipWs_ge buf e
          simp only [hs] at h
          split at h
          · simp at h
          · split at h
            · exact ih3 j (by omega) h
            · simp at h
    · intro hf h
      unfold skipObject at h
      cases hs : skipSpace buf i with
      | none => simp [hs] at h
      | some cj =>
        obtain ⟨c, j⟩ := cj
        obtain ⟨hj, hp⟩ := skipSpace_some buf i c j hs
        simp only [hs] at h
        split at h
        · simp at h
        · split at h
          · exact ih5 j (by omega) h
          · simp at h
    · intro hf h
      unfold skipObjectLoop at h
      cases hstr : skipString buf buf.size i with
      | fuel => exact skipString_ne_fuel _ _ hstr
      | err c p => simp [hstr] at h
      | ok k =>
        simp only [hstr] at h
        have pk := skipString_progress buf i k hstr
        cases hc : parseObjectClo buf k with
        | fuel => exact parseObjectClo_ne_fuel _ _ hc
        | err c p => simp [hc] at h
        | ok v =>
          simp only [hc] at h
          have pv := parseObjectClo_progress buf k v hc
          cases ho : skipOne buf.size f buf v with
          | fuel => exact ih1 v (by omega) ho
          | err c p => simp [ho] at h
          | ok e =>
            simp only [ho] at h
            have pe := skipOne_progress buf f v e ho
            have := skipWs_ge buf v
            cases hs : skipSpace buf e with
            | none => simp [hs] at h
            | some cj =>
              obtain ⟨c, j⟩ := cj
              obtain ⟨hj, hp⟩ := skipSpace_some buf e c j hs
              have := skipWs_ge buf e
              simp only [hs] at h
              split at h
              · simp at h
              · split at h
                · cases hs2 : skipSpace buf j with
                  | none => simp [hs2] at h
                  | some cj2 =>
                    obtain ⟨c2, j2⟩ := cj2
                    obtain ⟨hj2, hp2⟩ := skipSpace_some buf j c2 j2 hs2
                    have := skipWs_ge buf j
                    simp only [hs2] at h
                    split at h
                    · exact ih5 j2 (by omega) h
                    · simp at h
                · simp at h

theorem skipOne_fuelFor_ne_fuel (buf : Buf) (i : Nat) : skipOne buf.size (fuelFor buf) buf i ≠ .fuel :=
  (skip_enough buf (fuelFor buf) i).1 (by unfold fuelFor; omega)

/-- **the headline equation**: at canonical fuel the validate-and-skip recogniser *is* the
    RFC 8259 recogniser, for every buffer and every start index -/
theorem skipOne_eq_value (buf : Buf) (i : Nat) :
    (skipOne buf.size (fuelFor buf) buf i).erase = Spec.value false (Spec.fuelFor buf) buf (skipWs buf i) := by
  have hne := skipOne_fuelFor_ne_fuel buf i
  obtain ⟨g, hg⟩ := (skip_refine buf (fuelFor buf) i).1 hne
  have hr : (skipOne buf.size (fuelFor buf) buf i).erase ≠ .fuel := by
    cases h : skipOne buf.size (fuelFor buf) buf i <;> simp_all
  exact (Spec.value_canonical false buf g _ _ hg hr).symm

end Sonic
