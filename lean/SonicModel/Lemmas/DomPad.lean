import SonicModel.Lemmas.GrammarPad
import SonicModel.Lemmas.DomSound
import SonicModel.Lemmas.StrInplaceProof
import SonicModel.Impl.DomPadded
/-
  `from_slice::<Value>` as the code composes it — the decoding parser runs on the PADDED copy of the text, a value that ends
  behind the text is an EOF error (`n > len`), then only blanks may follow up to the end of the text — accepts only strictly
  well-formed text.
-/
namespace Sonic
namespace DomP
open Gen Spec Impl

theorem pad_not_digit (t : Buf) (e : Nat) (he : e ≤ t.size) (hws : skipWs t e = t.size) : isDigitAt (StrIn.pad t) e = false := by
  have hpad : StrIn.pad t = t ++ StrIn.padTail := rfl
  by_cases hlt : e < t.size
  · rw [hpad, GrammarPad.isDigitAt_pre t StrIn.padTail e hlt]
    cases hd : isDigitAt t e with
    | false => rfl
    | true =>
      have := skipWs_digit t e hd
      omega
  · have : e = t.size := by omega
    subst this
    unfold isDigitAt
    rw [(StrIn.padded_pad t).x0]
    decide

/-- **whatever the whole-input parse accepts is strictly well-formed TEXT** -/
theorem fromSlicePadded_sound (t : Buf) (tr : Json) (h : fromSlicePadded t = some tr) :
    ∃ s e, Spec.document true t = some (s, e) := by
  have hpad : StrIn.pad t = t ++ StrIn.padTail := rfl
  unfold fromSlicePadded DomP.value at h
  rw [skipSpace_spec] at h
  cases hb : (StrIn.pad t)[skipWs (StrIn.pad t) 0]? with
  | none =>
    rw [hb] at h
    simp only [Option.map_none] at h
    cases hd : dispatch (Spec.fuelFor (StrIn.pad t)) (StrIn.pad t) none with
    | ok t' e' => exact absurd hd (dispatch_none _ _ t' e')
    | err c p => rw [hd] at h; cases h
    | fuel => rw [hd] at h; cases h
  | some c =>
    rw [hb] at h
    simp only [Option.map_some] at h
    cases hd : dispatch (Spec.fuelFor (StrIn.pad t)) (StrIn.pad t) (some (c, skipWs (StrIn.pad t) 0 + 1)) with
    | err c' p' => rw [hd] at h; cases h
    | fuel => rw [hd] at h; cases h
    | ok t' e =>
      rw [hd] at h
      simp only at h
      split at h
      · rename_i hcond
        obtain ⟨hle, hws⟩ := hcond
        have hnd := pad_not_digit t e hle hws
        have hv := (strict_of_parse (StrIn.pad t) (Spec.fuelFor (StrIn.pad t))).1 _ c t' e hb hd hnd
        have hw := ((progress true (StrIn.pad t) _ _ e).1 hv).1
        rw [hpad] at hv hw
        have hv1 := (GrammarPad.value_prefix true t StrIn.padTail _).1 _ e hv hle
        have hs0 : skipWs t 0 = skipWs (t ++ StrIn.padTail) 0 := GrammarPad.skipWs_prefix t StrIn.padTail _ 0 rfl (by omega)
        have hv2 := Spec.value_canonical true t _ _ _ hv1 (by simp)
        refine ⟨skipWs t 0, e, ?_⟩
        unfold Spec.document
        simp only [hs0, hv2, hws, if_true]
      · cases h

theorem padTail_term : GrammarPad.Term StrIn.padTail := by
  intro c hc
  rw [StrIn.padTail_0] at hc
  have : c = 120 := (Option.some.inj hc).symm
  subst this
  decide

/-- **every strictly well-formed text is accepted by the whole-input parse as composed** -/
theorem fromSlicePadded_complete (t : Buf) (s0 e : Nat) (h : Spec.document true t = some (s0, e)) :
    (fromSlicePadded t).isSome = true := by
  have hpad : StrIn.pad t = t ++ StrIn.padTail := rfl
  unfold Spec.document at h
  simp only at h
  cases hv : Spec.value true (Spec.fuelFor t) t (skipWs t 0) with
  | err => rw [hv] at h; simp at h
  | fuel => rw [hv] at h; simp at h
  | ok e1 =>
    rw [hv] at h
    simp only at h
    split at h
    · rename_i hend
      have hpr := (progress true t _ _ e1).1 hv
      have hle : e1 ≤ t.size := (Spec.bound true t _ _ e1).1 hv
      have hv2 := (GrammarPad.value_extend true t StrIn.padTail padTail_term _).1 _ e1 hv
      rw [← hpad] at hv2
      have hv3 := Spec.value_canonical true (StrIn.pad t) _ _ _ hv2 (by simp)
      obtain ⟨tr, _, hdisp⟩ := (parse_of_strict (StrIn.pad t) (Spec.fuelFor (StrIn.pad t))).1 _ e1 hv3
      have hs0 : skipWs (StrIn.pad t) 0 = skipWs t 0 := by
        rw [hpad]; exact GrammarPad.skipWs_extend t StrIn.padTail _ 0 rfl hpr.2
      have hb : (StrIn.pad t)[skipWs t 0]? = some t[skipWs t 0] := by
        rw [hpad, StrPad.get_pre t StrIn.padTail _ hpr.2, getElem?_pos t _ hpr.2]
      unfold fromSlicePadded DomP.value
      rw [skipSpace_spec, hs0, hb]
      simp only [Option.map_some, hdisp _ hb]
      simp [hle, hend]
    · cases h

/-- **the whole-input parse as the code composes it accepts exactly the strictly well-formed texts** -/
theorem fromSlicePadded_accept_iff (t : Buf) : (fromSlicePadded t).isSome = true ↔ (Spec.document true t).isSome = true := by
  constructor
  · intro h
    cases hd : fromSlicePadded t with
    | none => rw [hd] at h; cases h
    | some tr =>
      obtain ⟨s, e, hs⟩ := fromSlicePadded_sound t tr hd
      rw [hs]; rfl
  · intro h
    cases hs : Spec.document true t with
    | none => rw [hs] at h; cases h
    | some r =>
      obtain ⟨s, e⟩ := r
      exact fromSlicePadded_complete t s e hs

/-- **the tree the whole-input parse returns is the tree the TEXT denotes** -/
theorem fromSlicePadded_tree (t : Buf) (tr : Json) (h : fromSlicePadded t = some tr) : docTree false t = some tr := by
  have hpad : StrIn.pad t = t ++ StrIn.padTail := rfl
  unfold fromSlicePadded DomP.value at h
  rw [skipSpace_spec] at h
  cases hb : (StrIn.pad t)[skipWs (StrIn.pad t) 0]? with
  | none =>
    rw [hb] at h
    simp only [Option.map_none] at h
    cases hd : dispatch (Spec.fuelFor (StrIn.pad t)) (StrIn.pad t) none with
    | ok t' e' => exact absurd hd (dispatch_none _ _ t' e')
    | err c p => rw [hd] at h; cases h
    | fuel => rw [hd] at h; cases h
  | some c =>
    rw [hb] at h
    simp only [Option.map_some] at h
    cases hd : dispatch (Spec.fuelFor (StrIn.pad t)) (StrIn.pad t) (some (c, skipWs (StrIn.pad t) 0 + 1)) with
    | err c' p' => rw [hd] at h; cases h
    | fuel => rw [hd] at h; cases h
    | ok t' e =>
      rw [hd] at h
      simp only at h
      split at h
      · rename_i hcond
        obtain ⟨hle, hws⟩ := hcond
        have htr : t' = tr := Option.some.inj h
        subst htr
        have hnd := pad_not_digit t e hle hws
        have hv := (strict_of_parse (StrIn.pad t) (Spec.fuelFor (StrIn.pad t))).1 _ c t' e hb hd hnd
        -- the parser's tree is the specification's tree of the padded copy …
        obtain ⟨t2, ht2, hdisp⟩ := (parse_of_strict (StrIn.pad t) (Spec.fuelFor (StrIn.pad t))).1 _ e hv
        have := hdisp c hb
        rw [hd] at this
        have ht2e : t' = t2 := by
          simp only [DRes.ok.injEq] at this; exact this.1
        subst ht2e
        -- … which is the tree of the text
        have hw := ((progress true (StrIn.pad t) _ _ e).1 hv).1
        rw [hpad] at ht2 hw
        have ht3 := (GrammarPad.tree_prefix false t StrIn.padTail _).1 _ t' e ht2 hle
        have hs0 : skipWs t 0 = skipWs (t ++ StrIn.padTail) 0 := GrammarPad.skipWs_prefix t StrIn.padTail _ 0 rfl (by omega)
        -- at the text's own fuel
        rw [hpad] at hv
        have hv1 := (GrammarPad.value_prefix true t StrIn.padTail _).1 _ e hv hle
        have hv2 := Spec.value_canonical true t _ _ _ hv1 (by simp)
        obtain ⟨t4, ht4, _⟩ := (parse_of_strict t (Spec.fuelFor t)).1 _ e hv2
        have hfle : Spec.fuelFor t ≤ Spec.fuelFor (t ++ StrIn.padTail) := by
          unfold Spec.fuelFor; simp; omega
        have ht5 := GrammarPad.tree_mono_le false t _ _ _ _ hfle ht4
        rw [ht3] at ht5
        have : t' = t4 := by
          simp only [Option.some.injEq, Prod.mk.injEq] at ht5; exact ht5.1
        subst this
        unfold docTree
        rw [hs0, ht4]
        simp only [hws, if_true]
      · cases h

end DomP
end Sonic
