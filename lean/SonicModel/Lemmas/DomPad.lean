import SonicModel.Lemmas.GrammarPad
import SonicModel.Lemmas.DomSound
import SonicModel.Lemmas.StrInplaceProof
import SonicModel.Impl.DomPadded
/-
  `from_slice::<Value>` as the code composes it — the decoding parser runs on the PADDED copy of the text, a value that ends
  behind the text is an EOF error (`n > len`), then only blanks may follow up to the end of the text — accepts only strictly
  well-formed text.
-/
namespace Sonic
namespace DomP
open Gen Spec Impl

theorem pad_not_digit (t : Buf) (e : Nat) (he : e ≤ t.size) (hws : skipWs t e = t.size) : isDigitAt (StrIn.pad t) e = false := by
  have hpad : StrIn.pad t = t ++ StrIn.padTail := rfl
  by_cases hlt : e < t.size
  · rw [hpad, GrammarPad.isDigitAt_pre t StrIn.padTail e hlt]
    cases hd : isDigitAt t e with
    | false => rfl
    | true =>
      have := skipWs_digit t e hd
      omega
  · have : e = t.size := by omega
    subst this
    unfold isDigitAt
    rw [(StrIn.padded_pad t).x0]
    decide

/-- **whatever the whole-input parse accepts is strictly well-formed TEXT** -/
theorem fromSlicePadded_sound (t : Buf) (tr : Json) (h : fromSlicePadded t = some tr) :
    ∃ s e, Spec.document true t = some (s, e) := by
  have hpad : StrIn.pad t = t ++ StrIn.padTail := rfl
  unfold fromSlicePadded DomP.value at h
  rw [skipSpace_spec] at h
  cases hb : (StrIn.pad t)[skipWs (StrIn.pad t) 0]? with
  | none =>
    rw [hb] at h
    simp only [Option.map_none] at h
    cases hd : dispatch (Spec.fuelFor (StrIn.pad t)) (StrIn.pad t) none with
    | ok t' e' => exact absurd hd (dispatch_none _ _ t' e')
    | err c p => rw [hd] at h; cases h
    | fuel => rw [hd] at h; cases h
  | some c =>
    rw [hb] at h
    simp only [Option.map_some] at h
    cases hd : dispatch (Spec.fuelFor (StrIn.pad t)) (StrIn.pad t) (some (c, skipWs (StrIn.pad t) 0 + 1)) with
    | err c' p' => rw [hd] at h; cases h
    | fuel => rw [hd] at h; cases h
    | ok t' e =>
      rw [hd] at h
      simp only at h
      split at h
      · rename_i hcond
        obtain ⟨hle, hws⟩ := hcond
        have hnd := pad_not_digit t e hle hws
        have hv := (strict_of_parse (StrIn.pad t) (Spec.fuelFor (StrIn.pad t))).1 _ c t' e hb hd hnd
        have hw := ((progress true (StrIn.pad t) _ _ e).1 hv).1
        rw [hpad] at hv hw
        have hv1 := (GrammarPad.value_prefix true t StrIn.padTail _).1 _ e hv hle
        have hs0 : skipWs t 0 = skipWs (t ++ StrIn.padTail) 0 := GrammarPad.skipWs_prefix t StrIn.padTail _ 0 rfl (by omega)
        have hv2 := Spec.value_canonical true t _ _ _ hv1 (by simp)
        refine ⟨skipWs t 0, e, ?_⟩
        unfold Spec.document
        simp only [hs0, hv2, hws, if_true]
      · cases h

end DomP
end Sonic
