import SonicModel.Lemmas.SpecMono
namespace Sonic
namespace Spec

/-! ## progress: an accepted item is non-empty -/

theorem frac_ge (buf : Buf) (i e : Nat) (h : frac buf i = some e) : i ≤ e := by
  unfold frac at h
  have := skipDigits_ge buf (i+2)
  grind

theorem expo_ge (buf : Buf) (i e : Nat) (h : expo buf i = some e) : i ≤ e := by
  unfold expo at h
  have := skipDigits_ge buf (i+2+1)
  have := skipDigits_ge buf (i+1+1)
  grind

theorem ite_none_some {α} {b : Bool} {x : Option α} {e : α}
    (h : (if b = true then none else x) = some e) : x = some e := by
  cases b <;> simp_all

theorem afterFirst_ge (buf : Buf) (c : UInt8) (i e : Nat) (h : afterFirst buf c i = some e) : i ≤ e := by
  unfold afterFirst at h
  have h0 := skipDigits_ge buf i
  have h' := ite_none_some h
  obtain ⟨i3, hf, he⟩ := Option.bind_eq_some_iff.mp h'
  have h1 := frac_ge buf _ _ hf
  have h2 := expo_ge buf _ _ he
  split at h1 <;> omega

theorem number_progress (buf : Buf) (i e : Nat) (h : number buf i = some e) : i < e ∧ i < buf.size := by
  unfold number at h
  have := afterFirst_ge buf
  grind

theorem numberS_progress (s : Bool) (buf : Buf) (i e : Nat) (h : numberS s buf i = some e) :
    i < e ∧ i < buf.size := by
  unfold numberS at h
  have := number_progress buf i
  grind

theorem stringG_progress (buf : Buf) (i e : Nat) (h : stringG buf i = some e) : i < e ∧ i < buf.size := by
  fun_induction stringG buf i <;> grind

theorem stringS_progress (l : Bool) (buf : Buf) (i : Nat) (r : List UInt8 × Nat)
    (h : stringS l buf i = some r) : i < r.2 ∧ i < buf.size := by
  fun_induction stringS l buf i generalizing r
  case case1 => simp at h; subst h; simp; omega
  case case2 => simp at h
  case case3 ih =>
    obtain ⟨p, hp, hr⟩ := Option.map_eq_some_iff.mp h
    have := ih p hp
    subst hr; simp; omega
  case case4 => simp at h
  case case5 ih =>
    obtain ⟨p, hp, hr⟩ := Option.map_eq_some_iff.mp h
    have := ih p hp
    subst hr; simp; omega
  case case6 => simp at h
  case case7 => simp at h
  case case8 => simp at h
  case case9 ih =>
    obtain ⟨p, hp, hr⟩ := Option.map_eq_some_iff.mp h
    have := ih p hp
    subst hr; simp; omega
  case case10 => simp at h

theorem string_progress (s : Bool) (buf : Buf) (i e : Nat) (h : string s buf i = some e) :
    i < e ∧ i < buf.size := by
  unfold string at h
  cases s
  · simp only [Bool.false_eq_true, ite_false] at h
    exact stringG_progress buf i e h
  · simp only [ite_true] at h
    obtain ⟨p, hp, hr⟩ := Option.map_eq_some_iff.mp h
    have := stringS_progress false buf i p hp
    omega

theorem litAt_ge (buf : Buf) (l : List UInt8) : ∀ (j e : Nat), litAt buf j l = some e → j ≤ e := by
  induction l with
  | nil => intro j e h; simp [litAt] at h; omega
  | cons x xs ih =>
    intro j e h
    simp only [litAt] at h
    split at h
    · have := ih (j+1) e h; omega
    · simp at h

theorem lit_progress (buf : Buf) (i e : Nat) (b : UInt8) (rest : List UInt8)
    (h : lit buf i (b :: rest) = some e) : i < e := by
  unfold lit at h
  simp only [litAt] at h
  split at h
  · have := litAt_ge buf rest (i+1) e h; omega
  · simp at h

end Spec
end Sonic

namespace Sonic
namespace Spec

theorem getElem?_some_lt {buf : Buf} {i : Nat} {c : UInt8} (h : buf[i]? = some c) : i < buf.size :=
  (Array.getElem?_eq_some_iff.mp h).1

/-- an accepted value / element list / member list is non-empty and starts inside the buffer -/
theorem progress (s : Bool) (buf : Buf) : ∀ g i e,
    (value s g buf i = .ok e → i < e ∧ i < buf.size) ∧
    (elems s g buf i = .ok e → i < e ∧ i < buf.size) ∧
    (members s g buf i = .ok e → i < e ∧ i < buf.size) := by
  intro g
  induction g with
  | zero => intro i e; simp [value, elems, members]
  | succ g ih =>
    intro i e
    have ih1 := fun j e => (ih j e).1
    have ih2 := fun j e => (ih j e).2.1
    have ih3 := fun j e => (ih j e).2.2
    clear ih
    refine ⟨?_, ?_, ?_⟩
    · intro h
      unfold value at h
      cases hb : buf[i]? with
      | none => simp [hb] at h
      | some c =>
        have hi := getElem?_some_lt hb
        simp only [hb] at h
        have hws := skipWs_ge buf (i+1)
        split at h
        · cases hn : numberS s buf i with
          | none => simp [hn] at h
          | some e' => simp [hn] at h; subst h; exact numberS_progress s buf i e' hn
        · split at h
          · cases hn : string s buf (i+1) with
            | none => simp [hn] at h
            | some e' => simp [hn] at h; subst h; have := string_progress s buf (i+1) e' hn; omega
          · split at h
            · split at h
              · simp at h; omega
              · have := ih3 _ _ h; omega
            · split at h
              · split at h
                · simp at h; omega
                · have := ih2 _ _ h; omega
              · split at h
                · cases hn : lit buf (i+1) [114, 117, 101] with
                  | none => simp [hn] at h
                  | some e' => simp [hn] at h; subst h; have := lit_progress buf (i+1) e' _ _ hn; omega
                · split at h
                  · cases hn : lit buf (i+1) [97, 108, 115, 101] with
                    | none => simp [hn] at h
                    | some e' => simp [hn] at h; subst h; have := lit_progress buf (i+1) e' _ _ hn; omega
                  · split at h
                    · cases hn : lit buf (i+1) [117, 108, 108] with
                      | none => simp [hn] at h
                      | some e' => simp [hn] at h; subst h; have := lit_progress buf (i+1) e' _ _ hn; omega
                    · simp at h
    · intro h
      unfold elems at h
      cases hv : value s g buf i with
      | ok e1 =>
        simp only [hv] at h
        have p1 := ih1 _ _ hv
        have hws := skipWs_ge buf e1
        split at h
        · simp at h; omega
        · split at h
          · have := ih2 _ _ h
            have := skipWs_ge buf (skipWs buf e1 + 1)
            omega
          · simp at h
      | err => simp [hv] at h
      | fuel => simp [hv] at h
    · intro h
      unfold members at h
      split at h
      · rename_i hq
        have hi := getElem?_some_lt hq
        cases hs : string s buf (i+1) with
        | none => simp [hs] at h
        | some k =>
          simp only [hs] at h
          have pk := string_progress s buf (i+1) k hs
          have hws := skipWs_ge buf k
          split at h
          · have hws2 := skipWs_ge buf (skipWs buf k + 1)
            cases hv : value s g buf (skipWs buf (skipWs buf k + 1)) with
            | ok e1 =>
              simp only [hv] at h
              have p1 := ih1 _ _ hv
              have hws3 := skipWs_ge buf e1
              split at h
              · simp at h; omega
              · split at h
                · have := ih3 _ _ h
                  have := skipWs_ge buf (skipWs buf e1 + 1)
                  omega
                · simp at h
            | err => simp [hv] at h
            | fuel => simp [hv] at h
          · simp at h
      · simp at h

end Spec
end Sonic

namespace Sonic
namespace Spec

/-- fuel `2·(remaining bytes) + 1` (resp. `+ 2`) always suffices: the specification never runs
    out of fuel at `fuelFor` -/
theorem enough (s : Bool) (buf : Buf) : ∀ g i,
    (2 * (buf.size - i) + 1 ≤ g → value s g buf i ≠ .fuel) ∧
    (2 * (buf.size - i) + 2 ≤ g → elems s g buf i ≠ .fuel) ∧
    (2 * (buf.size - i) + 2 ≤ g → members s g buf i ≠ .fuel) := by
  intro g
  induction g with
  | zero => intro i; refine ⟨?_, ?_, ?_⟩ <;> (intro h; omega)
  | succ g ih =>
    intro i
    have ih1 := fun j => (ih j).1
    have ih2 := fun j => (ih j).2.1
    have ih3 := fun j => (ih j).2.2
    clear ih
    refine ⟨?_, ?_, ?_⟩
    · intro hg h
      unfold value at h
      cases hb : buf[i]? with
      | none => simp [hb] at h
      | some c =>
        have hi := getElem?_some_lt hb
        simp only [hb] at h
        have hws := skipWs_ge buf (i+1)
        split at h
        · cases hn : numberS s buf i <;> simp [hn] at h
        · split at h
          · cases hn : string s buf (i+1) <;> simp [hn] at h
          · split at h
            · split at h
              · simp at h
              · exact ih3 _ (by omega) h
            · split at h
              · split at h
                · simp at h
                · exact ih2 _ (by omega) h
              · split at h
                · cases hn : lit buf (i+1) [114, 117, 101] <;> simp [hn] at h
                · split at h
                  · cases hn : lit buf (i+1) [97, 108, 115, 101] <;> simp [hn] at h
                  · split at h
                    · cases hn : lit buf (i+1) [117, 108, 108] <;> simp [hn] at h
                    · simp at h
    · intro hg h
      unfold elems at h
      cases hv : value s g buf i with
      | ok e1 =>
        simp only [hv] at h
        have p1 := (progress s buf g i e1).1 hv
        have hws := skipWs_ge buf e1
        split at h
        · simp at h
        · split at h
          · have := skipWs_ge buf (skipWs buf e1 + 1)
            exact ih2 _ (by omega) h
          · simp at h
      | err => simp [hv] at h
      | fuel => exact ih1 i (by omega) hv
    · intro hg h
      unfold members at h
      split at h
      · rename_i hq
        have hi := getElem?_some_lt hq
        cases hs : string s buf (i+1) with
        | none => simp [hs] at h
        | some k =>
          simp only [hs] at h
          have pk := string_progress s buf (i+1) k hs
          have hws := skipWs_ge buf k
          split at h
          · have hws2 := skipWs_ge buf (skipWs buf k + 1)
            cases hv : value s g buf (skipWs buf (skipWs buf k + 1)) with
            | ok e1 =>
              simp only [hv] at h
              have p1 := (progress s buf g _ e1).1 hv
              have hws3 := skipWs_ge buf e1
              split at h
              · simp at h
              · split at h
                · have := skipWs_ge buf (skipWs buf e1 + 1)
                  exact ih3 _ (by omega) h
                · simp at h
            | err => simp [hv] at h
            | fuel => exact ih1 _ (by omega) hv
          · simp at h
      · simp at h

theorem value_fuelFor_ne_fuel (s : Bool) (buf : Buf) (i : Nat) : value s (fuelFor buf) buf i ≠ .fuel :=
  (enough s buf (fuelFor buf) i).1 (by unfold fuelFor; omega)

/-- at `fuelFor` the answer is *the* answer: any fuel that terminates agrees with it -/
theorem value_canonical (s : Bool) (buf : Buf) (g i : Nat) (r : Res) (h : value s g buf i = r)
    (hr : r ≠ .fuel) : value s (fuelFor buf) buf i = r := by
  have h1 := value_mono (Nat.le_max_left g (fuelFor buf)) buf i r h hr
  have h2 := value_mono (Nat.le_max_right g (fuelFor buf)) buf i _ rfl (value_fuelFor_ne_fuel s buf i)
  rw [h1] at h2; exact h2.symm

end Spec
end Sonic
