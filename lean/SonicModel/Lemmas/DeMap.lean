import SonicModel.Lemmas.DeSeq
/-! the typed deserializer on objects: `BTreeMap<String, V>` -/
namespace Sonic
namespace De
open Gen Spec Impl DomP

/-- where `next_key_seed` finds the reader: before the first member, or before the comma after a member -/
def EntryK (buf : Buf) (i : Nat) (first : Bool) (q : Nat) : Prop :=
  (first = true ∧ skipWs buf i = q) ∨ (first = false ∧ buf[skipWs buf i]? = some 44 ∧ skipWs buf (skipWs buf i + 1) = q)

theorem nextKey_at (buf : Buf) (i : Nat) (first : Bool) (q : Nat) (hE : EntryK buf i first q) (hq : buf[q]? = some 34) :
    nextKey buf i first = .ok (some (q + 1)) (q + 1) := by
  rcases hE with ⟨hf, hp⟩ | ⟨hf, hc, hp⟩
  · subst hf
    unfold nextKey
    simp only [hp, hq]
    have a : ((34 : UInt8) == 125) = false := by decide
    have b : ((34 : UInt8) == 44) = false := by decide
    simp [a, b]
  · subst hf
    unfold nextKey
    simp only [hc]
    have a : ((44 : UInt8) == 125) = false := by decide
    simp only [a, Bool.false_eq_true, if_false, beq_self_eq_true, Bool.not_false, Bool.and_self, if_true]
    rw [skipSpace_spec, hp, hq]
    simp

theorem nextKey_end (buf : Buf) (i : Nat) (first : Bool) (h : buf[skipWs buf i]? = some 125) :
    nextKey buf i first = .ok none (skipWs buf i) := by
  unfold nextKey; simp [h]

theorem endMap_at (buf : Buf) (i : Nat) (v : Val) (h : buf[skipWs buf i]? = some 125) :
    endMap buf i v = .ok v (skipWs buf i + 1) := by
  unfold endMap; rw [skipSpace_spec, h]; simp

theorem members_end (buf : Buf) (q : Nat) (ms : List (List UInt8 × Json)) (e : Nat) (h : Members buf q ms e) :
    buf[skipWs buf (e - 1)]? = some 125 ∧ skipWs buf (e - 1) + 1 = e := by
  induction h with
  | last q k k1 x e1 hq hk hcol hv hcl =>
    simp only [Nat.add_sub_cancel, skipWs_idem]
    exact ⟨hcl, trivial⟩
  | cons q k k1 x e1 ms e hq hk hcol hv hco hm ih => exact ih

/-- **`BTreeMap<String, V>` over the members of an object** -/
theorem mapLoop_members (buf : Buf) (v : Ty) (hc : cov v = true) (q : Nat) (ms : List (List UInt8 × Json)) (e : Nat)
    (hm : Members buf q ms e) :
    ∀ f i first acc, EntryK buf i first q → mapLoop f .str v buf i first acc ≠ .fuel →
      ∃ g0, ∀ g, g0 ≤ g → (mapLoop f .str v buf i first acc).map Val.map = ofOpt (decodeMap buf g .str v ms acc) (e - 1) := by
  induction hm with
  | last q k k1 x e1 hq hk hcol hv hcl =>
    intro f i first acc hE hne
    cases f with
    | zero => exact absurd (by rw [mapLoop]) hne
    | succ f =>
      obtain ⟨esc, hd⟩ := decodeFrom_of_stringS_some buf (q + 1) k k1 hk
      have hclo := parseObjectClo_ok_of_colon buf k1 hcol
      rw [mapLoop, nextKey_at buf i first q hE hq] at hne ⊢
      simp only [deKey, hd, hclo] at hne ⊢
      have hde : de f v buf (skipWs buf k1 + 1) ≠ .fuel := by
        intro h; rw [h] at hne; exact hne rfl
      obtain ⟨g1, hg1⟩ := hv.facts f v _ hc rfl hde
      cases hr : de f v buf (skipWs buf k1 + 1) with
      | fuel => exact absurd hr hde
      | err =>
        refine ⟨g1 + 1, ?_⟩
        intro g hg
        obtain ⟨g', rfl⟩ : ∃ g', g = g' + 1 := ⟨g - 1, by omega⟩
        have := hg1 g' (by omega)
        rw [hr] at this
        cases hdd : decode buf g' v x with
        | none => simp [decodeMap, decodeKey, hdd, ofOpt, R.map]
        | some w => rw [hdd] at this; simp [ofOpt] at this
      | ok w e' =>
        have he' : e' = e1 := by
          have := hg1 g1 (Nat.le_refl _)
          rw [hr] at this
          cases hdd : decode buf g1 v x with
          | none => rw [hdd] at this; simp [ofOpt] at this
          | some w' => rw [hdd] at this; simp [ofOpt] at this; exact this.2.symm
        subst he'
        rw [hr] at hne
        simp only at hne ⊢
        cases f with
        | zero => exact absurd (by rw [de]) hde
        | succ f =>
          rw [mapLoop, nextKey_end buf e' false hcl]
          refine ⟨g1 + 2, ?_⟩
          intro g hg
          obtain ⟨g', rfl⟩ : ∃ g', g = g' + 2 := ⟨g - 2, by omega⟩
          have h1 := hg1 (g' + 1) (by omega)
          rw [hr] at h1
          cases hdd : decode buf (g' + 1) v x with
          | none => rw [hdd] at h1; simp [ofOpt] at h1
          | some w' =>
            rw [hdd] at h1; simp only [ofOpt, R.ok.injEq] at h1
            simp [decodeMap, decodeKey, hdd, ofOpt, R.map, h1.1]
  | cons q k k1 x e1 ms e hq hk hcol hv hco hm ih =>
    intro f i first acc hE hne
    cases f with
    | zero => exact absurd (by rw [mapLoop]) hne
    | succ f =>
      obtain ⟨esc, hd⟩ := decodeFrom_of_stringS_some buf (q + 1) k k1 hk
      have hclo := parseObjectClo_ok_of_colon buf k1 hcol
      rw [mapLoop, nextKey_at buf i first q hE hq] at hne ⊢
      simp only [deKey, hd, hclo] at hne ⊢
      have hde : de f v buf (skipWs buf k1 + 1) ≠ .fuel := by
        intro h; rw [h] at hne; exact hne rfl
      obtain ⟨g1, hg1⟩ := hv.facts f v _ hc rfl hde
      cases hr : de f v buf (skipWs buf k1 + 1) with
      | fuel => exact absurd hr hde
      | err =>
        refine ⟨g1 + 1, ?_⟩
        intro g hg
        obtain ⟨g', rfl⟩ : ∃ g', g = g' + 1 := ⟨g - 1, by omega⟩
        have := hg1 g' (by omega)
        rw [hr] at this
        cases hdd : decode buf g' v x with
        | none => simp [decodeMap, decodeKey, hdd, ofOpt, R.map]
        | some w => rw [hdd] at this; simp [ofOpt] at this
      | ok w e' =>
        have he' : e' = e1 := by
          have := hg1 g1 (Nat.le_refl _)
          rw [hr] at this
          cases hdd : decode buf g1 v x with
          | none => rw [hdd] at this; simp [ofOpt] at this
          | some w' => rw [hdd] at this; simp [ofOpt] at this; exact this.2.symm
        subst he'
        rw [hr] at hne
        simp only at hne ⊢
        have hE2 : EntryK buf e' false (skipWs buf (skipWs buf e' + 1)) := Or.inr ⟨rfl, hco, rfl⟩
        obtain ⟨g2, hg2⟩ := ih f e' false (mapInsert (.str k) w acc) hE2 hne
        refine ⟨max g1 g2 + 1, ?_⟩
        intro g hg
        obtain ⟨g', rfl⟩ : ∃ g', g = g' + 1 := ⟨g - 1, by omega⟩
        have h1 := hg1 g' (by omega)
        have h2 := hg2 g' (by omega)
        rw [hr] at h1
        cases hdd : decode buf g' v x with
        | none => rw [hdd] at h1; simp [ofOpt] at h1
        | some w' =>
          rw [hdd] at h1; simp only [ofOpt, R.ok.injEq] at h1
          rw [h2]
          simp [decodeMap, decodeKey, hdd, h1.1]


/-- **an object value, for every type that looks at the text itself** -/
theorem obj_base (buf : Buf) (s e : Nat) (ms : List (List UInt8 × Json)) (hb : buf[s]? = some 123)
    (hshape : (ms = [] ∧ buf[skipWs buf (s + 1)]? = some 125 ∧ e = skipWs buf (s + 1) + 1) ∨ Members buf (skipWs buf (s + 1)) ms e) :
    ∀ f ty i, cov ty = true → direct ty = true → skipWs buf i = s → de f ty buf i ≠ .fuel →
      Stab buf ty (.obj ms) e (de f ty buf i) := by
  intro f ty i hcov hdir hs hne
  cases f with
  | zero => exact absurd (by rw [de]) hne
  | succ f =>
    have hsp := skipSpace_at buf i s 123 hs hb
    have hE : EntryK buf (s + 1) true (skipWs buf (s + 1)) := Or.inl ⟨rfl, rfl⟩
    cases ty with
    | map k v =>
      have hk : k = .str := by cases k <;> simp [cov] at hcov ⊢
      subst hk
      have hcv : cov v = true := by simpa [cov] using hcov
      rw [de] at hne ⊢
      simp only [hsp, beq_self_eq_true, if_true] at hne ⊢
      rcases hshape with ⟨rfl, hcl, rfl⟩ | hm
      · cases f with
        | zero => exact absurd (by rw [mapLoop]) hne
        | succ f =>
          rw [mapLoop, nextKey_end buf (s + 1) true hcl]
          simp only [endMap_at buf _ _ (by rw [skipWs_idem]; exact hcl), skipWs_idem]
          refine ⟨2, ?_⟩
          intro g hg
          obtain ⟨g', rfl⟩ : ∃ g', g = g' + 2 := ⟨g - 2, by omega⟩
          simp [decode, decodeMap, ofOpt]
      · have hne2 : mapLoop f .str v buf (s + 1) true [] ≠ .fuel := by
          intro h; rw [h] at hne; exact hne rfl
        obtain ⟨g0, hg0⟩ := mapLoop_members buf v hcv _ ms e hm f (s + 1) true [] hE hne2
        obtain ⟨hend1, hend2⟩ := members_end buf _ ms e hm
        have hq : buf[skipWs buf (s + 1)]? = some 34 := by
          cases hm with
          | last q k k1 x e1 hq _ _ _ _ => exact hq
          | cons q k k1 x e1 ms e hq _ _ _ _ _ => exact hq
        refine ⟨g0 + 1, ?_⟩
        intro g hg
        obtain ⟨g', rfl⟩ : ∃ g', g = g' + 1 := ⟨g - 1, by omega⟩
        have := hg0 g' (by omega)
        simp only [decode]
        cases hr : mapLoop f .str v buf (s + 1) true [] with
        | ok kvs e' =>
          rw [hr] at this
          simp only [R.map] at this
          cases hdm : decodeMap buf g' .str v ms [] with
          | none => rw [hdm] at this; simp [ofOpt] at this
          | some w =>
            rw [hdm] at this
            simp only [ofOpt, R.ok.injEq] at this
            obtain ⟨h1, h2⟩ := this
            subst h2
            simp [ofOpt, endMap_at buf _ _ hend1, hend2, h1]
        | err =>
          rw [hr] at this
          simp only [R.map] at this
          cases hdm : decodeMap buf g' .str v ms [] with
          | none => rfl
          | some w => rw [hdm] at this; simp [ofOpt] at this
        | fuel => exact absurd hr hne2
    | opt t => simp [direct] at hdir
    | newtype t => simp [direct] at hdir
    | strRef => simp [cov] at hcov
    | struct fs d => simp [cov] at hcov
    | enum vs => simp [cov] at hcov
    | int bits sg =>
      have h64 : bits ≤ 64 := by simpa [cov] using hcov
      rw [de]; simp [h64, deInt, hsp, isDigit]
      exact stab_err _ _ _ _ (by intro g; simp [decode])
    | _ =>
      rw [de]
      simp [hsp, deF64, deStrRaw, isDigit]
      exact stab_err _ _ _ _ (by intro g; simp [decode])

end De
end Sonic
