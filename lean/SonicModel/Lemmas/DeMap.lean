import SonicModel.Lemmas.DeSeq
/-! the typed deserializer on objects: `BTreeMap<String, V>` -/
namespace Sonic
namespace De
open Gen Spec Impl DomP

/-- where `next_key_seed` finds the reader: before the first member, or before the comma after a member -/
def EntryK (buf : Buf) (i : Nat) (first : Bool) (q : Nat) : Prop :=
  (first = true ∧ skipWs buf i = q) ∨ (first = false ∧ buf[skipWs buf i]? = some 44 ∧ skipWs buf (skipWs buf i + 1) = q)

theorem nextKey_at (buf : Buf) (i : Nat) (first : Bool) (q : Nat) (hE : EntryK buf i first q) (hq : buf[q]? = some 34) :
    nextKey buf i first = .ok (some (q + 1)) (q + 1) := by
  rcases hE with ⟨hf, hp⟩ | ⟨hf, hc, hp⟩
  · subst hf
    unfold nextKey
    simp only [hp, hq]
    have a : ((34 : UInt8) == 125) = false := by decide
    have b : ((34 : UInt8) == 44) = false := by decide
    simp [a, b]
  · subst hf
    unfold nextKey
    simp only [hc]
    have a : ((44 : UInt8) == 125) = false := by decide
    simp only [a, Bool.false_eq_true, if_false, beq_self_eq_true, Bool.not_false, Bool.and_self, if_true]
    rw [skipSpace_spec, hp, hq]
    simp

theorem nextKey_end (buf : Buf) (i : Nat) (first : Bool) (h : buf[skipWs buf i]? = some 125) :
    nextKey buf i first = .ok none (skipWs buf i) := by
  unfold nextKey; simp [h]

theorem endMap_at (buf : Buf) (i : Nat) (v : Val) (h : buf[skipWs buf i]? = some 125) :
    endMap buf i v = .ok v (skipWs buf i + 1) := by
  unfold endMap; rw [skipSpace_spec, h]; simp

theorem members_end (buf : Buf) (q : Nat) (ms : List (List UInt8 × Json)) (e : Nat) (h : Members buf q ms e) :
    buf[skipWs buf (e - 1)]? = some 125 ∧ skipWs buf (e - 1) + 1 = e := by
  induction h with
  | last q k k1 x e1 hq hk hcol hv hcl =>
    simp only [Nat.add_sub_cancel, skipWs_idem]
    exact ⟨hcl, trivial⟩
  | cons q k k1 x e1 ms e hq hk hcol hv hco hm ih => exact ih

/-- **`BTreeMap<String, V>` over the members of an object** -/
theorem mapLoop_members (buf : Buf) (v : Ty) (hc : cov v = true) (q : Nat) (ms : List (List UInt8 × Json)) (e : Nat)
    (hm : Members buf q ms e) :
    ∀ f i first acc, EntryK buf i first q → mapLoop f .str v buf i first acc ≠ .fuel →
      ∃ g0, ∀ g, g0 ≤ g → (mapLoop f .str v buf i first acc).map Val.map = ofOpt (decodeMap buf g .str v ms acc) (e - 1) := by
  induction hm with
  | last q k k1 x e1 hq hk hcol hv hcl =>
    intro f i first acc hE hne
    cases f with
    | zero => exact absurd (by rw [mapLoop]) hne
    | succ f =>
      obtain ⟨esc, hd⟩ := decodeFrom_of_stringS_some buf (q + 1) k k1 hk
      have hclo := parseObjectClo_ok_of_colon buf k1 hcol
      rw [mapLoop, nextKey_at buf i first q hE hq] at hne ⊢
      simp only [deKey, hd, hclo] at hne ⊢
      have hde : de f v buf (skipWs buf k1 + 1) ≠ .fuel := by
        intro h; rw [h] at hne; exact hne rfl
      obtain ⟨g1, hg1⟩ := hv.facts f v _ hc rfl hde
      cases hr : de f v buf (skipWs buf k1 + 1) with
      | fuel => exact absurd hr hde
      | err =>
        refine ⟨g1 + 1, ?_⟩
        intro g hg
        obtain ⟨g', rfl⟩ : ∃ g', g = g' + 1 := ⟨g - 1, by omega⟩
        have := hg1 g' (by omega)
        rw [hr] at this
        cases hdd : decode buf g' v x with
        | none => simp [decodeMap, decodeKey, hdd, ofOpt, R.map]
        | some w => rw [hdd] at this; simp [ofOpt] at this
      | ok w e' =>
        have he' : e' = e1 := by
          have := hg1 g1 (Nat.le_refl _)
          rw [hr] at this
          cases hdd : decode buf g1 v x with
          | none => rw [hdd] at this; simp [ofOpt] at this
          | some w' => rw [hdd] at this; simp [ofOpt] at this; exact this.2.symm
        subst he'
        rw [hr] at hne
        simp only at hne ⊢
        cases f with
        | zero => exact absurd (by rw [de]) hde
        | succ f =>
          rw [mapLoop, nextKey_end buf e' false hcl]
          refine ⟨g1 + 2, ?_⟩
          intro g hg
          obtain ⟨g', rfl⟩ : ∃ g', g = g' + 2 := ⟨g - 2, by omega⟩
          have h1 := hg1 (g' + 1) (by omega)
          rw [hr] at h1
          cases hdd : decode buf (g' + 1) v x with
          | none => rw [hdd] at h1; simp [ofOpt] at h1
          | some w' =>
            rw [hdd] at h1; simp only [ofOpt, R.ok.injEq] at h1
            simp [decodeMap, decodeKey, hdd, ofOpt, R.map, h1.1]
  | cons q k k1 x e1 ms e hq hk hcol hv hco hm ih =>
    intro f i first acc hE hne
    cases f with
    | zero => exact absurd (by rw [mapLoop]) hne
    | succ f =>
      obtain ⟨esc, hd⟩ := decodeFrom_of_stringS_some buf (q + 1) k k1 hk
      have hclo := parseObjectClo_ok_of_colon buf k1 hcol
      rw [mapLoop, nextKey_at buf i first q hE hq] at hne ⊢
      simp only [deKey, hd, hclo] at hne ⊢
      have hde : de f v buf (skipWs buf k1 + 1) ≠ .fuel := by
        intro h; rw [h] at hne; exact hne rfl
      obtain ⟨g1, hg1⟩ := hv.facts f v _ hc rfl hde
      cases hr : de f v buf (skipWs buf k1 + 1) with
      | fuel => exact absurd hr hde
      | err =>
        refine ⟨g1 + 1, ?_⟩
        intro g hg
        obtain ⟨g', rfl⟩ : ∃ g', g = g' + 1 := ⟨g - 1, by omega⟩
        have := hg1 g' (by omega)
        rw [hr] at this
        cases hdd : decode buf g' v x with
        | none => simp [decodeMap, decodeKey, hdd, ofOpt, R.map]
        | some w => rw [hdd] at this; simp [ofOpt] at this
      | ok w e' =>
        have he' : e' = e1 := by
          have := hg1 g1 (Nat.le_refl _)
          rw [hr] at this
          cases hdd : decode buf g1 v x with
          | none => rw [hdd] at this; simp [ofOpt] at this
          | some w' => rw [hdd] at this; simp [ofOpt] at this; exact this.2.symm
        subst he'
        rw [hr] at hne
        simp only at hne ⊢
        have hE2 : EntryK buf e' false (skipWs buf (skipWs buf e' + 1)) := Or.inr ⟨rfl, hco, rfl⟩
        obtain ⟨g2, hg2⟩ := ih f e' false (mapInsert (.str k) w acc) hE2 hne
        refine ⟨max g1 g2 + 1, ?_⟩
        intro g hg
        obtain ⟨g', rfl⟩ : ∃ g', g = g' + 1 := ⟨g - 1, by omega⟩
        have h1 := hg1 g' (by omega)
        have h2 := hg2 g' (by omega)
        rw [hr] at h1
        cases hdd : decode buf g' v x with
        | none => rw [hdd] at h1; simp [ofOpt] at h1
        | some w' =>
          rw [hdd] at h1; simp only [ofOpt, R.ok.injEq] at h1
          rw [h2]
          simp [decodeMap, decodeKey, hdd, h1.1]


end De
end Sonic
