import SonicModel.Impl.Block
import SonicModel.Thm.C17
import Std.Tactic.BVDecide
namespace Sonic
namespace Block
open Simd

/-! ### the escape mask and the in-string mask, bit by bit -/

/-- scalar meaning: is byte `i` escaped? (`prev` = the last byte of the previous block was an unescaped backslash) -/
def escBit (prev : Bool) (bs : Nat → Bool) : Nat → Bool
  | 0 => prev
  | i+1 => bs i && !escBit prev bs i

theorem esc_rec (prev bs : BitVec 64) (hp : prev = 0#64 ∨ prev = 1#64) :
    (getEscaped prev bs).1 = ((bs &&& ~~~(getEscaped prev bs).1) <<< 1) ||| prev := by
  unfold getEscaped EVEN
  rcases hp with rfl | rfl <;> simp only <;> bv_decide

theorem esc_carry (prev bs : BitVec 64) (hp : prev = 0#64 ∨ prev = 1#64) :
    (getEscaped prev bs).2 = (bs &&& ~~~(getEscaped prev bs).1) >>> 63 := by
  unfold getEscaped EVEN
  rcases hp with rfl | rfl <;> simp only <;> bv_decide

theorem carry_bit0 (prev : BitVec 64) (hp : prev = 0#64 ∨ prev = 1#64) (i : Nat) :
    prev.getLsbD i = (decide (i = 0) && decide (prev = 1#64)) := by
  rcases hp with rfl | rfl
  · simp
  · by_cases h : i = 0
    · subst h; simp
    · simp [h, BitVec.getLsbD_one]

/-- **the escape mask is the scalar escape relation** (odd-length backslash runs, with the carry) -/
theorem escaped_bits (prev bs : BitVec 64) (hp : prev = 0#64 ∨ prev = 1#64) :
    ∀ i, i < 64 → (getEscaped prev bs).1.getLsbD i = escBit (decide (prev = 1#64)) bs.getLsbD i := by
  intro i
  induction i with
  | zero =>
    intro _
    have h := congrArg (fun v => v.getLsbD 0) (esc_rec prev bs hp)
    simp only [BitVec.getLsbD_or, BitVec.getLsbD_shiftLeft] at h
    rw [h, carry_bit0 prev hp 0]
    simp [escBit]
  | succ i ih =>
    intro hi
    have h := congrArg (fun v => v.getLsbD (i + 1)) (esc_rec prev bs hp)
    simp only [BitVec.getLsbD_or, BitVec.getLsbD_shiftLeft, BitVec.getLsbD_and, BitVec.getLsbD_not] at h
    rw [h, carry_bit0 prev hp (i + 1), escBit, ← ih (by omega)]
    have h1 : i < 64 := by omega
    simp [hi, h1]

theorem escaped_carry (prev bs : BitVec 64) (hp : prev = 0#64 ∨ prev = 1#64) :
    ((getEscaped prev bs).2 = 0#64 ∨ (getEscaped prev bs).2 = 1#64) ∧
    decide ((getEscaped prev bs).2 = 1#64) = escBit (decide (prev = 1#64)) bs.getLsbD 64 := by
  have hc := esc_carry prev bs hp
  have hb := escaped_bits prev bs hp 63 (by omega)
  have hbit : ((bs &&& ~~~(getEscaped prev bs).1) >>> 63) =
      if (bs.getLsbD 63 && !(getEscaped prev bs).1.getLsbD 63) then 1#64 else 0#64 := by
    generalize (getEscaped prev bs).1 = E
    cases h1 : bs.getLsbD 63 <;> cases h2 : E.getLsbD 63 <;> simp <;> bv_decide
  rw [hc, hbit]
  rw [show escBit (decide (prev = 1#64)) bs.getLsbD 64 = (bs.getLsbD 63 && !escBit (decide (prev = 1#64)) bs.getLsbD 63) from rfl, ← hb]
  cases (bs.getLsbD 63 && !(getEscaped prev bs).1.getLsbD 63) <;> simp

/-- scalar meaning of the in-string mask: bit `i` = carry xor parity of the unescaped quotes among bytes `0..=i` -/
def inBit (prev : Bool) (q : Nat → Bool) : Nat → Bool
  | 0 => xor prev (q 0)
  | i+1 => xor (inBit prev q i) (q (i + 1))

theorem inBit_cum (prev : Bool) (q : BitVec 64) : ∀ i, inBit prev q.getLsbD i = xor (cumXor q i) prev := by
  intro i
  induction i with
  | zero => simp [inBit, cumXor, Bool.xor_comm]
  | succ i ih =>
    simp only [inBit, cumXor, ih]
    cases q.getLsbD (i + 1) <;> cases cumXor q i <;> cases prev <;> rfl

theorem allOnes_bit (pi : BitVec 64) (hp : pi = 0#64 ∨ pi = BitVec.allOnes 64) (i : Nat) (hi : i < 64) :
    pi.getLsbD i = decide (pi = BitVec.allOnes 64) := by
  rcases hp with rfl | rfl
  · have : ¬ ((0#64 : BitVec 64) = BitVec.allOnes 64) := by decide
    simp [this]
  · rw [BitVec.getLsbD_allOnes]; simp [hi]

/-- the in-string mask of `stringBits`, bit by bit -/
theorem instring_bits (q pi : BitVec 64) (hp : pi = 0#64 ∨ pi = BitVec.allOnes 64) :
    ∀ i, i < 64 → (pxor q ^^^ pi).getLsbD i = inBit (decide (pi = BitVec.allOnes 64)) q.getLsbD i := by
  intro i hi
  rw [BitVec.getLsbD_xor, Sonic.Thm.C17.prefix_xor_spec q i hi, allOnes_bit pi hp i hi, inBit_cum]

end Block
end Sonic
