import SonicModel.Lemmas.DeNum
/-! the typed deserializer on scalar values: literals, strings, numbers — for every type that looks at the text itself -/
namespace Sonic
namespace De
open Gen Spec Impl DomP

theorem lit_base (buf : Buf) (s e : Nat) (c : UInt8) (rest : List UInt8) (x : Json)
    (hk : (c = 110 ∧ rest = [117, 108, 108] ∧ x = .null) ∨ (c = 116 ∧ rest = [114, 117, 101] ∧ x = .bool true) ∨
      (c = 102 ∧ rest = [97, 108, 115, 101] ∧ x = .bool false))
    (hb : buf[s]? = some c) (hl : parseLiteral buf (s + 1) rest = .ok e) :
    ∀ f ty i, cov ty = true → direct ty = true → skipWs buf i = s → de f ty buf i ≠ .fuel → Stab buf ty x e (de f ty buf i) := by
  intro f ty i hc hd hs hne
  cases f with
  | zero => exact absurd (by rw [de]) hne
  | succ f =>
    have hsp := skipSpace_at buf i s c hs hb
    rcases hk with ⟨rfl, rfl, rfl⟩ | ⟨rfl, rfl, rfl⟩ | ⟨rfl, rfl, rfl⟩ <;>
    cases ty <;>
    first
    | (simp [direct] at hd; done)
    | (simp [cov] at hc; done)
    | (rw [de]; try simp only [cov, decide_eq_true_eq] at hc
       simp [hsp, deInt, deF64, deStrRaw, litR, hl, hb, hs, isDigit, hc]
       first
       | exact stab_err _ _ _ _ (by intro g; simp [decode])
       | exact stab_ok _ _ _ _ _ (by intro g; simp [decode]))

theorem str_base (buf : Buf) (s e : Nat) (bs : List UInt8) (esc : Bool)
    (hb : buf[s]? = some 34) (hd : decodeFrom false buf (s + 1) = .ok bs e esc) :
    ∀ f ty i, cov ty = true → direct ty = true → skipWs buf i = s → de f ty buf i ≠ .fuel →
      Stab buf ty (.str bs) e (de f ty buf i) := by
  intro f ty i hc hdir hs hne
  cases f with
  | zero => exact absurd (by rw [de]) hne
  | succ f =>
    have hsp := skipSpace_at buf i s 34 hs hb
    have hs2 : skipWs buf s = s := by rw [← hs, skipWs_idem]
    have hsp2 := skipSpace_at buf s s 34 hs2 hb
    cases ty <;>
    first
    | (simp [direct] at hdir; done)
    | (simp [cov] at hc; done)
    | (rw [de]; try simp only [cov, decide_eq_true_eq] at hc
       simp [hsp, hsp2, deInt, deF64, deStrRaw, litR, hd, hb, hs, isDigit, hc]
       first
       | exact stab_err _ _ _ _ (by intro g; simp [decode])
       | exact stab_ok _ _ _ _ _ (by intro g; simp [decode])
       | (split <;> first
           | exact stab_err _ _ _ _ (by intro g; simp [decode, *])
           | exact stab_ok _ _ _ _ _ (by intro g; simp [decode, *])))

theorem num_base (buf : Buf) (s e : Nat) (c : UInt8) (hb : buf[s]? = some c) (hc : (c == 45 || isDigit c) = true)
    (h : number buf s = some e) :
    ∀ f ty i, cov ty = true → direct ty = true → skipWs buf i = s → de f ty buf i ≠ .fuel →
      Stab buf ty (.num s e) e (de f ty buf i) := by
  intro f ty i hcov hdir hs hne
  cases f with
  | zero => exact absurd (by rw [de]) hne
  | succ f =>
    have hsp := skipSpace_at buf i s c hs hb
    obtain ⟨t1, t2, t3, tcl⟩ := tok_class buf s e c hb h
    have hc34 : (c == 34) = false := by
      cases h34 : c == 34 with
      | false => rfl
      | true => have : c = 34 := by simpa using h34
                subst this; simp [isDigit] at hc
    have hc123 : (c == 123) = false := by
      cases h34 : c == 123 with
      | false => rfl
      | true => have : c = 123 := by simpa using h34
                subst this; simp [isDigit] at hc
    have hc91 : (c == 91) = false := by
      cases h34 : c == 91 with
      | false => rfl
      | true => have : c = 91 := by simpa using h34
                subst this; simp [isDigit] at hc
    have hc110 : (c == 110) = false := by
      cases h34 : c == 110 with
      | false => rfl
      | true => have : c = 110 := by simpa using h34
                subst this; simp [isDigit] at hc
    have hc116 : (c == 116) = false := by
      cases h34 : c == 116 with
      | false => rfl
      | true => have : c = 116 := by simpa using h34
                subst this; simp [isDigit] at hc
    have hc102 : (c == 102) = false := by
      cases h34 : c == 102 with
      | false => rfl
      | true => have : c = 102 := by simpa using h34
                subst this; simp [isDigit] at hc
    cases ty with
    | int bits sg =>
      have h64 : bits ≤ 64 := by simpa [cov] using hcov
      rw [de]; simp only [h64, if_true]
      unfold deInt
      simp only [hsp, hc, if_true]
      generalize numTok buf c (s + 1) = t at *
      obtain ⟨p, ts, te⟩ := t
      simp only at t1 t2 t3 tcl ⊢
      subst t1; subst t2
      generalize hd : decOf buf ts te = d at *
      have hdec : ∀ g, decode buf (g + 1) (.int bits sg) (.num ts te) = (decodeInt bits sg d).map .int := by
        intro g; simp [decode, hd]
      rcases tcl with ⟨hi, hn, hm, hx, hp⟩ | ⟨hi, hn, hp0, hm, hx, hp⟩ | ⟨hA, hB, hnu, hns⟩
      · subst hp
        simp only [intOf]
        have : decodeInt bits sg d = if intInRange bits sg (d.mant : Int) then some (d.mant : Int) else none := by
          unfold decodeInt; simp [hi, hn, h64, hm]
        by_cases hr : intInRange bits sg (d.mant : Int) = true
        · simp only [hr, if_true] at this ⊢
          exact stab_ok _ _ _ _ _ (by intro g; rw [hdec, this]; rfl)
        · simp only [hr, Bool.false_eq_true, if_false] at this ⊢
          exact stab_err _ _ _ _ (by intro g; rw [hdec, this]; rfl)
      · subst hp
        simp only [intOf]
        have : decodeInt bits sg d = if intInRange bits sg (-(d.mant : Int)) then some (-(d.mant : Int)) else none := by
          unfold decodeInt; simp [hi, hn, h64, hm, hp0]
        by_cases hr : intInRange bits sg (-(d.mant : Int)) = true
        · simp only [hr, if_true] at this ⊢
          exact stab_ok _ _ _ _ _ (by intro g; rw [hdec, this]; rfl)
        · simp only [hr, Bool.false_eq_true, if_false] at this ⊢
          exact stab_err _ _ _ _ (by intro g; rw [hdec, this]; rfl)
      · have hnone : decodeInt bits sg d = none := by
          unfold decodeInt
          by_cases hi : d.isInt = true
          · simp only [hi, Bool.not_true, Bool.false_eq_true, if_false, h64, if_true]
            cases hn : d.neg with
            | false =>
              have : ¬ (d.mant < 2 ^ 64) := fun hh => hA ⟨hi, hn, hh⟩
              simp [this]
            | true =>
              have : ¬ (0 < d.mant ∧ d.mant ≤ 2 ^ 63) := fun hh => hB ⟨hi, hn, hh.1, hh.2⟩
              simp only [if_true]
              by_cases h0 : 0 < d.mant
              · have : ¬ (d.mant ≤ 2 ^ 63) := fun hh => this ⟨h0, hh⟩
                simp [this]
              · simp [h0]
          · simp [hi]
        have hfin : Stab buf (.int bits sg) (.num ts te) te .err :=
          stab_err _ _ _ _ (by intro g; rw [hdec, hnone]; rfl)
        cases p with
        | unsigned v => exact absurd rfl (hnu v)
        | signed v => exact absurd rfl (hns v)
        | invalid => exact hfin
        | toFloat a b c d => exact hfin
        | zero n => simpa [intOf] using hfin
        | negIntAsFloat n => simpa [intOf] using hfin
    | f64 =>
      rw [de]
      unfold deF64
      simp only [hsp, hc, if_true]
      generalize numTok buf c (s + 1) = t at *
      obtain ⟨p, ts, te⟩ := t
      simp only at t1 t2 t3 tcl ⊢
      subst t1; subst t2
      have hdec : ∀ g, decode buf (g + 1) .f64 (.num ts te) = (f64Bits (decOf buf ts te)).map .f64 := by
        intro g; simp [decode]
      have hfl : floatOf buf ts te p = f64Bits (decOf buf ts te) := by
        rcases tcl with ⟨hi, hn, hm, hx, hp⟩ | ⟨hi, hn, hp0, hm, hx, hp⟩ | ⟨hA, hB, hnu, hns⟩
        · subst hp; simp [floatOf, f64Bits, hn, hx]
        · subst hp; simp [floatOf, f64Bits, hn, hx]
        · cases p with
          | unsigned v => exact absurd rfl (hnu v)
          | signed v => exact absurd rfl (hns v)
          | invalid => exact absurd rfl t3
          | _ => simp [floatOf]
      rw [hfl]
      cases hf : f64Bits (decOf buf ts te) with
      | none => exact stab_err _ _ _ _ (by intro g; rw [hdec, hf]; rfl)
      | some b => exact stab_ok _ _ _ _ _ (by intro g; rw [hdec, hf]; rfl)
    | opt t => simp [direct] at hdir
    | newtype t => simp [direct] at hdir
    | strRef => simp [cov] at hcov
    | _ =>
      rw [de]
      simp [hsp, hc34, hc123, hc91, hc110, hc116, hc102, deStrRaw, hb, hs]
      exact stab_err _ _ _ _ (by intro g; simp [decode])

end De
end Sonic
