import SonicModel.Impl.Block
import Std.Tactic.BVDecide
namespace Sonic
namespace Block

/-! ### the bit-jumping loop over right braces is a scan over the positions -/

/-- all bits from `n` up are clear -/
def Fits (n : Nat) (x : BitVec 64) : Prop := ∀ i, n ≤ i → x.getLsbD i = false

theorem fits_zero (x : BitVec 64) (h : Fits 0 x) : x = 0#64 := by
  apply BitVec.eq_of_getLsbD_eq
  intro i _
  simp [h i (Nat.zero_le _)]

theorem fits_shift (n : Nat) (x : BitVec 64) (h : Fits (n + 1) x) : Fits n (x >>> 1) := by
  intro i hi
  rw [BitVec.getLsbD_ushiftRight]
  exact h (1 + i) (by omega)

theorem fits_64 (x : BitVec 64) : Fits 64 x := by
  intro i hi
  exact BitVec.getLsbD_of_ge x i hi

theorem fits_and_left (n : Nat) (x y : BitVec 64) (h : Fits n x) : Fits n (x &&& y) := by
  intro i hi; simp [h i hi]

theorem fits_mono (n m : Nat) (x : BitVec 64) (h : Fits n x) (hnm : n ≤ m) : Fits m x :=
  fun i hi => h i (by omega)

theorem pc_zero : ∀ n, pc n 0#64 = 0 := by
  intro n; induction n with
  | zero => rfl
  | succ n ih => simp [pc, ih]

theorem pc_stable : ∀ (n k : Nat) (y : BitVec 64), Fits n y → pc (n + k) y = pc n y := by
  intro n
  induction n with
  | zero => intro k y h; rw [fits_zero y h, pc_zero, pc_zero]
  | succ n ih =>
    intro k y h
    rw [show n + 1 + k = (n + k) + 1 by omega]
    simp only [pc]
    rw [ih k (y >>> 1) (fits_shift n y h)]

/-- `count_ones` splits off the lowest bit -/
theorem popcount_shift (y : BitVec 64) : popcount y = (if y.getLsbD 0 then 1 else 0) + popcount (y >>> 1) := by
  unfold popcount
  have hf : Fits 63 (y >>> 1) := fits_shift 63 y (fits_64 y)
  have := pc_stable 63 1 (y >>> 1) hf
  simp only [show 63 + 1 = 64 by rfl] at this
  rw [this]; rfl

theorem tzr_stable : ∀ (n k : Nat) (y : BitVec 64), y ≠ 0#64 → Fits n y → tzr (n + k) y = tzr n y := by
  intro n
  induction n with
  | zero => intro k y hy h; exact absurd (fits_zero y h) hy
  | succ n ih =>
    intro k y hy h
    rw [show n + 1 + k = (n + k) + 1 by omega]
    simp only [tzr]
    by_cases h0 : y.getLsbD 0 = true
    · simp [h0]
    · have h0' : y.getLsbD 0 = false := by simpa using h0
      simp only [h0', Bool.false_eq_true, if_false]
      have hne : y >>> 1 ≠ 0#64 := by
        intro e; apply hy; bv_decide
      rw [ih k (y >>> 1) hne (fits_shift n y h)]

theorem tzr_succ (n : Nat) (x : BitVec 64) :
    tzr (n + 1) x = if x.getLsbD 0 then 0 else 1 + tzr n (x >>> 1) := rfl

theorem tz_lsb (x : BitVec 64) (h : x.getLsbD 0 = true) : tz x = 0 := by simp [tz, tzr, h]

theorem tz_shift (x : BitVec 64) (h0 : x.getLsbD 0 = false) (hx : x ≠ 0#64) : tz x = 1 + tz (x >>> 1) := by
  unfold tz
  have hne : x >>> 1 ≠ 0#64 := by intro e; apply hx; bv_decide
  have := tzr_stable 63 1 (x >>> 1) hne (fits_shift 63 x (fits_64 x))
  simp only [show 63 + 1 = 64 by rfl] at this
  rw [this]
  have h1 := tzr_succ 63 x
  rw [h0] at h1
  simpa using h1

def bump (x : Option Nat × Nat × Nat) : Option Nat × Nat × Nat := (x.1.map (· + 1), x.2)

/-- shifting both masks down by one position (no right brace at position 0) -/
theorem loop_shift : ∀ (fuel : Nat) (R L : BitVec 64) (l0 r : Nat), R.getLsbD 0 = false →
    braceLoop fuel R L l0 r = bump (braceLoop fuel (R >>> 1) (L >>> 1) (l0 + (if L.getLsbD 0 then 1 else 0)) r) := by
  intro fuel
  induction fuel with
  | zero =>
    intro R L l0 r _
    simp only [braceLoop, bump, Option.map_none]
    rw [popcount_shift L, Nat.add_assoc]
  | succ f ih =>
    intro R L l0 r h0
    by_cases hR : R = 0#64
    · subst hR
      have : (0#64 : BitVec 64) >>> 1 = 0#64 := by bv_decide
      simp only [braceLoop, this, if_true, bump, Option.map_none]
      rw [popcount_shift L, Nat.add_assoc]
    · have hne : R >>> 1 ≠ 0#64 := by intro e; apply hR; bv_decide
      have hs2 : (L &&& (R - 1#64)) >>> 1 = (L >>> 1) &&& ((R >>> 1) - 1#64) := by bv_decide
      have hs2b : (L &&& (R - 1#64)).getLsbD 0 = L.getLsbD 0 := by bv_decide
      have hpc : popcount (L &&& (R - 1#64)) = (if L.getLsbD 0 then 1 else 0) + popcount ((L >>> 1) &&& ((R >>> 1) - 1#64)) := by
        rw [popcount_shift (L &&& (R - 1#64)), hs2, hs2b]
      have hs1 : (R &&& (R - 1#64)) >>> 1 = (R >>> 1) &&& ((R >>> 1) - 1#64) := by bv_decide
      have hs1b : (R &&& (R - 1#64)).getLsbD 0 = false := by bv_decide
      simp only [braceLoop, hR, hne, if_false, hpc]
      have e : l0 + ((if L.getLsbD 0 = true then 1 else 0) + popcount ((L >>> 1) &&& ((R >>> 1) - 1#64))) =
          l0 + (if L.getLsbD 0 = true then 1 else 0) + popcount ((L >>> 1) &&& ((R >>> 1) - 1#64)) := by omega
      rw [e]
      by_cases hlt : l0 + (if L.getLsbD 0 = true then 1 else 0) + popcount ((L >>> 1) &&& ((R >>> 1) - 1#64)) < r + 1
      · simp only [hlt, if_true, bump, Option.map_some, tz_shift R h0 hR]
        rw [Nat.add_comm 1 (tz (R >>> 1))]
      · simp only [hlt, if_false]
        rw [ih (R &&& (R - 1#64)) L l0 (r + 1) hs1b, hs1]

/-- the scan over the positions `0 .. n-1` of the two masks -/
def posScan : Nat → BitVec 64 → BitVec 64 → Nat → Nat → Option Nat × Nat × Nat
  | 0, _, _, l, r => (none, l, r)
  | n+1, R, L, l, r =>
    if R.getLsbD 0 then
      (if l < r + 1 then (some 1, l, r + 1) else bump (posScan n (R >>> 1) (L >>> 1) l (r + 1)))
    else bump (posScan n (R >>> 1) (L >>> 1) (l + (if L.getLsbD 0 then 1 else 0)) r)

theorem posScan_zero : ∀ (n : Nat) (L : BitVec 64) (l r : Nat), Fits n L →
    posScan n 0#64 L l r = (none, l + popcount L, r) := by
  intro n
  induction n with
  | zero =>
    intro L l r h
    rw [fits_zero L h]
    simp [posScan, popcount, pc_zero]
  | succ n ih =>
    intro L l r h
    have z : (0#64 : BitVec 64) >>> 1 = 0#64 := by bv_decide
    have z0 : (0#64 : BitVec 64).getLsbD 0 = false := by simp
    simp only [posScan, z0, Bool.false_eq_true, if_false, z]
    rw [ih (L >>> 1) _ r (fits_shift n L h)]
    simp only [bump, Option.map_none]
    rw [popcount_shift L, Nat.add_assoc]

/-- **the loop that jumps from right brace to right brace computes the positional scan** -/
theorem braceLoop_eq_posScan : ∀ (n fuel : Nat) (R L : BitVec 64) (l0 r : Nat), Fits n R → Fits n L →
    L &&& R = 0#64 → n ≤ fuel → braceLoop fuel R L l0 r = posScan n R L l0 r := by
  intro n
  induction n with
  | zero =>
    intro fuel R L l0 r hR hL _ _
    rw [fits_zero R hR, fits_zero L hL]
    cases fuel <;> simp [braceLoop, posScan, popcount, pc_zero]
  | succ n ih =>
    intro fuel R L l0 r hR hL hd hf
    have hdS : (L >>> 1) &&& (R >>> 1) = 0#64 := by bv_decide
    by_cases h0 : R.getLsbD 0 = true
    · -- a right brace at position 0
      cases fuel with
      | zero => omega
      | succ f =>
        have hRne : R ≠ 0#64 := by intro e; rw [e] at h0; simp at h0
        have hs3 : L &&& (R - 1#64) = 0#64 := by bv_decide
        have hL0 : L.getLsbD 0 = false := by bv_decide
        have hs4a : (R &&& (R - 1#64)).getLsbD 0 = false := by bv_decide
        have hs4b : (R &&& (R - 1#64)) >>> 1 = R >>> 1 := by bv_decide
        simp only [braceLoop, hRne, if_false, hs3, posScan, h0, if_true]
        have hp0 : popcount 0#64 = 0 := by simp [popcount, pc_zero]
        rw [hp0, Nat.add_zero]
        split
        · rw [tz_lsb R h0]
        · rw [loop_shift f (R &&& (R - 1#64)) L l0 (r + 1) hs4a, hs4b, hL0]
          simp only [Bool.false_eq_true, if_false, Nat.add_zero]
          rw [ih f (R >>> 1) (L >>> 1) l0 (r + 1) (fits_shift n R hR) (fits_shift n L hL) hdS (by omega)]
    · have h0' : R.getLsbD 0 = false := by simpa using h0
      rw [loop_shift fuel R L l0 r h0']
      simp only [posScan, h0', Bool.false_eq_true, if_false]
      rw [ih fuel (R >>> 1) (L >>> 1) _ r (fits_shift n R hR) (fits_shift n L hL) hdS (by omega)]

end Block
end Sonic
