import SonicModel.Lemmas.NumEnd
namespace Sonic
namespace DomP
open Gen Spec Impl

/-- what remains of a number token after its integer digits (`i2`): optional fraction, optional exponent -/
theorem tail_of_grammar (buf : Buf) (i2 e : Nat) (h : (frac buf i2).bind (expo buf) = some e) :
    (buf[i2]? = some 46 ∧ isDigitAt buf (i2 + 1) = true ∧ expo buf (skipDigits buf (i2 + 2)) = some e) ∨
    (buf[i2]? ≠ some 46 ∧ expo buf i2 = some e) := by
  unfold frac at h
  by_cases hd : buf[i2]? = some 46
  · simp only [hd, if_true] at h
    by_cases hdig : isDigitAt buf (i2 + 1) = true
    · simp only [hdig, if_true, Option.bind_some] at h
      exact Or.inl ⟨hd, hdig, h⟩
    · simp [hdig] at h
  · simp only [hd, if_false, Option.bind_some] at h
    exact Or.inr ⟨hd, h⟩

/-- the result of the exponent part when the reader stands at `k` behind the last fraction / integer digit -/
theorem exp_or_end (buf : Buf) (bound k e : Nat) (h : expo buf k = some e) :
    ((buf[k]? = some 101 ∨ buf[k]? = some 69) ∧ ∃ v, parseExponent buf bound (k + 1) = some (v, e)) ∨
    (¬ (buf[k]? = some 101 ∨ buf[k]? = some 69) ∧ e = k) := by
  by_cases hE : buf[k]? = some 101 ∨ buf[k]? = some 69
  · exact Or.inl ⟨hE, parseExponent_of_expo buf bound k e hE h⟩
  · rw [expo_noexp buf k hE] at h
    exact Or.inr ⟨hE, by simpa using h.symm⟩

/-- a token that starts with `0` -/
theorem parseNumber_zero (buf : Buf) (bound i1 e : Nat) (neg : Bool) (h0 : buf[i1]? = some 48)
    (h : (frac buf (i1 + 1)).bind (expo buf) = some e) :
    (parseNumber buf bound i1 neg).2 = e ∧ (parseNumber buf bound i1 neg).1 ≠ .invalid := by
  unfold parseNumber
  simp only [h0, if_true]
  rcases tail_of_grammar buf (i1 + 1) e h with ⟨hdot, hdig, hexp⟩ | ⟨hndot, hexp⟩
  · -- `0.`
    simp only [hdot, hdig, Bool.not_true, Bool.false_eq_true, if_false]
    have hz := skipZeros_spec buf (buf.size - (i1 + 1 + 1)) (i1 + 1 + 1) (Nat.le_refl _)
    generalize parseNumber.skipZeros buf (i1 + 1 + 1) (buf.size - (i1 + 1 + 1)) = k at hz ⊢
    obtain ⟨hk1, hk2, hk3⟩ := hz
    -- the fraction digits end where they end after the zeros
    have hD : skipDigits buf (i1 + 1 + 2) = skipDigits buf k := by
      rw [show i1 + 1 + 2 = i1 + 1 + 1 + 1 by omega, ← skipDigits_digit buf (i1 + 1 + 1) hdig]
      exact skipDigits_through buf _ (i1 + 1 + 1) k rfl hk1 (fun x a b => isDigitAt_zero buf x (hk2 x a b))
    rw [hD] at hexp
    by_cases hE : (buf[k]? = some 101 || buf[k]? = some 69) = true
    · simp only [hE, if_true]
      have hEo : buf[k]? = some 101 ∨ buf[k]? = some 69 := by simpa using hE
      have hnd : isDigitAt buf k = false := by
        unfold isDigitAt; rcases hEo with h1 | h1 <;> (simp only [h1]; decide)
      rw [skipDigits_nondigit buf k hnd] at hexp
      obtain ⟨v, hv⟩ := parseExponent_of_expo buf bound k e hEo hexp
      simp only [hv]
      exact ⟨trivial, by simp⟩
    · simp only [hE, Bool.false_eq_true, if_false]
      have hEo : ¬ (buf[k]? = some 101 ∨ buf[k]? = some 69) := by simpa using hE
      by_cases hdk : isDigitAt buf k = true
      · simp only [hdk, Bool.not_true, Bool.false_eq_true, if_false]
        by_cases hdk1 : isDigitAt buf (k + 1) = true
        · simp only [hdk1, if_true]
          rw [skipDigits_digit buf k hdk] at hexp
          obtain ⟨s, x, t, hpf⟩ := parseFraction_of_expo buf bound (k + 1) (dig buf k) 0 16 (i1 + 1 + 1) e hexp
          simp only [hpf]
          exact ⟨trivial, by simp⟩
        · simp only [hdk1, Bool.false_eq_true, if_false]
          have hdk1' : isDigitAt buf (k + 1) = false := by simpa using hdk1
          rw [skipDigits_digit buf k hdk, skipDigits_nondigit buf (k + 1) hdk1'] at hexp
          rcases exp_or_end buf bound (k + 1) e hexp with ⟨hE1, v, hv⟩ | ⟨hE1, he⟩
          · have hE1' : (buf[k+1]? = some 101 || buf[k+1]? = some 69) = true := by simpa using hE1
            simp only [hE1', if_true, hv]
            exact ⟨trivial, by simp⟩
          · have hE1' : (buf[k+1]? = some 101 || buf[k+1]? = some 69) = false := by
              simp only [not_or] at hE1; simp [hE1.1, hE1.2]
            simp only [hE1', Bool.false_eq_true, if_false]
            exact ⟨he.symm, by simp⟩
      · have hdk' : isDigitAt buf k = false := by simpa using hdk
        simp only [hdk', Bool.not_false, if_true]
        rw [skipDigits_nondigit buf k hdk', expo_noexp buf k hEo] at hexp
        exact ⟨by simpa using hexp, by simp⟩
  · -- no fraction
    rcases exp_or_end buf bound (i1 + 1) e hexp with ⟨hE1, v, hv⟩ | ⟨hE1, he⟩
    · rcases hE1 with h1 | h1
      · simp only [h1, hv]; exact ⟨trivial, by simp⟩
      · simp only [h1, hv]; exact ⟨trivial, by simp⟩
    · simp only [not_or] at hE1
      split
      · rename_i h46; exact absurd h46 hndot
      · rename_i h101; exact absurd h101 hE1.1
      · rename_i h69; exact absurd h69 hE1.2
      · refine ⟨he.symm, ?_⟩
        cases neg <;> simp

/-- a token that starts with a digit other than `0` -/
theorem parseNumber_nonzero (buf : Buf) (bound i1 e : Nat) (neg : Bool) (c : UInt8) (hc : buf[i1]? = some c)
    (hd : isDigit c = true) (h48 : c ≠ 48)
    (h : (frac buf (skipDigits buf (i1 + 1))).bind (expo buf) = some e) :
    (parseNumber buf bound i1 neg).2 = e ∧ (parseNumber buf bound i1 neg).1 ≠ .invalid := by
  unfold parseNumber
  have hn48 : ¬ (buf[i1]? = some 48) := by rw [hc]; simpa using h48
  have hdig : isDigitAt buf i1 = true := by unfold isDigitAt; simp only [hc]; exact hd
  have hj : skipDigits buf i1 = skipDigits buf (i1 + 1) := skipDigits_digit buf i1 hdig
  have hjge : i1 + 1 ≤ skipDigits buf (i1 + 1) := skipDigits_ge buf (i1 + 1)
  have hcnt : (skipDigits buf (i1 + 1) - i1 == 0) = false := by
    simp only [beq_eq_false_iff_ne, ne_eq]; omega
  simp only [hn48, if_false, hj, hcnt, Bool.false_eq_true]
  generalize skipDigits buf (i1 + 1) = j at h hjge ⊢
  rcases tail_of_grammar buf j e h with ⟨hdot, hdig1, hexp⟩ | ⟨hndot, hexp⟩
  · -- a fraction
    have hE : (buf[j]? = some 101 || buf[j]? = some 69) = false := by rw [hdot]; decide
    simp only [hE, Bool.false_eq_true, if_false, hdot, if_true, hdig1, Bool.not_true]
    rw [show j + 2 = j + 1 + 1 by omega, ← skipDigits_digit buf (j + 1) hdig1] at hexp
    have key : ∀ (sig : Nat) (exp need : Int),
        (match parseFraction buf bound (j + 1) sig exp need (j + 1) with
          | some (s, e', t, k) => (PNum.toFloat neg s e' t, k)
          | none => (PNum.invalid, j + 1)).2 = e ∧
        (match parseFraction buf bound (j + 1) sig exp need (j + 1) with
          | some (s, e', t, k) => (PNum.toFloat neg s e' t, k)
          | none => (PNum.invalid, j + 1)).1 ≠ .invalid := by
      intro sig exp need
      obtain ⟨s, x, t, hpf⟩ := parseFraction_of_expo buf bound (j + 1) sig exp need (j + 1) e hexp
      simp only [hpf]
      exact ⟨trivial, by simp⟩
    exact key _ _ _
  · rcases exp_or_end buf bound j e hexp with ⟨hE1, v, hv⟩ | ⟨hE1, he⟩
    · have hE1' : (buf[j]? = some 101 || buf[j]? = some 69) = true := by simpa using hE1
      simp only [hE1', if_true, hv]
      exact ⟨trivial, by simp⟩
    · have hE1' : (buf[j]? = some 101 || buf[j]? = some 69) = false := by
        simp only [not_or] at hE1; simp [hE1.1, hE1.2]
      simp only [hE1', Bool.false_eq_true, if_false, hndot]
      subst he
      repeat' split
      all_goals simp

/-- **the digit machine accepts every number token of the grammar and stops where the token ends** -/
theorem parseNumber_of_number (buf : Buf) (bound w e : Nat) (neg : Bool) (h : number buf w = some e) :
    (parseNumber buf bound (if buf[w]? = some 45 then w + 1 else w) neg).2 = e ∧
    (parseNumber buf bound (if buf[w]? = some 45 then w + 1 else w) neg).1 ≠ .invalid := by
  unfold number at h
  generalize (if buf[w]? = some 45 then w + 1 else w) = i1 at h ⊢
  simp only at h
  cases hc : buf[i1]? with
  | none => simp [hc] at h
  | some c =>
    simp only [hc] at h
    by_cases hd : isDigit c = true
    · simp only [hd, if_true] at h
      unfold afterFirst at h
      simp only at h
      by_cases h48 : c = 48
      · subst h48
        simp only [beq_self_eq_true, if_true, Bool.true_and] at h
        split at h
        · simp at h
        · exact parseNumber_zero buf bound i1 e neg hc h
      · have hb : (c == 48) = false := by simpa using h48
        simp only [hb, Bool.false_eq_true, if_false, Bool.false_and] at h
        exact parseNumber_nonzero buf bound i1 e neg c hc hd h48 h
    · simp [hd] at h

end DomP
end Sonic
