import SonicModel.Lemmas.StrPad
import SonicModel.Lemmas.DeNum
import SonicModel.Lemmas.NumAccept
/-
  The grammar and the bytes behind the text: a value that the specification reads in `buf1 ++ suf` and that ends inside
  `buf1` is a value of `buf1` alone (same extent) — for numbers, strings, literals and containers, at both strengths.
  With `StrPad` this is what lets statements about the padded copy of a text (which is what the whole-input DOM parse
  reads) speak about the text: whatever is accepted in the copy and ends inside the text is well-formed text.
-/
namespace Sonic
namespace GrammarPad
open Spec StrPad

theorem getB (buf1 suf : Buf) (k : Nat) (h : k < buf1.size) (h2 : k < (buf1 ++ suf).size) : (buf1 ++ suf)[k] = buf1[k] := by
  have := get_pre buf1 suf k h
  rw [getElem?_pos (buf1 ++ suf) k h2, getElem?_pos buf1 k h] at this
  exact Option.some.inj this

/-- blanks skipped in `buf1 ++ suf` up to a position inside `buf1` are the blanks skipped in `buf1` -/
theorem skipWs_prefix (buf1 suf : Buf) : ∀ (n i : Nat), buf1.size - i = n → skipWs (buf1 ++ suf) i < buf1.size →
    skipWs buf1 i = skipWs (buf1 ++ suf) i := by
  intro n
  induction n with
  | zero =>
    intro i hn h
    have := skipWs_ge (buf1 ++ suf) i
    omega
  | succ n ih =>
    intro i hn h
    have hi : i < buf1.size := by omega
    have hi2 : i < (buf1 ++ suf).size := by simp; omega
    rw [skipWs] at h ⊢
    conv => rhs; rw [skipWs]
    simp only [hi, hi2, dite_true, getB buf1 suf i hi hi2] at h ⊢
    by_cases hw : isWs buf1[i] = true
    · simp only [hw, if_true] at h ⊢
      exact ih (i + 1) (by omega) h
    · simp only [hw, Bool.false_eq_true, if_false]

/-- a digit run of `buf1 ++ suf` that ends at or inside the end of `buf1` is the digit run of `buf1` -/
theorem skipDigits_prefix (buf1 suf : Buf) : ∀ (n i : Nat), buf1.size + 1 - i = n → skipDigits (buf1 ++ suf) i ≤ buf1.size →
    skipDigits buf1 i = skipDigits (buf1 ++ suf) i := by
  intro n
  induction n with
  | zero =>
    intro i hn h
    have := skipDigits_ge (buf1 ++ suf) i
    omega
  | succ n ih =>
    intro i hn h
    by_cases hi : i < buf1.size
    · have hi2 : i < (buf1 ++ suf).size := by simp; omega
      rw [skipDigits] at h ⊢
      conv => rhs; rw [skipDigits]
      simp only [hi, hi2, dite_true, getB buf1 suf i hi hi2] at h ⊢
      by_cases hd : isDigit buf1[i] = true
      · simp only [hd, if_true] at h ⊢
        exact ih (i + 1) (by omega) h
      · simp only [hd, Bool.false_eq_true, if_false]
    · have := skipDigits_ge (buf1 ++ suf) i
      have hie : i = buf1.size := by omega
      have : skipDigits (buf1 ++ suf) i = i := by omega
      rw [this, skipDigits]
      simp [hi]

theorem isDigitAt_pre (buf1 suf : Buf) (k : Nat) (h : k < buf1.size) : isDigitAt (buf1 ++ suf) k = isDigitAt buf1 k := by
  unfold isDigitAt; rw [get_pre buf1 suf k h]

theorem get_out (buf1 : Buf) (k : Nat) (h : ¬ k < buf1.size) : buf1[k]? = none := by
  simp; omega

theorem isDigitAt_out (buf1 : Buf) (k : Nat) (h : ¬ k < buf1.size) : isDigitAt buf1 k = false := by
  unfold isDigitAt; rw [get_out buf1 k h]

/-- the byte at `k` seen from `buf1`: the same byte when `k` is inside, nothing when it is not -/
theorem get_cases (buf1 suf : Buf) (k : Nat) : buf1[k]? = (buf1 ++ suf)[k]? ∨ buf1[k]? = none := by
  by_cases h : k < buf1.size
  · left; exact (get_pre buf1 suf k h).symm
  · right; exact get_out buf1 k h

theorem frac_prefix (buf1 suf : Buf) (j k : Nat) (h : frac (buf1 ++ suf) j = some k) (hk : k ≤ buf1.size) : frac buf1 j = some k := by
  unfold frac at h ⊢
  by_cases hd : (buf1 ++ suf)[j]? = some 46
  · simp only [hd, if_true] at h
    by_cases hg : isDigitAt (buf1 ++ suf) (j + 1) = true
    · simp only [hg, if_true, Option.some.injEq] at h
      have hge := skipDigits_ge (buf1 ++ suf) (j + 2)
      have hj : j + 1 < buf1.size := by omega
      rw [get_pre buf1 suf j (by omega)] at hd
      rw [isDigitAt_pre buf1 suf (j + 1) hj] at hg
      simp only [hd, if_true, hg, Option.some.injEq]
      rw [skipDigits_prefix buf1 suf _ (j + 2) rfl (by omega)]
      exact h
    · simp [hg] at h
  · simp only [hd, if_false, Option.some.injEq] at h
    subst h
    have : ¬ (buf1[j]? = some 46) := by
      rcases get_cases buf1 suf j with h1 | h1
      · rw [h1]; exact hd
      · rw [h1]; simp
    simp [this]

theorem expo_prefix (buf1 suf : Buf) (i k : Nat) (h : expo (buf1 ++ suf) i = some k) (hk : k ≤ buf1.size) : expo buf1 i = some k := by
  unfold expo at h ⊢
  by_cases he : ((buf1 ++ suf)[i]? = some 101 || (buf1 ++ suf)[i]? = some 69) = true
  · simp only [he, if_true] at h
    generalize hj : (if ((buf1 ++ suf)[i + 1]? = some 45 || (buf1 ++ suf)[i + 1]? = some 43) = true then i + 2 else i + 1) = j at h
    by_cases hg : isDigitAt (buf1 ++ suf) j = true
    · simp only [hg, if_true, Option.some.injEq] at h
      have hge := skipDigits_ge (buf1 ++ suf) (j + 1)
      have hji : i + 1 ≤ j := by rw [← hj]; split <;> omega
      have hjl : j < buf1.size := by omega
      rw [get_pre buf1 suf i (by omega)] at he
      rw [get_pre buf1 suf (i + 1) (by omega)] at hj
      rw [isDigitAt_pre buf1 suf j hjl] at hg
      simp only [he, if_true, hj, hg, Option.some.injEq]
      rw [skipDigits_prefix buf1 suf _ (j + 1) rfl (by omega)]
      exact h
    · simp [hg] at h
  · simp only [he, Bool.false_eq_true, if_false, Option.some.injEq] at h
    subst h
    have : (buf1[i]? = some 101 || buf1[i]? = some 69) = false := by
      rcases get_cases buf1 suf i with h1 | h1
      · rw [h1]; simpa using he
      · rw [h1]; simp
    simp [this]

/-- **a number token of `buf1 ++ suf` that ends inside `buf1` (or at its end) is a number token of `buf1`** -/
theorem number_prefix (buf1 suf : Buf) (i e : Nat) (h : number (buf1 ++ suf) i = some e) (he : e ≤ buf1.size) :
    number buf1 i = some e := by
  obtain ⟨c, hb1, hdc, h0, hlt, hbind⟩ := De.token_head (buf1 ++ suf) i e _ rfl h
  generalize hi1 : (if (buf1 ++ suf)[i]? = some 45 then i + 1 else i) = i1 at hb1 h0 hlt hbind
  -- the integer digits end at or before `e`
  cases hf : frac (buf1 ++ suf) (skipDigits (buf1 ++ suf) i1) with
  | none => rw [hf] at hbind; simp at hbind
  | some k =>
    rw [hf, Option.bind_some] at hbind
    have h1 := Spec.frac_ge (buf1 ++ suf) _ k hf
    have h2 := Spec.expo_ge (buf1 ++ suf) k e hbind
    have hi2 : skipDigits (buf1 ++ suf) i1 ≤ buf1.size := by omega
    have hi1l : i1 < buf1.size := by omega
    have hil : i ≤ i1 := by rw [← hi1]; split <;> omega
    have hsk := skipDigits_prefix buf1 suf _ i1 rfl hi2
    have hfr := frac_prefix buf1 suf _ k hf (by omega)
    have hex := expo_prefix buf1 suf k e hbind he
    have hneg : buf1[i]? = (buf1 ++ suf)[i]? := (get_pre buf1 suf i (by omega)).symm
    have hb1' : buf1[i1]? = some c := by rw [← get_pre buf1 suf i1 hi1l]; exact hb1
    unfold number
    rw [hneg, hi1]
    simp only [hb1', hdc, if_true]
    unfold afterFirst
    by_cases hc : (c == 48) = true
    · have hc48 : c = 48 := by simpa using hc
      have hs1 := h0 hc48
      simp only [hc, if_true, Bool.true_and]
      -- `0` is not followed by a digit
      have hnd2 : isDigitAt (buf1 ++ suf) (i1 + 1) = false := by
        cases hx : isDigitAt (buf1 ++ suf) (i1 + 1) with
        | false => rfl
        | true =>
          have := Sonic.skipDigits_digit (buf1 ++ suf) (i1 + 1) hx
          have hd1 : isDigitAt (buf1 ++ suf) i1 = true := by unfold isDigitAt; rw [hb1]; exact hdc
          have h3 := Sonic.skipDigits_digit (buf1 ++ suf) i1 hd1
          have h4 := skipDigits_ge (buf1 ++ suf) (i1 + 1 + 1)
          omega
      have hnd1 : isDigitAt buf1 (i1 + 1) = false := by
        by_cases hl : i1 + 1 < buf1.size
        · rw [← isDigitAt_pre buf1 suf (i1 + 1) hl]; exact hnd2
        · exact isDigitAt_out buf1 (i1 + 1) hl
      simp only [hnd1, Bool.false_eq_true, if_false]
      rw [hs1] at hfr
      rw [hfr, Option.bind_some]; exact hex
    · simp only [hc, Bool.false_eq_true, if_false, Bool.false_and]
      have hd1 : isDigitAt (buf1 ++ suf) i1 = true := by unfold isDigitAt; rw [hb1]; exact hdc
      have hd1' : isDigitAt buf1 i1 = true := by rw [← isDigitAt_pre buf1 suf i1 hi1l]; exact hd1
      rw [← Sonic.skipDigits_digit buf1 i1 hd1', hsk, hfr, Option.bind_some]; exact hex

theorem digitsVal_prefix (buf1 suf : Buf) : ∀ (n a b acc : Nat), b - a = n → b ≤ buf1.size →
    digitsVal (buf1 ++ suf) a b acc = digitsVal buf1 a b acc := by
  intro n
  induction n with
  | zero =>
    intro a b acc hn _
    rw [digitsVal]; conv => rhs; rw [digitsVal]
    have hab : ¬ a < b := by omega
    simp [hab]
  | succ n ih =>
    intro a b acc hn hb
    rw [digitsVal]; conv => rhs; rw [digitsVal]
    have ha1 : a < buf1.size := by omega
    have ha2 : a < (buf1 ++ suf).size := by simp; omega
    have h1 : a < b ∧ a < (buf1 ++ suf).size := ⟨by omega, ha2⟩
    have h2 : a < b ∧ a < buf1.size := ⟨by omega, ha1⟩
    simp only [h1, h2, and_self, dite_true, getB buf1 suf a ha1 ha2]
    exact ih (a + 1) b _ (by omega) hb

theorem fracOf_prefix (buf1 suf : Buf) (i2 e v : Nat) (he : e ≤ buf1.size)
    (hk : (buf1 ++ suf)[i2]? = some 46 → i2 < e → skipDigits (buf1 ++ suf) (i2 + 1) ≤ buf1.size) :
    fracOf buf1 i2 e v = fracOf (buf1 ++ suf) i2 e v := by
  unfold fracOf
  by_cases hlt : i2 < e
  · rw [← get_pre buf1 suf i2 (by omega)]
    by_cases hd : (buf1 ++ suf)[i2]? = some 46
    · have hsk := skipDigits_prefix buf1 suf _ (i2 + 1) rfl (hk hd hlt)
      simp only [hd, hlt, decide_true, Bool.and_self, if_true, hsk]
      rw [digitsVal_prefix buf1 suf _ (i2 + 1) _ v rfl (hk hd hlt)]
    · simp [hd]
  · simp [hlt]

theorem expOf_prefix (buf1 suf : Buf) (i3 e : Nat) (he : e ≤ buf1.size)
    (hk : ((buf1 ++ suf)[i3]? = some 101 ∨ (buf1 ++ suf)[i3]? = some 69) → i3 < e → i3 + 1 < buf1.size) :
    expOf buf1 i3 e = expOf (buf1 ++ suf) i3 e := by
  unfold expOf
  by_cases hlt : i3 < e
  · rw [← get_pre buf1 suf i3 (by omega)]
    by_cases hE : ((buf1 ++ suf)[i3]? = some 101 || (buf1 ++ suf)[i3]? = some 69) = true
    · have h1 := hk (by simpa using hE) hlt
      rw [← get_pre buf1 suf (i3 + 1) h1]
      simp only [hE, hlt, decide_true, Bool.and_self, Bool.true_and, if_true]
      generalize (if ((buf1 ++ suf)[i3 + 1]? = some 45 || (buf1 ++ suf)[i3 + 1]? = some 43) = true then i3 + 2 else i3 + 1) = i4
      rw [digitsVal_prefix buf1 suf _ i4 e 0 rfl he]
    · simp [hE]
  · simp [hlt]

theorem expo_gt2 (buf : Buf) (k e : Nat) (hE : (buf[k]? = some 101 || buf[k]? = some 69) = true) (h : expo buf k = some e) : k + 1 < e := by
  unfold expo at h
  simp only [hE, if_true] at h
  generalize hj : (if (buf[k + 1]? = some 45 || buf[k + 1]? = some 43) = true then k + 2 else k + 1) = j at h
  have hjk : k + 1 ≤ j := by rw [← hj]; split <;> omega
  by_cases hg : isDigitAt buf j = true
  · simp only [hg, if_true, Option.some.injEq] at h
    have := skipDigits_ge buf (j + 1)
    omega
  · simp [hg] at h

/-- the exact reading of a number token that ends inside `buf1` does not depend on what follows `buf1` -/
theorem decOf_prefix (buf1 suf : Buf) (i e : Nat) (h : number (buf1 ++ suf) i = some e) (he : e ≤ buf1.size) :
    decOf buf1 i e = decOf (buf1 ++ suf) i e := by
  obtain ⟨c, hb1, hdc, h0, hlt, hbind⟩ := De.token_head (buf1 ++ suf) i e _ rfl h
  generalize hi1 : (if (buf1 ++ suf)[i]? = some 45 then i + 1 else i) = i1 at hb1 h0 hlt hbind
  have hil : i ≤ i1 := by rw [← hi1]; split <;> omega
  rcases DomP.tail_of_grammar (buf1 ++ suf) _ e hbind with ⟨hdot, hdig, hexp⟩ | ⟨hndot, hexp⟩
  all_goals (
    have hge := Spec.expo_ge (buf1 ++ suf) _ e hexp)
  · -- with a fraction
    have hsg := skipDigits_ge (buf1 ++ suf) (skipDigits (buf1 ++ suf) i1 + 2)
    have hi2 : skipDigits (buf1 ++ suf) i1 + 2 ≤ buf1.size := by omega
    have hsk := skipDigits_prefix buf1 suf _ i1 rfl (by omega)
    have hneg : buf1[i]? = (buf1 ++ suf)[i]? := (get_pre buf1 suf i (by omega)).symm
    have hk1 : skipDigits (buf1 ++ suf) (skipDigits (buf1 ++ suf) i1 + 1) = skipDigits (buf1 ++ suf) (skipDigits (buf1 ++ suf) i1 + 2) :=
      Sonic.skipDigits_digit (buf1 ++ suf) _ hdig
    unfold decOf
    simp only [hneg, hi1, hsk]
    rw [digitsVal_prefix buf1 suf _ i1 _ 0 rfl (by omega)]
    rw [fracOf_prefix buf1 suf _ e _ he (fun _ _ => by rw [hk1]; omega)]
    rw [expOf_prefix buf1 suf _ e he (fun hE hlt2 => by
      -- an exponent inside the token brings at least one more byte
      have : ∀ v, (fracOf (buf1 ++ suf) (skipDigits (buf1 ++ suf) i1) e v).2.1
          = skipDigits (buf1 ++ suf) (skipDigits (buf1 ++ suf) i1 + 2) := by
        intro v
        unfold fracOf
        have hlt3 : skipDigits (buf1 ++ suf) i1 < e := by omega
        simp [hdot, hlt3, hk1]
      rw [this] at hE hlt2 ⊢
      have := expo_gt2 (buf1 ++ suf) _ e (by simpa using hE) hexp
      omega)]
  · -- without a fraction
    have hi2 : skipDigits (buf1 ++ suf) i1 ≤ buf1.size := by omega
    have hsk := skipDigits_prefix buf1 suf _ i1 rfl hi2
    have hneg : buf1[i]? = (buf1 ++ suf)[i]? := (get_pre buf1 suf i (by omega)).symm
    unfold decOf
    simp only [hneg, hi1, hsk]
    rw [digitsVal_prefix buf1 suf _ i1 _ 0 rfl hi2]
    rw [fracOf_prefix buf1 suf _ e _ he (fun hd _ => absurd hd hndot)]
    rw [expOf_prefix buf1 suf _ e he (fun hE hlt2 => by
      have : ∀ v, (fracOf (buf1 ++ suf) (skipDigits (buf1 ++ suf) i1) e v).2.1 = skipDigits (buf1 ++ suf) i1 := by
        intro v
        unfold fracOf
        simp [hndot]
      rw [this] at hE hlt2 ⊢
      have := expo_gt2 (buf1 ++ suf) _ e (by simpa using hE) hexp
      omega)]

theorem numberS_prefix (s : Bool) (buf1 suf : Buf) (i e : Nat) (h : numberS s (buf1 ++ suf) i = some e) (he : e ≤ buf1.size) :
    numberS s buf1 i = some e := by
  unfold numberS at h ⊢
  cases hn : number (buf1 ++ suf) i with
  | none => rw [hn] at h; cases h
  | some e' =>
    rw [hn] at h
    simp only at h
    split at h
    · cases h
    · rename_i hfin
      simp only [Option.some.injEq] at h
      subst h
      rw [number_prefix buf1 suf i e' hn he]
      simp only
      have : finite buf1 i e' = finite (buf1 ++ suf) i e' := by
        unfold finite
        rw [decOf_prefix buf1 suf i e' hn he]
      rw [this]
      simp [hfin]

theorem stringG_prefix (buf1 suf : Buf) : ∀ (n i e : Nat), buf1.size - i = n → stringG (buf1 ++ suf) i = some e → e ≤ buf1.size →
    stringG buf1 i = some e := by
  intro n
  induction n using Nat.strongRecOn with
  | _ n ih =>
    intro i e hn h hle
    have hie := (stringG_progress (buf1 ++ suf) i e h).1
    have hi : i < buf1.size := by omega
    have hi2 : i < (buf1 ++ suf).size := by simp; omega
    rw [stringG] at h ⊢
    simp only [hi, hi2, dite_true, getB buf1 suf i hi hi2] at h ⊢
    by_cases hq : (buf1[i] == 34) = true
    · simp only [hq, if_true] at h ⊢; exact h
    · simp only [hq, Bool.false_eq_true, if_false] at h ⊢
      by_cases hb : (buf1[i] == 92) = true
      · simp only [hb, if_true] at h ⊢
        cases hb1 : (buf1 ++ suf)[i + 1]? with
        | none => rw [hb1] at h; simp at h
        | some c =>
          rw [hb1] at h
          simp only at h
          by_cases hs : isSimpleEsc c = true
          · simp only [hs, if_true] at h
            have hpe := (stringG_progress (buf1 ++ suf) (i + 2) e h).1
            rw [get_pre buf1 suf (i + 1) (by omega)] at hb1
            rw [hb1]
            simp only [hs, if_true]
            exact ih (buf1.size - (i + 2)) (by omega) (i + 2) e rfl h hle
          · simp only [hs, Bool.false_eq_true, if_false] at h
            by_cases hu : (c == 117) = true
            · simp only [hu, if_true] at h
              by_cases hx : hex4ok (buf1 ++ suf) (i + 2) = true
              · simp only [hx, if_true] at h
                have hpe := (stringG_progress (buf1 ++ suf) (i + 6) e h).1
                rw [get_pre buf1 suf (i + 1) (by omega)] at hb1
                rw [hex4ok_pre buf1 suf (i + 2) (by omega)] at hx
                rw [hb1]
                simp only [hs, Bool.false_eq_true, if_false, hu, if_true, hx]
                exact ih (buf1.size - (i + 6)) (by omega) (i + 6) e rfl h hle
              · simp [hx] at h
            · simp [hu] at h
      · simp only [hb, Bool.false_eq_true, if_false] at h ⊢
        by_cases hc : buf1[i] < 32
        · simp [hc] at h
        · simp only [hc, if_false] at h ⊢
          exact ih (buf1.size - (i + 1)) (by omega) (i + 1) e rfl h hle

theorem string_prefix (s : Bool) (buf1 suf : Buf) (i e : Nat) (h : string s (buf1 ++ suf) i = some e) (hle : e ≤ buf1.size) :
    string s buf1 i = some e := by
  unfold string at h ⊢
  cases s with
  | true =>
    simp only [if_true] at h ⊢
    obtain ⟨p, hp, hr⟩ := Option.map_eq_some_iff.mp h
    rw [stringS_prefix false buf1 suf _ i p rfl hp (by rw [hr]; exact hle)]
    simp [hr]
  | false =>
    simp only [Bool.false_eq_true, if_false] at h ⊢
    exact stringG_prefix buf1 suf _ i e rfl h hle

theorem litAt_prefix (buf1 suf : Buf) : ∀ (bs : List UInt8) (i e : Nat), litAt (buf1 ++ suf) i bs = some e → e ≤ buf1.size →
    litAt buf1 i bs = some e := by
  intro bs
  induction bs with
  | nil => intro i e h _; exact h
  | cons b rest ih =>
    intro i e h hle
    unfold litAt at h ⊢
    by_cases hb : (buf1 ++ suf)[i]? = some b
    · simp only [hb, if_true] at h
      have := litAt_ge (buf1 ++ suf) rest (i + 1) e h
      rw [get_pre buf1 suf i (by omega)] at hb
      simp only [hb, if_true]
      exact ih (i + 1) e h hle
    · simp [hb] at h

theorem ofOpt_ok {o : Option Nat} {e : Nat} (h : Res.ofOpt o = .ok e) : o = some e := by
  cases o with
  | none => simp [Res.ofOpt] at h
  | some x => simp [Res.ofOpt] at h; rw [h]

/-- **a value of `buf1 ++ suf` that ends inside `buf1` is a value of `buf1`** (numbers, strings, literals, arrays, objects; at
    both strengths; element lists and member lists alike) -/
theorem value_prefix (s : Bool) (buf1 suf : Buf) : ∀ f,
    (∀ w e, value s f (buf1 ++ suf) w = .ok e → e ≤ buf1.size → value s f buf1 w = .ok e) ∧
    (∀ w e, elems s f (buf1 ++ suf) w = .ok e → e ≤ buf1.size → elems s f buf1 w = .ok e) ∧
    (∀ w e, members s f (buf1 ++ suf) w = .ok e → e ≤ buf1.size → members s f buf1 w = .ok e) := by
  intro f
  induction f with
  | zero => refine ⟨?_, ?_, ?_⟩ <;> (intro w e h; simp [value, elems, members] at h)
  | succ f ih =>
    obtain ⟨ih1, ih2, ih3⟩ := ih
    -- blanks in front of a byte that is inside `buf1`
    have ws : ∀ i j, skipWs (buf1 ++ suf) i = j → j < buf1.size → skipWs buf1 i = j := by
      intro i j hj hl
      rw [← hj] at hl ⊢
      exact skipWs_prefix buf1 suf _ i rfl hl
    refine ⟨?_, ?_, ?_⟩
    · intro w e h hle
      have hw := ((progress s (buf1 ++ suf) (f + 1) w e).1 h).1
      have hwl : w < buf1.size := by omega
      unfold value at h ⊢
      rw [← get_pre buf1 suf w hwl]
      cases hb : (buf1 ++ suf)[w]? with
      | none => rw [hb] at h; simp at h
      | some c =>
        rw [hb] at h
        simp only at h ⊢
        by_cases h1 : (c == 45 || isDigit c) = true
        · simp only [h1, if_true] at h ⊢
          rw [numberS_prefix s buf1 suf w e (ofOpt_ok h) hle]; rfl
        · simp only [h1, Bool.false_eq_true, if_false] at h ⊢
          by_cases h2 : (c == 34) = true
          · simp only [h2, if_true] at h ⊢
            rw [string_prefix s buf1 suf (w + 1) e (ofOpt_ok h) hle]; rfl
          · simp only [h2, Bool.false_eq_true, if_false] at h ⊢
            by_cases h3 : (c == 123) = true
            · simp only [h3, if_true] at h ⊢
              by_cases hcl : (buf1 ++ suf)[skipWs (buf1 ++ suf) (w + 1)]? = some 125
              · simp only [hcl, if_true, Res.ok.injEq] at h
                have hjl : skipWs (buf1 ++ suf) (w + 1) < buf1.size := by omega
                rw [ws (w + 1) _ rfl hjl, ← get_pre buf1 suf _ hjl, hcl]
                simp only [if_true, Res.ok.injEq]; exact h
              · simp only [hcl, if_false] at h
                have hp := ((progress s (buf1 ++ suf) f _ e).2.2 h).1
                have hjl : skipWs (buf1 ++ suf) (w + 1) < buf1.size := by omega
                rw [ws (w + 1) _ rfl hjl, ← get_pre buf1 suf _ hjl]
                simp only [hcl, if_false]
                exact ih3 _ e h hle
            · simp only [h3, Bool.false_eq_true, if_false] at h ⊢
              by_cases h4 : (c == 91) = true
              · simp only [h4, if_true] at h ⊢
                by_cases hcl : (buf1 ++ suf)[skipWs (buf1 ++ suf) (w + 1)]? = some 93
                · simp only [hcl, if_true, Res.ok.injEq] at h
                  have hjl : skipWs (buf1 ++ suf) (w + 1) < buf1.size := by omega
                  rw [ws (w + 1) _ rfl hjl, ← get_pre buf1 suf _ hjl, hcl]
                  simp only [if_true, Res.ok.injEq]; exact h
                · simp only [hcl, if_false] at h
                  have hp := ((progress s (buf1 ++ suf) f _ e).2.1 h).1
                  have hjl : skipWs (buf1 ++ suf) (w + 1) < buf1.size := by omega
                  rw [ws (w + 1) _ rfl hjl, ← get_pre buf1 suf _ hjl]
                  simp only [hcl, if_false]
                  exact ih2 _ e h hle
              · simp only [h4, Bool.false_eq_true, if_false] at h ⊢
                by_cases h5 : (c == 116) = true
                · simp only [h5, if_true] at h ⊢
                  have := litAt_prefix buf1 suf _ (w + 1) e (ofOpt_ok h) hle
                  unfold lit at *; rw [this]; rfl
                · simp only [h5, Bool.false_eq_true, if_false] at h ⊢
                  by_cases h6 : (c == 102) = true
                  · simp only [h6, if_true] at h ⊢
                    have := litAt_prefix buf1 suf _ (w + 1) e (ofOpt_ok h) hle
                    unfold lit at *; rw [this]; rfl
                  · simp only [h6, Bool.false_eq_true, if_false] at h ⊢
                    by_cases h7 : (c == 110) = true
                    · simp only [h7, if_true] at h ⊢
                      have := litAt_prefix buf1 suf _ (w + 1) e (ofOpt_ok h) hle
                      unfold lit at *; rw [this]; rfl
                    · simp [h7] at h
    · intro w e h hle
      unfold elems at h ⊢
      cases hv : value s f (buf1 ++ suf) w with
      | err => rw [hv] at h; simp at h
      | fuel => rw [hv] at h; simp at h
      | ok e1 =>
        rw [hv] at h
        simp only at h
        by_cases hcl : (buf1 ++ suf)[skipWs (buf1 ++ suf) e1]? = some 93
        · simp only [hcl, if_true, Res.ok.injEq] at h
          have hjl : skipWs (buf1 ++ suf) e1 < buf1.size := by omega
          have he1 : e1 ≤ buf1.size := by have := skipWs_ge (buf1 ++ suf) e1; omega
          rw [ih1 w e1 hv he1]
          simp only
          rw [ws e1 _ rfl hjl, ← get_pre buf1 suf _ hjl, hcl]
          simp only [if_true, Res.ok.injEq]; exact h
        · simp only [hcl, if_false] at h
          by_cases hco : (buf1 ++ suf)[skipWs (buf1 ++ suf) e1]? = some 44
          · simp only [hco, if_true] at h
            have hp := ((progress s (buf1 ++ suf) f _ e).2.1 h).1
            have h1 := skipWs_ge (buf1 ++ suf) (skipWs (buf1 ++ suf) e1 + 1)
            have h2 := skipWs_ge (buf1 ++ suf) e1
            have hjl : skipWs (buf1 ++ suf) e1 < buf1.size := by omega
            have hjl2 : skipWs (buf1 ++ suf) (skipWs (buf1 ++ suf) e1 + 1) < buf1.size := by omega
            rw [ih1 w e1 hv (by omega)]
            simp only
            rw [ws e1 _ rfl hjl, ← get_pre buf1 suf _ hjl]
            simp only [hcl, if_false, hco, if_true]
            rw [ws _ _ rfl hjl2]
            exact ih2 _ e h hle
          · simp [hco] at h
    · intro w e h hle
      have hw := ((progress s (buf1 ++ suf) (f + 1) w e).2.2 h).1
      have hwl : w < buf1.size := by omega
      unfold members at h ⊢
      rw [← get_pre buf1 suf w hwl]
      by_cases hq : (buf1 ++ suf)[w]? = some 34
      · simp only [hq, if_true] at h ⊢
        cases hs : string s (buf1 ++ suf) (w + 1) with
        | none => rw [hs] at h; simp at h
        | some k =>
          rw [hs] at h
          simp only at h
          by_cases hcol : (buf1 ++ suf)[skipWs (buf1 ++ suf) k]? = some 58
          · simp only [hcol, if_true] at h
            cases hv : value s f (buf1 ++ suf) (skipWs (buf1 ++ suf) (skipWs (buf1 ++ suf) k + 1)) with
            | err => rw [hv] at h; simp at h
            | fuel => rw [hv] at h; simp at h
            | ok e1 =>
              rw [hv] at h
              simp only at h
              have hpv := ((progress s (buf1 ++ suf) f _ e1).1 hv)
              have g1 := skipWs_ge (buf1 ++ suf) k
              have g2 := skipWs_ge (buf1 ++ suf) (skipWs (buf1 ++ suf) k + 1)
              have g3 := skipWs_ge (buf1 ++ suf) e1
              -- where the member ends bounds everything in front of it
              have he1 : skipWs (buf1 ++ suf) e1 < buf1.size := by
                by_cases hcl : (buf1 ++ suf)[skipWs (buf1 ++ suf) e1]? = some 125
                · simp only [hcl, if_true, Res.ok.injEq] at h; omega
                · simp only [hcl, if_false] at h
                  by_cases hco : (buf1 ++ suf)[skipWs (buf1 ++ suf) e1]? = some 44
                  · simp only [hco, if_true] at h
                    have := ((progress s (buf1 ++ suf) f _ e).2.2 h).1
                    have := skipWs_ge (buf1 ++ suf) (skipWs (buf1 ++ suf) e1 + 1)
                    omega
                  · simp [hco] at h
              have hk1 : skipWs (buf1 ++ suf) k < buf1.size := by omega
              have hk2 : skipWs (buf1 ++ suf) (skipWs (buf1 ++ suf) k + 1) < buf1.size := by omega
              rw [string_prefix s buf1 suf (w + 1) k hs (by omega)]
              simp only
              rw [ws k _ rfl hk1, ← get_pre buf1 suf _ hk1]
              simp only [hcol, if_true]
              rw [ws _ _ rfl hk2, ih1 _ e1 hv (by omega)]
              simp only
              rw [ws e1 _ rfl he1, ← get_pre buf1 suf _ he1]
              by_cases hcl : (buf1 ++ suf)[skipWs (buf1 ++ suf) e1]? = some 125
              · simp only [hcl, if_true, Res.ok.injEq] at h ⊢; exact h
              · simp only [hcl, if_false] at h ⊢
                by_cases hco : (buf1 ++ suf)[skipWs (buf1 ++ suf) e1]? = some 44
                · simp only [hco, if_true] at h ⊢
                  have hp := ((progress s (buf1 ++ suf) f _ e).2.2 h).1
                  have hjl2 : skipWs (buf1 ++ suf) (skipWs (buf1 ++ suf) e1 + 1) < buf1.size := by omega
                  rw [ws _ _ rfl hjl2]
                  exact ih3 _ e h hle
                · simp [hco] at h
          · simp [hcol] at h
      · simp [hq] at h

/-! ### the other direction: a value of `buf1` stays a value when bytes follow that cannot continue a number -/

/-- the first byte behind `buf1` cannot continue a number token -/
def Term (suf : Buf) : Prop := ∀ c, suf[0]? = some c → isDigit c = false ∧ c ≠ 46 ∧ c ≠ 101 ∧ c ≠ 69

theorem get_end (buf1 suf : Buf) : (buf1 ++ suf)[buf1.size]? = suf[0]? := by
  rw [Array.getElem?_append_right (Nat.le_refl _), Nat.sub_self]

theorem skipWs_extend (buf1 suf : Buf) : ∀ (n i : Nat), buf1.size - i = n → skipWs buf1 i < buf1.size →
    skipWs (buf1 ++ suf) i = skipWs buf1 i := by
  intro n
  induction n with
  | zero =>
    intro i hn h
    have := skipWs_ge buf1 i
    omega
  | succ n ih =>
    intro i hn h
    have hi : i < buf1.size := by omega
    have hi2 : i < (buf1 ++ suf).size := by simp; omega
    rw [skipWs] at h ⊢
    conv => rhs; rw [skipWs]
    simp only [hi, hi2, dite_true, getB buf1 suf i hi hi2] at h ⊢
    by_cases hw : isWs buf1[i] = true
    · simp only [hw, if_true] at h ⊢
      exact ih (i + 1) (by omega) h
    · simp only [hw, Bool.false_eq_true, if_false]

theorem isDigitAt_end (buf1 suf : Buf) (ht : Term suf) : isDigitAt (buf1 ++ suf) buf1.size = false := by
  unfold isDigitAt
  rw [get_end]
  cases hs : suf[0]? with
  | none => rfl
  | some c => exact (ht c hs).1

theorem skipDigits_extend (buf1 suf : Buf) (ht : Term suf) : ∀ (n i : Nat), buf1.size + 1 - i = n → i ≤ buf1.size →
    skipDigits (buf1 ++ suf) i = skipDigits buf1 i := by
  intro n
  induction n with
  | zero => intro i hn h; omega
  | succ n ih =>
    intro i hn hle
    by_cases hi : i < buf1.size
    · have hi2 : i < (buf1 ++ suf).size := by simp; omega
      rw [skipDigits]
      conv => rhs; rw [skipDigits]
      simp only [hi, hi2, dite_true, getB buf1 suf i hi hi2]
      by_cases hd : isDigit buf1[i] = true
      · simp only [hd, if_true]
        exact ih (i + 1) (by omega) (by omega)
      · simp only [hd, Bool.false_eq_true, if_false]
    · have hie : i = buf1.size := by omega
      subst hie
      have h1 : skipDigits buf1 buf1.size = buf1.size := by rw [skipDigits]; simp
      rw [h1]
      exact Sonic.skipDigits_nondigit (buf1 ++ suf) buf1.size (isDigitAt_end buf1 suf ht)

theorem frac_extend (buf1 suf : Buf) (ht : Term suf) (j k : Nat) (hj : j ≤ buf1.size) (h : frac buf1 j = some k) :
    frac (buf1 ++ suf) j = some k := by
  unfold frac at h ⊢
  by_cases hd : buf1[j]? = some 46
  · have hjl : j < buf1.size := (Array.getElem?_eq_some_iff.mp hd).1
    simp only [hd, if_true] at h
    rw [get_pre buf1 suf j hjl]
    simp only [hd, if_true]
    by_cases hg : isDigitAt buf1 (j + 1) = true
    · simp only [hg, if_true, Option.some.injEq] at h
      have hj1 : j + 1 < buf1.size := by
        unfold isDigitAt at hg
        cases hb : buf1[j + 1]? with
        | none => rw [hb] at hg; cases hg
        | some c => exact (Array.getElem?_eq_some_iff.mp hb).1
      rw [isDigitAt_pre buf1 suf (j + 1) hj1]
      simp only [hg, if_true, Option.some.injEq]
      rw [skipDigits_extend buf1 suf ht _ (j + 2) rfl (by omega)]
      exact h
    · simp [hg] at h
  · simp only [hd, if_false, Option.some.injEq] at h
    subst h
    have : ¬ ((buf1 ++ suf)[j]? = some 46) := by
      by_cases hjl : j < buf1.size
      · rw [get_pre buf1 suf j hjl]; exact hd
      · have : j = buf1.size := by omega
        subst this
        rw [get_end]
        intro hh
        exact (ht _ hh).2.1 rfl
    simp [this]

theorem expo_extend (buf1 suf : Buf) (ht : Term suf) (i k : Nat) (hi : i ≤ buf1.size) (h : expo buf1 i = some k) :
    expo (buf1 ++ suf) i = some k := by
  unfold expo at h ⊢
  by_cases he : (buf1[i]? = some 101 || buf1[i]? = some 69) = true
  · have hil : i < buf1.size := by
      cases hb : buf1[i]? with
      | none => rw [hb] at he; simp at he
      | some c => exact (Array.getElem?_eq_some_iff.mp hb).1
    simp only [he, if_true] at h
    generalize hj : (if (buf1[i + 1]? = some 45 || buf1[i + 1]? = some 43) = true then i + 2 else i + 1) = j at h
    by_cases hg : isDigitAt buf1 j = true
    · simp only [hg, if_true, Option.some.injEq] at h
      have hjl : j < buf1.size := by
        unfold isDigitAt at hg
        cases hb : buf1[j]? with
        | none => rw [hb] at hg; cases hg
        | some c => exact (Array.getElem?_eq_some_iff.mp hb).1
      have hji : i + 1 ≤ j := by rw [← hj]; split <;> omega
      rw [get_pre buf1 suf i hil, get_pre buf1 suf (i + 1) (by omega)]
      simp only [he, if_true, hj]
      rw [isDigitAt_pre buf1 suf j hjl]
      simp only [hg, if_true, Option.some.injEq]
      rw [skipDigits_extend buf1 suf ht _ (j + 1) rfl (by omega)]
      exact h
    · simp [hg] at h
  · simp only [he, Bool.false_eq_true, if_false, Option.some.injEq] at h
    subst h
    have : ((buf1 ++ suf)[i]? = some 101 || (buf1 ++ suf)[i]? = some 69) = false := by
      by_cases hil : i < buf1.size
      · rw [get_pre buf1 suf i hil]; simpa using he
      · have : i = buf1.size := by omega
        subst this
        rw [get_end]
        cases hs : suf[0]? with
        | none => simp
        | some c =>
          have := ht c hs
          simp [this.2.2.1, this.2.2.2]
    simp [this]

/-- **a number token of `buf1` is a number token of `buf1 ++ suf`** when `suf` does not continue it -/
theorem number_extend (buf1 suf : Buf) (ht : Term suf) (i e : Nat) (h : number buf1 i = some e) : number (buf1 ++ suf) i = some e := by
  obtain ⟨c, hb1, hdc, h0, hlt, hbind⟩ := De.token_head buf1 i e _ rfl h
  generalize hi1 : (if buf1[i]? = some 45 then i + 1 else i) = i1 at hb1 h0 hlt hbind
  have hi1l : i1 < buf1.size := (Array.getElem?_eq_some_iff.mp hb1).1
  have hil : i ≤ i1 := by rw [← hi1]; split <;> omega
  cases hf : frac buf1 (skipDigits buf1 i1) with
  | none => rw [hf] at hbind; simp at hbind
  | some k =>
    rw [hf, Option.bind_some] at hbind
    have hi2 : skipDigits buf1 i1 ≤ buf1.size := skipDigits_le buf1 i1 (by omega)
    have hkl : k ≤ buf1.size := Spec.frac_le buf1 _ k hi2 hf
    have hsk := skipDigits_extend buf1 suf ht _ i1 rfl (by omega)
    have hfr := frac_extend buf1 suf ht _ k hi2 hf
    have hex := expo_extend buf1 suf ht k e hkl hbind
    have hneg : (buf1 ++ suf)[i]? = buf1[i]? := get_pre buf1 suf i (by omega)
    have hb2 : (buf1 ++ suf)[i1]? = some c := by rw [get_pre buf1 suf i1 hi1l]; exact hb1
    unfold number
    rw [hneg, hi1]
    simp only [hb2, hdc, if_true]
    unfold afterFirst
    have hd1 : isDigitAt buf1 i1 = true := by unfold isDigitAt; rw [hb1]; exact hdc
    have hd2 : isDigitAt (buf1 ++ suf) i1 = true := by rw [isDigitAt_pre buf1 suf i1 hi1l]; exact hd1
    by_cases hc : (c == 48) = true
    · have hc48 : c = 48 := by simpa using hc
      have hs1 := h0 hc48
      simp only [hc, if_true, Bool.true_and]
      have hnd1 : isDigitAt buf1 (i1 + 1) = false := by
        cases hx : isDigitAt buf1 (i1 + 1) with
        | false => rfl
        | true =>
          have h3 := Sonic.skipDigits_digit buf1 i1 hd1
          have h5 := Sonic.skipDigits_digit buf1 (i1 + 1) hx
          have h4 := skipDigits_ge buf1 (i1 + 1 + 1)
          omega
      have hnd2 : isDigitAt (buf1 ++ suf) (i1 + 1) = false := by
        by_cases hl : i1 + 1 < buf1.size
        · rw [isDigitAt_pre buf1 suf (i1 + 1) hl]; exact hnd1
        · have : i1 + 1 = buf1.size := by omega
          rw [this]; exact isDigitAt_end buf1 suf ht
      simp only [hnd2, Bool.false_eq_true, if_false]
      rw [hs1] at hfr
      rw [hfr, Option.bind_some]; exact hex
    · simp only [hc, Bool.false_eq_true, if_false, Bool.false_and]
      rw [← Sonic.skipDigits_digit (buf1 ++ suf) i1 hd2, hsk, hfr, Option.bind_some]; exact hex

theorem numberS_extend (s : Bool) (buf1 suf : Buf) (ht : Term suf) (i e : Nat) (h : numberS s buf1 i = some e) :
    numberS s (buf1 ++ suf) i = some e := by
  unfold numberS at h ⊢
  cases hn : number buf1 i with
  | none => rw [hn] at h; cases h
  | some e' =>
    rw [hn] at h
    simp only at h
    split at h
    · cases h
    · rename_i hfin
      simp only [Option.some.injEq] at h
      subst h
      have hn2 := number_extend buf1 suf ht i e' hn
      have hle : e' ≤ buf1.size := by
        have := Spec.number_le buf1 i e' hn; exact this
      rw [hn2]
      simp only
      have : finite (buf1 ++ suf) i e' = finite buf1 i e' := by
        unfold finite
        rw [decOf_prefix buf1 suf i e' hn2 hle]
      rw [this]
      simp [hfin]

theorem stringG_extend (buf1 suf : Buf) : ∀ (n i e : Nat), buf1.size - i = n → stringG buf1 i = some e →
    stringG (buf1 ++ suf) i = some e := by
  intro n
  induction n using Nat.strongRecOn with
  | _ n ih =>
    intro i e hn h
    have hi : i < buf1.size := (stringG_progress buf1 i e h).2
    have hi2 : i < (buf1 ++ suf).size := by simp; omega
    rw [stringG] at h ⊢
    simp only [hi, hi2, dite_true, getB buf1 suf i hi hi2] at h ⊢
    by_cases hq : (buf1[i] == 34) = true
    · simp only [hq, if_true] at h ⊢; exact h
    · simp only [hq, Bool.false_eq_true, if_false] at h ⊢
      by_cases hb : (buf1[i] == 92) = true
      · simp only [hb, if_true] at h ⊢
        cases hb1 : buf1[i + 1]? with
        | none => rw [hb1] at h; simp at h
        | some c =>
          have hi1 : i + 1 < buf1.size := (Array.getElem?_eq_some_iff.mp hb1).1
          rw [get_pre buf1 suf (i + 1) hi1, hb1]
          rw [hb1] at h
          simp only at h ⊢
          by_cases hs : isSimpleEsc c = true
          · simp only [hs, if_true] at h ⊢
            exact ih (buf1.size - (i + 2)) (by omega) (i + 2) e rfl h
          · simp only [hs, Bool.false_eq_true, if_false] at h ⊢
            by_cases hu : (c == 117) = true
            · simp only [hu, if_true] at h ⊢
              by_cases hx : hex4ok buf1 (i + 2) = true
              · simp only [hx, if_true] at h
                rw [hex4ok_pre buf1 suf (i + 2) (hex4ok_in buf1 (i + 2) hx)]
                simp only [hx, if_true]
                exact ih (buf1.size - (i + 6)) (by omega) (i + 6) e rfl h
              · simp [hx] at h
            · simp [hu] at h
      · simp only [hb, Bool.false_eq_true, if_false] at h ⊢
        by_cases hc : buf1[i] < 32
        · simp [hc] at h
        · simp only [hc, if_false] at h ⊢
          exact ih (buf1.size - (i + 1)) (by omega) (i + 1) e rfl h

theorem string_extend (s : Bool) (buf1 suf : Buf) (i e : Nat) (h : string s buf1 i = some e) : string s (buf1 ++ suf) i = some e := by
  unfold string at h ⊢
  cases s with
  | true =>
    simp only [if_true] at h ⊢
    obtain ⟨p, hp, hr⟩ := Option.map_eq_some_iff.mp h
    rw [stringS_extend false buf1 suf _ i p rfl hp]
    simp [hr]
  | false =>
    simp only [Bool.false_eq_true, if_false] at h ⊢
    exact stringG_extend buf1 suf _ i e rfl h

theorem litAt_extend (buf1 suf : Buf) : ∀ (bs : List UInt8) (i e : Nat), litAt buf1 i bs = some e → litAt (buf1 ++ suf) i bs = some e := by
  intro bs
  induction bs with
  | nil => intro i e h; exact h
  | cons b rest ih =>
    intro i e h
    unfold litAt at h ⊢
    by_cases hb : buf1[i]? = some b
    · simp only [hb, if_true] at h
      have hi : i < buf1.size := (Array.getElem?_eq_some_iff.mp hb).1
      rw [get_pre buf1 suf i hi]
      simp only [hb, if_true]
      exact ih (i + 1) e h
    · simp [hb] at h

/-- **a value of `buf1` is a value of `buf1 ++ suf`** when the first byte of `suf` cannot continue a number -/
theorem value_extend (s : Bool) (buf1 suf : Buf) (ht : Term suf) : ∀ f,
    (∀ w e, value s f buf1 w = .ok e → value s f (buf1 ++ suf) w = .ok e) ∧
    (∀ w e, elems s f buf1 w = .ok e → elems s f (buf1 ++ suf) w = .ok e) ∧
    (∀ w e, members s f buf1 w = .ok e → members s f (buf1 ++ suf) w = .ok e) := by
  intro f
  induction f with
  | zero => refine ⟨?_, ?_, ?_⟩ <;> (intro w e h; simp [value, elems, members] at h)
  | succ f ih =>
    obtain ⟨ih1, ih2, ih3⟩ := ih
    have ws : ∀ i, skipWs buf1 i < buf1.size → skipWs (buf1 ++ suf) i = skipWs buf1 i :=
      fun i hl => skipWs_extend buf1 suf _ i rfl hl
    refine ⟨?_, ?_, ?_⟩
    · intro w e h
      have hwl := ((progress s buf1 (f + 1) w e).1 h).2
      unfold value at h ⊢
      rw [get_pre buf1 suf w hwl]
      cases hb : buf1[w]? with
      | none => rw [hb] at h; simp at h
      | some c =>
        rw [hb] at h
        simp only at h ⊢
        by_cases h1 : (c == 45 || isDigit c) = true
        · simp only [h1, if_true] at h ⊢
          rw [numberS_extend s buf1 suf ht w e (ofOpt_ok h)]; rfl
        · simp only [h1, Bool.false_eq_true, if_false] at h ⊢
          by_cases h2 : (c == 34) = true
          · simp only [h2, if_true] at h ⊢
            rw [string_extend s buf1 suf (w + 1) e (ofOpt_ok h)]; rfl
          · simp only [h2, Bool.false_eq_true, if_false] at h ⊢
            by_cases h3 : (c == 123) = true
            · simp only [h3, if_true] at h ⊢
              by_cases hcl : buf1[skipWs buf1 (w + 1)]? = some 125
              · have hjl : skipWs buf1 (w + 1) < buf1.size := (Array.getElem?_eq_some_iff.mp hcl).1
                simp only [hcl, if_true] at h
                rw [ws (w + 1) hjl, get_pre buf1 suf _ hjl, hcl]
                simp only [if_true]; exact h
              · simp only [hcl, if_false] at h
                have hjl := ((progress s buf1 f _ e).2.2 h).2
                rw [ws (w + 1) hjl, get_pre buf1 suf _ hjl]
                simp only [hcl, if_false]
                exact ih3 _ e h
            · simp only [h3, Bool.false_eq_true, if_false] at h ⊢
              by_cases h4 : (c == 91) = true
              · simp only [h4, if_true] at h ⊢
                by_cases hcl : buf1[skipWs buf1 (w + 1)]? = some 93
                · have hjl : skipWs buf1 (w + 1) < buf1.size := (Array.getElem?_eq_some_iff.mp hcl).1
                  simp only [hcl, if_true] at h
                  rw [ws (w + 1) hjl, get_pre buf1 suf _ hjl, hcl]
                  simp only [if_true]; exact h
                · simp only [hcl, if_false] at h
                  have hjl := ((progress s buf1 f _ e).2.1 h).2
                  rw [ws (w + 1) hjl, get_pre buf1 suf _ hjl]
                  simp only [hcl, if_false]
                  exact ih2 _ e h
              · simp only [h4, Bool.false_eq_true, if_false] at h ⊢
                by_cases h5 : (c == 116) = true
                · simp only [h5, if_true] at h ⊢
                  have := litAt_extend buf1 suf _ (w + 1) e (ofOpt_ok h)
                  unfold lit at *; rw [this]; rfl
                · simp only [h5, Bool.false_eq_true, if_false] at h ⊢
                  by_cases h6 : (c == 102) = true
                  · simp only [h6, if_true] at h ⊢
                    have := litAt_extend buf1 suf _ (w + 1) e (ofOpt_ok h)
                    unfold lit at *; rw [this]; rfl
                  · simp only [h6, Bool.false_eq_true, if_false] at h ⊢
                    by_cases h7 : (c == 110) = true
                    · simp only [h7, if_true] at h ⊢
                      have := litAt_extend buf1 suf _ (w + 1) e (ofOpt_ok h)
                      unfold lit at *; rw [this]; rfl
                    · simp [h7] at h
    · intro w e h
      unfold elems at h ⊢
      cases hv : value s f buf1 w with
      | err => rw [hv] at h; simp at h
      | fuel => rw [hv] at h; simp at h
      | ok e1 =>
        rw [hv] at h
        simp only at h
        rw [ih1 w e1 hv]
        simp only
        by_cases hcl : buf1[skipWs buf1 e1]? = some 93
        · have hjl : skipWs buf1 e1 < buf1.size := (Array.getElem?_eq_some_iff.mp hcl).1
          simp only [hcl, if_true] at h
          rw [ws e1 hjl, get_pre buf1 suf _ hjl, hcl]
          simp only [if_true]; exact h
        · simp only [hcl, if_false] at h
          by_cases hco : buf1[skipWs buf1 e1]? = some 44
          · have hjl : skipWs buf1 e1 < buf1.size := (Array.getElem?_eq_some_iff.mp hco).1
            simp only [hco, if_true] at h
            have hjl2 := ((progress s buf1 f _ e).2.1 h).2
            rw [ws e1 hjl, get_pre buf1 suf _ hjl]
            simp only [hcl, if_false, hco, if_true]
            rw [ws _ hjl2]
            exact ih2 _ e h
          · simp [hco] at h
    · intro w e h
      have hwl := ((progress s buf1 (f + 1) w e).2.2 h).2
      unfold members at h ⊢
      rw [get_pre buf1 suf w hwl]
      by_cases hq : buf1[w]? = some 34
      · simp only [hq, if_true] at h ⊢
        cases hs : string s buf1 (w + 1) with
        | none => rw [hs] at h; simp at h
        | some k =>
          rw [hs] at h
          simp only at h
          rw [string_extend s buf1 suf (w + 1) k hs]
          simp only
          by_cases hcol : buf1[skipWs buf1 k]? = some 58
          · have hk1 : skipWs buf1 k < buf1.size := (Array.getElem?_eq_some_iff.mp hcol).1
            simp only [hcol, if_true] at h
            rw [ws k hk1, get_pre buf1 suf _ hk1]
            simp only [hcol, if_true]
            cases hv : value s f buf1 (skipWs buf1 (skipWs buf1 k + 1)) with
            | err => rw [hv] at h; simp at h
            | fuel => rw [hv] at h; simp at h
            | ok e1 =>
              rw [hv] at h
              simp only at h
              have hk2 := ((progress s buf1 f _ e1).1 hv).2
              rw [ws _ hk2, ih1 _ e1 hv]
              simp only
              by_cases hcl : buf1[skipWs buf1 e1]? = some 125
              · have hjl : skipWs buf1 e1 < buf1.size := (Array.getElem?_eq_some_iff.mp hcl).1
                simp only [hcl, if_true] at h
                rw [ws e1 hjl, get_pre buf1 suf _ hjl, hcl]
                simp only [if_true]; exact h
              · simp only [hcl, if_false] at h
                by_cases hco : buf1[skipWs buf1 e1]? = some 44
                · have hjl : skipWs buf1 e1 < buf1.size := (Array.getElem?_eq_some_iff.mp hco).1
                  simp only [hco, if_true] at h
                  have hjl2 := ((progress s buf1 f _ e).2.2 h).2
                  rw [ws e1 hjl, get_pre buf1 suf _ hjl]
                  simp only [hcl, if_false, hco, if_true]
                  rw [ws _ hjl2]
                  exact ih3 _ e h
                · simp [hco] at h
          · simp [hcol] at h
      · simp [hq] at h

/-! ### the tree a text denotes does not depend on what follows the value either -/

theorem number_progress (buf : Buf) (i e : Nat) (h : number buf i = some e) : i < e := by
  obtain ⟨c, hb1, hdc, h0, hlt, hbind⟩ := De.token_head buf i e _ rfl h
  generalize hi1 : (if buf[i]? = some 45 then i + 1 else i) = i1 at hb1 h0 hlt hbind
  have hil : i ≤ i1 := by rw [← hi1]; split <;> omega
  cases hf : frac buf (skipDigits buf i1) with
  | none => rw [hf] at hbind; simp at hbind
  | some k =>
    rw [hf, Option.bind_some] at hbind
    have h1 := Spec.frac_ge buf _ k hf
    have h2 := Spec.expo_ge buf k e hbind
    omega

theorem tree_progress (l : Bool) (buf : Buf) : ∀ f,
    (∀ i j e, tree l f buf i = some (j, e) → i < e) ∧
    (∀ i xs e, treeElems l f buf i = some (xs, e) → i < e) ∧
    (∀ i ms e, treeMembers l f buf i = some (ms, e) → i < e) := by
  intro f
  induction f with
  | zero => refine ⟨?_, ?_, ?_⟩ <;> (intro i j e h; simp [tree, treeElems, treeMembers] at h)
  | succ f ih =>
    obtain ⟨ih1, ih2, ih3⟩ := ih
    refine ⟨?_, ?_, ?_⟩
    · intro i j e h
      unfold tree at h
      cases hb : buf[i]? with
      | none => rw [hb] at h; simp at h
      | some c =>
        rw [hb] at h
        simp only at h
        split at h
        · obtain ⟨e', he', hr⟩ := Option.map_eq_some_iff.mp h
          have := number_progress buf i e' he'
          simp only [Prod.mk.injEq] at hr; omega
        · split at h
          · obtain ⟨p, hp, hr⟩ := Option.map_eq_some_iff.mp h
            have := (stringS_progress l buf (i + 1) p hp).1
            simp only [Prod.mk.injEq] at hr; omega
          · split at h
            · have := skipWs_ge buf (i + 1)
              split at h
              · simp only [Option.some.injEq, Prod.mk.injEq] at h; omega
              · obtain ⟨p, hp, hr⟩ := Option.map_eq_some_iff.mp h
                have := ih3 _ p.1 p.2 hp
                simp only [Prod.mk.injEq] at hr; omega
            · split at h
              · have := skipWs_ge buf (i + 1)
                split at h
                · simp only [Option.some.injEq, Prod.mk.injEq] at h; omega
                · obtain ⟨p, hp, hr⟩ := Option.map_eq_some_iff.mp h
                  have := ih2 _ p.1 p.2 hp
                  simp only [Prod.mk.injEq] at hr; omega
              · have lp : ∀ bs e', lit buf (i + 1) bs = some e' → i < e' := by
                  intro bs e' hl
                  have := litAt_ge buf bs (i + 1) e' hl
                  omega
                repeat' split at h
                all_goals first
                  | (obtain ⟨e', he', hr⟩ := Option.map_eq_some_iff.mp h
                     have := lp _ e' he'
                     simp only [Prod.mk.injEq] at hr; omega)
                  | (simp at h)
    · intro i xs e h
      unfold treeElems at h
      cases ht : tree l f buf i with
      | none => rw [ht] at h; simp at h
      | some p =>
        obtain ⟨x, e1⟩ := p
        rw [ht] at h
        simp only at h
        have h1 := ih1 i x e1 ht
        have h2 := skipWs_ge buf e1
        split at h
        · simp only [Option.some.injEq, Prod.mk.injEq] at h; omega
        · split at h
          · obtain ⟨q, hq, hr⟩ := Option.map_eq_some_iff.mp h
            have := ih2 _ q.1 q.2 hq
            have := skipWs_ge buf (skipWs buf e1 + 1)
            simp only [Prod.mk.injEq] at hr; omega
          · simp at h
    · intro i ms e h
      unfold treeMembers at h
      split at h
      · cases hs : stringS l buf (i + 1) with
        | none => rw [hs] at h; simp at h
        | some p =>
          obtain ⟨k, e1⟩ := p
          rw [hs] at h
          simp only at h
          have h0 := (stringS_progress l buf (i + 1) (k, e1) hs).1
          simp only at h0
          have g1 := skipWs_ge buf e1
          split at h
          · cases ht : tree l f buf (skipWs buf (skipWs buf e1 + 1)) with
            | none => rw [ht] at h; simp at h
            | some q =>
              obtain ⟨x, e2⟩ := q
              rw [ht] at h
              simp only at h
              have h1 := ih1 _ x e2 ht
              have g2 := skipWs_ge buf (skipWs buf e1 + 1)
              have g3 := skipWs_ge buf e2
              split at h
              · simp only [Option.some.injEq, Prod.mk.injEq] at h; omega
              · split at h
                · obtain ⟨r, hr1, hr⟩ := Option.map_eq_some_iff.mp h
                  have := ih3 _ r.1 r.2 hr1
                  have := skipWs_ge buf (skipWs buf e2 + 1)
                  simp only [Prod.mk.injEq] at hr; omega
                · simp at h
          · simp at h
      · simp at h

/-- **the tree of a value that ends inside `buf1` is the same with and without the bytes behind `buf1`** -/
theorem tree_prefix (l : Bool) (buf1 suf : Buf) : ∀ f,
    (∀ w j e, tree l f (buf1 ++ suf) w = some (j, e) → e ≤ buf1.size → tree l f buf1 w = some (j, e)) ∧
    (∀ w xs e, treeElems l f (buf1 ++ suf) w = some (xs, e) → e ≤ buf1.size → treeElems l f buf1 w = some (xs, e)) ∧
    (∀ w ms e, treeMembers l f (buf1 ++ suf) w = some (ms, e) → e ≤ buf1.size → treeMembers l f buf1 w = some (ms, e)) := by
  intro f
  induction f with
  | zero => refine ⟨?_, ?_, ?_⟩ <;> (intro w j e h; simp [tree, treeElems, treeMembers] at h)
  | succ f ih =>
    obtain ⟨ih1, ih2, ih3⟩ := ih
    have ws : ∀ i, skipWs (buf1 ++ suf) i < buf1.size → skipWs buf1 i = skipWs (buf1 ++ suf) i :=
      fun i hl => skipWs_prefix buf1 suf _ i rfl hl
    obtain ⟨tp1, tp2, tp3⟩ := tree_progress l (buf1 ++ suf) f
    refine ⟨?_, ?_, ?_⟩
    · intro w j e h hle
      have hw := (tree_progress l (buf1 ++ suf) (f + 1)).1 w j e h
      have hwl : w < buf1.size := by omega
      unfold tree at h ⊢
      rw [← get_pre buf1 suf w hwl]
      cases hb : (buf1 ++ suf)[w]? with
      | none => rw [hb] at h; simp at h
      | some c =>
        rw [hb] at h
        simp only at h ⊢
        by_cases h1 : (c == 45 || isDigit c) = true
        · simp only [h1, if_true] at h ⊢
          obtain ⟨e', he', hr⟩ := Option.map_eq_some_iff.mp h
          simp only [Prod.mk.injEq] at hr
          rw [number_prefix buf1 suf w e' he' (by omega)]
          obtain ⟨hr1, hr2⟩ := hr
          subst hr1; subst hr2; simp
        · simp only [h1, Bool.false_eq_true, if_false] at h ⊢
          by_cases h2 : (c == 34) = true
          · simp only [h2, if_true] at h ⊢
            obtain ⟨p, hp, hr⟩ := Option.map_eq_some_iff.mp h
            simp only [Prod.mk.injEq] at hr
            rw [stringS_prefix l buf1 suf _ (w + 1) p rfl hp (by omega)]
            obtain ⟨hr1, hr2⟩ := hr
            subst hr1; subst hr2; simp
          · simp only [h2, Bool.false_eq_true, if_false] at h ⊢
            by_cases h3 : (c == 123) = true
            · simp only [h3, if_true] at h ⊢
              by_cases hcl : (buf1 ++ suf)[skipWs (buf1 ++ suf) (w + 1)]? = some 125
              · simp only [hcl, if_true, Option.some.injEq, Prod.mk.injEq] at h
                have hjl : skipWs (buf1 ++ suf) (w + 1) < buf1.size := by omega
                rw [ws (w + 1) hjl, ← get_pre buf1 suf _ hjl, hcl]
                simp only [if_true, Option.some.injEq, Prod.mk.injEq]; exact h
              · simp only [hcl, if_false] at h
                obtain ⟨p, hp, hr⟩ := Option.map_eq_some_iff.mp h
                simp only [Prod.mk.injEq] at hr
                have hpr := tp3 _ p.1 p.2 hp
                have hjl : skipWs (buf1 ++ suf) (w + 1) < buf1.size := by omega
                rw [ws (w + 1) hjl, ← get_pre buf1 suf _ hjl]
                simp only [hcl, if_false]
                rw [ih3 _ p.1 p.2 hp (by omega)]
                obtain ⟨hr1, hr2⟩ := hr
                subst hr1; subst hr2; simp
            · simp only [h3, Bool.false_eq_true, if_false] at h ⊢
              by_cases h4 : (c == 91) = true
              · simp only [h4, if_true] at h ⊢
                by_cases hcl : (buf1 ++ suf)[skipWs (buf1 ++ suf) (w + 1)]? = some 93
                · simp only [hcl, if_true, Option.some.injEq, Prod.mk.injEq] at h
                  have hjl : skipWs (buf1 ++ suf) (w + 1) < buf1.size := by omega
                  rw [ws (w + 1) hjl, ← get_pre buf1 suf _ hjl, hcl]
                  simp only [if_true, Option.some.injEq, Prod.mk.injEq]; exact h
                · simp only [hcl, if_false] at h
                  obtain ⟨p, hp, hr⟩ := Option.map_eq_some_iff.mp h
                  simp only [Prod.mk.injEq] at hr
                  have hpr := tp2 _ p.1 p.2 hp
                  have hjl : skipWs (buf1 ++ suf) (w + 1) < buf1.size := by omega
                  rw [ws (w + 1) hjl, ← get_pre buf1 suf _ hjl]
                  simp only [hcl, if_false]
                  rw [ih2 _ p.1 p.2 hp (by omega)]
                  obtain ⟨hr1, hr2⟩ := hr
                  subst hr1; subst hr2; simp
              · simp only [h4, Bool.false_eq_true, if_false] at h ⊢
                have lp : ∀ bs (v : Json), (lit (buf1 ++ suf) (w + 1) bs).map (fun e => (v, e)) = some (j, e) →
                    (lit buf1 (w + 1) bs).map (fun e => (v, e)) = some (j, e) := by
                  intro bs v hm
                  obtain ⟨e', he', hr⟩ := Option.map_eq_some_iff.mp hm
                  simp only [Prod.mk.injEq] at hr
                  unfold lit at *
                  rw [litAt_prefix buf1 suf bs (w + 1) e' he' (by omega)]
                  obtain ⟨hr1, hr2⟩ := hr
                  subst hr1; subst hr2; simp
                by_cases h5 : (c == 116) = true
                · simp only [h5, if_true] at h ⊢; exact lp _ _ h
                · simp only [h5, Bool.false_eq_true, if_false] at h ⊢
                  by_cases h6 : (c == 102) = true
                  · simp only [h6, if_true] at h ⊢; exact lp _ _ h
                  · simp only [h6, Bool.false_eq_true, if_false] at h ⊢
                    by_cases h7 : (c == 110) = true
                    · simp only [h7, if_true] at h ⊢; exact lp _ _ h
                    · simp [h7] at h
    · intro w xs e h hle
      unfold treeElems at h ⊢
      cases ht : tree l f (buf1 ++ suf) w with
      | none => rw [ht] at h; simp at h
      | some p =>
        obtain ⟨x, e1⟩ := p
        rw [ht] at h
        simp only at h
        have g2 := skipWs_ge (buf1 ++ suf) e1
        by_cases hcl : (buf1 ++ suf)[skipWs (buf1 ++ suf) e1]? = some 93
        · simp only [hcl, if_true, Option.some.injEq, Prod.mk.injEq] at h
          have hjl : skipWs (buf1 ++ suf) e1 < buf1.size := by omega
          rw [ih1 w x e1 ht (by omega)]
          simp only
          rw [ws e1 hjl, ← get_pre buf1 suf _ hjl, hcl]
          simp only [if_true, Option.some.injEq, Prod.mk.injEq]; exact h
        · simp only [hcl, if_false] at h
          by_cases hco : (buf1 ++ suf)[skipWs (buf1 ++ suf) e1]? = some 44
          · simp only [hco, if_true] at h
            obtain ⟨q, hq, hr⟩ := Option.map_eq_some_iff.mp h
            simp only [Prod.mk.injEq] at hr
            have hpr := tp2 _ q.1 q.2 hq
            have g3 := skipWs_ge (buf1 ++ suf) (skipWs (buf1 ++ suf) e1 + 1)
            have hjl : skipWs (buf1 ++ suf) e1 < buf1.size := by omega
            have hjl2 : skipWs (buf1 ++ suf) (skipWs (buf1 ++ suf) e1 + 1) < buf1.size := by omega
            rw [ih1 w x e1 ht (by omega)]
            simp only
            rw [ws e1 hjl, ← get_pre buf1 suf _ hjl]
            rw [hco]
            simp only [Option.some.injEq, show ¬ ((44 : UInt8) = 93) by decide, if_false, if_true]
            rw [ws _ hjl2, ih2 _ q.1 q.2 hq (by omega)]
            obtain ⟨hr1, hr2⟩ := hr
            subst hr1; subst hr2; simp
          · simp [hco] at h
    · intro w ms e h hle
      have hw := (tree_progress l (buf1 ++ suf) (f + 1)).2.2 w ms e h
      have hwl : w < buf1.size := by omega
      unfold treeMembers at h ⊢
      rw [← get_pre buf1 suf w hwl]
      by_cases hq : (buf1 ++ suf)[w]? = some 34
      · simp only [hq, if_true] at h ⊢
        cases hs : stringS l (buf1 ++ suf) (w + 1) with
        | none => rw [hs] at h; simp at h
        | some p =>
          obtain ⟨k, e1⟩ := p
          rw [hs] at h
          simp only at h
          by_cases hcol : (buf1 ++ suf)[skipWs (buf1 ++ suf) e1]? = some 58
          · simp only [hcol, if_true] at h
            cases ht : tree l f (buf1 ++ suf) (skipWs (buf1 ++ suf) (skipWs (buf1 ++ suf) e1 + 1)) with
            | none => rw [ht] at h; simp at h
            | some q =>
              obtain ⟨x, e2⟩ := q
              rw [ht] at h
              simp only at h
              have hpv := tp1 _ x e2 ht
              have g1 := skipWs_ge (buf1 ++ suf) e1
              have g2 := skipWs_ge (buf1 ++ suf) (skipWs (buf1 ++ suf) e1 + 1)
              have g3 := skipWs_ge (buf1 ++ suf) e2
              have he2 : skipWs (buf1 ++ suf) e2 < buf1.size := by
                by_cases hcl : (buf1 ++ suf)[skipWs (buf1 ++ suf) e2]? = some 125
                · simp only [hcl, if_true, Option.some.injEq, Prod.mk.injEq] at h; omega
                · simp only [hcl, if_false] at h
                  by_cases hco : (buf1 ++ suf)[skipWs (buf1 ++ suf) e2]? = some 44
                  · simp only [hco, if_true] at h
                    obtain ⟨r, hr1, hr⟩ := Option.map_eq_some_iff.mp h
                    simp only [Prod.mk.injEq] at hr
                    have := tp3 _ r.1 r.2 hr1
                    have := skipWs_ge (buf1 ++ suf) (skipWs (buf1 ++ suf) e2 + 1)
                    omega
                  · simp [hco] at h
              have hk1 : skipWs (buf1 ++ suf) e1 < buf1.size := by omega
              have hk2 : skipWs (buf1 ++ suf) (skipWs (buf1 ++ suf) e1 + 1) < buf1.size := by omega
              rw [stringS_prefix l buf1 suf _ (w + 1) (k, e1) rfl hs (by simp only; omega)]
              simp only
              rw [ws e1 hk1, ← get_pre buf1 suf _ hk1]
              simp only [hcol, if_true]
              rw [ws _ hk2, ih1 _ x e2 ht (by omega)]
              simp only
              rw [ws e2 he2, ← get_pre buf1 suf _ he2]
              by_cases hcl : (buf1 ++ suf)[skipWs (buf1 ++ suf) e2]? = some 125
              · simp only [hcl, if_true, Option.some.injEq, Prod.mk.injEq] at h ⊢; exact h
              · simp only [hcl, if_false] at h ⊢
                by_cases hco : (buf1 ++ suf)[skipWs (buf1 ++ suf) e2]? = some 44
                · simp only [hco, if_true] at h ⊢
                  obtain ⟨r, hr1, hr⟩ := Option.map_eq_some_iff.mp h
                  simp only [Prod.mk.injEq] at hr
                  have hp := tp3 _ r.1 r.2 hr1
                  have hjl2 : skipWs (buf1 ++ suf) (skipWs (buf1 ++ suf) e2 + 1) < buf1.size := by omega
                  rw [ws _ hjl2, ih3 _ r.1 r.2 hr1 (by omega)]
                  obtain ⟨hr1, hr2⟩ := hr
                  subst hr1; subst hr2; simp
                · simp [hco] at h
          · simp [hcol] at h
      · simp [hq] at h

/-- more fuel does not change the tree -/
theorem tree_mono (l : Bool) (buf : Buf) : ∀ f,
    (∀ i r, tree l f buf i = some r → tree l (f + 1) buf i = some r) ∧
    (∀ i r, treeElems l f buf i = some r → treeElems l (f + 1) buf i = some r) ∧
    (∀ i r, treeMembers l f buf i = some r → treeMembers l (f + 1) buf i = some r) := by
  intro f
  induction f with
  | zero => refine ⟨?_, ?_, ?_⟩ <;> (intro i r h; simp [tree, treeElems, treeMembers] at h)
  | succ f ih =>
    obtain ⟨ih1, ih2, ih3⟩ := ih
    refine ⟨?_, ?_, ?_⟩
    · intro i r h
      unfold tree at h ⊢
      cases hb : buf[i]? with
      | none => rw [hb] at h; simp at h
      | some c =>
        rw [hb] at h
        simp only at h ⊢
        by_cases h1 : (c == 45 || isDigit c) = true
        · simp only [h1, if_true] at h ⊢; exact h
        · simp only [h1, Bool.false_eq_true, if_false] at h ⊢
          by_cases h2 : (c == 34) = true
          · simp only [h2, if_true] at h ⊢; exact h
          · simp only [h2, Bool.false_eq_true, if_false] at h ⊢
            by_cases h3 : (c == 123) = true
            · simp only [h3, if_true] at h ⊢
              by_cases hcl : buf[skipWs buf (i + 1)]? = some 125
              · simp only [hcl, if_true] at h ⊢; exact h
              · simp only [hcl, if_false] at h ⊢
                obtain ⟨p, hp, hr⟩ := Option.map_eq_some_iff.mp h
                rw [ih3 _ p hp]; simp only [Option.map_some]; rw [hr]
            · simp only [h3, Bool.false_eq_true, if_false] at h ⊢
              by_cases h4 : (c == 91) = true
              · simp only [h4, if_true] at h ⊢
                by_cases hcl : buf[skipWs buf (i + 1)]? = some 93
                · simp only [hcl, if_true] at h ⊢; exact h
                · simp only [hcl, if_false] at h ⊢
                  obtain ⟨p, hp, hr⟩ := Option.map_eq_some_iff.mp h
                  rw [ih2 _ p hp]; simp only [Option.map_some]; rw [hr]
              · simp only [h4, Bool.false_eq_true, if_false] at h ⊢; exact h
    · intro i r h
      unfold treeElems at h ⊢
      cases ht : tree l f buf i with
      | none => rw [ht] at h; simp at h
      | some p =>
        rw [ht] at h
        rw [ih1 i p ht]
        simp only at h ⊢
        split
        · rename_i hc; simp only [hc, if_true] at h; exact h
        · rename_i hc
          simp only [hc, if_false] at h
          split
          · rename_i hco
            simp only [hco, if_true] at h
            obtain ⟨q, hq, hr⟩ := Option.map_eq_some_iff.mp h
            rw [ih2 _ q hq]; simp only [Option.map_some]; rw [hr]
          · rename_i hco; simp [hco] at h
    · intro i r h
      unfold treeMembers at h ⊢
      split
      · rename_i hq
        simp only [hq, if_true] at h
        cases hs : stringS l buf (i + 1) with
        | none => rw [hs] at h; simp at h
        | some p =>
          rw [hs] at h
          simp only at h ⊢
          split
          · rename_i hcol
            simp only [hcol, if_true] at h
            cases ht : tree l f buf (skipWs buf (skipWs buf p.2 + 1)) with
            | none => rw [ht] at h; simp at h
            | some q =>
              rw [ht] at h
              rw [ih1 _ q ht]
              simp only at h ⊢
              split
              · rename_i hc; simp only [hc, if_true] at h; exact h
              · rename_i hc
                simp only [hc, if_false] at h
                split
                · rename_i hco
                  simp only [hco, if_true] at h
                  obtain ⟨r2, hr2, hr⟩ := Option.map_eq_some_iff.mp h
                  rw [ih3 _ r2 hr2]; simp only [Option.map_some]; rw [hr]
                · rename_i hco; simp [hco] at h
          · rename_i hcol; simp [hcol] at h
      · rename_i hq; simp [hq] at h

theorem tree_mono_le (l : Bool) (buf : Buf) (f g i : Nat) (r : Json × Nat) (hfg : f ≤ g) (h : tree l f buf i = some r) :
    tree l g buf i = some r := by
  induction hfg with
  | refl => exact h
  | step _ ih => exact (tree_mono l buf _).1 i r ih

end GrammarPad
end Sonic
