import SonicModel.Lemmas.DeValue
/-! the typed deserializer against the reference semantics: induction over the strict grammar, whole documents -/
namespace Sonic
namespace De
open Gen Spec Impl DomP

theorem mkValueOK (buf : Buf) (w : Nat) (x : Json) (e : Nat) (c : UInt8) (hb : buf[w]? = some c) (hws : isWs c = false)
    (hst : c ≠ 93 ∧ c ≠ 125 ∧ c ≠ 44) (hlazy : ∃ F, Spec.value false F buf w = .ok e)
    (base : ∀ f ty i, cov ty = true → direct ty = true → skipWs buf i = w → de f ty buf i ≠ .fuel → Stab buf ty x e (de f ty buf i))
    (hnull : x = .null → c = 110 ∧ parseLiteral buf (w + 1) [117, 108, 108] = .ok e)
    (hnn : x ≠ .null → c ≠ 110) : ValueOK buf w x e := by
  have hlt : w < buf.size := (Array.getElem?_eq_some_iff.mp hb).1
  have hbw : buf[w] = c := by
    have := getElem?_of_lt buf w hlt
    rw [hb] at this; exact (Option.some.inj this).symm
  refine ⟨hlt, skipWs_fix buf w hlt (by rw [hbw]; exact hws), ?_, hlazy, ?_⟩
  · rw [hb]
    refine ⟨?_, ?_, ?_⟩ <;> (intro h; simp at h) 
    · exact hst.1 h
    · exact hst.2.1 h
    · exact hst.2.2 h
  · refine lift_facts buf w x e base ?_ ?_
    · intro hx
      obtain ⟨h1, h2⟩ := hnull hx
      rw [hb, h1]; exact ⟨rfl, h2⟩
    · intro hx h
      rw [hb] at h
      exact hnn hx (by simpa using h)


theorem ws_of_eq (c : UInt8) (h : (c == 34) = true ∨ (c == 123) = true ∨ (c == 91) = true ∨ (c == 116) = true ∨ (c == 102) = true ∨
    (c == 110) = true ∨ (c == 45 || isDigit c) = true) :
    isWs c = false ∧ (c ≠ 93 ∧ c ≠ 125 ∧ c ≠ 44) := by
  rcases h with h | h | h | h | h | h | h
  all_goals (first
    | (have : c = 34 := by simpa using h
       subst this; decide)
    | (have : c = 123 := by simpa using h
       subst this; decide)
    | (have : c = 91 := by simpa using h
       subst this; decide)
    | (have : c = 116 := by simpa using h
       subst this; decide)
    | (have : c = 102 := by simpa using h
       subst this; decide)
    | (have : c = 110 := by simpa using h
       subst this; decide)
    | skip)
  revert h
  revert c
  apply UInt8.forall_of_fin
  decide +kernel

/-- **the typed deserializer on strictly well-formed text**: values, element lists, member lists -/
theorem typed_of_strict (buf : Buf) : ∀ F,
    (∀ w e, Spec.value true F buf w = .ok e → ∃ t, tree false F buf w = some (t, e) ∧ ValueOK buf w t e) ∧
    (∀ p e, elems true F buf p = .ok e → ∃ xs, treeElems false F buf p = some (xs, e) ∧ Elems buf p xs e) ∧
    (∀ q e, members true F buf q = .ok e → ∃ ms, treeMembers false F buf q = some (ms, e) ∧ Members buf q ms e) := by
  intro F
  induction F with
  | zero =>
    refine ⟨?_, ?_, ?_⟩ <;> (intro a e h; simp [Spec.value, elems, members] at h)
  | succ f ih =>
    obtain ⟨ih1, ih2, ih3⟩ := ih
    refine ⟨?_, ?_, ?_⟩
    · -- a value
      intro w e h
      have hlazy : ∃ F, Spec.value false F buf w = .ok e := ⟨f + 1, value_strict_lazy buf (f + 1) w e h⟩
      unfold Spec.value at h
      cases hb : buf[w]? with
      | none => simp [hb] at h
      | some c =>
        simp only [hb] at h
        unfold tree
        simp only [hb]
        by_cases h1 : (c == 45 || isDigit c) = true
        · simp only [h1, if_true] at h ⊢
          have hn : numberS true buf w = some e := by
            cases hx : numberS true buf w with
            | none => rw [hx] at h; simp [Res.ofOpt] at h
            | some e' => rw [hx] at h; simp [Res.ofOpt] at h; rw [h]
          have hnum : number buf w = some e := by simpa using numberS_strict_lazy buf w e hn
          obtain ⟨hw1, hw2⟩ := ws_of_eq c (Or.inr (Or.inr (Or.inr (Or.inr (Or.inr (Or.inr h1))))))
          refine ⟨.num w e, by simp [hnum], ?_⟩
          refine mkValueOK buf w _ e c hb hw1 hw2 hlazy (num_base buf w e c hb h1 hnum) (by intro hx; cases hx) ?_
          intro _ h110; subst h110; simp [isDigit] at h1
        · simp only [h1, Bool.false_eq_true, if_false] at h ⊢
          by_cases h2 : (c == 34) = true
          · simp only [h2, if_true] at h ⊢
            have hs : string true buf (w + 1) = some e := by
              cases hx : string true buf (w + 1) with
              | none => rw [hx] at h; simp [Res.ofOpt] at h
              | some e' => rw [hx] at h; simp [Res.ofOpt] at h; rw [h]
            unfold string at hs
            simp only [if_true] at hs
            cases hss : stringS false buf (w + 1) with
            | none => simp [hss] at hs
            | some r =>
              obtain ⟨bs, e'⟩ := r
              simp only [hss, Option.map_some, Option.some.injEq] at hs
              subst hs
              have hc34 : c = 34 := by simpa using h2
              subst hc34
              obtain ⟨esc, hd⟩ := decodeFrom_of_stringS_some buf (w + 1) bs e' hss
              refine ⟨.str bs, by simp, ?_⟩
              exact mkValueOK buf w _ e' 34 hb (by decide) (by decide) hlazy (str_base buf w e' bs esc hb hd)
                (by intro hx; cases hx) (by intro _; decide)
          · simp only [h2, Bool.false_eq_true, if_false] at h ⊢
            by_cases h3 : (c == 123) = true
            · simp only [h3, if_true] at h ⊢
              have hc : c = 123 := by simpa using h3
              subst hc
              by_cases hcl : buf[skipWs buf (w + 1)]? = some 125
              · simp only [hcl, if_true] at h ⊢
                simp only [Res.ok.injEq] at h
                subst h
                refine ⟨.obj [], rfl, ?_⟩
                exact mkValueOK buf w _ _ 123 hb (by decide) (by decide) hlazy
                  (obj_base buf w _ [] hb (Or.inl ⟨rfl, hcl, rfl⟩)) (by intro hx; cases hx) (by intro _; decide)
              · simp only [hcl, if_false] at h ⊢
                obtain ⟨ms, hm, hmem⟩ := ih3 _ e h
                refine ⟨.obj ms, by simp [hm], ?_⟩
                exact mkValueOK buf w _ e 123 hb (by decide) (by decide) hlazy
                  (obj_base buf w e ms hb (Or.inr hmem)) (by intro hx; cases hx) (by intro _; decide)
            · simp only [h3, Bool.false_eq_true, if_false] at h ⊢
              by_cases h4 : (c == 91) = true
              · simp only [h4, if_true] at h ⊢
                have hc : c = 91 := by simpa using h4
                subst hc
                by_cases hcl : buf[skipWs buf (w + 1)]? = some 93
                · simp only [hcl, if_true] at h ⊢
                  simp only [Res.ok.injEq] at h
                  subst h
                  refine ⟨.arr [], rfl, ?_⟩
                  exact mkValueOK buf w _ _ 91 hb (by decide) (by decide) hlazy
                    (arr_base buf w _ [] hb (Or.inl ⟨rfl, hcl, rfl⟩)) (by intro hx; cases hx) (by intro _; decide)
                · simp only [hcl, if_false] at h ⊢
                  obtain ⟨xs, hx, hel⟩ := ih2 _ e h
                  refine ⟨.arr xs, by simp [hx], ?_⟩
                  exact mkValueOK buf w _ e 91 hb (by decide) (by decide) hlazy
                    (arr_base buf w e xs hb (Or.inr hel)) (by intro hx; cases hx) (by intro _; decide)
              · simp only [h4, Bool.false_eq_true, if_false] at h ⊢
                by_cases h5 : (c == 116) = true
                · simp only [h5, if_true] at h ⊢
                  have hc : c = 116 := by simpa using h5
                  subst hc
                  refine ⟨.bool true, by simp [lit_of_ofOpt buf _ _ e h], ?_⟩
                  have hl := parseLiteral_of_lit buf (w + 1) [114, 117, 101] (by simp) e h
                  exact mkValueOK buf w _ e 116 hb (by decide) (by decide) hlazy
                    (lit_base buf w e 116 _ _ (Or.inr (Or.inl ⟨rfl, rfl, rfl⟩)) hb hl) (by intro hx; cases hx) (by intro _; decide)
                · simp only [h5, Bool.false_eq_true, if_false] at h ⊢
                  by_cases h6 : (c == 102) = true
                  · simp only [h6, if_true] at h ⊢
                    have hc : c = 102 := by simpa using h6
                    subst hc
                    refine ⟨.bool false, by simp [lit_of_ofOpt buf _ _ e h], ?_⟩
                    have hl := parseLiteral_of_lit buf (w + 1) [97, 108, 115, 101] (by simp) e h
                    exact mkValueOK buf w _ e 102 hb (by decide) (by decide) hlazy
                      (lit_base buf w e 102 _ _ (Or.inr (Or.inr ⟨rfl, rfl, rfl⟩)) hb hl) (by intro hx; cases hx) (by intro _; decide)
                  · simp only [h6, Bool.false_eq_true, if_false] at h ⊢
                    by_cases h7 : (c == 110) = true
                    · simp only [h7, if_true] at h ⊢
                      have hc : c = 110 := by simpa using h7
                      subst hc
                      refine ⟨.null, by simp [lit_of_ofOpt buf _ _ e h], ?_⟩
                      have hl := parseLiteral_of_lit buf (w + 1) [117, 108, 108] (by simp) e h
                      exact mkValueOK buf w _ e 110 hb (by decide) (by decide) hlazy
                        (lit_base buf w e 110 _ _ (Or.inl ⟨rfl, rfl, rfl⟩) hb hl) (by intro _; exact ⟨rfl, hl⟩) (by intro hx; exact absurd rfl hx)
                    · simp [h7] at h
    · -- elements
      intro p e h
      unfold elems at h
      cases hv : Spec.value true f buf p with
      | ok e1 =>
        simp only [hv] at h
        obtain ⟨t, ht, hok⟩ := ih1 p e1 hv
        unfold treeElems
        simp only [ht]
        by_cases hcl : buf[skipWs buf e1]? = some 93
        · simp only [hcl, if_true] at h ⊢
          simp only [Res.ok.injEq] at h
          subst h
          exact ⟨[t], rfl, Elems.last p t e1 hok hcl⟩
        · simp only [hcl, if_false] at h ⊢
          by_cases hco : buf[skipWs buf e1]? = some 44
          · simp only [hco, if_true] at h ⊢
            obtain ⟨xs, hx, hel⟩ := ih2 _ e h
            exact ⟨t :: xs, by simp [hx], Elems.cons p t e1 xs e hok hco hel⟩
          · simp [hco] at h
      | err => simp [hv] at h
      | fuel => simp [hv] at h
    · -- members
      intro q e h
      unfold members at h
      split at h
      · rename_i hq
        cases hs : string true buf (q + 1) with
        | none => simp [hs] at h
        | some k1 =>
          simp only [hs] at h
          have hsS : ∃ name, stringS false buf (q + 1) = some (name, k1) := by
            unfold string at hs
            simp only [if_true] at hs
            cases hss : stringS false buf (q + 1) with
            | none => simp [hss] at hs
            | some r => obtain ⟨nm, e'⟩ := r; simp [hss] at hs; exact ⟨nm, by rw [hs]⟩
          obtain ⟨name, hname⟩ := hsS
          split at h
          · rename_i hcol
            cases hv : Spec.value true f buf (skipWs buf (skipWs buf k1 + 1)) with
            | ok e1 =>
              simp only [hv] at h
              obtain ⟨t, ht, hok⟩ := ih1 _ e1 hv
              unfold treeMembers
              simp only [hq, if_true, hname, hcol, ht]
              by_cases hcl : buf[skipWs buf e1]? = some 125
              · simp only [hcl, if_true] at h ⊢
                simp only [Res.ok.injEq] at h
                subst h
                exact ⟨[(name, t)], rfl, Members.last q name k1 t e1 hq hname hcol hok hcl⟩
              · simp only [hcl, if_false] at h ⊢
                by_cases hco : buf[skipWs buf e1]? = some 44
                · simp only [hco, if_true] at h ⊢
                  obtain ⟨ms, hm, hmem⟩ := ih3 _ e h
                  exact ⟨(name, t) :: ms, by simp [hm], Members.cons q name k1 t e1 ms e hq hname hcol hok hco hmem⟩
                · simp [hco] at h
            | err => simp [hv] at h
            | fuel => simp [hv] at h
          · simp at h
      · simp at h


/-- the verdict of a result -/
def R.toOpt : R Val → Option Val
  | .ok v _ => some v
  | _ => none

/-- **whole documents**: on every strictly well-formed text the model of `from_str::<T>` answers what the reference
    semantics says about the tree the text denotes (accept / reject and the value), whenever it terminates -/
theorem typed_document (buf : Buf) (ty : Ty) (hc : cov ty = true) (s e : Nat) (h : Spec.document true buf = some (s, e))
    (hne : deDoc ty buf ≠ .fuel) :
    ∃ t, docTree false buf = some t ∧ ∃ g0, ∀ g, g0 ≤ g → (deDoc ty buf).toOpt = decode buf g ty t := by
  unfold Spec.document at h
  simp only at h
  cases hv : Spec.value true (Spec.fuelFor buf) buf (skipWs buf 0) with
  | ok e1 =>
    simp only [hv] at h
    split at h
    · rename_i hend
      obtain ⟨t, ht, hok⟩ := (typed_of_strict buf (Spec.fuelFor buf)).1 _ e1 hv
      refine ⟨t, by unfold docTree; simp only [ht, hend, if_true], ?_⟩
      unfold deDoc at hne ⊢
      have hde : de (4 * buf.size + 64) ty buf 0 ≠ .fuel := by
        intro hh; rw [hh] at hne; exact hne rfl
      obtain ⟨g0, hg0⟩ := hok.facts _ ty 0 hc rfl hde
      refine ⟨g0, ?_⟩
      intro g hg
      have := hg0 g hg
      cases hd : decode buf g ty t with
      | none => rw [hd] at this; simp only [ofOpt] at this; rw [← this]; rfl
      | some v =>
        rw [hd] at this; simp only [ofOpt] at this
        rw [← this]
        simp [hend, R.toOpt]
    · simp at h
  | err => simp [hv] at h
  | fuel => simp [hv] at h

end De
end Sonic
