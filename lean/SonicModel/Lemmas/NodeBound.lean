import SonicModel.Lemmas.TreeRoundTrip
namespace Sonic
namespace Spec

mutual
/-- number of nodes the DOM visitor pushes for a value: one per value, one per object key -/
def RJ.nodes : RJ → Nat
  | .arr xs => 1 + RJ.nodesL xs
  | .obj ms => 1 + RJ.nodesM ms
  | _ => 1
def RJ.nodesL : List RJ → Nat
  | [] => 0
  | x :: r => x.nodes + RJ.nodesL r
def RJ.nodesM : List (List UInt8 × RJ) → Nat
  | [] => 0
  | (_, x) :: r => 1 + x.nodes + RJ.nodesM r
end

mutual
theorem nodes_bound : ∀ t : RJ, t.WF → 2 * t.nodes ≤ t.render.length + 1
  | .null, _ => by simp [RJ.nodes, RJ.render]
  | .bool b, _ => by cases b <;> simp [RJ.nodes, RJ.render]
  | .num lit, h => by
    have hne : lit ≠ [] := (h : NumOK lit).1
    cases lit with
    | nil => exact absurd rfl hne
    | cons c r => simp [RJ.nodes, RJ.render]
  | .str s, _ => by simp [RJ.nodes, RJ.render, quoted]
  | .arr [], _ => by simp [RJ.nodes, RJ.render, RJ.nodesL]
  | .arr (x :: xs), h => by
    have hw : x.WF ∧ RJ.WFL xs := h
    have h1 := nodes_bound x hw.1
    have h2 := nodesRest_bound xs hw.2
    simp only [RJ.nodes, RJ.nodesL, RJ.render, List.length_cons, List.length_append]
    omega
  | .obj [], _ => by simp [RJ.nodes, RJ.render, RJ.nodesM]
  | .obj ((k, x) :: ms), h => by
    have hw : x.WF ∧ RJ.WFM ms := h
    have h1 := nodes_bound x hw.1
    have h2 := nodesRestM_bound ms hw.2
    have hq : 2 ≤ (quoted k).length := by simp [quoted]
    simp only [RJ.nodes, RJ.nodesM, RJ.render, List.length_cons, List.length_append]
    omega
theorem nodesRest_bound : ∀ xs : List RJ, RJ.WFL xs → 2 * RJ.nodesL xs + 1 ≤ (RJ.renderRest xs).length
  | [], _ => by simp [RJ.nodesL, RJ.renderRest]
  | y :: r, h => by
    have hw : y.WF ∧ RJ.WFL r := h
    have h1 := nodes_bound y hw.1
    have h2 := nodesRest_bound r hw.2
    simp only [RJ.nodesL, RJ.renderRest, List.length_cons, List.length_append]
    omega
theorem nodesRestM_bound : ∀ ms : List (List UInt8 × RJ), RJ.WFM ms → 2 * RJ.nodesM ms + 1 ≤ (RJ.renderRestM ms).length
  | [], _ => by simp [RJ.nodesM, RJ.renderRestM]
  | (k, y) :: r, h => by
    have hw : y.WF ∧ RJ.WFM r := h
    have h1 := nodes_bound y hw.1
    have h2 := nodesRestM_bound r hw.2
    have hq : 2 ≤ (quoted k).length := by simp [quoted]
    simp only [RJ.nodesM, RJ.renderRestM, List.length_cons, List.length_append]
    omega
end

/-- **the node buffer of the DOM parser is large enough**: `DocumentVisitor::new` reserves
    `len / 2 + 2` nodes; a document of length `len` pushes at most that many (its values, its
    keys and the header node) -/
theorem node_buffer_suffices (t : RJ) (h : t.WF) : t.nodes + 1 ≤ t.render.length / 2 + 2 := by
  have := nodes_bound t h
  omega

end Spec
end Sonic
