import SonicModel.Impl.Err
namespace Sonic
open Impl

theorem snipStart_ok (json : Buf) (index : Nat) : ∀ s, (s < json.size ∨ s = 0) →
    ∃ r, snipStart json index s = some r ∧ r ≤ s := by
  intro s
  induction s with
  | zero => intro _; exact ⟨0, by simp [snipStart], Nat.le_refl _⟩
  | succ s ih =>
    intro h
    have hs : s + 1 < json.size := by
      cases h with
      | inl h => exact h
      | inr h => omega
    unfold snipStart
    by_cases hc : index - (s+1) ≤ 16
    · simp only [hc, ite_true]
      have : json[s+1]? = some json[s+1] := by simp [hs]
      rw [this]
      simp only
      by_cases hb : isCont json[s+1] = true
      · simp only [hb, ite_true]
        obtain ⟨r, hr, hle⟩ := ih (Or.inl (by omega))
        exact ⟨r, hr, by omega⟩
      · simp only [hb]
        exact ⟨s+1, rfl, Nat.le_refl _⟩
    · simp only [hc, ite_false]
      exact ⟨s+1, rfl, Nat.le_refl _⟩

theorem snipEnd_ok (json : Buf) (index : Nat) : ∀ fuel en, (0 < en ∨ json.size ≤ en) → en ≤ json.size →
    ∃ r, snipEnd json index fuel en = some r ∧ en ≤ r ∧ r ≤ json.size := by
  intro fuel
  induction fuel with
  | zero => intro en _ h2; exact ⟨en, rfl, Nat.le_refl _, h2⟩
  | succ fuel ih =>
    intro en h1 h2
    unfold snipEnd
    by_cases hc : (decide (en < json.size) && decide (en - index ≤ 16)) = true
    · simp only [hc, ite_true]
      have hlt : en < json.size := by simp at hc; exact hc.1
      have hpos : 0 < en := by
        cases h1 with
        | inl h => exact h
        | inr h => omega
      have hne : ¬ en = 0 := by omega
      simp only [hne, ite_false]
      have : json[en-1]? = some (json[en-1]'(by omega)) := by
        simp
      rw [this]
      simp only
      by_cases hb : isCont (json[en-1]'(by omega)) = true
      · simp only [hb, ite_true]
        obtain ⟨r, hr, h3, h4⟩ := ih (en+1) (Or.inl (by omega)) (by omega)
        exact ⟨r, hr, by omega, h4⟩
      · simp only [hb]
        exact ⟨en, rfl, Nat.le_refl _, h2⟩
    · simp only [hc]
      exact ⟨en, rfl, Nat.le_refl _, h2⟩

/-- `Error::syntax` never indexes or slices out of range when `index ≤ json.len()` -/
theorem snippet_total (json : Buf) (index : Nat) (h : index ≤ json.size) :
    (snippet json index).isSome = true := by
  unfold snippet
  have hs0 : (index - 8 < json.size ∨ index - 8 = 0) := by omega
  obtain ⟨s, hs, hsle⟩ := snipStart_ok json index (index - 8) hs0
  have he0 : (0 < (if index + 8 > json.size then json.size else index + 8) ∨
      json.size ≤ (if index + 8 > json.size then json.size else index + 8)) := by
    split <;> omega
  have he1 : (if index + 8 > json.size then json.size else index + 8) ≤ json.size := by
    split <;> omega
  obtain ⟨e, he, hge, hle⟩ := snipEnd_ok json index
    (json.size - (if index + 8 > json.size then json.size else index + 8)) _ he0 he1
  simp only [hs, he]
  have h1 : s ≤ e := by split at hge <;> omega
  have h2 : s ≤ index := by omega
  have h3 : index ≤ e := by split at hge <;> omega
  simp [h1, hle, h2, h3]

end Sonic
