import SonicModel.Impl.Mut
namespace Sonic
namespace Mut

def Out.map {α β} (f : α → β) : Out α → Out β
  | .done => .done
  | .val v => .val (f v)
  | .vals vs => .vals (vs.map f)
  | .none => .none
  | .missing => .missing
  | .panic => .panic

def MOp.map {α β} (f : α → β) : MOp α → MOp β
  | .push x => .push (f x)
  | .pop => .pop
  | .insertAt n x => .insertAt n (f x)
  | .removeAt n => .removeAt n
  | .swapRemove n => .swapRemove n
  | .truncate n => .truncate n
  | .clear => .clear
  | .objInsert k x => .objInsert k (f x)
  | .objRemove k => .objRemove k
  | .take => .take
  | .assign x => .assign (f x)
  | .setKey k x => .setKey k (f x)
  | .setIdx n x => .setIdx n (f x)
  | .orInsert k x => .orInsert k (f x)
  | .splitOff n => .splitOff n
  | .drain a b => .drain a b
  | .extendWithin a b => .extendWithin a b
  | .resize n x => .resize n (f x)
  | .retainNonNull => .retainNonNull
  | .append x => .append (f x)

/-! ### lists -/

theorem absL_eq_map (xs : List DV) : absL xs = xs.map abs := by
  induction xs with
  | nil => simp [absL]
  | cons x r ih => simp [absL, ih]

theorem absM_eq_map (ms : List (Key × DV)) : absM ms = ms.map (fun p => (p.1, abs p.2)) := by
  induction ms with
  | nil => simp [absM]
  | cons p r ih => obtain ⟨k, x⟩ := p; simp [absM, ih]

theorem map_filter_key {α β} (f : α → β) (k : Key) (ms : List (Key × α)) :
    (ms.filter (fun p => p.1 ≠ k)).map (fun p => (p.1, f p.2)) = (ms.map (fun p => (p.1, f p.2))).filter (fun p => p.1 ≠ k) := by
  induction ms with
  | nil => rfl
  | cons p r ih =>
    have ih' : List.map (fun p => (p.fst, f p.snd)) (List.filter (fun p => !decide (p.fst = k)) r) =
        List.filter (fun p => !decide (p.fst = k)) (List.map (fun p => (p.fst, f p.snd)) r) := by simpa using ih
    by_cases h : p.1 = k <;> simp [List.filter_cons, h, ih']

theorem map_dedupFirst {α β} (f : α → β) (ms : List (Key × α)) :
    (dedupFirst ms).map (fun p => (p.1, f p.2)) = dedupFirst (ms.map (fun p => (p.1, f p.2))) := by
  induction ms with
  | nil => rfl
  | cons p r ih =>
    obtain ⟨k, x⟩ := p
    simp only [dedupFirst, List.map_cons]
    rw [map_filter_key, ih]

theorem absM_dedupFirst (ms : List (Key × DV)) : absM (dedupFirst ms) = dedupFirst (absM ms) := by
  rw [absM_eq_map, absM_eq_map, map_dedupFirst]

theorem lookup_map {α β} (f : α → β) (k : Key) (ms : List (Key × α)) :
    lookup k (ms.map (fun p => (p.1, f p.2))) = (lookup k ms).map f := by
  induction ms with
  | nil => rfl
  | cons p r ih =>
    obtain ⟨k', x⟩ := p
    simp only [List.map_cons, lookup]
    split <;> simp_all

theorem lookup_filter_ne {α} (k k' : Key) (h : k' ≠ k) (ms : List (Key × α)) :
    lookup k (ms.filter (fun p => p.1 ≠ k')) = lookup k ms := by
  induction ms with
  | nil => rfl
  | cons p r ih =>
    obtain ⟨k2, x⟩ := p
    by_cases h2 : k2 = k'
    · subst h2
      simp only [List.filter_cons, ne_eq, not_true_eq_false, decide_false, Bool.false_eq_true, if_false, lookup, h, ih]
    · simp only [List.filter_cons, ne_eq, h2, not_false_eq_true, decide_true, if_true, lookup, ih]

theorem lookup_dedupFirst {α} (k : Key) (ms : List (Key × α)) : lookup k (dedupFirst ms) = lookup k ms := by
  induction ms with
  | nil => rfl
  | cons p r ih =>
    obtain ⟨k', x⟩ := p
    simp only [dedupFirst, lookup]
    split
    · rfl
    · rename_i h
      rw [lookup_filter_ne k k' h, ih]

/-- **promotion is invisible**: converting a parsed container to the owned one does not change the
    value it denotes (for objects with duplicated keys: the first member is kept, as `get` sees it) -/
theorem abs_promote (v : DV) : abs (promote v) = abs v := by
  cases v <;> simp [promote, abs, absM_dedupFirst]

/-- `get` of the representation is `get` of the reference -/
theorem get_refines (v : DV) (i : Idx) : (v.get i).map abs = (abs v).get i := by
  cases i with
  | idx n =>
    cases v <;> simp [DV.get, J.get, abs, absL_eq_map]
  | key k =>
    cases v <;> simp [DV.get, J.get, abs, absM_eq_map, lookup_map, lookup_dedupFirst]

/-- `pointer(path)` of the representation is `pointer(path)` of the reference -/
theorem pointer_refines (path : List Idx) : ∀ v : DV, (v.pointer path).map abs = (abs v).pointer path := by
  induction path with
  | nil => intro v; rfl
  | cons i rest ih =>
    intro v
    have hg := get_refines v i
    simp only [DV.pointer, J.pointer]
    cases h : v.get i with
    | none => rw [h] at hg; simp at hg; rw [← hg]; rfl
    | some c => rw [h] at hg; simp at hg; rw [← hg]; exact ih c

/-! ### the container operations commute with the abstraction -/

theorem getLast?_map' {α β} (f : α → β) (l : List α) : (l.map f).getLast? = l.getLast?.map f := by
  simp [List.getLast?_map]

theorem map_eraseIdx' {α β} (f : α → β) (l : List α) (n : Nat) : (l.map f).eraseIdx n = (l.eraseIdx n).map f := by
  induction l generalizing n with
  | nil => rfl
  | cons a l ih => cases n <;> simp [ih]

theorem filter_map_nn {α β} (f : α → β) (na : α → Bool) (nb : β → Bool) (h : ∀ x, nb (f x) = na x) (xs : List α) :
    (xs.map f).filter (fun v => !nb v) = (xs.filter (fun v => !na v)).map f := by
  induction xs with
  | nil => rfl
  | cons x r ih => simp only [List.map_cons, List.filter_cons, h x]; split <;> simp [ih]

theorem arrOp_map {α β} (f : α → β) (na : α → Bool) (nb : β → Bool) (h : ∀ x, nb (f x) = na x)
    (ea : α → Option (List α)) (eb : β → Option (List β)) (he : ∀ x, eb (f x) = (ea x).map (List.map f)) (xs : List α) (op : MOp α) :
    arrOp nb eb (xs.map f) (op.map f) = (arrOp na ea xs op).map (fun r => (r.1.map f, r.2.map f)) := by
  cases op with
  | append x =>
    simp only [arrOp, MOp.map, he]
    cases ea x <;> simp [Out.map]
  | push x => simp [arrOp, MOp.map, Out.map]
  | pop =>
    simp only [arrOp, MOp.map, Option.map_some, List.getLast?_map]
    cases xs.getLast? <;> simp [Out.map, List.map_dropLast]
  | insertAt n x =>
    simp only [arrOp, MOp.map, List.length_map]
    split <;> simp [Out.map, List.map_take, List.map_drop]
  | removeAt n =>
    simp only [arrOp, MOp.map, List.length_map]
    split <;> simp [Out.map, map_eraseIdx']
  | swapRemove n =>
    simp only [arrOp, MOp.map, List.getElem?_map, List.getLast?_map]
    cases h1 : xs[n]? <;> cases h2 : xs.getLast? <;> simp [Out.map, List.map_dropLast, List.map_set]
  | truncate n => simp [arrOp, MOp.map, Out.map, List.map_take]
  | clear => simp [arrOp, MOp.map, Out.map]
  | setIdx n x =>
    simp only [arrOp, MOp.map, List.length_map]
    split <;> simp [Out.map, List.map_set]
  | objInsert k x => simp [arrOp, MOp.map]
  | objRemove k => simp [arrOp, MOp.map]
  | take => simp [arrOp, MOp.map]
  | assign x => simp [arrOp, MOp.map]
  | setKey k x => simp [arrOp, MOp.map]
  | orInsert k x => simp [arrOp, MOp.map]
  | splitOff n =>
    simp only [arrOp, MOp.map, List.length_map]
    split <;> simp [Out.map, List.map_take, List.map_drop]
  | drain a b =>
    simp only [arrOp, MOp.map, List.length_map]
    split <;> simp [Out.map, List.map_take, List.map_drop]
  | extendWithin a b =>
    simp only [arrOp, MOp.map, List.length_map]
    split <;> simp [Out.map, List.map_take, List.map_drop]
  | resize n x =>
    simp only [arrOp, MOp.map, List.length_map]
    split <;> simp [Out.map, List.map_take]
  | retainNonNull => simp [arrOp, MOp.map, Out.map, filter_map_nn f na nb h]

theorem setKey_map {α β} (f : α → β) (k : Key) (x : α) (ms : List (Key × α)) :
    (setKey k x ms).map (fun p => (p.1, f p.2)) = setKey k (f x) (ms.map (fun p => (p.1, f p.2))) := by
  induction ms with
  | nil => rfl
  | cons p r ih =>
    obtain ⟨k', v⟩ := p
    simp only [setKey, List.map_cons]
    split <;> simp [ih]

theorem insertKey_map {α β} (f : α → β) (k : Key) (x : α) (ms : List (Key × α)) :
    (insertKey k x ms).map (fun p => (p.1, f p.2)) = insertKey k (f x) (ms.map (fun p => (p.1, f p.2))) := by
  simp only [insertKey, lookup_map]
  cases lookup k ms <;> simp [setKey_map]

theorem filter_map_nnM {α β} (f : α → β) (na : α → Bool) (nb : β → Bool) (h : ∀ x, nb (f x) = na x) (ms : List (Key × α)) :
    (ms.map (fun p => (p.1, f p.2))).filter (fun p => !nb p.2) = (ms.filter (fun p => !na p.2)).map (fun p => (p.1, f p.2)) := by
  induction ms with
  | nil => rfl
  | cons x r ih => simp only [List.map_cons, List.filter_cons, h x.2]; split <;> simp [ih]

theorem foldl_insertKey_map {α β} (f : α → β) (ys : List (Key × α)) : ∀ (ms : List (Key × α)),
    (ys.map (fun p => (p.1, f p.2))).foldl (fun acc p => insertKey p.1 p.2 acc) (ms.map (fun p => (p.1, f p.2))) =
      (ys.foldl (fun acc p => insertKey p.1 p.2 acc) ms).map (fun p => (p.1, f p.2)) := by
  induction ys with
  | nil => intro ms; rfl
  | cons y r ih =>
    intro ms
    simp only [List.map_cons, List.foldl_cons]
    rw [← insertKey_map, ih]

theorem objOp_map {α β} (f : α → β) (na : α → Bool) (nb : β → Bool) (h : ∀ x, nb (f x) = na x)
    (ma : α → Option (List (Key × α))) (mb : β → Option (List (Key × β)))
    (hm : ∀ x, mb (f x) = (ma x).map (List.map (fun p => (p.1, f p.2)))) (nul : α) (ms : List (Key × α)) (op : MOp α) :
    objOp nb mb (f nul) (ms.map (fun p => (p.1, f p.2))) (op.map f) =
      (objOp na ma nul ms op).map (fun r => (r.1.map (fun p => (p.1, f p.2)), r.2.map f)) := by
  cases op with
  | append x =>
    simp only [objOp, MOp.map, hm]
    cases ma x <;> simp [Out.map, foldl_insertKey_map]
  | clear => simp [objOp, MOp.map, Out.map]
  | objInsert k x =>
    simp only [objOp, MOp.map, lookup_map, Option.map_some, insertKey_map]
    cases lookup k ms <;> simp [Out.map]
  | objRemove k =>
    simp only [objOp, MOp.map, lookup_map, Option.map_some, removeKey, map_filter_key]
    cases lookup k ms <;> simp [Out.map]
  | setKey k x => simp [objOp, MOp.map, Out.map, insertKey_map]
  | orInsert k x =>
    simp only [objOp, MOp.map, lookup_map]
    cases lookup k ms <;> simp [Out.map]
  | push x => simp [objOp, MOp.map]
  | pop => simp [objOp, MOp.map]
  | insertAt n x => simp [objOp, MOp.map]
  | removeAt n => simp [objOp, MOp.map]
  | swapRemove n => simp [objOp, MOp.map]
  | truncate n => simp [objOp, MOp.map]
  | take => simp [objOp, MOp.map]
  | assign x => simp [objOp, MOp.map]
  | setIdx n x => simp [objOp, MOp.map]
  | splitOff n => simp [objOp, MOp.map]
  | drain a b => simp [objOp, MOp.map]
  | extendWithin a b => simp [objOp, MOp.map]
  | resize n x => simp [objOp, MOp.map]
  | retainNonNull => simp [objOp, MOp.map, Out.map, filter_map_nnM f na nb h]

/-! ### operations on the target -/

theorem scalarOp_refines (v : DV) (op : MOp DV) (hn : ∀ xs, v ≠ .arrNode xs) (hm : ∀ xs, v ≠ .arrMut xs)
    (ho : ∀ ms, v ≠ .objNode ms) (hp : ∀ ms, v ≠ .objMut ms) :
    abs (scalarOp DV.objMut v.isNull v op).1 = (scalarOp J.obj (abs v).isNull (abs v) (op.map abs)).1 ∧
      (scalarOp DV.objMut v.isNull v op).2.map abs = (scalarOp J.obj (abs v).isNull (abs v) (op.map abs)).2 := by
  have hnull : (abs v).isNull = v.isNull := by cases v <;> simp [abs, J.isNull, DV.isNull]
  rw [hnull]
  cases op <;> simp [scalarOp, MOp.map, Out.map]
  rename_i k x
  split <;> simp [abs, absM, Out.map]

theorem isNull_abs (x : DV) : (abs x).isNull = x.isNull := by
  cases x <;> simp [abs, J.isNull, DV.isNull]

theorem elems_abs (x : DV) : J.elems (abs x) = (DV.elems x).map (List.map abs) := by
  cases x <;> simp [DV.elems, J.elems, promote, abs, absL_eq_map]

theorem members_abs (x : DV) : J.members (abs x) = (DV.members x).map (List.map (fun p => (p.1, abs p.2))) := by
  cases x <;> simp [DV.members, J.members, promote, abs, absM_eq_map, map_dedupFirst]

theorem applyC_refines (op : MOp DV) (v : DV) :
    abs (DV.applyC op v).1 = (J.applyC (op.map abs) (abs v)).1 ∧
      (DV.applyC op v).2.map abs = (J.applyC (op.map abs) (abs v)).2 := by
  cases v with
  | arrNode xs =>
    simp only [DV.applyC, J.applyC, promote, abs, absL_eq_map, arrOp_map abs DV.isNull J.isNull isNull_abs DV.elems J.elems elems_abs]
    cases arrOp DV.isNull DV.elems xs op <;> simp [abs, absL_eq_map, Out.map]
  | arrMut xs =>
    simp only [DV.applyC, J.applyC, promote, abs, absL_eq_map, arrOp_map abs DV.isNull J.isNull isNull_abs DV.elems J.elems elems_abs]
    cases arrOp DV.isNull DV.elems xs op <;> simp [abs, absL_eq_map, Out.map]
  | objNode ms =>
    have e : abs DV.null = J.null := rfl
    simp only [DV.applyC, J.applyC, promote, abs, absM_eq_map, ← map_dedupFirst]
    rw [← e, objOp_map abs DV.isNull J.isNull isNull_abs DV.members J.members members_abs]
    cases objOp DV.isNull DV.members DV.null (dedupFirst ms) op <;> simp [abs, absM_eq_map, Out.map, map_dedupFirst]
  | objMut ms =>
    have e : abs DV.null = J.null := rfl
    simp only [DV.applyC, J.applyC, promote, abs, absM_eq_map]
    rw [← e, objOp_map abs DV.isNull J.isNull isNull_abs DV.members J.members members_abs]
    cases objOp DV.isNull DV.members DV.null ms op <;> simp [abs, absM_eq_map, Out.map]
  | null => exact scalarOp_refines .null op (by simp) (by simp) (by simp) (by simp)
  | bool b => exact scalarOp_refines (.bool b) op (by simp) (by simp) (by simp) (by simp)
  | num n => exact scalarOp_refines (.num n) op (by simp) (by simp) (by simp) (by simp)
  | str s => exact scalarOp_refines (.str s) op (by simp) (by simp) (by simp) (by simp)

/-- **every operation on the target refines the reference operation** -/
theorem apply_refines (op : MOp DV) (v : DV) :
    abs (DV.apply op v).1 = (J.apply (op.map abs) (abs v)).1 ∧
      (DV.apply op v).2.map abs = (J.apply (op.map abs) (abs v)).2 := by
  cases op <;> first
    | exact applyC_refines _ v
    | simp [DV.apply, J.apply, MOp.map, Out.map, abs]

/-! ### operations through a path -/

theorem updPath_refines (f : DV → DV × Out DV) (g : J → J × Out J)
    (hfg : ∀ w, abs (f w).1 = (g (abs w)).1 ∧ (f w).2.map abs = (g (abs w)).2) :
    ∀ (path : List Idx) (v : DV), abs (DV.updPath f path v).1 = (J.updPath g path (abs v)).1 ∧
      (DV.updPath f path v).2.map abs = (J.updPath g path (abs v)).2 := by
  intro path
  induction path with
  | nil => intro v; exact hfg v
  | cons i rest ih =>
    intro v
    cases i with
    | idx n =>
      have harr : ∀ xs : List DV,
          abs (match xs[n]? with
            | some c => (DV.arrMut (xs.set n (DV.updPath f rest c).1), (DV.updPath f rest c).2)
            | none => (DV.arrMut xs, Out.missing)).1 =
          (match (xs.map abs)[n]? with
            | some c => (J.arr ((xs.map abs).set n (J.updPath g rest c).1), (J.updPath g rest c).2)
            | none => (J.arr (xs.map abs), Out.missing)).1 ∧
          Out.map abs (match xs[n]? with
            | some c => (DV.arrMut (xs.set n (DV.updPath f rest c).1), (DV.updPath f rest c).2)
            | none => (DV.arrMut xs, Out.missing)).2 =
          (match (xs.map abs)[n]? with
            | some c => (J.arr ((xs.map abs).set n (J.updPath g rest c).1), (J.updPath g rest c).2)
            | none => (J.arr (xs.map abs), Out.missing)).2 := by
        intro xs
        rw [List.getElem?_map]
        cases h : xs[n]? with
        | none => simp [abs, absL_eq_map, Out.map]
        | some c =>
          have := ih c
          simp only [Option.map_some, abs, absL_eq_map, List.map_set]
          rw [this.1, this.2]
          exact ⟨rfl, rfl⟩
      cases v with
      | arrNode xs => simp only [DV.updPath, J.updPath, promote, abs, absL_eq_map]; exact harr xs
      | arrMut xs => simp only [DV.updPath, J.updPath, promote, abs, absL_eq_map]; exact harr xs
      | _ => simp [DV.updPath, J.updPath, promote, abs, Out.map]
    | key k =>
      have hobj : ∀ ms : List (Key × DV),
          abs (match lookup k ms with
            | some c => (DV.objMut (setKey k (DV.updPath f rest c).1 ms), (DV.updPath f rest c).2)
            | none => (DV.objMut ms, Out.missing)).1 =
          (match lookup k (ms.map (fun (p : Key × DV) => (p.1, abs p.2))) with
            | some c => (J.obj (setKey k (J.updPath g rest c).1 (ms.map (fun (p : Key × DV) => (p.1, abs p.2)))), (J.updPath g rest c).2)
            | none => (J.obj (ms.map (fun (p : Key × DV) => (p.1, abs p.2))), Out.missing)).1 ∧
          Out.map abs (match lookup k ms with
            | some c => (DV.objMut (setKey k (DV.updPath f rest c).1 ms), (DV.updPath f rest c).2)
            | none => (DV.objMut ms, Out.missing)).2 =
          (match lookup k (ms.map (fun (p : Key × DV) => (p.1, abs p.2))) with
            | some c => (J.obj (setKey k (J.updPath g rest c).1 (ms.map (fun (p : Key × DV) => (p.1, abs p.2)))), (J.updPath g rest c).2)
            | none => (J.obj (ms.map (fun (p : Key × DV) => (p.1, abs p.2))), Out.missing)).2 := by
        intro ms
        rw [lookup_map]
        cases h : lookup k ms with
        | none => simp [abs, absM_eq_map, Out.map]
        | some c =>
          have := ih c
          simp only [Option.map_some, abs, absM_eq_map, setKey_map]
          rw [this.1, this.2]
          exact ⟨rfl, rfl⟩
      cases v with
      | objNode ms =>
        simp only [DV.updPath, J.updPath, promote, abs, absM_eq_map, ← map_dedupFirst]
        exact hobj (dedupFirst ms)
      | objMut ms => simp only [DV.updPath, J.updPath, promote, abs, absM_eq_map]; exact hobj ms
      | _ => simp [DV.updPath, J.updPath, promote, abs, Out.map]

/-! ### histories -/

theorem resolve_refines (slots : List DV) (a : Arg) : (DV.resolve slots a).map abs = J.resolve (slots.map abs) a := by
  cases a with
  | lit v => rfl
  | part j path =>
    simp only [DV.resolve, J.resolve, List.getElem?_map]
    cases slots[j]? with
    | none => rfl
    | some v => exact pointer_refines path v

theorem mapM_refines (slots : List DV) (op : MOp Arg) :
    (op.mapM (DV.resolve slots)).map (MOp.map abs) = op.mapM (J.resolve (slots.map abs)) := by
  cases op <;> simp only [MOp.mapM, Option.map_some, MOp.map] <;>
    (rename_i x; rw [← resolve_refines]; cases DV.resolve slots x <;> simp [MOp.map])

def absStep (r : List DV × Out DV) : List J × Out J := (r.1.map abs, r.2.map abs)

/-- **one step of a history on the representations refines the step on plain vectors and maps**:
    same applicability, same report, same contents of every live value afterwards -/
theorem hstep_refines (slots : List DV) (op : HOp) :
    (DV.hstep slots op).map absStep = J.hstep (slots.map abs) op := by
  cases op with
  | new v => simp [DV.hstep, J.hstep, absStep, Out.map]
  | clone i =>
    simp only [DV.hstep, J.hstep, List.getElem?_map]
    cases slots[i]? <;> simp [absStep, Out.map]
  | drop i =>
    simp only [DV.hstep, J.hstep, List.length_map]
    split <;> simp [absStep, Out.map, map_eraseIdx']
  | read i path =>
    simp only [DV.hstep, J.hstep, List.getElem?_map]
    cases h : slots[i]? with
    | none => rfl
    | some v =>
      have := pointer_refines path v
      simp only [Option.map_some, absStep]
      cases h2 : v.pointer path with
      | none => rw [h2] at this; simp at this; rw [← this]; rfl
      | some c => rw [h2] at this; simp at this; rw [← this]; rfl
  | mutate i path op =>
    simp only [DV.hstep, J.hstep, List.getElem?_map]
    rw [← mapM_refines]
    cases h : slots[i]? with
    | none => rfl
    | some v =>
      cases h2 : op.mapM (DV.resolve slots) with
      | none => rfl
      | some op' =>
        have := updPath_refines (DV.apply op') (J.apply (op'.map abs)) (apply_refines op') path v
        simp only [Option.map_some, absStep, List.map_set]
        rw [this.1, this.2]

theorem hrun_refines (ops : List HOp) : ∀ slots : List DV,
    (DV.hrun slots ops).map (fun r => (r.1.map abs, r.2.map (Out.map abs))) = J.hrun (slots.map abs) ops := by
  induction ops with
  | nil => intro slots; rfl
  | cons op rest ih =>
    intro slots
    have hs := hstep_refines slots op
    simp only [DV.hrun, J.hrun]
    cases h : DV.hstep slots op with
    | none => rw [h] at hs; simp at hs; rw [← hs]; rfl
    | some r =>
      obtain ⟨slots', o⟩ := r
      rw [h] at hs
      simp only [Option.map_some, absStep] at hs
      rw [← hs]
      have := ih slots'
      simp only []
      rw [← this]
      cases DV.hrun slots' rest <;> simp

end Mut
end Sonic
