import SonicModel.Lemmas.Tab.Quote
namespace Sonic
open Gen Impl

theorem escape_cons (b : UInt8) (s : List UInt8) : Spec.escape (b :: s) = Spec.escByte b ++ Spec.escape s := by
  simp [Spec.escape]

theorem escape_append (a b : List UInt8) : Spec.escape (a ++ b) = Spec.escape a ++ Spec.escape b := by
  simp [Spec.escape]

theorem escape_noesc (s : List UInt8) (h : ∀ b ∈ s, Spec.needsEscape b = false) : Spec.escape s = s := by
  induction s with
  | nil => rfl
  | cons b rest ih =>
    rw [escape_cons, (quoteTab_spec b).2.2.2 (h b (by simp)), ih (fun x hx => h x (by simp [hx]))]
    rfl

theorem escape_length_le (s : List UInt8) : (Spec.escape s).length ≤ 6 * s.length := by
  induction s with
  | nil => simp [Spec.escape]
  | cons b rest ih =>
    rw [escape_cons]
    simp only [List.length_append, List.length_cons]
    have : (Spec.escByte b).length ≤ 6 := by
      by_cases h : Spec.needsEscape b = true
      · have := (quoteTab_spec b).2.2.1 h; omega
      · have := (quoteTab_spec b).2.2.2 (by simpa using h); simp [this]
    omega

/-- `escape_unchecked` emits exactly the escapes of the bytes it consumes, stays inside an 8-byte
    window after the current offset, and leaves the rest of the source untouched -/
theorem escapeRun_spec : ∀ (s : List UInt8) (d : Nat) (st : FmtSt) (first : Bool),
    (first = true → ∃ b rest, s = b :: rest ∧ Spec.needsEscape b = true) →
    ∃ run rest, s = run ++ rest ∧
      (escapeRun s d st first).1 = rest ∧
      (escapeRun s d st first).2.2.out = st.out ++ Spec.escape run ∧
      (escapeRun s d st first).2.1 = d + (Spec.escape run).length ∧
      (escapeRun s d st first).2.2.hw ≤ max st.hw (d + (Spec.escape run).length + 8) ∧
      st.hw ≤ (escapeRun s d st first).2.2.hw ∧
      (first = true → 1 ≤ run.length) := by
  intro s
  induction s with
  | nil =>
    intro d st first hf
    cases first
    · exact ⟨[], [], rfl, rfl, by simp [escapeRun, Spec.escape], by simp [escapeRun, Spec.escape], by simp only [escapeRun]; exact Nat.le_max_left _ _, by simp [escapeRun], by simp⟩
    · obtain ⟨b, rest, h, _⟩ := hf rfl; simp at h
  | cons b rest ih =>
    intro d st first hf
    unfold escapeRun
    by_cases hc : (first || needEsc b) = true
    · simp only [hc, ite_true]
      have hne : Spec.needsEscape b = true := by
        cases first
        · simp at hc; rw [← (quoteTab_spec b).1]; exact hc
        · obtain ⟨b', rest', h, hb⟩ := hf rfl
          simp at h; rw [h.1]; exact hb
      obtain ⟨hrow, hlen, hge, hle⟩ := (quoteTab_spec b).2.2.1 hne
      obtain ⟨run, rest', hs, h1, h2, h3, h4, h5, _⟩ :=
        ih (d + quoteLen b) { out := st.out ++ quoteRow b, hw := max st.hw (d + 8) } false (by simp)
      refine ⟨b :: run, rest', by simp [hs], h1, ?_, ?_, ?_, ?_, by simp⟩
      · rw [h2, escape_cons, hrow]; simp
      · rw [h3, escape_cons, hlen]; simp; omega
      · rw [escape_cons]; simp only [List.length_append]
        simp only at h4
        omega
      · simp only at h5; omega
    · simp only [hc]
      have : first = false := by cases first <;> simp_all
      subst this
      exact ⟨[], b :: rest, rfl, rfl, by simp [Spec.escape], by simp [Spec.escape], Nat.le_max_left _ _, Nat.le_refl _, by simp⟩

theorem firstEscaped_none (blk : List UInt8) (h : firstEscaped blk = none) :
    ∀ b ∈ blk, Spec.needsEscape b = false := by
  unfold firstEscaped at h
  simp only at h
  split at h
  · simp at h
  · rename_i hlt
    intro b hb
    have : blk.findIdx (fun b => b ≤ 0x1f || b == 92 || b == 34) = blk.length := by
      have := List.findIdx_le_length (p := fun b => b ≤ 0x1f || b == 92 || b == 34) (xs := blk)
      omega
    have hall := List.findIdx_eq_length.mp this b hb
    rw [← (quoteTab_spec b).2.1]
    simpa using hall

theorem firstEscaped_some (blk : List UInt8) (cn : Nat) (h : firstEscaped blk = some cn) :
    cn < blk.length ∧ (∀ b ∈ blk.take cn, Spec.needsEscape b = false) ∧
      ∃ b, blk[cn]? = some b ∧ Spec.needsEscape b = true := by
  unfold firstEscaped at h
  simp only at h
  split at h
  · rename_i hlt
    simp at h; subst h
    refine ⟨hlt, ?_, ?_⟩
    · intro b hb
      obtain ⟨i, hi, hbi⟩ := List.mem_take_iff_getElem.mp hb
      have hi' : i < blk.findIdx (fun b => b ≤ 0x1f || b == 92 || b == 34) := by omega
      have := List.not_of_lt_findIdx hi'
      rw [← hbi, ← (quoteTab_spec _).2.1]
      simpa using this
    · refine ⟨blk[blk.findIdx _], by simp [hlt], ?_⟩
      have := List.findIdx_getElem (w := hlt)
      rw [← (quoteTab_spec _).2.1]
      simpa using this
  · simp at h

end Sonic

namespace Sonic
open Gen Impl

/-- the two loops of `format_string`: output = input escaped; every store stays below
    `d + 6·len + LANES` -/
theorem fmtLoop_spec (lanes : Nat) (hl : 8 ≤ lanes) : ∀ (fuel : Nat) (s : List UInt8) (d : Nat) (st : FmtSt),
    s.length < fuel →
    (fmtLoop lanes fuel s d st).2.out = st.out ++ Spec.escape s ∧
    (fmtLoop lanes fuel s d st).1 = d + (Spec.escape s).length ∧
    (fmtLoop lanes fuel s d st).2.hw ≤ max st.hw (d + 6 * s.length + lanes) ∧
    st.hw ≤ (fmtLoop lanes fuel s d st).2.hw := by
  intro fuel
  induction fuel with
  | zero => intro s d st h; omega
  | succ fuel ih =>
    intro s d st hlen
    unfold fmtLoop
    by_cases he : s.isEmpty = true
    · have : s = [] := by simpa using he
      subst this
      simp [Spec.escape]; omega
    · simp only [he, Bool.false_eq_true, ite_false]
      have hne : s ≠ [] := by simpa using he
      have hpos : 0 < s.length := List.length_pos_iff.mpr hne
      cases hf : firstEscaped (s.take lanes) with
      | none =>
        simp only
        have hno := firstEscaped_none _ hf
        have hblk : 1 ≤ (s.take lanes).length := by simp; omega
        have hdrop : (s.drop (s.take lanes).length).length < fuel := by simp; omega
        obtain ⟨h1, h2, h3, h4⟩ := ih (s.drop (s.take lanes).length) (d + (s.take lanes).length)
          { out := st.out ++ s.take lanes, hw := max st.hw (d + lanes) } hdrop
        have hsplit : s = s.take lanes ++ s.drop (s.take lanes).length := by
          simp only [List.length_take]
          by_cases hc : lanes ≤ s.length
          · simp [Nat.min_eq_left hc]
          · have : s.length ≤ lanes := by omega
            simp [Nat.min_eq_right this, List.take_of_length_le this]
        have hesc : Spec.escape s = s.take lanes ++ Spec.escape (s.drop (s.take lanes).length) := by
          conv => lhs; rw [hsplit]
          rw [escape_append, escape_noesc _ hno]
        refine ⟨?_, ?_, ?_, ?_⟩
        · rw [h1, hesc]; simp
        · rw [h2, hesc]; simp; omega
        · simp only at h3
          have : (s.take lanes).length + (s.drop (s.take lanes).length).length = s.length := by
            simp; omega
          omega
        · simp only at h4; omega
      | some cn =>
        simp only
        obtain ⟨hcn, hno, b, hb, hbe⟩ := firstEscaped_some _ cn hf
        have hcn' : cn < s.length := by simp at hcn; omega
        have hcnl : cn < lanes := by simp at hcn; omega
        have htake : (s.take lanes).take cn = s.take cn := by
          rw [List.take_take]; congr 1; omega
        rw [htake] at hno
        have hhead : ∃ b' rest', s.drop cn = b' :: rest' ∧ Spec.needsEscape b' = true := by
          have : (s.take lanes)[cn]? = s[cn]? := by
            rw [List.getElem?_take]; simp [hcnl]
          rw [this] at hb
          have hlt := hcn'
          refine ⟨b, s.drop (cn+1), ?_, hbe⟩
          rw [List.drop_eq_getElem_cons hlt]
          congr 1
          rw [List.getElem?_eq_getElem hlt] at hb
          simpa using hb
        obtain ⟨run, rest, hs, r1, r2, r3, r4, r5, r6⟩ :=
          escapeRun_spec (s.drop cn) (d + cn) { out := st.out ++ s.take cn, hw := max st.hw (d + lanes) } true
            (fun _ => hhead)
        have hrun := r6 rfl
        have hlen_s : s.length = cn + run.length + rest.length := by
          have := congrArg List.length hs
          simp at this; omega
        have hrest : rest.length < fuel := by omega
        -- name the triple
        generalize hER : escapeRun (s.drop cn) (d + cn) { out := st.out ++ s.take cn, hw := max st.hw (d + lanes) } true = er at r1 r2 r3 r4 r5
        obtain ⟨s', d', st'⟩ := er
        simp only at r1 r2 r3 r4 r5 ⊢
        subst r1
        obtain ⟨h1, h2, h3, h4⟩ := ih s' d' st' hrest
        have hesc : Spec.escape s = s.take cn ++ Spec.escape run ++ Spec.escape s' := by
          have : s = s.take cn ++ (run ++ s') := by rw [← hs]; simp
          conv => lhs; rw [this]
          rw [escape_append, escape_append, escape_noesc _ hno]; simp
        have hel := escape_length_le run
        refine ⟨?_, ?_, ?_, ?_⟩
        · rw [h1, r2, hesc]; simp
        · rw [h2, r3, hesc]; simp; omega
        · omega
        · omega

end Sonic

namespace Sonic
open Gen Impl

/-- `format_string` writes exactly the quoted/escaped literal, reports its length, and never
    stores beyond offset `6·len + LANES + 2` of the reserved window -/
theorem formatString_spec (lanes : Nat) (hl : 8 ≤ lanes) (s : List UInt8) (q : Bool) :
    (formatString lanes s q).1 = (if q then Spec.quoted s else Spec.escape s) ∧
    (formatString lanes s q).2.1 = (formatString lanes s q).1.length ∧
    (formatString lanes s q).2.2 ≤ 6 * s.length + lanes + 2 := by
  unfold formatString
  cases q
  · simp only [Bool.false_eq_true, ite_false]
    obtain ⟨h1, h2, h3, h4⟩ := fmtLoop_spec lanes hl (s.length + 1) s 0 { out := [], hw := 0 } (by omega)
    generalize fmtLoop lanes (s.length + 1) s 0 { out := [], hw := 0 } = r at h1 h2 h3 h4
    obtain ⟨d, st⟩ := r
    simp only at h1 h2 h3 h4 ⊢
    refine ⟨by rw [h1]; simp, by rw [h1, h2]; simp, by omega⟩
  · simp only [ite_true]
    obtain ⟨h1, h2, h3, h4⟩ := fmtLoop_spec lanes hl (s.length + 1) s 1 { out := [34], hw := 1 } (by omega)
    generalize fmtLoop lanes (s.length + 1) s 1 { out := [34], hw := 1 } = r at h1 h2 h3 h4
    obtain ⟨d, st⟩ := r
    simp only at h1 h2 h3 h4 ⊢
    have hel := escape_length_le s
    refine ⟨by rw [h1]; simp [Spec.quoted], by rw [h1, h2]; simp; omega, by omega⟩

end Sonic
